------------------------------ MODULE IRState ------------------------------
(***************************************************************************)
(* The IR object graph of llir/llvm as a state machine: build, edit,       *)
(* observe, print (C14; the print half also carries C08).                  *)
(*                                                                         *)
(* VARIABLES                                                               *)
(*   gl     the module's four global groups, as in ir.Module: globals,     *)
(*          aliases, ifuncs, funcs; each entry [name, id, res] with id the *)
(*          *cached* GlobalID (ir/helper.go: 0 doubles as "not assigned")  *)
(*   fn     per function (same index as gl.funcs) its body [params,        *)
(*          blocks]; a block is [name, id, res, insts, term]; an           *)
(*          instruction [name, id, res], res in {"value","void","none"};   *)
(*          a terminator the same plus k in {"none","ret","br","invoke",   *)
(*          "callbr","catchswitch"} ("none" = not set yet)                 *)
(*   twin   [gl, fn] of the same history with every observer call skipped  *)
(*   out    result of the last observer that prints: [ok, why, text];      *)
(*          ok = FALSE is the panic of the real code                       *)
(*   parsed TRUE while the state is the one ParseText installed, touched   *)
(*          by observers only                                              *)
(*   lastq  with TrackQueries: the observer called last if it left gl and  *)
(*          fn alone ("" after any other call).  A pure query is a         *)
(*          self-loop of the object graph, so without this variable TLC    *)
(*          would generate it only as the *last* call of a history; with   *)
(*          it the histories "query, then edit, then print" are explored   *)
(*          (the caches Typ / Successors are filled by a query and must    *)
(*          not leak into a later print)                                   *)
(*   hist   the calls made so far (observation only; with out hidden by    *)
(*          VIEW so that states are identified by the object graph)        *)
(*                                                                         *)
(* ACTIONS  one per public API call.                                       *)
(*   mutators   NewGlobal NewAlias NewIFunc (m.NewGlobal.. / append to the *)
(*              slice), NewFunc(name, params), NewBlock(f, name, term)     *)
(*              (f.NewBlock, and -- unless term is "none" -- at once the   *)
(*              block.NewRet/NewBr/.. that gives it its terminator: two    *)
(*              calls taken as one step, so that printable functions are   *)
(*              not five calls deep),                                      *)
(*              InsertInst(f, b, pos, name, res) (pos = end is the         *)
(*              block.NewXxx append), RemoveInst(f, b, pos),               *)
(*              SetTerm(f, b, term) (set or replace), SetName(target, nm)  *)
(*              (name, rename, un-name: clears the cached id as            *)
(*              LocalIdent.SetName / GlobalIdent.SetName do),              *)
(*              Retarget(f, b, to) (assign the exported target field of a  *)
(*              br / invoke / callbr / catchswitch to another block);      *)
(*   observers  PrintModule  = Module.String / WriteTo: three sub-steps in *)
(*              code order -- AssignGlobalIDs, AssignMetadataIDs (owned by *)
(*              C17, a no-op here), then per function in slice order       *)
(*              Func.LLString = AssignIDs + body, the body panicking at a  *)
(*              block without terminator.  Written as the code is: when a  *)
(*              step fails everything before it has been rewritten and     *)
(*              stays rewritten;                                           *)
(*              PrintFunc(f) = Func.LLString; PrintBlock(f, b) =           *)
(*              Block.LLString (prints the cached ids, assigns nothing);   *)
(*              QueryType, QueryIdent, QueryOperands, QuerySuccs: Type(),  *)
(*              Ident(), Operands(), Succs() on every object.  Type() and  *)
(*              Succs() fill the caches Typ / Successors; no print reads   *)
(*              Successors and Typ is a function of fields that no action  *)
(*              here changes, so in the model they leave gl and fn alone   *)
(*              -- the replay checks exactly that of the real code;        *)
(*   ParseText(src)  (first call only) installs what asm.Parse leaves      *)
(*              behind: global ids numbered over all kinds in *textual*    *)
(*              order (giveUnnamedIdentID), local ids by AssignIDs.        *)
(*                                                                         *)
(* SWITCH  ValidateOnPrint = TRUE is the code as implemented (printing     *)
(*   validates cached ids against the position: id # 0 /\ id # expected => *)
(*   panic); FALSE is what the properties require (printing renumbers).    *)
(*                                                                         *)
(* PROPERTIES                                                              *)
(*   NumberingCorrect     after a successful print every unnamed value     *)
(*                        carries its LLVM number (C08)                    *)
(*   PrintTotalOnParsed   printing a parsed module never panics (C08)      *)
(*   AssignIdempotent     numbering again changes nothing (C08)            *)
(*   ObserverTransparent  print(state) = print(twin): invariant, and as an *)
(*                        action property over every step (C14)            *)
(*   PrintTwiceSame       a second print gives the same text (C14)         *)
(* With ValidateOnPrint = TRUE TLC reports the C08 counterexample          *)
(* (ParseText(<<unnamed func, unnamed global>>)) and the C14 one (print,   *)
(* insert before an unnamed value, print); with FALSE all hold.            *)
(*                                                                         *)
(* BOUNDS  the structure bounds (MaxPerGroup .. MaxInsts) make the object  *)
(* graph finite; MaxCalls = 0 explores it without bounding the history     *)
(* (closed model, any number of workers).  With MaxCalls > 0 the history   *)
(* length is bounded while VIEW hides hist: run with -workers 1 (strict    *)
(* breadth-first search, every state is first reached by a shortest        *)
(* history) -- the emitting runs need one worker anyway.                   *)
(*                                                                         *)
(* BINDING  IRStateEmit.cfg: the ACTION_CONSTRAINT Emit writes one NDJSON  *)
(* line per explored transition: the history (representative prefix of the *)
(* source state + next call) and the text the property requires of the     *)
(* final print.  harness/props/irhist replays each history into the real   *)
(* ir API twice, with and without the observer calls (C14, props/c14), and *)
(* the histories without observers are compared with `want` (C08,          *)
(* props/c08).  IRStateAsImpl.cfg is the model with ValidateOnPrint = TRUE *)
(* on a small structure, run with -continue to collect the violations.     *)
(***************************************************************************)
EXTENDS Numbering, TLC, Json, IOUtils

CONSTANTS ValidateOnPrint,   \* TRUE = as implemented, FALSE = as required
          MaxCalls,          \* bound on Len(hist); 0 = unbounded (structure bounds only)
          MaxPerGroup,       \* globals / aliases / ifuncs: entries per group
          MaxFuncs, MaxParams, MaxBlocks, MaxInsts,
          NewNames,          \* names used at creation, e.g. {"", "x"}
          SetNames,          \* names used by SetName, e.g. {"", "y"}
          InstRes,           \* subset of {"value","void","none"}
          TermKinds,         \* subset of {"ret","br","invoke","callbr","catchswitch"}
          MaxSrc,            \* ParseText: sources of at most MaxSrc definitions (0 = no ParseText)
          TrackQueries,      \* TRUE: a pure query is remembered in lastq until the next call
          Observers,         \* subset of {"PrintModule","PrintFunc","PrintBlock","QueryType","QueryIdent","QueryOperands","QuerySuccs"}
          EmitFile

VARIABLES gl, fn, twin, out, parsed, lastq, hist
vars == <<gl, fn, twin, out, parsed, lastq, hist>>
View == <<gl, fn, twin, parsed, lastq>>   \* hist and out are observations

Groups3 == {"globals", "aliases", "ifuncs"}
World == [gl |-> gl, fn |-> fn]

----------------------------------------------------------------------------
(* Alphabets *)

AllTerms ==
  {Term("ret", "", "none"), Term("br", "", "none")}
  \cup {Term(k, nm, "value") : k \in {"invoke", "callbr", "catchswitch"}, nm \in NewNames}
  \cup {Term(k, "", "void") : k \in {"invoke", "callbr"}}
Terms == {t \in AllTerms : t.k \in TermKinds}

NewInsts == {Inst(nm, "value") : nm \in NewNames} \cup {Inst("", r) : r \in InstRes \ {"value"}}

ParamSeqs == UNION {[1..n -> {Ent(nm) : nm \in NewNames}] : n \in 0..MaxParams}

SrcEntries == {[kind |-> k, name |-> nm] : k \in {"global", "alias", "ifunc", "func"}, nm \in NewNames}
Sources == UNION {[1..n -> SrcEntries] : n \in 1..MaxSrc}

\* body of every function definition of a parsed source: define void @f(i32) { add ; ret }
ParsedBody == AssignLocalIDs([params |-> <<Ent("")>>,
                              blocks |-> <<Block("", <<Inst("", "value")>>, Term("ret", "", "none"))>>], TRUE).f

InsAt(s, p, x) == SubSeq(s, 1, p - 1) \o <<x>> \o SubSeq(s, p, Len(s))
DelAt(s, p)    == SubSeq(s, 1, p - 1) \o SubSeq(s, p + 1, Len(s))

----------------------------------------------------------------------------
(* Text: the identifiers a print emits, in order.  A token is [name, id]   *)
(* with id = -1 for a named value.                                         *)

Tok(n) == [name |-> n.name, id |-> IF n.name = "" THEN n.id ELSE NoNum]
Toks(s) == [i \in 1..Len(s) |-> Tok(s[i])]
ValueToks(s) == Toks(SelectSeq(s, LAMBDA n : n.res = "value"))

BlockText(b) == <<Tok(b)>> \o ValueToks(b.insts) \o ValueToks(<<b.term>>)
RECURSIVE BlocksText(_)
BlocksText(bs) == IF bs = <<>> THEN <<>> ELSE BlockText(Head(bs)) \o BlocksText(Tail(bs))
FuncText(e, body) == <<Tok(e)>> \o Toks(body.params) \o BlocksText(body.blocks)

MissingTerm(body) == \E b \in 1..Len(body.blocks) : body.blocks[b].term.k = "none"

Ok(text)   == [ok |-> TRUE, why |-> "", text |-> text]
Panic(why) == [ok |-> FALSE, why |-> why, text |-> <<>>]

----------------------------------------------------------------------------
(* Observers as functions world -> [w, out], written as the code is.       *)

\* Func.LLString: AssignIDs, then header and body
PrintFuncW(w, f, validate) ==
  LET a == AssignLocalIDs(w.fn[f], validate)
      w1 == [w EXCEPT !.fn[f] = a.f]
  IN IF ~a.ok THEN [w |-> w1, out |-> Panic("local-id")]
     ELSE IF MissingTerm(a.f) THEN [w |-> w1, out |-> Panic("no-term")]
     ELSE [w |-> w1, out |-> Ok(FuncText(w.gl.funcs[f], a.f))]

RECURSIVE PrintFuncsFrom(_, _, _, _)
PrintFuncsFrom(w, f, validate, text) ==
  IF f > Len(w.fn) THEN [w |-> w, out |-> Ok(text)]
  ELSE LET r == PrintFuncW(w, f, validate) IN
       IF ~r.out.ok THEN r                       \* later functions are not reached
       ELSE PrintFuncsFrom(r.w, f + 1, validate, text \o r.out.text)

\* Module.WriteTo / String
PrintModuleW(w, validate) ==
  LET g == AssignGlobalIDs(w.gl, validate)                       \* sub-step 1
      w1 == [w EXCEPT !.gl = g.gl]
  IN IF ~g.ok THEN [w |-> w1, out |-> Panic("global-id")]
     ELSE \* sub-step 2: AssignMetadataIDs -- metadata is not part of this model (C17)
          \* sub-step 3: globals, aliases, ifuncs are written, then each function
          PrintFuncsFrom(w1, 1, validate,
                         Toks(g.gl.globals) \o Toks(g.gl.aliases) \o Toks(g.gl.ifuncs))

\* Block.LLString: no assignment at all
PrintBlockW(w, f, b) ==
  LET blk == w.fn[f].blocks[b] IN
  [w |-> w, out |-> IF blk.term.k = "none" THEN Panic("no-term") ELSE Ok(BlockText(blk))]

----------------------------------------------------------------------------
(* Mutators as functions world -> world (applied to the state and to twin) *)

NewGlobalW(w, g, nm) == [w EXCEPT !.gl[g] = Append(@, Ent(nm))]
NewFuncW(w, nm, ps)  == [gl |-> [w.gl EXCEPT !.funcs = Append(@, Ent(nm))],
                         fn |-> Append(w.fn, [params |-> ps, blocks |-> <<>>])]
\* f.NewBlock(nm), optionally followed at once by block.NewRet / NewBr / ... (t # NoTerm)
NewBlockW(w, f, nm, t) == [w EXCEPT !.fn[f].blocks =
                             Append(@, Block(nm, <<>>, [t EXCEPT !.tgt = IF t.k = "none" THEN 0 ELSE Len(w.fn[f].blocks) + 1]))]
InsertInstW(w, f, b, p, i) == [w EXCEPT !.fn[f].blocks[b].insts = InsAt(@, p, i)]
RemoveInstW(w, f, b, p)    == [w EXCEPT !.fn[f].blocks[b].insts = DelAt(@, p)]
SetTermW(w, f, b, t)       == [w EXCEPT !.fn[f].blocks[b].term = [t EXCEPT !.tgt = b]]   \* successor: the block itself
RetargetW(w, f, b, to)     == [w EXCEPT !.fn[f].blocks[b].term.tgt = to]

\* SetName targets: [t, g, f, b, p]
Tg(t, g, f, b, p) == [t |-> t, g |-> g, f |-> f, b |-> b, p |-> p]
Targets(w) ==
  {Tg("global", g, 0, 0, i) : g \in Groups3 \cup {"funcs"}, i \in 1..MaxPerGroup + MaxFuncs}
  \cup {Tg("param", "", f, 0, i) : f \in 1..MaxFuncs, i \in 1..MaxParams}
  \cup {Tg("block", "", f, b, 0) : f \in 1..MaxFuncs, b \in 1..MaxBlocks}
  \cup {Tg("inst", "", f, b, p) : f \in 1..MaxFuncs, b \in 1..MaxBlocks, p \in 1..MaxInsts}
  \cup {Tg("term", "", f, b, 0) : f \in 1..MaxFuncs, b \in 1..MaxBlocks}
Exists(w, tg) ==
  CASE tg.t = "global" -> tg.p <= Len(w.gl[tg.g])
    [] tg.t = "param"  -> tg.f <= Len(w.fn) /\ tg.p <= Len(w.fn[tg.f].params)
    [] tg.t = "block"  -> tg.f <= Len(w.fn) /\ tg.b <= Len(w.fn[tg.f].blocks)
    [] tg.t = "inst"   -> /\ tg.f <= Len(w.fn) /\ tg.b <= Len(w.fn[tg.f].blocks)
                          /\ tg.p <= Len(w.fn[tg.f].blocks[tg.b].insts)
                          /\ w.fn[tg.f].blocks[tg.b].insts[tg.p].res = "value"
    [] tg.t = "term"   -> /\ tg.f <= Len(w.fn) /\ tg.b <= Len(w.fn[tg.f].blocks)
                          /\ w.fn[tg.f].blocks[tg.b].term.res = "value"
Obj(w, tg) ==
  CASE tg.t = "global" -> w.gl[tg.g][tg.p]
    [] tg.t = "param"  -> w.fn[tg.f].params[tg.p]
    [] tg.t = "block"  -> w.fn[tg.f].blocks[tg.b]
    [] tg.t = "inst"   -> w.fn[tg.f].blocks[tg.b].insts[tg.p]
    [] tg.t = "term"   -> w.fn[tg.f].blocks[tg.b].term
\* LocalIdent.SetName / GlobalIdent.SetName: the cached id is cleared
Renamed(n, nm) == [n EXCEPT !.name = nm, !.id = 0]
SetNameW(w, tg, nm) ==
  CASE tg.t = "global" -> [w EXCEPT !.gl[tg.g][tg.p] = Renamed(@, nm)]
    [] tg.t = "param"  -> [w EXCEPT !.fn[tg.f].params[tg.p] = Renamed(@, nm)]
    [] tg.t = "block"  -> [w EXCEPT !.fn[tg.f].blocks[tg.b] = Renamed(@, nm)]
    [] tg.t = "inst"   -> [w EXCEPT !.fn[tg.f].blocks[tg.b].insts[tg.p] = Renamed(@, nm)]
    [] tg.t = "term"   -> [w EXCEPT !.fn[tg.f].blocks[tg.b].term = Renamed(@, nm)]

\* what asm.Parse installs for src
ParseW(src) ==
  LET g == ParseInstall(src)
  IN [gl |-> g, fn |-> [i \in 1..Len(g.funcs) |-> ParsedBody]]

----------------------------------------------------------------------------
(* The state machine *)

Room == MaxCalls = 0 \/ Len(hist) < MaxCalls

Mutate(W(_), call) ==     \* W = function world -> world
  /\ Room
  /\ gl' = W(World).gl /\ fn' = W(World).fn
  /\ twin' = W(twin)
  /\ parsed' = FALSE /\ lastq' = ""
  /\ hist' = Append(hist, call)
  /\ UNCHANGED out

Observe(r, call) ==       \* r = [w, out] for the state; the twin skips observers
  /\ Room
  /\ gl' = r.w.gl /\ fn' = r.w.fn /\ out' = r.out
  /\ lastq' = IF TrackQueries /\ r.w = World THEN call.op ELSE ""
  /\ hist' = Append(hist, call)
  /\ UNCHANGED <<twin, parsed>>

Init == /\ gl = EmptyGl /\ fn = <<>> /\ twin = [gl |-> EmptyGl, fn |-> <<>>]
        /\ out = Ok(<<>>) /\ parsed = FALSE /\ lastq = "" /\ hist = <<>>

ParseText ==
  /\ hist = <<>> /\ MaxSrc > 0
  /\ \E src \in Sources :
       /\ Len(ParseInstall(src).funcs) <= MaxFuncs
       /\ LET w == ParseW(src) IN
          /\ gl' = w.gl /\ fn' = w.fn /\ twin' = w /\ parsed' = TRUE /\ lastq' = ""
          /\ hist' = <<[op |-> "ParseText", src |-> src]>>
          /\ UNCHANGED out

NewGlobalA ==
  \E g \in Groups3, nm \in NewNames :
    /\ Len(gl[g]) < MaxPerGroup
    /\ Mutate(LAMBDA w : NewGlobalW(w, g, nm), [op |-> "NewGlobal", g |-> g, nm |-> nm])
NewFuncA ==
  \E nm \in NewNames, ps \in ParamSeqs :
    /\ Len(fn) < MaxFuncs
    /\ Mutate(LAMBDA w : NewFuncW(w, nm, ps),
              [op |-> "NewFunc", nm |-> nm, ps |-> [i \in 1..Len(ps) |-> ps[i].name]])
NewBlockA ==
  \E f \in 1..Len(fn), nm \in NewNames, t \in Terms \cup {NoTerm} :
    /\ Len(fn[f].blocks) < MaxBlocks
    /\ Mutate(LAMBDA w : NewBlockW(w, f, nm, t),
              [op |-> "NewBlock", f |-> f, nm |-> nm, k |-> t.k, tn |-> t.name, res |-> t.res])
InsertInstA ==
  \E f \in 1..Len(fn) : \E b \in 1..Len(fn[f].blocks) :
    \E p \in 1..Len(fn[f].blocks[b].insts) + 1, i \in NewInsts :
      /\ Len(fn[f].blocks[b].insts) < MaxInsts
      /\ Mutate(LAMBDA w : InsertInstW(w, f, b, p, i),
                [op |-> "InsertInst", f |-> f, b |-> b, p |-> p, nm |-> i.name, res |-> i.res])
RemoveInstA ==
  \E f \in 1..Len(fn) : \E b \in 1..Len(fn[f].blocks) : \E p \in 1..Len(fn[f].blocks[b].insts) :
    Mutate(LAMBDA w : RemoveInstW(w, f, b, p), [op |-> "RemoveInst", f |-> f, b |-> b, p |-> p])
SetTermA ==
  \E f \in 1..Len(fn) : \E b \in 1..Len(fn[f].blocks) : \E t \in Terms :
    /\ [fn[f].blocks[b].term EXCEPT !.id = 0, !.tgt = 0] # t          \* set, or replace by a different one
    /\ Mutate(LAMBDA w : SetTermW(w, f, b, t),
              [op |-> "SetTerm", f |-> f, b |-> b, k |-> t.k, nm |-> t.name, res |-> t.res])
RetargetA ==
  \E f \in 1..Len(fn) : \E b \in 1..Len(fn[f].blocks), to \in 1..Len(fn[f].blocks) :
    /\ fn[f].blocks[b].term.k \in {"br", "invoke", "callbr", "catchswitch"}
    /\ fn[f].blocks[b].term.tgt # to
    /\ Mutate(LAMBDA w : RetargetW(w, f, b, to), [op |-> "Retarget", f |-> f, b |-> b, p |-> to])
SetNameA ==
  \E tg \in Targets(World), nm \in SetNames \cup NewNames :
    /\ Exists(World, tg) /\ Obj(World, tg).name # nm
    /\ Mutate(LAMBDA w : SetNameW(w, tg, nm), [op |-> "SetName", tg |-> tg, nm |-> nm])

PrintModuleA == "PrintModule" \in Observers /\
  Observe(PrintModuleW(World, ValidateOnPrint), [op |-> "PrintModule"])
PrintFuncA == "PrintFunc" \in Observers /\
  \E f \in 1..Len(fn) : Observe(PrintFuncW(World, f, ValidateOnPrint), [op |-> "PrintFunc", f |-> f])
PrintBlockA == "PrintBlock" \in Observers /\
  \E f \in 1..Len(fn) : \E b \in 1..Len(fn[f].blocks) :
    Observe(PrintBlockW(World, f, b), [op |-> "PrintBlock", f |-> f, b |-> b])
QueryA == \E q \in Observers \cap {"QueryType", "QueryIdent", "QueryOperands", "QuerySuccs"} :
    Observe([w |-> World, out |-> out], [op |-> q])

Next == \/ ParseText
        \/ NewGlobalA \/ NewFuncA \/ NewBlockA \/ InsertInstA \/ RemoveInstA \/ SetTermA \/ RetargetA \/ SetNameA
        \/ PrintModuleA \/ PrintFuncA \/ PrintBlockA \/ QueryA
Spec == Init /\ [][Next]_vars

----------------------------------------------------------------------------
(* Properties *)

PrintOf(w) == PrintModuleW(w, ValidateOnPrint)

\* C08: after a successful print every unnamed value carries its LLVM number
NumberingCorrect ==
  LET r == PrintOf(World) IN
  r.out.ok => /\ GlobalIdsCorrect(r.w.gl)
              /\ \A f \in 1..Len(r.w.fn) : LocalIdsCorrect(r.w.fn[f])
\* C08: printing never fails on a module the parser produced
PrintTotalOnParsed == parsed => PrintOf(World).out.ok
\* C08: numbering again changes nothing
AssignIdempotent ==
  /\ GlobalAssignIdempotent(gl, TRUE)
  /\ \A f \in 1..Len(fn) : LocalAssignIdempotent(fn[f], TRUE)
\* C14: a history with observers prints what the same history without them prints
ObserverTransparent == PrintOf(World).out = PrintOf(twin).out
ObserverTransparentStep ==
  [][PrintModuleW([gl |-> gl', fn |-> fn'], ValidateOnPrint).out = PrintModuleW(twin', ValidateOnPrint).out]_vars
\* C14: printing twice in a row yields identical text
PrintTwiceSame == LET r == PrintOf(World) IN PrintOf(r.w).out = r.out

\* what the property requires of the final String() of the history
Ideal(w) == PrintModuleW(w, FALSE).out

TypeOK == /\ Len(fn) = Len(gl.funcs) /\ Len(twin.fn) = Len(fn)
          /\ \A g \in Groups3 : Len(gl[g]) <= MaxPerGroup + MaxSrc

----------------------------------------------------------------------------
(* One test per explored transition (ACTION_CONSTRAINT, -workers 1).       *)
Emit ==
  Serialize(ToJson([hist |-> hist', want |-> Ideal(twin'),
                    model |-> PrintModuleW([gl |-> gl', fn |-> fn'], ValidateOnPrint).out.ok]) \o "\n",
            EmitFile,
            [format |-> "TXT", charset |-> "UTF-8",
             openOptions |-> <<"WRITE", "CREATE", "APPEND">>]).exitValue = 0
=============================================================================
