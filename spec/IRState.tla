------------------------------ MODULE IRState ------------------------------
(***************************************************************************)
(* The IR object graph of llir/llvm as a state machine: build, edit,       *)
(* observe, print (C14; the print half also carries C08).                  *)
(*                                                                         *)
(* VARIABLES                                                               *)
(*   gl     the module's four global groups, as in ir.Module: globals,     *)
(*          aliases, ifuncs, funcs.  An entry is a record                  *)
(*            name, id, res   identity; id = the *cached* GlobalID         *)
(*                            (ir/helper.go: 0 doubles as "not assigned")  *)
(*            as, ct, va      exported fields that can be assigned after   *)
(*                            construction: AddrSpace; the content type    *)
(*                            (ContentType/Init of a global: 0 = i32,      *)
(*                            1 = i64); Sig.Variadic of a function         *)
(*            tc              the lazily cached pointer type Typ:          *)
(*                            [set, as, ct] = not computed yet, or the     *)
(*                            address space and content type it was        *)
(*                            computed from (Global.Type, Func.Type)       *)
(*            ref, snap       a global whose initialiser is another global *)
(*                            or function (ref), and the type of that      *)
(*                            initialiser as NewGlobalDef copied it into   *)
(*                            ContentType at construction (snap)           *)
(*            att             key of the metadata definition attached      *)
(*                            (`!dbg !N`), 0 = none                        *)
(*   fn     per function (same index as gl.funcs) its body [params,        *)
(*          blocks]; a block is [name, id, res, insts, term]; an           *)
(*          instruction [name, id, res, op, ref, as, ct, tc, att] with     *)
(*          res in {"value","void","none"} and op "plain" (add, call,      *)
(*          store, fence), "alloca" (fields AddrSpace / ElemType, cached   *)
(*          Typ) or "use" (a call that takes a global, a function or the   *)
(*          function's alloca as *typed operand*, so that the text shows   *)
(*          the operand's type); a terminator has k in {"none","ret","br", *)
(*          "invoke","callbr","catchswitch"} ("none" = not set yet) and a  *)
(*          successor tgt                                                  *)
(*   md     m.MetadataDefs: sequence of [id, key]; id = MetadataID (-1 =   *)
(*          unassigned), key = identity of the definition object           *)
(*   twin   [gl, fn, md] of the same history with observer calls skipped   *)
(*   out    result of the last observer that prints: [ok, why, text, ty,   *)
(*          mdt]; ok = FALSE is the panic of the real code; text = the     *)
(*          definition identifiers, ty = the types shown (definitions from *)
(*          the fields, operands from the cached type), mdt = the metadata *)
(*          IDs shown (attachments, then definitions)                      *)
(*   parsed TRUE while the state is the one ParseText installed, touched   *)
(*          by observers only                                              *)
(*   lastq  with TrackQueries: the observer called last if it left the     *)
(*          object graph alone ("" after any other call).  A pure query is *)
(*          a self-loop of the object graph, so without this variable TLC  *)
(*          would generate it only as the *last* call of a history; with   *)
(*          it the histories "query, then edit, then print" are explored;  *)
(*          with StickyQueries mutators keep lastq, so that any number of  *)
(*          edits can follow the query, and lastq also records *where* in  *)
(*          the history the query stood: "query, replace" and "replace,    *)
(*          query" reach the same object graph, but only the first order   *)
(*          lets a cache filled by the query go stale -- TLC keeps one     *)
(*          representative history per state, so the two must differ       *)
(*   hist   the calls made so far (observation only; with out hidden by    *)
(*          VIEW so that states are identified by the object graph)        *)
(*                                                                         *)
(* ACTIONS  one per public API call.                                       *)
(*   mutators   NewGlobal (global / alias / ifunc), NewGlobalRef (a global *)
(*              initialised with an earlier global or function),           *)
(*              NewFunc(name, params), NewBlock(f, name, term) (f.NewBlock *)
(*              and -- unless term is "none" -- at once block.NewRet/..:   *)
(*              two calls as one step, so that printable functions are not *)
(*              five calls deep), InsertInst(f, b, pos, inst) (pos = end   *)
(*              is the block.NewXxx append), RemoveInst, SetTerm (set or   *)
(*              replace), Retarget (assign the exported target field),     *)
(*              SetName (name, rename, un-name: clears the cached id),     *)
(*              SetField: assign an exported field the cached type depends *)
(*              on -- AddrSpace of a global / function / alloca,           *)
(*              ContentType+Init of a global, ElemType of an alloca,       *)
(*              Sig.Variadic of a function --, InsertMd(pos, id) / RemoveMd *)
(*              on m.MetadataDefs, AttachMd(target, key) on a global or an *)
(*              instruction;                                               *)
(*   observers  PrintModule = Module.String / WriteTo, the sub-steps in    *)
(*              code order and written as the code is: assignGlobalIDs     *)
(*              (fills Typ of globals and functions, numbers),             *)
(*              AssignMetadataIDs (Metadata!MdAssign of the C17 builder:   *)
(*              IDs found are kept, -1 gets the smallest unused; duplicate *)
(*              => panic), then per function Func.LLString = AssignIDs     *)
(*              (calls Type() of every instruction) + body, the body       *)
(*              panicking at a block without terminator; a step that fails *)
(*              leaves everything before it rewritten.  PrintFunc(f) =     *)
(*              Func.LLString; PrintBlock(f, b) = Block.LLString (cached   *)
(*              ids, assigns nothing; Type() of the operands it prints);   *)
(*              QueryType = Type() and String() of every object (fills     *)
(*              every Typ); QueryIdent, QueryOperands, QuerySuccs.         *)
(*   ParseText(src)  (first call only) installs what asm.Parse leaves      *)
(*              behind: global ids numbered over all kinds in *textual*    *)
(*              order, local ids by AssignIDs, Typ of everything set.      *)
(*                                                                         *)
(* SWITCHES                                                                *)
(*   ValidateOnPrint  TRUE = the pinned tree (printing validates cached    *)
(*                    ids: id # 0 /\ id # expected => panic); FALSE = what *)
(*                    the properties require and /repo now does (printing  *)
(*                    renumbers).                                          *)
(*   EagerType        TRUE = the code: every constructor computes Typ at   *)
(*                    once, so no observer is ever the first to fill it;   *)
(*                    FALSE = constructors leave Typ to the first Type()   *)
(*                    call -- then an observer freezes the type before a   *)
(*                    later SetField and ObserverTransparent fails (vacuity *)
(*                    guard, IRStateLazyType.cfg).                         *)
(*   HeaderBeforeAssign  FALSE = the code (Func.LLString numbers the locals *)
(*                    and then renders header and body); TRUE = the header *)
(*                    is rendered before AssignIDs, so unnamed parameters  *)
(*                    show the ids of the previous print: the first print  *)
(*                    of (i32, i32) reads (i32 %0, i32 %0) (vacuity guard). *)
(*   GlobalRefresh    when Global.Type() / Func.Type() recompute the cached *)
(*                    Typ: "fields" = whenever AddrSpace or ContentType no *)
(*                    longer match (required: what is shown does not       *)
(*                    depend on when Type() was called last); "addrspace"  *)
(*                    = only when AddrSpace differs (as implemented since  *)
(*                    1644016: set AddrSpace, print, set ContentType,      *)
(*                    print shows the old content type -- fails);          *)
(*                    "never" = computed once (the pinned tree: holds).    *)
(*   AllocaRefresh    when InstAlloca.Type() recomputes its cached Typ:    *)
(*                    "fields" = whenever AddrSpace or ElemType no longer  *)
(*                    match (required: the type follows the fields, no     *)
(*                    matter when it was asked for last); "addrspace" =    *)
(*                    only when AddrSpace differs (as implemented since    *)
(*                    141f39c: set AddrSpace, print, set ElemType, print   *)
(*                    shows the old element type, the same steps with one  *)
(*                    print the new one -- ObserverTransparent fails);     *)
(*                    "never" = computed once.                             *)
(*   MdVariant        "code" = AssignMetadataIDs as written (two passes);  *)
(*                    "one-pass" = used IDs collected while numbering: a   *)
(*                    definition inserted in front of a numbered one takes *)
(*                    its ID and the print panics (vacuity guard).         *)
(*                                                                         *)
(* PROPERTIES                                                              *)
(*   NumberingCorrect, PrintTotalOnParsed, AssignIdempotent        (C08)   *)
(*   ObserverTransparent  print(state) = print(twin), as invariant and as  *)
(*                        action property over every step (C14).  The      *)
(*                        metadata IDs are compared up to a consistent     *)
(*                        renaming: an ID stored by a print is kept by the *)
(*                        next one like an explicit ID (C17's law), so     *)
(*                        print, insert a definition in front, print gives *)
(*                        !2 !0 !1 where a single print gives !0 !1 !2 --  *)
(*                        the same module, differently labelled.           *)
(*                        ObserverTransparentLiteral (exact IDs) is stated *)
(*                        too and is violated by the code as it is.        *)
(*   PrintTwiceSame       a second print gives exactly the same (C14);     *)
(*                        PrintFuncTwiceSame, PrintBlockTwiceSame: the same *)
(*                        of Func.LLString and Block.LLString              *)
(*   PrintFuncIsPart      after a module print, Func.LLString of each      *)
(*                        function is that function's part of the text     *)
(*   ObserverOrderFree    whether Func.LLString / Block.LLString return    *)
(*                        text or panic does not depend on Type() having   *)
(*                        been asked before (switch PrintReadsTyp = TRUE:  *)
(*                        the code as it is for a struct-literal phi)      *)
(*                                                                         *)
(* ROUND 8 (count-preserving edits, indirect symbols, half-built IR)        *)
(*   mutators   ReplaceInst(f, b, p, inst) (b.Insts[p] = a new instruction:  *)
(*              the count of the function is unchanged, the numbering is not), *)
(*              SwapInsts(f, b, p, q); SetTarget(group, i, target): assign    *)
(*              Alias.Aliasee (the helper i32 global, the helper i64 global   *)
(*              or a global of the module, whose fields SetField edits) /     *)
(*              IFunc.Resolver (one of two helper resolvers); instructions    *)
(*              op = "dep" (phi, select, call) whose cached Typ is computed   *)
(*              from operands: built by the constructor (operands given, Typ  *)
(*              computed at once) or as a struct literal (lit: no operands,   *)
(*              no Typ) and completed later by FillArgs(f, b, p, ty);         *)
(*              RetypeArgs assigns operands of the other type.                *)
(*   state      tc of aliases / ifuncs (Typ, the type of the target when it   *)
(*              was computed); lk of a function (its mutex is held); nb (the  *)
(*              count memo of the seeded variant); args / aty / tc of a "dep" *)
(*              instruction.                                                   *)
(*   faults     an observer may fail half-way: printing a function with a     *)
(*              block without terminator panics (documented), so does any     *)
(*              Type() / String() / print that reaches an instruction without *)
(*              operands.  The panic is the required outcome of *that* call;  *)
(*              the property is about what the call leaves behind: nothing    *)
(*              (ObserverTransparent after the IR has been completed).  With  *)
(*              UnlockOnPanic = FALSE the mutex stays held and every later    *)
(*              print is "blocked" (does not return).                         *)
(*                                                                         *)
(* ROUND 9 (restructuring, identity fields assigned directly)                *)
(*   mutators   RemoveBlock(f, b) / MoveBlock(f, b, g): f.Blocks loses the     *)
(*              block, g.Blocks = append(g.Blocks, block) -- the block object  *)
(*              moves with every ID a print cached in it (and with its stale   *)
(*              Parent link, which nothing reads); NewBlock with det: the      *)
(*              block is built by ir.NewBlock and appended to f.Blocks (Parent *)
(*              nil) instead of f.NewBlock; SetNameField(target, name): the    *)
(*              exported field LocalName / GlobalName is assigned, so the      *)
(*              cached ID is NOT cleared as SetName does; SetID(target, n):    *)
(*              the client stores an ID of its own (SetID / LocalID = n);      *)
(*              RemoveGlobal(group): the last entry of m.Globals / m.Aliases / *)
(*              m.IFuncs is cut off (if nothing refers to it), so the unnamed  *)
(*              definitions of the later groups move up by one number.         *)
(*   switch     TrustCachedID: FALSE = the code (a print renumbers every       *)
(*              unnamed local, whatever ID it carries); TRUE = an unnamed      *)
(*              local that carries a non-zero ID keeps it (vacuity guard: a    *)
(*              block printed in one function and moved to another keeps the   *)
(*              number of its old place).                                      *)
(*                                                                         *)
(* BOUNDS  the structure bounds make the object graph finite; MaxCalls = 0 *)
(* explores it without bounding the history (closed model, any number of   *)
(* workers).  With MaxCalls > 0 the history length is bounded while VIEW   *)
(* hides hist: run with -workers 1 (strict breadth-first search, every     *)
(* state is first reached by a shortest history) -- the emitting runs need *)
(* one worker anyway.                                                      *)
(*                                                                         *)
(* BINDING  IRStateEmit.cfg: the ACTION_CONSTRAINT Emit writes one NDJSON  *)
(* line per explored transition: the history (representative prefix of the *)
(* source state + next call) and the text the property requires of the     *)
(* final print.  harness/props/irhist replays each history into the real   *)
(* ir API twice, with and without the observer calls (C14, props/c14), and *)
(* the histories without observers are compared with `want` (C08,          *)
(* props/c08).  IRStateAsImpl.cfg is the model with ValidateOnPrint = TRUE *)
(* on a small structure, run with -continue to collect the violations.     *)
(***************************************************************************)
EXTENDS Numbering, TLC, Json, IOUtils

CONSTANTS ValidateOnPrint,   \* TRUE = pinned tree, FALSE = as required
          EagerType,         \* TRUE = constructors compute Typ (the code)
          MdVariant,         \* "code" | "one-pass"
          AssignAllFirst,    \* TRUE = the code since 094ed28: WriteTo numbers the locals of *every* function before
                             \* anything is printed; FALSE = each function is numbered when it is printed
          OperandsMemo,      \* FALSE = the code: Operands() builds a fresh slot list; TRUE = the list is kept while
                             \* the operand count is unchanged (seeded variant)
          RenameTaken,       \* FALSE = the code; TRUE = AssignIDs renames a local whose name is already taken
          HeaderBeforeAssign,\* FALSE = the code: Func.LLString numbers the locals, then renders the header;
                             \* TRUE = the header (name, parameters) is rendered before AssignIDs
          GlobalRefresh,     \* "fields" | "addrspace" | "never": when Global.Type() / Func.Type() recompute Typ
          AllocaRefresh,     \* "fields" | "addrspace" | "never": when InstAlloca.Type() recomputes Typ
          MaxCalls,          \* bound on Len(hist); 0 = unbounded (structure bounds only)
          Groups,            \* groups NewGlobal may append to: subset of {"globals","aliases","ifuncs"}
          MaxPerGroup,       \* entries per group
          MaxFuncs, MaxParams, MaxBlocks, MaxInsts,
          NewNames,          \* names used at creation, e.g. {"", "x"}
          SetNames,          \* names used by SetName, e.g. {"", "y"}
          InstRes,           \* plain instructions: subset of {"value","void","none"}
          InstOps,           \* further instruction kinds: subset of {"alloca","use"}
          RefTargets,        \* typed-operand uses of: subset of {"global","func","alloca"}
          RefGlobals,        \* TRUE: NewGlobalRef (a global initialised with a global / function)
          FieldEdits,        \* subset of {"GlobalAddrSpace","GlobalContent","FuncAddrSpace","FuncVariadic","AllocaAddrSpace","AllocaElem",
                             \* "GlobalTypeName","GlobalTypeFill"} (the last two: the global's content type is a literal struct
                             \* that is named by Module.NewTypeDef / un-named again, gets a field appended / cut off again)
          TermKinds,         \* subset of {"ret","br","invoke","callbr","catchswitch"}
          MaxMd,             \* metadata definitions (0 = none)
          MdExplicit,        \* explicit IDs InsertMd may give besides -1 (unassigned): subset of 0..MaxMd
          MdAttach,          \* TRUE: AttachMd
          MaxSrc,            \* ParseText: sources of at most MaxSrc definitions (0 = no ParseText)
          TrackQueries,      \* TRUE: a pure query is remembered in lastq until the next call
          StickyQueries,     \* TRUE: ... and mutators keep it, so that several edits can follow the query
          Preset,            \* "" | "typed" | "indirect" | "body" | "func": the history starts with a fixed call sequence
                             \* (part of hist, not counted by MaxCalls): "typed" builds a global, a function, an alloca and
                             \* typed uses of both; "indirect" a global, an alias of it, an ifunc, a function that uses alias
                             \* and ifunc as typed operands; "body" a function with a parameter and two instructions;
                             \* "func" a function with one finished block; "pair" two functions (the first with an unnamed parameter), each with a
                             \* finished block that holds one value instruction
          IndirectRefresh,   \* when Alias.Type() / IFunc.Type() recompute the cached Typ from the aliasee / resolver:
                             \* "never" = the code (computed by NewAlias / NewIFunc, kept for good; the definition line
                             \* reads the field); "query" = Type() follows the aliasee but the definition line still reads
                             \* the raw field (seeded variant: what is printed depends on who asked); "always" = Type()
                             \* follows and the definition line asks Type() (transparent again)
          UnlockOnPanic,     \* TRUE = the code: the function mutex is released by defer; FALSE = Func.LLString holds it
                             \* over the rendering and a panic (half-built function) leaves it locked (seeded variant)
          CountMemo,         \* FALSE = the code; TRUE = a printer skips AssignIDs while the number of parameters + blocks
                             \* + instructions is what it was at the last numbering (seeded variant)
          EmptyType,         \* Type() of an instruction whose operands have not been assigned yet: "panic" = the code
                             \* (nothing is cached); "void" = a placeholder type is returned *and cached* (seeded variant)
          LitRetype,         \* FALSE: the operands of an instruction built as a struct literal keep the type they were
                             \* first given (well-typed use); TRUE: they may be retyped -- then the code itself is not
                             \* transparent (Typ is computed by the first Type() call and never again): vacuity guard
          DepKinds,          \* instructions whose cached Typ comes from operands that can be assigned after
                             \* construction: subset of {"phi", "select", "call"} ({} = none)
          Edits,             \* further mutators: subset of {"ReplaceInst", "SwapInsts", "SetTarget", "FillArgs", "RetypeArgs",
                             \* "RemoveBlock", "MoveBlock", "DetachedBlock", "RemoveGlobal", "SetNameField", "SetID"}
          PrintReadsTyp,     \* FALSE = required: Block.LLString asks every instruction for its Type(); TRUE = the code as
                             \* it is for phi (InstPhi.LLString reads the field Typ: nil dereference when no Type() call has
                             \* filled it -- a phi built as a struct literal prints only after somebody asked for its type)
          TrustCachedID,     \* FALSE = the code: AssignIDs renumbers every unnamed local; TRUE = an unnamed local that
                             \* carries a non-zero ID keeps it (vacuity guard)
          Observers,         \* subset of {"PrintModule","PrintFunc","PrintBlock","QueryType","QueryIdent","QueryOperands","QuerySuccs",
                             \* "WriteToFail"} (WriteToFail: Module.WriteTo into a writer that fails or accepts only part)
          EmitFile

VARIABLES gl, fn, md, twin, out, parsed, lastq, hist
vars == <<gl, fn, md, twin, out, parsed, lastq, hist>>
View == <<gl, fn, md, twin, parsed, lastq>>   \* hist and out are observations

\* AssignMetadataIDs as specified by the C17 builder (spec/Metadata.tla, PART 1)
MD == INSTANCE Metadata WITH MaxDefs <- 0, MaxId <- 0, Variant <- "code", Emit <- FALSE,
                             ids <- <<>>, shape <- 0, stage <- "done"

Groups3 == {"globals", "aliases", "ifuncs"}
World == [gl |-> gl, fn |-> fn, md |-> md]

----------------------------------------------------------------------------
(* Records *)

NoTC      == [set |-> FALSE, as |-> 0, ct |-> 0]
TC(a, c)  == [set |-> TRUE, as |-> a, ct |-> c]
NewTC     == IF EagerType THEN TC(0, 0) ELSE NoTC      \* what a constructor leaves in Typ
NoRef      == [t |-> "none", i |-> 0, b |-> 0]
Ref(t, i)  == [t |-> t, i |-> i, b |-> 0]
RefB(f, b) == [t |-> "block", i |-> f, b |-> b]        \* blockaddress(@f, %b)

\* lk: the function's mutex is held (left behind by a print that panicked, UnlockOnPanic = FALSE);
\* nb: the count memo (CountMemo = TRUE), -1 = not numbered yet
\* sp, fl: how the global's content type -- a literal struct type in the configurations that edit types -- is spelled
\* at the moment: sp = 1 after Module.NewTypeDef (the struct has a name: "%t" wherever the type occurs, also inside the
\* pointer type of every use), fl = 1 after a field was appended to the struct.  Nothing may cache a spelling: the
\* definition line and every typed use show the spelling of the moment of the print (SpellOf).
GEnt(nm) == [name |-> nm, id |-> 0, res |-> "value", as |-> 0, ct |-> 0, va |-> FALSE,
             tc |-> NewTC, ref |-> NoRef, snap |-> NoTC, att |-> 0, lk |-> FALSE, nb |-> -1, sp |-> 0, fl |-> 0]
SpellOf(e, c) == c + 2 * e.sp + 4 * e.fl
\* an alias / ifunc: NewAlias / NewIFunc compute Typ at once; ref = what it points to: NoRef = the first
\* helper (i32 global / resolver of void ()), Ref("helper", 1) = the second helper (i64 global / resolver
\* of i32 ()), Ref("global", i) = a global of the module
IndEnt(nm) == [GEnt(nm) EXCEPT !.tc = TC(0, 0)]
\* args: the two operands of a "call2" / "phi2" (<<>> otherwise); memo: state of the slot list a
\* memoising Operands() would keep -- "none", "fresh" (points into the current Args array) or
\* "stale" (points into an array that has been replaced); always "none" for the code as it is
\* op = "dep": kind in DepKinds; lit = built as a struct literal (no operands yet: args = <<>>, Typ nil);
\* aty = the type of the operands the result type is taken from (0 = i32, 1 = i64), tc.ct = the cached Typ
\* (2 = void, the placeholder of the EmptyType = "void" variant)
IInst(nm, r, op, ref) == [name |-> nm, id |-> 0, res |-> r, op |-> op, ref |-> ref,
                          as |-> 0, ct |-> 0, tc |-> IF op = "alloca" THEN NewTC ELSE NoTC, att |-> 0,
                          args |-> IF op \in {"call2", "phi2"} THEN <<1, 2>> ELSE <<>>, memo |-> "none",
                          kind |-> "", lit |-> FALSE, aty |-> 0]
DepInst(nm, k, l) == [IInst(nm, "value", "dep", NoRef) EXCEPT !.kind = k, !.lit = l,
                        !.args = IF l THEN <<>> ELSE <<1, 2>>, !.tc = IF l THEN NoTC ELSE TC(0, 0)]
ArgVals == {1, 2, 3}

\* Global.Type / Func.Type: computed once, and again when the cached type no longer matches the
\* fields ("addrspace": the AddrSpace only, as commit 1644016 wrote it; "never": the pinned tree)
GlobalStale(e) == CASE GlobalRefresh = "fields"    -> e.tc.as # e.as \/ e.tc.ct # e.ct
                    [] GlobalRefresh = "addrspace" -> e.tc.as # e.as
                    [] OTHER                       -> FALSE
FillG(e) == IF ~e.tc.set \/ GlobalStale(e) THEN [e EXCEPT !.tc = TC(e.as, e.ct)] ELSE e
\* InstAlloca.Type: computed once, and again when the cached type no longer matches the fields
\* ("addrspace": the AddrSpace only, as commit 141f39c wrote it)
AllocaStale(i) == CASE AllocaRefresh = "fields"    -> i.tc.as # i.as \/ i.tc.ct # i.ct
                    [] AllocaRefresh = "addrspace" -> i.tc.as # i.as
                    [] OTHER                       -> FALSE
FillA(i) == IF i.op = "alloca" /\ (~i.tc.set \/ AllocaStale(i)) THEN [i EXCEPT !.tc = TC(i.as, i.ct)] ELSE i
\* Type() of a "dep" instruction (InstPhi.Type, InstSelect.Type, InstCall.Type): computed from the operands
\* by the first call that finds some, never again; without operands the call panics and caches nothing
\* ("void": the seeded variant caches a placeholder)
DepHalf(i) == i.op = "dep" /\ i.args = <<>> /\ ~i.tc.set
FillD(i) == IF i.op # "dep" \/ i.tc.set THEN i
            ELSE IF i.args = <<>> THEN (IF EmptyType = "void" THEN [i EXCEPT !.tc = TC(0, 2)] ELSE i)
            ELSE [i EXCEPT !.tc = TC(0, i.aty)]
FillSeqG(s) == [i \in 1..Len(s) |-> FillG(s[i])]
FillSeqA(s) == [i \in 1..Len(s) |-> FillD(FillA(s[i]))]
FillBody(body) == [body EXCEPT !.blocks = [b \in 1..Len(@) |-> [@[b] EXCEPT !.insts = FillSeqA(@)]]]

----------------------------------------------------------------------------
(* Alphabets *)

AllTerms ==
  {Term("ret", "", "none"), Term("br", "", "none")}
  \cup {Term(k, nm, "value") : k \in {"invoke", "callbr", "catchswitch"}, nm \in NewNames}
  \cup {Term(k, "", "void") : k \in {"invoke", "callbr"}}
Terms == {t \in AllTerms : t.k \in TermKinds}

PlainInsts == {IInst(nm, "value", "plain", NoRef) : nm \in NewNames}
              \cup {IInst("", r, "plain", NoRef) : r \in InstRes \ {"value"}}
OperandInsts == (IF "call2" \in InstOps THEN {IInst("", "void", "call2", NoRef)} ELSE {})
                \cup (IF "phi2" \in InstOps THEN {IInst(nm, "value", "phi2", NoRef) : nm \in NewNames} ELSE {})
AllocaInsts == IF "alloca" \in InstOps THEN {IInst(nm, "value", "alloca", NoRef) : nm \in NewNames} ELSE {}
DepInsts == {DepInst(nm, k, l) : nm \in NewNames, k \in DepKinds, l \in BOOLEAN}

ParamSeqs == UNION {[1..n -> {Ent(nm) : nm \in NewNames}] : n \in 0..MaxParams}

SrcEntries == {[kind |-> k, name |-> nm] : k \in {"global", "alias", "ifunc", "func"}, nm \in NewNames}
Sources == UNION {[1..n -> SrcEntries] : n \in 1..MaxSrc}

\* body of every function definition of a parsed source: define void @f(i32) { add ; ret }
ParsedBody == AssignLocalIDs([params |-> <<Ent("")>>,
                              blocks |-> <<Block("", <<IInst("", "value", "plain", NoRef)>>,
                                                 Term("ret", "", "none"))>>], TRUE).f

InsAt(s, p, x) == SubSeq(s, 1, p - 1) \o <<x>> \o SubSeq(s, p, Len(s))
DelAt(s, p)    == SubSeq(s, 1, p - 1) \o SubSeq(s, p + 1, Len(s))

\* the function's alloca (at most one: identity of the operand of a "use" stays fixed)
AllocaPositions(body) == {<<b, p>> \in (1..Len(body.blocks)) \X (1..MaxInsts) :
                            p <= Len(body.blocks[b].insts) /\ body.blocks[b].insts[p].op = "alloca"}
HasAlloca(body) == AllocaPositions(body) # {}
TheAlloca(body) == LET bp == CHOOSE x \in AllocaPositions(body) : TRUE IN body.blocks[bp[1]].insts[bp[2]]
RefsIn(insts) == {insts[p].ref : p \in 1..Len(insts)} \ {NoRef}
UsesAlloca(body) == \E b \in 1..Len(body.blocks) : Ref("alloca", 0) \in RefsIn(body.blocks[b].insts)

----------------------------------------------------------------------------
(* Metadata definitions *)

MdIdsOf(m)  == [i \in 1..Len(m) |-> m[i].id]
MdKeys(m)   == {m[i].key : i \in 1..Len(m)}
FreshKey(m) == CHOOSE k \in 1..(Len(m) + 1) : k \notin MdKeys(m)
IdOfKey(m, k) == LET i == CHOOSE j \in 1..Len(m) : m[j].key = k IN m[i].id

\* "one-pass": the seeded variant -- IDs in use are collected while numbering
RECURSIVE OnePass(_, _, _)
OnePass(s, cur, used) ==           \* [ok, ids]
  IF s = <<>> THEN [ok |-> TRUE, ids |-> <<>>]
  ELSE IF Head(s) = -1
       THEN LET n == MD!NextFree(cur, used)
                r == OnePass(Tail(s), n, used \cup {n})
            IN [ok |-> r.ok, ids |-> <<n>> \o r.ids]
       ELSE IF Head(s) \in used THEN [ok |-> FALSE, ids |-> s]
            ELSE LET r == OnePass(Tail(s), cur, used \cup {Head(s)})
                 IN [ok |-> r.ok, ids |-> <<Head(s)>> \o r.ids]

\* (*Module).AssignMetadataIDs
AssignMd(m) ==                     \* [ok, md]
  LET r == IF MdVariant = "code" THEN MD!MdAssign(MdIdsOf(m)) ELSE OnePass(MdIdsOf(m), -1, {})
  IN IF ~r.ok THEN [ok |-> FALSE, md |-> m]
     ELSE [ok |-> TRUE, md |-> [i \in 1..Len(m) |-> [m[i] EXCEPT !.id = r.ids[i]]]]

AttachedKeys(w) ==
  {w.gl.globals[i].att : i \in 1..Len(w.gl.globals)}
  \cup UNION {UNION {{w.fn[f].blocks[b].insts[p].att : p \in 1..Len(w.fn[f].blocks[b].insts)}
                     : b \in 1..Len(w.fn[f].blocks)} : f \in 1..Len(w.fn)}

----------------------------------------------------------------------------
(* What a print shows.  text: definition identifiers ([name, id], id = -1  *)
(* for a named value); ty: the types shown ([k, a, c]); mdt: metadata IDs. *)

Tok(n) == [name |-> n.name, id |-> IF n.name = "" THEN n.id ELSE NoNum]
Toks(s) == [i \in 1..Len(s) |-> Tok(s[i])]
ValueToks(s) == Toks(SelectSeq(s, LAMBDA n : n.res = "value"))

BlockText(b) == <<Tok(b)>> \o ValueToks(b.insts) \o ValueToks(<<b.term>>)
RECURSIVE BlocksText(_)
BlocksText(bs) == IF bs = <<>> THEN <<>> ELSE BlockText(Head(bs)) \o BlocksText(Tail(bs))
FuncText(e, body) == <<Tok(e)>> \o Toks(body.params) \o BlocksText(body.blocks)

B2N(x) == IF x THEN 1 ELSE 0
Ty(k, a, c) == [k |-> k, a |-> a, c |-> c]
IndGroup(t) == IF t = "alias" THEN "aliases" ELSE "ifuncs"
\* a global definition: AddrSpace and ContentType from the fields; for a global initialised
\* with another object the ContentType is the type copied at construction
\* the block a blockaddress names, as it is shown: its number at that moment (-1: named)
BaTy(w, r)  == <<Ty("ba", Tok(w.fn[r.i].blocks[r.b]).id, 0)>>
GlobalTy(w, e) == IF e.ref = NoRef THEN <<Ty("gdef", e.as, SpellOf(e, e.ct))>>
                  ELSE IF e.ref.t = "block" THEN BaTy(w, e.ref)
                  ELSE <<Ty("gref", e.snap.as, e.snap.ct)>>
FuncTy(e)   == <<Ty("fdef", e.as, B2N(e.va))>>
\* an instruction: alloca shows its fields; a use shows the *cached* type of its operand
InstTy(w, f, i) ==
  CASE i.op = "alloca" -> <<Ty("adef", i.as, i.ct)>>
    [] i.op = "use" /\ i.ref.t = "global" -> LET e == w.gl.globals[i.ref.i] IN <<Ty("guse", e.tc.as, SpellOf(e, e.tc.ct))>>
    [] i.op = "use" /\ i.ref.t = "func"   -> LET e == w.gl.funcs[i.ref.i] IN <<Ty("fuse", e.tc.as, B2N(e.va))>>
    [] i.op = "use" /\ i.ref.t = "alloca" -> LET a == TheAlloca(w.fn[f]) IN <<Ty("ause", a.tc.as, a.tc.ct)>>
    [] i.op = "use" /\ i.ref.t = "block"  -> BaTy(w, i.ref)
    [] i.op = "use" /\ i.ref.t \in {"alias", "ifunc"} ->
         LET e == w.gl[IndGroup(i.ref.t)][i.ref.i] IN <<Ty("iuse", e.tc.as, e.tc.ct)>>
    [] i.op \in {"call2", "phi2"}         -> <<Ty("args", i.args[1], i.args[2])>>
    \* the cached result type and the type of the operands (-1: none yet)
    [] i.op = "dep" -> <<Ty("dep", i.tc.ct, IF i.args = <<>> THEN -1 ELSE i.aty)>>
    [] OTHER -> <<>>
RECURSIVE InstsTy(_, _, _)
InstsTy(w, f, is) == IF is = <<>> THEN <<>> ELSE InstTy(w, f, Head(is)) \o InstsTy(w, f, Tail(is))
RECURSIVE BlocksTy(_, _, _)
BlocksTy(w, f, bs) == IF bs = <<>> THEN <<>> ELSE InstsTy(w, f, Head(bs).insts) \o BlocksTy(w, f, Tail(bs))
RECURSIVE GlobalsTy(_, _)
GlobalsTy(w, s) == IF s = <<>> THEN <<>> ELSE GlobalTy(w, Head(s)) \o GlobalsTy(w, Tail(s))

AttOf(w, n) == IF n.att = 0 THEN <<>> ELSE <<IdOfKey(w.md, n.att)>>
RECURSIVE SeqAtt(_, _)
SeqAtt(w, s) == IF s = <<>> THEN <<>> ELSE AttOf(w, Head(s)) \o SeqAtt(w, Tail(s))
RECURSIVE BlocksAtt(_, _)
BlocksAtt(w, bs) == IF bs = <<>> THEN <<>> ELSE SeqAtt(w, Head(bs).insts) \o BlocksAtt(w, Tail(bs))

MissingTerm(body) == \E b \in 1..Len(body.blocks) : body.blocks[b].term.k = "none"

Ok(text, ty, mdt) == [ok |-> TRUE, why |-> "", text |-> text, ty |-> ty, mdt |-> mdt]
Panic(why)        == [ok |-> FALSE, why |-> why, text |-> <<>>, ty |-> <<>>, mdt |-> <<>>]

----------------------------------------------------------------------------
(* Observers as functions world -> [w, out], written as the code is.       *)

\* the type of what an alias / ifunc points to now, [as, ct]
IndTarget(w, e) ==
  CASE e.ref.t = "global" -> LET x == FillG(w.gl.globals[e.ref.i]) IN [as |-> x.tc.as, ct |-> x.tc.ct]
    [] e.ref.t = "helper" -> [as |-> 0, ct |-> e.ref.i]
    [] OTHER              -> [as |-> 0, ct |-> 0]
\* Alias.Type() / IFunc.Type() of entry i of group g: the code returns the Typ NewAlias computed; the
\* variants ask the aliasee for its type (which fills the cache of a module global) and store it
TouchInd(w, g, i) ==
  LET e  == w.gl[g][i]
      t  == IndTarget(w, e)
      w1 == IF e.ref.t = "global" THEN [w EXCEPT !.gl.globals[e.ref.i] = FillG(@)] ELSE w
  IN IF IndirectRefresh = "never" /\ e.tc.set THEN w ELSE [w1 EXCEPT !.gl[g][i].tc = TC(t.as, t.ct)]
RECURSIVE TouchIndAll(_, _, _)
TouchIndAll(w, g, i) == IF i > Len(w.gl[g]) THEN w ELSE TouchIndAll(TouchInd(w, g, i), g, i + 1)
\* the definition lines of group g from entry i on, [w, ty]: Alias.LLString / IFunc.LLString show the element
\* type of the *field* Typ ("always": of Type()), then the aliasee as a typed value (its Type() is asked)
RECURSIVE IndDefs(_, _, _)
IndDefs(w, g, i) ==
  IF i > Len(w.gl[g]) THEN [w |-> w, ty |-> <<>>]
  ELSE LET w1 == IF IndirectRefresh = "always" THEN TouchInd(w, g, i) ELSE w
           e  == w1.gl[g][i]
           w2 == IF e.ref.t = "global" THEN [w1 EXCEPT !.gl.globals[e.ref.i] = FillG(@)] ELSE w1
           t  == IndTarget(w2, e)
           r  == IndDefs(w2, g, i + 1)
       IN [w |-> r.w, ty |-> <<Ty("idef", 0, e.tc.ct), Ty("itgt", t.as, t.ct)>> \o r.ty]

\* printing a typed operand calls its Type(): the cache of the operand is filled
Touch(w, f, r) ==
  CASE r.t = "global" -> [w EXCEPT !.gl.globals[r.i] = FillG(@)]
    [] r.t = "func"   -> [w EXCEPT !.gl.funcs[r.i] = FillG(@)]
    [] r.t = "alloca" -> [w EXCEPT !.fn[f] = FillBody(@)]
    [] r.t \in {"alias", "ifunc"} -> TouchInd(w, IndGroup(r.t), r.i)
    [] OTHER          -> w
RECURSIVE TouchInsts(_, _, _)
TouchInsts(w, f, is) == IF is = <<>> THEN w ELSE TouchInsts(Touch(w, f, Head(is).ref), f, Tail(is))
RECURSIVE TouchBlocks(_, _, _)
TouchBlocks(w, f, bs) == IF bs = <<>> THEN w ELSE TouchBlocks(TouchInsts(w, f, Head(bs).insts), f, Tail(bs))

\* the seeded variant of AssignIDs: a named local whose name is already taken gets a suffix, for good
RECURSIVE DedupSeq(_, _)
DedupSeq(s, taken) ==            \* [s, taken]
  IF s = <<>> THEN [s |-> <<>>, taken |-> taken]
  ELSE LET n == Head(s)
           counts == n.name # "" /\ n.res = "value"
           nm == IF counts /\ n.name \in taken THEN n.name \o "1" ELSE n.name
           r == DedupSeq(Tail(s), IF counts THEN taken \cup {nm} ELSE taken)
       IN [s |-> <<[n EXCEPT !.name = nm]>> \o r.s, taken |-> r.taken]
RECURSIVE DedupBlocks(_, _)
DedupBlocks(bs, taken) ==
  IF bs = <<>> THEN <<>>
  ELSE LET l == DedupSeq(<<Head(bs)>>, taken)
           is == DedupSeq(Head(bs).insts, l.taken)
           t == DedupSeq(<<Head(bs).term>>, is.taken)
       IN <<[l.s[1] EXCEPT !.insts = is.s, !.term = t.s[1]]>> \o DedupBlocks(Tail(bs), t.taken)
DedupBody(body) == IF ~RenameTaken THEN body
                   ELSE LET ps == DedupSeq(body.params, {})
                        IN [params |-> ps.s, blocks |-> DedupBlocks(body.blocks, ps.taken)]

\* number of parameters, blocks and instructions (what the CountMemo variant remembers)
RECURSIVE InstCount(_)
InstCount(bs) == IF bs = <<>> THEN 0 ELSE Len(Head(bs).insts) + InstCount(Tail(bs))
LocalCount(body) == Len(body.params) + Len(body.blocks) + InstCount(body.blocks)
\* an instruction without operands: AssignIDs asks it for its Type(), which panics
HalfBuilt(body) == \E b \in 1..Len(body.blocks) : \E p \in 1..Len(body.blocks[b].insts) : DepHalf(body.blocks[b].insts[p])
LockIf(w, f) == IF UnlockOnPanic THEN w ELSE [w EXCEPT !.gl.funcs[f].lk = TRUE]

\* the TrustCachedID variant of AssignIDs: o = the body before the walk, n = after it
Keep(o, n) == IF TrustCachedID /\ o.name = "" /\ o.id # 0 THEN [n EXCEPT !.id = o.id] ELSE n
KeepSeq(os, ns) == [j \in 1..Len(ns) |-> Keep(os[j], ns[j])]
TrustBody(o, n) ==
  [params |-> KeepSeq(o.params, n.params),
   blocks |-> [j \in 1..Len(n.blocks) |->
                 [Keep(o.blocks[j], n.blocks[j]) EXCEPT !.insts = KeepSeq(o.blocks[j].insts, n.blocks[j].insts),
                                                        !.term = Keep(o.blocks[j].term, n.blocks[j].term)]]]

\* (*Func).assignIDs, [ok, why, w]: takes the mutex ("blocked": it is held for good), walks (asking every
\* instruction for its Type), releases the mutex by defer.  A panic in the walk leaves the IDs written so far
\* behind; they are rewritten by the next print and not modelled.
NumberW(w, f, validate) ==
  LET body == w.fn[f] IN
  IF w.gl.funcs[f].lk THEN [ok |-> FALSE, why |-> "blocked", w |-> w]
  ELSE IF CountMemo /\ ~validate /\ w.gl.funcs[f].nb = LocalCount(body) THEN [ok |-> TRUE, why |-> "", w |-> w]
  ELSE IF EmptyType = "panic" /\ HalfBuilt(body) THEN [ok |-> FALSE, why |-> "half-built", w |-> w]
  ELSE LET a  == AssignLocalIDs(body, validate)
           w1 == [w EXCEPT !.fn[f] = IF a.ok THEN FillBody(DedupBody(IF TrustCachedID THEN TrustBody(body, a.f) ELSE a.f)) ELSE a.f,
                           !.gl.funcs[f].nb = IF CountMemo /\ a.ok THEN LocalCount(body) ELSE @]
       IN [ok |-> a.ok, why |-> IF a.ok THEN "" ELSE "local-id", w |-> w1]

\* Func.LLString: AssignIDs (which asks every instruction for its Type), then header and body.  With
\* UnlockOnPanic = FALSE the mutex is held from the numbering to the end of the rendering and released on
\* the two regular exits only: a panic on the way (instruction without operands, block without terminator)
\* leaves it held.
PrintFuncW(w, f, validate) ==
  LET n == NumberW(w, f, validate) IN
  IF ~n.ok THEN [w |-> IF n.why = "half-built" THEN LockIf(n.w, f) ELSE n.w, out |-> Panic(n.why)]
  ELSE LET w1 == n.w
           w2 == TouchBlocks(w1, f, w1.fn[f].blocks) IN
       IF MissingTerm(w1.fn[f]) THEN [w |-> LockIf(w2, f), out |-> Panic("no-term")]
       ELSE [w |-> w2,
             out |-> Ok(IF HeaderBeforeAssign
                        THEN <<Tok(w.gl.funcs[f])>> \o Toks(w.fn[f].params) \o BlocksText(w2.fn[f].blocks)
                        ELSE FuncText(w2.gl.funcs[f], w2.fn[f]),
                        FuncTy(w2.gl.funcs[f]) \o BlocksTy(w2, f, w2.fn[f].blocks),
                        BlocksAtt(w2, w2.fn[f].blocks))]

RECURSIVE PrintFuncsFrom(_, _, _, _)
PrintFuncsFrom(w, f, validate, acc) ==
  IF f > Len(w.fn) THEN [w |-> w, out |-> acc]
  ELSE LET r == PrintFuncW(w, f, validate) IN
       IF ~r.out.ok THEN r                       \* later functions are not reached
       ELSE PrintFuncsFrom(r.w, f + 1, validate,
                           Ok(acc.text \o r.out.text, acc.ty \o r.out.ty, acc.mdt \o r.out.mdt))

RECURSIVE AssignAllFuncs(_, _, _)
AssignAllFuncs(w, f, validate) ==      \* [ok, why, w]
  IF ~AssignAllFirst \/ f > Len(w.fn) THEN [ok |-> TRUE, why |-> "", w |-> w]
  ELSE LET n == NumberW(w, f, validate)
       IN IF ~n.ok THEN n ELSE AssignAllFuncs(n.w, f + 1, validate)

\* Module.WriteTo / String
PrintModuleW(w, validate) ==
  LET \* sub-step 1: assignGlobalIDs fills Typ of globals (and, once it reaches them, functions)
      g  == AssignGlobalIDs([w.gl EXCEPT !.globals = FillSeqG(@)], validate)
      g1 == IF g.ok THEN [g.gl EXCEPT !.funcs = FillSeqG(@)] ELSE g.gl
      w1 == [w EXCEPT !.gl = g1]
  IN IF ~g.ok THEN [w |-> w1, out |-> Panic("global-id")]
     ELSE LET m == AssignMd(w1.md)                                  \* sub-step 2
              w2 == [w1 EXCEPT !.md = m.md]
          IN IF ~m.ok THEN [w |-> w2, out |-> Panic("md-id")]
             ELSE \* sub-step 3 (since 094ed28): the locals of every function are numbered, because a
                  \* blockaddress in a global initialiser or in an earlier function names a block of
                  \* a function that is printed later
                  LET a3 == AssignAllFuncs(w2, 1, validate) IN
                  IF ~a3.ok THEN [w |-> a3.w, out |-> Panic(a3.why)]
                  ELSE
                  \* sub-step 4: globals, aliases, ifuncs are written, then each function, then
                  \* the metadata definitions (collected here in mdt after the attachments)
                  LET w3 == a3.w
                      ia == IndDefs(w3, "aliases", 1)
                      ii == IndDefs(ia.w, "ifuncs", 1)
                      r == PrintFuncsFrom(ii.w, 1, validate,
                             Ok(Toks(g1.globals) \o Toks(g1.aliases) \o Toks(g1.ifuncs),
                                GlobalsTy(w3, g1.globals) \o ia.ty \o ii.ty, SeqAtt(w3, g1.globals)))
                  IN IF ~r.out.ok THEN r
                     ELSE [w |-> r.w, out |-> [r.out EXCEPT !.mdt = @ \o MdIdsOf(r.w.md)]]

\* Block.LLString: no assignment at all; the operands it prints are asked for their type
\* a phi that has its operands but whose Typ nobody has computed yet (struct literal + operands assigned)
PhiUnset(blk) == \E p \in 1..Len(blk.insts) :
                   blk.insts[p].op = "dep" /\ blk.insts[p].kind = "phi" /\ blk.insts[p].args # <<>> /\ ~blk.insts[p].tc.set
PrintBlockW(w, f, b) ==
  LET blk == w.fn[f].blocks[b]
      w0  == TouchInsts(w, f, blk.insts)
      \* required: InstPhi.LLString asks Type(), which fills the cache
      w1  == IF PrintReadsTyp THEN w0
             ELSE [w0 EXCEPT !.fn[f].blocks[b].insts = [p \in 1..Len(@) |-> IF @[p].kind = "phi" THEN FillD(@[p]) ELSE @[p]]]
  IN IF PrintReadsTyp /\ PhiUnset(blk) THEN [w |-> w0, out |-> Panic("nil-typ")]
     ELSE LET is1 == w1.fn[f].blocks[b].insts IN
          [w |-> w1, out |-> IF blk.term.k = "none" THEN Panic("no-term")
                             ELSE Ok(BlockText(blk), InstsTy(w1, f, is1), SeqAtt(w1, is1))]

\* Type() and String() of every object
QueryTypeW(w) ==
  LET w1 == [w EXCEPT !.gl.globals = FillSeqG(@), !.gl.funcs = FillSeqG(@),
                      !.fn = [f \in 1..Len(@) |-> FillBody(@[f])]]
  IN TouchIndAll(TouchIndAll(w1, "aliases", 1), "ifuncs", 1)

----------------------------------------------------------------------------
(* Mutators as functions world -> world (applied to the state and to twin) *)

NewGlobalW(w, g, nm) == [w EXCEPT !.gl[g] = Append(@, IF g = "globals" THEN GEnt(nm) ELSE IndEnt(nm))]
\* m.NewGlobalDef(nm, target): init.Type() is called and copied into ContentType
NewGlobalRefW(w, nm, r) ==
  LET w1 == Touch(w, 0, r)
      sn == CASE r.t = "global" -> w1.gl.globals[r.i].tc
              [] r.t = "func"   -> w1.gl.funcs[r.i].tc
              [] OTHER          -> NoTC
  IN [w1 EXCEPT !.gl.globals = Append(@, [GEnt(nm) EXCEPT !.ref = r, !.snap = sn])]
NewFuncW(w, nm, ps)  == [w EXCEPT !.gl.funcs = Append(@, GEnt(nm)),
                                  !.fn = Append(@, [params |-> ps, blocks |-> <<>>])]
\* f.NewBlock(nm), optionally followed at once by block.NewRet / NewBr / ... (t # NoTerm)
NewBlockW(w, f, nm, t) == [w EXCEPT !.fn[f].blocks =
                             Append(@, Block(nm, <<>>, [t EXCEPT !.tgt = IF t.k = "none" THEN 0 ELSE Len(w.fn[f].blocks) + 1]))]
InsertInstW(w, f, b, p, i) == [w EXCEPT !.fn[f].blocks[b].insts = InsAt(@, p, i)]
RemoveInstW(w, f, b, p)    == [w EXCEPT !.fn[f].blocks[b].insts = DelAt(@, p)]
SetTermW(w, f, b, t)       == [w EXCEPT !.fn[f].blocks[b].term = [t EXCEPT !.tgt = b]]   \* successor: the block itself
RetargetW(w, f, b, to)     == [w EXCEPT !.fn[f].blocks[b].term.tgt = to]
\* b.Insts[p] = inst: another object at the same place (the count of the function is unchanged)
ReplaceInstW(w, f, b, p, i) == [w EXCEPT !.fn[f].blocks[b].insts[p] = i]
\* b.Insts[p], b.Insts[q] = b.Insts[q], b.Insts[p]
SwapInstsW(w, f, b, p, q)   == [w EXCEPT !.fn[f].blocks[b].insts =
                                  [k \in 1..Len(@) |-> IF k = p THEN @[q] ELSE IF k = q THEN @[p] ELSE @[k]]]
\* alias.Aliasee = target / ifunc.Resolver = target: a plain field assignment
SetTargetW(w, g, i, r)      == [w EXCEPT !.gl[g][i].ref = r]
\* phi.Incs = two incoming values / select.ValueTrue, ValueFalse = ... / call.Callee = ... of type ty
SetArgsW(w, f, b, p, ty)    == [w EXCEPT !.fn[f].blocks[b].insts[p] = [@ EXCEPT !.args = <<1, 2>>, !.aty = ty]]

\* f.Blocks = f.Blocks without block b (slice operations on the exported field); g.Blocks = append(g.Blocks, block).
\* Only functions whose terminators have no successor (ret, or none yet): tgt is the block's own index then.
Reindex(bs) == [j \in 1..Len(bs) |-> [bs[j] EXCEPT !.term.tgt = IF bs[j].term.k = "none" THEN 0 ELSE j]]
RemoveBlockW(w, f, b)  == [w EXCEPT !.fn[f].blocks = Reindex(DelAt(@, b))]
MoveBlockW(w, f, b, g) == LET blk == w.fn[f].blocks[b]
                              w1  == [w EXCEPT !.fn[f].blocks = Reindex(DelAt(@, b))]
                          IN [w1 EXCEPT !.fn[g].blocks = Reindex(Append(@, blk))]

\* operand-level edits of a call2 / phi2
\* call.Args = []value.Value{a, b} (phi.Incs = ...): a new backing array -- a kept slot list goes stale
ReplaceArgsW(w, f, b, p, as) ==
  LET i == w.fn[f].blocks[b].insts[p] IN
  [w EXCEPT !.fn[f].blocks[b].insts[p] = [i EXCEPT !.args = as, !.memo = IF i.memo = "fresh" THEN "stale" ELSE i.memo]]
\* call.Args[0], call.Args[1] = call.Args[1], call.Args[0]: in place
SwapArgsW(w, f, b, p) == [w EXCEPT !.fn[f].blocks[b].insts[p].args = <<@[2], @[1]>>]
\* *inst.Operands()[slot] = v: the mutator itself asks for the slot list
SetSlotW(w, f, b, p, k, v) ==
  LET i == w.fn[f].blocks[b].insts[p] IN
  [w EXCEPT !.fn[f].blocks[b].insts[p] =
     IF OperandsMemo /\ i.memo = "stale" THEN i                       \* the write lands in the orphaned array
     ELSE [i EXCEPT !.args[k] = v, !.memo = IF OperandsMemo THEN "fresh" ELSE "none"]]
\* QueryOperands: Operands() of every instruction
QueryOperandsW(w) ==
  IF ~OperandsMemo THEN w
  ELSE [w EXCEPT !.fn = [f \in 1..Len(@) |-> [@[f] EXCEPT !.blocks = [b \in 1..Len(@) |->
          [@[b] EXCEPT !.insts = [p \in 1..Len(@) |->
             IF @[p].op \in {"call2", "phi2"} /\ @[p].memo = "none" THEN [@[p] EXCEPT !.memo = "fresh"] ELSE @[p]]]]]]]

\* field assignments after construction; v in {0, 1}
SetAllocaField(body, fld, v) ==
  [body EXCEPT !.blocks = [b \in 1..Len(@) |->
     [@[b] EXCEPT !.insts = [p \in 1..Len(@) |->
        IF @[p].op # "alloca" THEN @[p]
        ELSE IF fld = "AllocaAddrSpace" THEN [@[p] EXCEPT !.as = v] ELSE [@[p] EXCEPT !.ct = v]]]]]
SetFieldW(w, fld, i, v) ==
  CASE fld = "GlobalAddrSpace" -> [w EXCEPT !.gl.globals[i].as = v]
    [] fld = "GlobalContent"   -> [w EXCEPT !.gl.globals[i].ct = v]
    [] fld = "GlobalTypeName"  -> [w EXCEPT !.gl.globals[i].sp = v]
    [] fld = "GlobalTypeFill"  -> [w EXCEPT !.gl.globals[i].fl = v]
    [] fld = "FuncAddrSpace"   -> [w EXCEPT !.gl.funcs[i].as = v]
    [] fld = "FuncVariadic"    -> [w EXCEPT !.gl.funcs[i].va = (v = 1)]
    [] fld \in {"AllocaAddrSpace", "AllocaElem"} -> [w EXCEPT !.fn[i] = SetAllocaField(@, fld, v)]
FieldValue(w, fld, i) ==
  CASE fld = "GlobalAddrSpace" -> w.gl.globals[i].as
    [] fld = "GlobalContent"   -> w.gl.globals[i].ct
    [] fld = "GlobalTypeName"  -> w.gl.globals[i].sp
    [] fld = "GlobalTypeFill"  -> w.gl.globals[i].fl
    [] fld = "FuncAddrSpace"   -> w.gl.funcs[i].as
    [] fld = "FuncVariadic"    -> B2N(w.gl.funcs[i].va)
    [] fld = "AllocaAddrSpace" -> TheAlloca(w.fn[i]).as
    [] fld = "AllocaElem"      -> TheAlloca(w.fn[i]).ct
FieldExists(w, fld, i) ==
  CASE fld \in {"GlobalAddrSpace"} -> i <= Len(w.gl.globals)
    \* the type edits: the global owns its struct type (not one copied from another global)
    [] fld \in {"GlobalTypeName", "GlobalTypeFill"} -> i <= Len(w.gl.globals) /\ w.gl.globals[i].ref = NoRef
    [] fld = "GlobalContent"       -> i <= Len(w.gl.globals) /\ w.gl.globals[i].ref = NoRef
    [] fld \in {"FuncAddrSpace", "FuncVariadic"} -> i <= Len(w.gl.funcs)
    [] fld \in {"AllocaAddrSpace", "AllocaElem"} -> i <= Len(w.fn) /\ HasAlloca(w.fn[i])

InsertMdW(w, p, id)  == [w EXCEPT !.md = InsAt(@, p, [id |-> id, key |-> FreshKey(w.md)])]
RemoveMdW(w, p)      == [w EXCEPT !.md = DelAt(@, p)]

\* targets of SetName and AttachMd: [t, g, f, b, p]
Tg(t, g, f, b, p) == [t |-> t, g |-> g, f |-> f, b |-> b, p |-> p]
Targets(w) ==
  {Tg("global", g, 0, 0, i) : g \in Groups3 \cup {"funcs"}, i \in 1..MaxPerGroup + MaxFuncs + MaxSrc}
  \cup {Tg("param", "", f, 0, i) : f \in 1..MaxFuncs, i \in 1..MaxParams}
  \cup {Tg("block", "", f, b, 0) : f \in 1..MaxFuncs, b \in 1..MaxBlocks}
  \cup {Tg("inst", "", f, b, p) : f \in 1..MaxFuncs, b \in 1..MaxBlocks, p \in 1..MaxInsts}
  \cup {Tg("term", "", f, b, 0) : f \in 1..MaxFuncs, b \in 1..MaxBlocks}
Exists(w, tg) ==
  CASE tg.t = "global" -> tg.p <= Len(w.gl[tg.g])
    [] tg.t = "param"  -> tg.f <= Len(w.fn) /\ tg.p <= Len(w.fn[tg.f].params)
    [] tg.t = "block"  -> tg.f <= Len(w.fn) /\ tg.b <= Len(w.fn[tg.f].blocks)
    [] tg.t = "inst"   -> /\ tg.f <= Len(w.fn) /\ tg.b <= Len(w.fn[tg.f].blocks)
                          /\ tg.p <= Len(w.fn[tg.f].blocks[tg.b].insts)
    [] tg.t = "term"   -> /\ tg.f <= Len(w.fn) /\ tg.b <= Len(w.fn[tg.f].blocks)
                          /\ w.fn[tg.f].blocks[tg.b].term.res = "value"
Obj(w, tg) ==
  CASE tg.t = "global" -> w.gl[tg.g][tg.p]
    [] tg.t = "param"  -> w.fn[tg.f].params[tg.p]
    [] tg.t = "block"  -> w.fn[tg.f].blocks[tg.b]
    [] tg.t = "inst"   -> w.fn[tg.f].blocks[tg.b].insts[tg.p]
    [] tg.t = "term"   -> w.fn[tg.f].blocks[tg.b].term
\* LocalIdent.SetName / GlobalIdent.SetName: the cached id is cleared
Renamed(n, nm) == [n EXCEPT !.name = nm, !.id = 0]
SetNameW(w, tg, nm) ==
  CASE tg.t = "global" -> [w EXCEPT !.gl[tg.g][tg.p] = Renamed(@, nm)]
    [] tg.t = "param"  -> [w EXCEPT !.fn[tg.f].params[tg.p] = Renamed(@, nm)]
    [] tg.t = "block"  -> [w EXCEPT !.fn[tg.f].blocks[tg.b] = Renamed(@, nm)]
    [] tg.t = "inst"   -> [w EXCEPT !.fn[tg.f].blocks[tg.b].insts[tg.p] = Renamed(@, nm)]
    [] tg.t = "term"   -> [w EXCEPT !.fn[tg.f].blocks[tg.b].term = Renamed(@, nm)]
\* x.LocalName = nm / x.GlobalName = nm: the exported field is assigned, the cached id stays
NameKept(n, nm) == [n EXCEPT !.name = nm]
\* x.SetID(v) / x.LocalID = v: the client stores an ID of its own
IdSet(n, v) == [n EXCEPT !.id = v]
EditObjW(w, tg, F(_)) ==
  CASE tg.t = "global" -> [w EXCEPT !.gl[tg.g][tg.p] = F(@)]
    [] tg.t = "param"  -> [w EXCEPT !.fn[tg.f].params[tg.p] = F(@)]
    [] tg.t = "block"  -> [w EXCEPT !.fn[tg.f].blocks[tg.b] = F(@)]
    [] tg.t = "inst"   -> [w EXCEPT !.fn[tg.f].blocks[tg.b].insts[tg.p] = F(@)]
    [] tg.t = "term"   -> [w EXCEPT !.fn[tg.f].blocks[tg.b].term = F(@)]
\* g.Metadata = {!dbg !key} / inst.Metadata = ... (key = 0: no attachment)
AttachW(w, tg, k) ==
  CASE tg.t = "global" -> [w EXCEPT !.gl.globals[tg.p].att = k]
    [] tg.t = "inst"   -> [w EXCEPT !.fn[tg.f].blocks[tg.b].insts[tg.p].att = k]

\* what asm.Parse installs for src (every Typ is set by the translator)
ParsedEnt(e) == [GEnt(e.name) EXCEPT !.id = e.id, !.tc = TC(0, 0)]
ParseW(src) ==
  LET g == ParseInstall(src)
      x(s) == [i \in 1..Len(s) |-> ParsedEnt(s[i])]
  IN [gl |-> [globals |-> x(g.globals), aliases |-> x(g.aliases), ifuncs |-> x(g.ifuncs), funcs |-> x(g.funcs)],
      fn |-> [i \in 1..Len(g.funcs) |-> ParsedBody], md |-> <<>>]

----------------------------------------------------------------------------
(* The state machine *)

NoQuery == <<"", 0>>
EmptyWorld == [gl |-> EmptyGl, fn |-> <<>>, md |-> <<>>]
\* Presets: scaffolds that cost no depth, so that the bounded histories are spent on edits and observers.
\* Preset "typed": m.NewGlobal; m.NewFunc; f.NewBlock + NewRet; NewAlloca; a use of the alloca; a use of the global
\* (set AddrSpace, observe, set it back, print needs 4 calls after the 6 of the scaffold).
PW1 == NewGlobalW(EmptyWorld, "globals", "")
PW2 == NewFuncW(PW1, "", <<>>)
PW3 == NewBlockW(PW2, 1, "", Term("ret", "", "none"))
PW4 == InsertInstW(PW3, 1, 1, 1, IInst("", "value", "alloca", NoRef))
PW5 == InsertInstW(PW4, 1, 1, 2, IInst("", "void", "use", Ref("alloca", 0)))
PW6 == InsertInstW(PW5, 1, 1, 3, IInst("", "void", "use", Ref("global", 1)))
\* Preset "indirect": a global, an alias of it, an ifunc, a function whose block uses alias and ifunc as typed operands
PI1 == NewGlobalW(EmptyWorld, "globals", "")
PI2 == NewGlobalW(PI1, "aliases", "")
PI3 == SetTargetW(PI2, "aliases", 1, Ref("global", 1))
PI4 == NewGlobalW(PI3, "ifuncs", "")
PI5 == NewFuncW(PI4, "", <<>>)
PI6 == NewBlockW(PI5, 1, "", Term("ret", "", "none"))
PI7 == InsertInstW(PI6, 1, 1, 1, IInst("", "void", "use", Ref("alias", 1)))
PI8 == InsertInstW(PI7, 1, 1, 2, IInst("", "void", "use", Ref("ifunc", 1)))
\* Preset "body": a function with an unnamed parameter, one block, two unnamed value instructions
PB1 == NewFuncW(EmptyWorld, "", <<Ent("")>>)
PB2 == NewBlockW(PB1, 1, "", Term("ret", "", "none"))
PB3 == InsertInstW(PB2, 1, 1, 1, IInst("", "value", "plain", NoRef))
PB4 == InsertInstW(PB3, 1, 1, 2, IInst("", "value", "plain", NoRef))
\* Preset "func": a function with one finished block
PF1 == NewFuncW(EmptyWorld, "", <<>>)
PF2 == NewBlockW(PF1, 1, "", Term("ret", "", "none"))
\* Preset "pair": two functions, the first with an unnamed parameter; each a finished block with a value instruction
PP1 == NewFuncW(EmptyWorld, "", <<Ent("")>>)
PP2 == NewBlockW(PP1, 1, "", Term("ret", "", "none"))
PP3 == InsertInstW(PP2, 1, 1, 1, IInst("", "value", "plain", NoRef))
PP4 == NewFuncW(PP3, "", <<>>)
PP5 == NewBlockW(PP4, 2, "", Term("ret", "", "none"))
PP6 == InsertInstW(PP5, 2, 1, 1, IInst("", "value", "plain", NoRef))
PresetWorld == CASE Preset = "typed" -> PW6 [] Preset = "indirect" -> PI8 [] Preset = "body" -> PB4
                 [] Preset = "func" -> PF2 [] Preset = "pair" -> PP6 [] OTHER -> EmptyWorld
InsCallF(f, p, res, iop, r) == [op |-> "InsertInst", f |-> f, b |-> 1, p |-> p, nm |-> "", res |-> res,
                            iop |-> iop, rt |-> r.t, ri |-> r.i, rb |-> r.b, kind |-> "", lit |-> FALSE]
InsCall(p, res, iop, r) == [op |-> "InsertInst", f |-> 1, b |-> 1, p |-> p, nm |-> "", res |-> res,
                            iop |-> iop, rt |-> r.t, ri |-> r.i, rb |-> r.b, kind |-> "", lit |-> FALSE]
NewGlobalCall(g) == [op |-> "NewGlobal", g |-> g, nm |-> ""]
RetBlockCall == [op |-> "NewBlock", f |-> 1, nm |-> "", k |-> "ret", tn |-> "", res |-> "none"]
PresetHist ==
  CASE Preset = "typed" ->
         << NewGlobalCall("globals"), [op |-> "NewFunc", nm |-> "", ps |-> <<>>], RetBlockCall,
            InsCall(1, "value", "alloca", NoRef),
            InsCall(2, "void", "use", Ref("alloca", 0)),
            InsCall(3, "void", "use", Ref("global", 1)) >>
    [] Preset = "indirect" ->
         << NewGlobalCall("globals"), NewGlobalCall("aliases"),
            [op |-> "SetTarget", g |-> "aliases", i |-> 1, rt |-> "global", ri |-> 1],
            NewGlobalCall("ifuncs"), [op |-> "NewFunc", nm |-> "", ps |-> <<>>], RetBlockCall,
            InsCall(1, "void", "use", Ref("alias", 1)),
            InsCall(2, "void", "use", Ref("ifunc", 1)) >>
    [] Preset = "body" ->
         << [op |-> "NewFunc", nm |-> "", ps |-> <<"">>], RetBlockCall,
            InsCall(1, "value", "plain", NoRef), InsCall(2, "value", "plain", NoRef) >>
    [] Preset = "func" -> << [op |-> "NewFunc", nm |-> "", ps |-> <<>>], RetBlockCall >>
    [] Preset = "pair" ->
         << [op |-> "NewFunc", nm |-> "", ps |-> <<"">>], RetBlockCall, InsCallF(1, 1, "value", "plain", NoRef),
            [op |-> "NewFunc", nm |-> "", ps |-> <<>>], [RetBlockCall EXCEPT !.f = 2], InsCallF(2, 1, "value", "plain", NoRef) >>
    [] OTHER -> <<>>
Room == MaxCalls = 0 \/ Len(hist) < MaxCalls + Len(PresetHist)

Mutate(W(_), call) ==     \* W = function world -> world
  /\ Room
  /\ gl' = W(World).gl /\ fn' = W(World).fn /\ md' = W(World).md
  /\ twin' = W(twin)
  /\ parsed' = FALSE /\ lastq' = IF StickyQueries THEN lastq ELSE NoQuery
  /\ hist' = Append(hist, call)
  /\ UNCHANGED out

Observe(r, call) ==       \* r = [w, out] for the state; the twin skips observers
  /\ Room
  /\ gl' = r.w.gl /\ fn' = r.w.fn /\ md' = r.w.md /\ out' = r.out
  /\ lastq' = IF TrackQueries /\ r.w = World
              THEN <<call.op, IF StickyQueries THEN Len(hist) + 1 ELSE 0>>
              ELSE IF StickyQueries THEN lastq ELSE NoQuery
  /\ hist' = Append(hist, call)
  /\ UNCHANGED <<twin, parsed>>

Init == /\ gl = PresetWorld.gl /\ fn = PresetWorld.fn /\ md = <<>> /\ twin = PresetWorld
        /\ out = Ok(<<>>, <<>>, <<>>) /\ parsed = FALSE /\ lastq = NoQuery /\ hist = PresetHist

ParseText ==
  /\ hist = <<>> /\ MaxSrc > 0
  /\ \E src \in Sources :
       /\ Len(ParseInstall(src).funcs) <= MaxFuncs
       /\ LET w == ParseW(src) IN
          /\ gl' = w.gl /\ fn' = w.fn /\ md' = w.md /\ twin' = w /\ parsed' = TRUE /\ lastq' = NoQuery
          /\ hist' = <<[op |-> "ParseText", src |-> src]>>
          /\ UNCHANGED out

\* every block of every function: blockaddress(@f, %b)
BlockRefs == UNION {{RefB(f, b) : b \in 1..Len(fn[f].blocks)} : f \in 1..Len(fn)}

NewGlobalA ==
  \E g \in Groups, nm \in NewNames :
    /\ Len(gl[g]) < MaxPerGroup
    /\ Mutate(LAMBDA w : NewGlobalW(w, g, nm), [op |-> "NewGlobal", g |-> g, nm |-> nm])
NewGlobalRefA ==
  /\ RefGlobals /\ Len(gl.globals) < MaxPerGroup
  /\ \E nm \in NewNames, r \in {Ref("global", i) : i \in 1..Len(gl.globals)} \cup {Ref("func", i) : i \in 1..Len(gl.funcs)}
                              \cup BlockRefs :
       /\ r.t \in RefTargets
       /\ Mutate(LAMBDA w : NewGlobalRefW(w, nm, r), [op |-> "NewGlobalRef", nm |-> nm, rt |-> r.t, ri |-> r.i, rb |-> r.b])
NewFuncA ==
  \E nm \in NewNames, ps \in ParamSeqs :
    /\ Len(fn) < MaxFuncs
    /\ Mutate(LAMBDA w : NewFuncW(w, nm, ps),
              [op |-> "NewFunc", nm |-> nm, ps |-> [i \in 1..Len(ps) |-> ps[i].name]])
NewBlockA ==
  \E f \in 1..Len(fn), nm \in NewNames, t \in Terms \cup {NoTerm} :
    /\ Len(fn[f].blocks) < MaxBlocks
    /\ Mutate(LAMBDA w : NewBlockW(w, f, nm, t),
              [op |-> "NewBlock", f |-> f, nm |-> nm, k |-> t.k, tn |-> t.name, res |-> t.res])
\* the same through ir.NewBlock + append to the exported slice (Parent stays nil)
NewDetachedBlockA ==
  /\ "DetachedBlock" \in Edits
  /\ \E f \in 1..Len(fn), nm \in NewNames, t \in Terms \cup {NoTerm} :
       /\ Len(fn[f].blocks) < MaxBlocks
       /\ Mutate(LAMBDA w : NewBlockW(w, f, nm, t),
                 [op |-> "NewBlock", f |-> f, nm |-> nm, k |-> t.k, tn |-> t.name, res |-> t.res, det |-> TRUE])
\* blocks removed from a function / moved to the end of another function
SimpleBody(body) == ~HasAlloca(body) /\ \A j \in 1..Len(body.blocks) : body.blocks[j].term.k \in {"ret", "none"}
BlockEditA ==
  /\ "block" \notin RefTargets
  /\ \E f \in 1..Len(fn) : \E b \in 1..Len(fn[f].blocks) :
       /\ SimpleBody(fn[f])
       /\ \/ /\ "RemoveBlock" \in Edits
             /\ Mutate(LAMBDA w : RemoveBlockW(w, f, b), [op |-> "RemoveBlock", f |-> f, b |-> b])
          \/ /\ "MoveBlock" \in Edits
             /\ \E g \in 1..Len(fn) :
                  /\ g # f /\ SimpleBody(fn[g]) /\ Len(fn[g].blocks) < MaxBlocks
                  /\ Mutate(LAMBDA w : MoveBlockW(w, f, b, g), [op |-> "MoveBlock", f |-> f, b |-> b, p |-> g])
\* m.Globals / m.Aliases / m.IFuncs = the slice without its last entry (only an entry nothing refers to): the
\* unnamed definitions after it move up by one number
RefsOfInsts(w) == UNION {UNION {RefsIn(w.fn[f].blocks[b].insts) : b \in 1..Len(w.fn[f].blocks)} : f \in 1..Len(w.fn)}
RefsOfGroup(s) == {s[i].ref : i \in 1..Len(s)} \ {NoRef}
AllRefs(w) == RefsOfInsts(w) \cup RefsOfGroup(w.gl.globals) \cup RefsOfGroup(w.gl.aliases)
RefKind(g) == CASE g = "globals" -> "global" [] g = "aliases" -> "alias" [] OTHER -> "ifunc"
RemoveGlobalW(w, g) == [w EXCEPT !.gl[g] = SubSeq(@, 1, Len(@) - 1)]
RemoveGlobalA ==
  /\ "RemoveGlobal" \in Edits
  /\ \E g \in Groups3 :
       /\ Len(gl[g]) > 0
       /\ Ref(RefKind(g), Len(gl[g])) \notin AllRefs(World)
       /\ Mutate(LAMBDA w : RemoveGlobalW(w, g), [op |-> "RemoveGlobal", g |-> g, i |-> Len(gl[g])])
\* identity fields assigned directly
IdentEditA ==
  \E tg \in Targets(World) :
    /\ Exists(World, tg)
    /\ tg.t = "inst" => Obj(World, tg).res = "value"
    /\ \/ /\ "SetNameField" \in Edits
          /\ \E nm \in SetNames \cup NewNames :
               /\ Obj(World, tg).name # nm
               /\ Mutate(LAMBDA w : EditObjW(w, tg, LAMBDA n : NameKept(n, nm)), [op |-> "SetNameField", tg |-> tg, nm |-> nm])
       \/ /\ "SetID" \in Edits
          /\ \E v \in {0, 2} :               \* clear it / an ID that is wrong at every place of the scaffolds
               /\ Obj(World, tg).id # v
               /\ Mutate(LAMBDA w : EditObjW(w, tg, LAMBDA n : IdSet(n, v)), [op |-> "SetID", tg |-> tg, v |-> v])
\* instructions that can be inserted into function f now
UseInsts(f) ==
  IF "use" \notin InstOps THEN {}
  ELSE {IInst("", "void", "use", r) :
          r \in {Ref("global", i) : i \in 1..Len(gl.globals)} \cup {Ref("func", i) : i \in 1..Len(gl.funcs)}
                \cup {Ref("alias", i) : i \in 1..Len(gl.aliases)} \cup {Ref("ifunc", i) : i \in 1..Len(gl.ifuncs)}
                \cup (IF HasAlloca(fn[f]) THEN {Ref("alloca", 0)} ELSE {}) \cup BlockRefs}
NewInstsFor(f) ==
  PlainInsts \cup OperandInsts \cup DepInsts \cup (IF HasAlloca(fn[f]) THEN {} ELSE AllocaInsts)
  \cup {i \in UseInsts(f) : i.ref.t \in RefTargets}
InstCall(opn, f, b, p, i) ==
  [op |-> opn, f |-> f, b |-> b, p |-> p, nm |-> i.name, res |-> i.res,
   iop |-> i.op, rt |-> i.ref.t, ri |-> i.ref.i, rb |-> i.ref.b, kind |-> i.kind, lit |-> i.lit]
InsertInstA ==
  \E f \in 1..Len(fn) : \E b \in 1..Len(fn[f].blocks) :
    \E p \in 1..Len(fn[f].blocks[b].insts) + 1, i \in NewInstsFor(f) :
      /\ Len(fn[f].blocks[b].insts) < MaxInsts
      /\ Mutate(LAMBDA w : InsertInstW(w, f, b, p, i), InstCall("InsertInst", f, b, p, i))
RemoveInstA ==
  \E f \in 1..Len(fn) : \E b \in 1..Len(fn[f].blocks) : \E p \in 1..Len(fn[f].blocks[b].insts) :
    /\ fn[f].blocks[b].insts[p].op = "alloca" => ~UsesAlloca(fn[f])      \* no dangling operand
    /\ Mutate(LAMBDA w : RemoveInstW(w, f, b, p), [op |-> "RemoveInst", f |-> f, b |-> b, p |-> p])
\* count-preserving edits of a block
ReplaceInstA ==
  /\ "ReplaceInst" \in Edits
  /\ \E f \in 1..Len(fn) : \E b \in 1..Len(fn[f].blocks) : \E p \in 1..Len(fn[f].blocks[b].insts) :
       \E i \in NewInstsFor(f) \cup (IF fn[f].blocks[b].insts[p].op = "alloca" THEN AllocaInsts ELSE {}) :
         /\ fn[f].blocks[b].insts[p].op = "alloca" => ~UsesAlloca(fn[f])      \* no dangling operand
         /\ Mutate(LAMBDA w : ReplaceInstW(w, f, b, p, i), InstCall("ReplaceInst", f, b, p, i))
SwapInstsA ==
  /\ "SwapInsts" \in Edits
  /\ \E f \in 1..Len(fn) : \E b \in 1..Len(fn[f].blocks) :
       \E p \in 1..Len(fn[f].blocks[b].insts), q \in 1..Len(fn[f].blocks[b].insts) :
         /\ p < q
         /\ Mutate(LAMBDA w : SwapInstsW(w, f, b, p, q), [op |-> "SwapInsts", f |-> f, b |-> b, p |-> p, q |-> q])
\* alias.Aliasee = ... / ifunc.Resolver = ...
SetTargetA ==
  /\ "SetTarget" \in Edits
  /\ \E g \in {"aliases", "ifuncs"} : \E i \in 1..Len(gl[g]) :
       \E r \in {NoRef, Ref("helper", 1)}
                \cup (IF g = "aliases" THEN {Ref("global", j) : j \in 1..Len(gl.globals)} ELSE {}) :
         /\ gl[g][i].ref # r
         /\ Mutate(LAMBDA w : SetTargetW(w, g, i, r), [op |-> "SetTarget", g |-> g, i |-> i, rt |-> r.t, ri |-> r.i])
\* the operands of a "dep" instruction: completed (struct literal), or replaced by operands of the other type
DepEditA ==
  \E f \in 1..Len(fn) : \E b \in 1..Len(fn[f].blocks) : \E p \in 1..Len(fn[f].blocks[b].insts), ty \in {0, 1} :
    LET i == fn[f].blocks[b].insts[p] IN
    /\ i.op = "dep"
    /\ \/ /\ "FillArgs" \in Edits /\ i.args = <<>>
          /\ Mutate(LAMBDA w : SetArgsW(w, f, b, p, ty), [op |-> "FillArgs", f |-> f, b |-> b, p |-> p, v |-> ty])
       \/ /\ "RetypeArgs" \in Edits /\ i.args # <<>> /\ i.aty # ty /\ (~i.lit \/ LitRetype)
          /\ Mutate(LAMBDA w : SetArgsW(w, f, b, p, ty), [op |-> "RetypeArgs", f |-> f, b |-> b, p |-> p, v |-> ty])
SetTermA ==
  \E f \in 1..Len(fn) : \E b \in 1..Len(fn[f].blocks) : \E t \in Terms :
    /\ [fn[f].blocks[b].term EXCEPT !.id = 0, !.tgt = 0] # t          \* set, or replace by a different one
    /\ Mutate(LAMBDA w : SetTermW(w, f, b, t),
              [op |-> "SetTerm", f |-> f, b |-> b, k |-> t.k, nm |-> t.name, res |-> t.res])
RetargetA ==
  \E f \in 1..Len(fn) : \E b \in 1..Len(fn[f].blocks), to \in 1..Len(fn[f].blocks) :
    /\ fn[f].blocks[b].term.k \in {"br", "invoke", "callbr", "catchswitch"}
    /\ fn[f].blocks[b].term.tgt # to
    /\ Mutate(LAMBDA w : RetargetW(w, f, b, to), [op |-> "Retarget", f |-> f, b |-> b, p |-> to])
SetNameA ==
  \E tg \in Targets(World), nm \in SetNames \cup NewNames :
    /\ Exists(World, tg) /\ Obj(World, tg).name # nm
    /\ tg.t = "inst" => Obj(World, tg).res = "value"
    /\ Mutate(LAMBDA w : SetNameW(w, tg, nm), [op |-> "SetName", tg |-> tg, nm |-> nm])
OperandEditA ==
  \E f \in 1..Len(fn) : \E b \in 1..Len(fn[f].blocks) : \E p \in 1..Len(fn[f].blocks[b].insts) :
    /\ fn[f].blocks[b].insts[p].op \in {"call2", "phi2"}
    /\ \/ \E as \in ArgVals \X ArgVals :
            /\ as # fn[f].blocks[b].insts[p].args
            /\ Mutate(LAMBDA w : ReplaceArgsW(w, f, b, p, as),
                      [op |-> "ReplaceArgs", f |-> f, b |-> b, p |-> p, a1 |-> as[1], a2 |-> as[2]])
       \/ /\ fn[f].blocks[b].insts[p].args[1] # fn[f].blocks[b].insts[p].args[2]
          /\ Mutate(LAMBDA w : SwapArgsW(w, f, b, p), [op |-> "SwapArgs", f |-> f, b |-> b, p |-> p])
       \/ \E k \in 1..2, v \in ArgVals :
            /\ fn[f].blocks[b].insts[p].args[k] # v
            /\ Mutate(LAMBDA w : SetSlotW(w, f, b, p, k, v),
                      [op |-> "SetSlot", f |-> f, b |-> b, p |-> p, slot |-> k, v |-> v])
SetFieldA ==
  \E fld \in FieldEdits, i \in 1..(MaxPerGroup + MaxFuncs + MaxSrc), v \in {0, 1} :
    /\ FieldExists(World, fld, i) /\ FieldValue(World, fld, i) # v
    /\ Mutate(LAMBDA w : SetFieldW(w, fld, i, v), [op |-> "SetField", fld |-> fld, i |-> i, v |-> v])
InsertMdA ==
  \E p \in 1..Len(md) + 1, id \in {-1} \cup MdExplicit :
    /\ Len(md) < MaxMd
    /\ Mutate(LAMBDA w : InsertMdW(w, p, id), [op |-> "InsertMd", p |-> p, id |-> id])
RemoveMdA ==
  \E p \in 1..Len(md) :
    /\ md[p].key \notin AttachedKeys(World)                            \* no dangling attachment
    /\ Mutate(LAMBDA w : RemoveMdW(w, p), [op |-> "RemoveMd", p |-> p])
AttachMdA ==
  /\ MdAttach
  /\ \E tg \in {t \in Targets(World) : t.t = "inst" \/ (t.t = "global" /\ t.g = "globals")},
        k \in MdKeys(md) \cup {0} :
       /\ Exists(World, tg) /\ Obj(World, tg).att # k
       \* the key names a position of md: record it as the position at the time of the call
       /\ Mutate(LAMBDA w : AttachW(w, tg, k),
                 [op |-> "AttachMd", tg |-> tg,
                  p |-> IF k = 0 THEN 0 ELSE CHOOSE j \in 1..Len(md) : md[j].key = k])

PrintModuleA == "PrintModule" \in Observers /\
  Observe(PrintModuleW(World, ValidateOnPrint), [op |-> "PrintModule"])
PrintFuncA == "PrintFunc" \in Observers /\
  \E f \in 1..Len(fn) : Observe(PrintFuncW(World, f, ValidateOnPrint), [op |-> "PrintFunc", f |-> f])
PrintBlockA == "PrintBlock" \in Observers /\
  \E f \in 1..Len(fn) : \E b \in 1..Len(fn[f].blocks) :
    Observe(PrintBlockW(World, f, b), [op |-> "PrintBlock", f |-> f, b |-> b])
QueryTypeA == "QueryType" \in Observers /\
  Observe([w |-> QueryTypeW(World), out |-> out], [op |-> "QueryType"])
QueryOperandsA == "QueryOperands" \in Observers /\
  Observe([w |-> QueryOperandsW(World), out |-> out], [op |-> "QueryOperands"])
\* Module.WriteTo into a writer that fails: at = where ("zero": rejects the first byte, "mid": half of the text, "tail":
\* the last byte), mode = how ("error": Write returns an error, "short": Write returns fewer bytes than given and no
\* error), then = what is printed next ("same": this module, "other": an unrelated module, whose text must be what
\* it always is).  The call numbers and fills what PrintModule does and returns no text; a failed print leaves
\* nothing else behind -- the model has no place where undelivered text could stay.
FailAt == {"zero", "mid", "tail"}
WriteToFailA == "WriteToFail" \in Observers /\
  \E at \in FailAt, mode \in {"error", "short"}, then \in {"same", "other"} :
    Observe([w |-> PrintModuleW(World, ValidateOnPrint).w, out |-> out],
            [op |-> "WriteToFail", at |-> at, mode |-> mode, then |-> then])
QueryA == \E q \in Observers \cap {"QueryIdent", "QuerySuccs"} :
    Observe([w |-> World, out |-> out], [op |-> q])

Next == \/ ParseText
        \/ NewGlobalA \/ NewGlobalRefA \/ NewFuncA \/ NewBlockA \/ InsertInstA \/ RemoveInstA
        \/ ReplaceInstA \/ SwapInstsA \/ SetTargetA \/ DepEditA \/ NewDetachedBlockA \/ BlockEditA \/ RemoveGlobalA \/ IdentEditA
        \/ SetTermA \/ RetargetA \/ SetNameA \/ OperandEditA \/ SetFieldA \/ InsertMdA \/ RemoveMdA \/ AttachMdA
        \/ PrintModuleA \/ PrintFuncA \/ PrintBlockA \/ QueryTypeA \/ QueryOperandsA \/ QueryA \/ WriteToFailA
Spec == Init /\ [][Next]_vars

----------------------------------------------------------------------------
(* Properties *)

PrintOf(w) == PrintModuleW(w, ValidateOnPrint)

\* C08: after a successful print every unnamed value carries its LLVM number
NumberingCorrect ==
  LET r == PrintOf(World) IN
  r.out.ok => /\ GlobalIdsCorrect(r.w.gl)
              /\ \A f \in 1..Len(r.w.fn) : LocalIdsCorrect(r.w.fn[f])
\* C08: printing never fails on a module the parser produced
PrintTotalOnParsed == parsed => PrintOf(World).out.ok
\* C08: numbering again changes nothing
AssignIdempotent ==
  /\ GlobalAssignIdempotent(gl, TRUE)
  /\ \A f \in 1..Len(fn) : LocalAssignIdempotent(fn[f], TRUE)

\* metadata IDs up to a consistent renaming: every ID replaced by the position of its first occurrence
CanonIds(s) == [i \in 1..Len(s) |-> CHOOSE j \in 1..i : s[j] = s[i] /\ \A k \in 1..(j - 1) : s[k] # s[i]]
UpToMdRenaming(o) == [o EXCEPT !.mdt = CanonIds(@)]

\* C14: a history with observers prints what the same history without them prints
ObserverTransparent == UpToMdRenaming(PrintOf(World).out) = UpToMdRenaming(PrintOf(twin).out)
ObserverTransparentStep ==
  [][UpToMdRenaming(PrintModuleW([gl |-> gl', fn |-> fn', md |-> md'], ValidateOnPrint).out)
       = UpToMdRenaming(PrintModuleW(twin', ValidateOnPrint).out)]_vars
\* the same with the exact metadata IDs: does not hold of the code (see the header)
ObserverTransparentLiteral == PrintOf(World).out = PrintOf(twin).out
\* C14: printing twice in a row yields identical text
PrintTwiceSame == LET r == PrintOf(World) IN PrintOf(r.w).out = r.out

\* C14: every printing observer, called twice in a row, returns the same
PrintFuncTwiceSame ==
  \A f \in 1..Len(fn) : LET r == PrintFuncW(World, f, ValidateOnPrint)
                         IN PrintFuncW(r.w, f, ValidateOnPrint).out = r.out
PrintBlockTwiceSame ==
  \A f \in 1..Len(fn) : \A b \in 1..Len(fn[f].blocks) :
     LET r == PrintBlockW(World, f, b) IN PrintBlockW(r.w, f, b).out = r.out
\* C14: whether a printing observer returns text or panics does not depend on whether Type() / String() of the
\* objects were asked before it
ObserverOrderFree ==
  \A f \in 1..Len(fn) :
    /\ PrintFuncW(QueryTypeW(World), f, ValidateOnPrint).out.ok = PrintFuncW(World, f, ValidateOnPrint).out.ok
    /\ \A b \in 1..Len(fn[f].blocks) : PrintBlockW(QueryTypeW(World), f, b).out.ok = PrintBlockW(World, f, b).out.ok
\* C14: once the module has been printed, Func.LLString of each function is that function's
\* part of the module text (same identifiers, in particular the same parameter numbers)
RECURSIVE FuncParts(_, _)
FuncParts(w, f) == IF f > Len(w.fn) THEN <<>>
                   ELSE PrintFuncW(w, f, ValidateOnPrint).out.text \o FuncParts(w, f + 1)
PrintFuncIsPart ==
  LET r == PrintOf(World) IN
  r.out.ok => r.out.text = Toks(r.w.gl.globals) \o Toks(r.w.gl.aliases) \o Toks(r.w.gl.ifuncs) \o FuncParts(r.w, 1)

\* what the property requires of the final String() of the history
Ideal(w) == LET o == PrintModuleW(w, FALSE).out IN [ok |-> o.ok, why |-> o.why, text |-> o.text]

TypeOK == /\ Len(fn) = Len(gl.funcs) /\ Len(twin.fn) = Len(fn) /\ Len(twin.md) = Len(md)
          /\ \A g \in Groups3 : Len(gl[g]) <= MaxPerGroup + MaxSrc
          /\ \A f \in 1..Len(fn) : Cardinality(AllocaPositions(fn[f])) <= 1
          /\ AttachedKeys(World) \subseteq MdKeys(md) \cup {0}

----------------------------------------------------------------------------
(* Duplicate names: legal API use in passing, but a module LLVM accepts has none.  The replay     *)
(* judges only histories whose final state is duplicate-free.                                    *)
NamedOf(s) == {s[i].name : i \in {j \in 1..Len(s) : s[j].name # "" /\ s[j].res = "value"}}
CountNamed(s) == Cardinality({j \in 1..Len(s) : s[j].name # "" /\ s[j].res = "value"})
LocalsOf(body) == FlatLocal(body)
DupW(w) == \/ CountNamed(FlatGlobal(w.gl)) # Cardinality(NamedOf(FlatGlobal(w.gl)))
           \/ \E f \in 1..Len(w.fn) : CountNamed(LocalsOf(w.fn[f])) # Cardinality(NamedOf(LocalsOf(w.fn[f])))

(* One test per explored transition (ACTION_CONSTRAINT, -workers 1).       *)
Emit ==
  Serialize(ToJson([hist |-> hist', want |-> Ideal(twin'), dup |-> DupW(twin'),
                    model |-> PrintModuleW([gl |-> gl', fn |-> fn', md |-> md'], ValidateOnPrint).out.ok]) \o "\n",
            EmitFile,
            [format |-> "TXT", charset |-> "UTF-8",
             openOptions |-> <<"WRITE", "CREATE", "APPEND">>]).exitValue = 0
=============================================================================
