SPECIFICATION Spec
CONSTANTS
  Emit = TRUE
  MemoStrings = FALSE
  MaxMuts = 2
INVARIANTS NoHiddenState Congruence CanonWellFormed EmitOK
CHECK_DEADLOCK FALSE
