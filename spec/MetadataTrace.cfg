SPECIFICATION Spec
INVARIANTS RowOK
CHECK_DEADLOCK FALSE
