SPECIFICATION Spec
CONSTANTS
  AsImplemented = FALSE
  Emit = TRUE
  ChunkSize = 256
  ChunkStride = 1
  Walk = FALSE
  Pow2 = TRUE
  Pos = TRUE
  Kinds = {"half", "float", "double", "x86_fp80", "fp128", "ppc_fp128"}
INVARIANTS RoundTrip DoubleFormOK Inexact ReadIdem ShortRule Preserved EmittedExtra
CHECK_DEADLOCK FALSE
