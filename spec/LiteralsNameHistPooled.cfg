SPECIFICATION Spec
CONSTANTS
  Pool <- DefaultPool
  Kinds = {"global", "local", "type", "label", "comdat", "mdname", "string"}
  DeepKinds = {"string", "global"}
  MaxCalls = 3
  Pooled = TRUE
  EmitFile = ""
INVARIANTS HeldStable HeldDistinct Emit
CHECK_DEADLOCK FALSE
