---------------------------- MODULE WriterTrace ----------------------------
(***************************************************************************)
(* Judges recorded runs of the real Module.WriteTo (C19, direction T).     *)
(*                                                                         *)
(* writer_rec.ndjson has one row per call of WriteTo (the row boundary is  *)
(* the reset: every run starts from a fresh fmtWriter and a fresh writer): *)
(*   id    run number                                                      *)
(*   mode, st (0/1 sticky), p (piece; -1 = random re-chunking), k (cap)    *)
(*         the behaviour the instrumented writer was asked to show         *)
(*   f0    1 if the writer is shared with an earlier call of the history   *)
(*         and failed there (k is then what was left of its capacity when  *)
(*         this call started; off/acc/err, dlen, lcp are those of THIS     *)
(*         call; err and e count the calls of this WriteTo: an error value *)
(*         returned to an earlier WriteTo is -1)                           *)
(*   ifs   the optional interfaces the instrumented writer implements      *)
(*         beside io.Writer (subset of StringWriter, ByteWriter,           *)
(*         ReaderFrom), as Go's type assertions see it                     *)
(*   fl    what the writer's Flush() method returns ("none": it has no     *)
(*         Flush method; "nil", "sticky", "fails": Writer!FlushResult)     *)
(*   ek    the class of the error VALUES the writer returns ("plain",      *)
(*         "eintr", "eintr-path", "eagain", "short", "timeout", "ctx",     *)
(*         "eof", "closed"): the laws are the same for every class         *)
(*   via, off, acc, err   the log of the calls the writer received through *)
(*         ANY of its methods, in order: method (0 Write, 1 WriteString,   *)
(*         2 WriteByte, 3 ReadFrom, 4 Flush), bytes offered, bytes accepted, and    *)
(*         err[j] = j if call j returned an error (each call returns its   *)
(*         own error value) or 0.  All laws are evaluated over this log,   *)
(*         i.e. over every method through which bytes can reach the writer *)
(*   n, e  what WriteTo returned: n, and e = 0 for nil, j if the returned  *)
(*         error IS the value call j returned, -1 for any other error      *)
(*   dlen, lcp, slen   bytes that reached the sink, length of their common *)
(*         prefix with String(), Len(String())                             *)
(*   sw    Write calls the sink saw (pieces)                               *)
(*   h     position of the call in a history of back-to-back calls made by *)
(*         one goroutine (1: the failing call, 2: the call after it; 0:    *)
(*         main loop, where every call also follows other calls)           *)
(*   bc    number of calls the writer received in the first WriteTo of the *)
(*         process on this module to a never-failing writer with the same  *)
(*         interface set                                                   *)
(* Every row is judged as a FIRST call: the required outcome depends on    *)
(* the module and the writer only, so a call that inherits state from an   *)
(* earlier one (Writer.tla, FreshPerCall = FALSE) breaks FirstError /      *)
(* NoFailEqualsString / SameWritesAsFirstCall in the later row.            *)
(*                                                                         *)
(* For every row the log is folded with Writer!FwStep / Writer!ObsStep     *)
(* (the very functions of the fmtWriter state machine, as written) and the *)
(* writer model Writer!Resp is replayed next to it.  Then                  *)
(*   Law       : the C19 predicates Writer!*P hold of what WriteTo         *)
(*               returned.  A failure is a violation of the property; all  *)
(*               broken laws of a row are reported, not only the first.    *)
(*   Equipment : (rows whose laws hold) the instrumented writer behaved as *)
(*               the writer model says (Resp on every call,                *)
(*               FailsAtCapacityP, dlen = accepted).  A failure is a fault *)
(*               of the test equipment or of the model: exit 2.            *)
(*   Model     : (rows whose laws hold) the state machine as written       *)
(*               predicts the returned (n, e).  A failure means the model  *)
(*               does not describe the code: exit 2.                       *)
(* Every failing row is printed (BADRUN kind {laws} id), TLC runs with     *)
(* -continue.  Rows are handed out in blocks so that all workers judge.    *)
(***************************************************************************)
EXTENDS Integers, Sequences, TLC, Json

W == INSTANCE Writer WITH MaxChunks <- 0, UnitSizes <- {0}, UnitKinds <- {"fmt"}, IfaceSets <- {{}}, Route <- "fmt", MaxWrite <- 0,
       PieceCount <- "piece", LatchBy <- "test", CachedViews <- FALSE, LatchError <- TRUE, CountAccepted <- TRUE,
       KeepFirstError <- FALSE, LatchOn <- "err", Modes <- {}, Pieces <- {}, GivenFile <- "", MaxCalls <- 1, LaterModes <- {}, FreshPerCall <- TRUE,
       ShareChoices <- {FALSE}, PerWriterWrapper <- FALSE,
       FlushKinds <- {"none"}, ErrKinds <- {"plain"}, FlushAtEnd <- FALSE, RetryKinds <- {}, MaxRetry <- 0,
       stage <- "cfg", w <- 0, chunks <- <<>>, kinds <- <<>>, fw <- 0, obs <- 0, delivered <- <<>>, sess <- 0

Trace == ndJsonDeserialize("writer_rec.ndjson")
N == Len(Trace)
BlockSize == 512
NB == (N + BlockSize - 1) \div BlockSize

Ifs(r) == {r.ifs[i] : i \in DOMAIN r.ifs}
Method(v) == <<"Write", "WriteString", "WriteByte", "ReadFrom", "Flush">>[v + 1]
Writer0(r) == [mode |-> r.mode, sticky |-> r.st = 1, piece |-> IF r.p < 0 THEN 0 ELSE r.p,
               cap |-> r.k, cap0 |-> r.k, failed |-> r.f0 = 1, failed0 |-> r.f0 = 1, src |-> 0, ifs |-> Ifs(r),
               flush |-> r.fl, errk |-> r.ek]

\* fold the log: implementation state f, observer o, writer model wr, equipment flag ok
RECURSIVE Fold(_, _, _, _, _, _)
Fold(r, j, f, o, wr, ok) ==
  IF j > Len(r.off) THEN [fw |-> f, obs |-> o, wr |-> wr, ok |-> ok]
  ELSE LET sz == r.off[j]  acc == r.acc[j]  fail == r.err[j] # 0
           \* a Flush() call offers no bytes and does not touch the sink
           m  == IF r.via[j] = 4 THEN [acc |-> 0, fail |-> fail, cap |-> wr.cap, failed |-> wr.failed] ELSE W!Resp(wr, sz)
       IN Fold(r, j + 1,
               W!FwStep(f, j, sz, acc, fail),
               W!ObsStepM(o, Method(r.via[j]), sz, acc, fail, 0),
               [wr EXCEPT !.cap = m.cap, !.failed = m.failed],
               ok /\ (r.err[j] \in {0, j} \/ (r.via[j] = 4 /\ r.err[j] \in 0..j)) /\ acc >= 0 /\ acc <= sz /\ m.acc = acc /\ m.fail = fail
                  /\ (r.via[j] = 2 => sz = 1))

Folded(r) == Fold(r, 1, W!FwInit, W!ObsInit, Writer0(r), TRUE)
Summary(r, x) == [n |-> r.n, err |-> r.e, calls |-> x.obs.calls, failedAt |-> x.obs.failedAt,
                  accepted |-> x.obs.accepted, dlen |-> r.dlen, lcp |-> r.lcp, slen |-> r.slen]

Bad(kind, what, r) == PrintT(<<"BADRUN", kind, what, r.id>>) /\ FALSE

RowOK(r) ==
  LET x == Folded(r)
      s == Summary(r, x)
      honest == r.mode # "silent"
      equipment == /\ x.ok /\ Len(r.acc) = Len(r.off) /\ Len(r.err) = Len(r.off) /\ Len(r.via) = Len(r.off)
                   /\ Ifs(r) \subseteq W!AllIfaces /\ x.obs.methods \subseteq W!MethodsOfW(Writer0(r))
                   /\ r.dlen = x.obs.accepted
                   /\ (honest => W!FailsAtCapacityP(s, Writer0(r)))
      laws == << <<"CountExact", W!CountExactP(s)>>,
                 <<"FirstError", W!FirstErrorP(s)>>,
                 <<"NoWriteAfterFailure", W!NoWriteAfterFailureP(s)>>,
                 <<"PrefixDelivered", honest => W!PrefixDeliveredP(s)>>,
                 <<"NoFailEqualsString", honest => W!NoFailEqualsStringP(s)>>,
                 \* a call is a function of the module and the writer, not of what was called before: a
                 \* never-failing writer sees the very calls the first WriteTo of the process to a writer
                 \* with these interfaces made
                 <<"SameWritesAsFirstCall", r.mode = "never" => Len(r.off) = r.bc>> >>
      broken == {laws[i][1] : i \in {i \in 1..Len(laws) : ~laws[i][2]}}     \* all of them, not only the first
      predicted == r.n = x.fw.n /\ r.e = x.fw.err
  IN /\ (broken = {} \/ Bad("law", broken, r))
     \* equipment and model are only judged on rows whose laws hold: a Write after the failure (a broken
     \* latch) legitimately takes the writer outside what FailsAtCapacityP describes
     /\ (broken # {} \/ equipment \/ Bad("equipment", {"writer-model"}, r))
     /\ (broken # {} \/ predicted \/ Bad("model", {"as-written"}, r))

VARIABLES b, l
Init == b = 0 /\ l = 0
Next == \/ b = 0 /\ l = 0 /\ b' \in 1..NB /\ l' = 0
        \/ b > 0 /\ l = 0 /\ l' \in ((b - 1) * BlockSize + 1)..(IF b * BlockSize < N THEN b * BlockSize ELSE N) /\ b' = b
Spec == Init /\ [][Next]_<<b, l>>

Judged == l >= 1 => RowOK(Trace[l])
=============================================================================
