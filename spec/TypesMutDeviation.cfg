SPECIFICATION Spec
CONSTANTS
  Emit = FALSE
  MemoStrings = TRUE
  MaxMuts = 1
INVARIANTS NoHiddenState
CHECK_DEADLOCK FALSE
