SPECIFICATION Spec
CONSTANTS
  MaxDefs = 4
  MaxId = 4
  Variant = "code"
  Emit = FALSE
INVARIANTS MdErrorIffDuplicate MdUnique MdExplicitKept MdSmallestUnused MdIdempotent RefsPrintTargetID EmitVector
CHECK_DEADLOCK FALSE
