SPECIFICATION HSpec
CONSTANTS
  Emit = TRUE
  Tier = "quick"
  HistDev = "none"
  MaxSets = 3
INVARIANTS CallSig NoHiddenState AllocaFollowsFields FillRestores StepsSound HEmitOK
CHECK_DEADLOCK FALSE
