SPECIFICATION Spec
CONSTANTS
  Dev = {"cache-ops"}
  MaxCalls = 3
  Classes = FALSE
  MaxOps = 5
INVARIANTS WriteLive
VIEW View
CHECK_DEADLOCK FALSE
