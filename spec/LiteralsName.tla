----------------------------- MODULE LiteralsName -----------------------------
(***************************************************************************)
(* C11, design level and spec -> code.  Enumerates (kind, byte string)     *)
(* for the seven token kinds of Literals.tla Part 2 and all byte strings   *)
(* of length <= MaxLen over Alphabet (class representatives: letter, hex   *)
(* letter, digits, $ - . _, space, %, quote, backslash, 0x01, 0x7F, 0x80,  *)
(* 0xFF, NUL) plus ExtraStrings (escape-like sequences such as \5C, \5z,   *)
(* \\, a\41b; numeric and leading-digit names; a 20-digit name) and        *)
(*  (S) checks the coder under test against LLVM's lexer rules             *)
(*      (Literals!DecodeToken):                                            *)
(*        RoundTrip    Decode(kind, Encode(kind, s)) = name s              *)
(*        NotAnID      an encoded name never decodes to a numeric ID       *)
(*        IDRoundTrip  the spelling of ID n decodes to ID n                *)
(*        Injective    two different names never get the same token        *)
(*                     (stage 3: second string t, |s|,|t| <= PairLen)      *)
(*        UnescapeLaw  UnEscape(RefEscape(s)) = s  (string escaping)       *)
(*        AltDecodes   other legal spellings (all bytes escaped in lower    *)
(*                     case, backslash as \5C, bare label with a leading    *)
(*                     digit) are read as the same name                    *)
(*      AsImplemented = FALSE: the coder is LLVM's own printer             *)
(*      (Literals!RefEncode) and everything holds.  AsImplemented = TRUE:  *)
(*      the coder is internal/enc/enc.go as written (Literals!CodeEncode)  *)
(*      and TLC shows the defects: @1a / %2b / $1a (leading digit printed  *)
(*      bare: not one token), %0 for the type named "0" and bare           *)
(*      20-digit names (a name read as an ID or as no token), the run-time *)
(*      panic of MetadataName("").                                         *)
(*  (G) emits one vector per case (EmitFile = "stdout"): kind, bytes and   *)
(*      LLVM's canonical token and each alternative spelling.  The harness *)
(*      (harness/props/c11) puts the spelling into a module text for every *)
(*      grammar position of that kind, lets llvm-as | llvm-dis confirm the *)
(*      reading (its output must show the canonical token) and compares    *)
(*      the bytes the real parser delivers.                                *)
(*                                                                         *)
(* Variables: stage 0 -> kind; 1 -> s; 2 = case complete; 2 -> t (only     *)
(* for |s| <= PairLen); 3 = pair complete.                                 *)
(***************************************************************************)
EXTENDS Literals, Json

CONSTANTS Alphabet,        \* byte values
          MaxLen,          \* longest string
          ExtraStrings,    \* further byte strings (escape-like sequences, numeric names)
          PairLen,         \* longest string in the injectivity pairs
          Kinds,           \* token kinds enumerated
          AsImplemented,   \* TRUE: internal/enc as written
          EmitFile         \* "" or "stdout"

\* the strings ExtraStrings is bound to in the cfg files:
\*   \5C \5z \4_ \\5C a\41b \zz \\\5z x\5zz 42 007 1a 2b -5 18446744073709551616 a.b  a b"c
DefaultExtras == {
    <<45, 48>>, <<45, 48, 48>>, <<110, 117, 108, 108>>, <<118, 111, 105, 100>>, <<116, 114, 117, 101>>, <<120>>, <<99>>, <<108, 97, 98, 101, 108>>, <<68, 73, 76, 111, 99, 97, 116, 105, 111, 110>>, <<68, 73, 69, 120, 112, 114, 101, 115, 115, 105, 111, 110>>, <<71, 101, 110, 101, 114, 105, 99, 68, 73, 78, 111, 100, 101>>, <<68, 73, 70, 105, 108, 101>>,   \* -0 -00 null void true x c label DILocation DIExpression GenericDINode DIFile
    <<37, 115>>, <<37, 37>>, <<97, 37>>, <<37, 33>>, <<37, 100>>, <<49, 48, 48, 37>>,   \* %s %% a% %! %d 100%
    <<92, 53, 67>>,
    <<92, 53, 122>>,
    <<92, 52, 95>>,
    <<92, 92, 53, 67>>,
    <<97, 92, 52, 49, 98>>,
    <<92, 122, 122>>,
    <<92, 92, 92, 53, 122>>,
    <<120, 92, 53, 122, 122>>,
    <<52, 50>>,
    <<48, 48, 55>>,
    <<49, 97>>,
    <<50, 98>>,
    <<45, 53>>,
    <<49, 56, 52, 52, 54, 55, 52, 52, 48, 55, 51, 55, 48, 57, 53, 53, 49, 54, 49, 54>>,
    <<97, 46, 98>>,
    <<97, 32, 98, 34, 99>>}

\* every byte value alone and in first, middle and last position of a three-byte name (the class
\* representatives of Alphabet stand for their classes only as far as the coder under test draws the
\* class borders where LLVM does; an off-by-one at a border -- 0x60 next to a, 0x7B next to z, 0x2F and
\* 0x3A around the digits, 0x7E / 0x7F, 0x1F / 0x20 -- moves a byte that is no representative).
\* ExtraStrings of LiteralsNameBytes.cfg; NUL is filtered by Permitted except for kind "string".
EveryBytePositions == UNION {{<<b>>, <<b, 97, 97>>, <<97, b, 97>>, <<97, 97, b>>} : b \in 0..255}

VARIABLES kind, s, t, stage
vars == <<kind, s, t, stage>>

RECURSIVE StringsOfLen(_)
StringsOfLen(n) == IF n = 0 THEN {<<>>} ELSE {<<c>> \o x : c \in Alphabet, x \in StringsOfLen(n - 1)}
StringsUpTo(n) == UNION {StringsOfLen(k) : k \in 0..n}
\* the empty name is enumerated only with AsImplemented (it is not permitted; the code must still not crash)
Domain(k) == {x \in StringsUpTo(MaxLen) \cup ExtraStrings :
                Permitted(k, x) \/ (AsImplemented /\ k = "mdname" /\ x = <<>>)}
PairDomain(k) == {x \in StringsUpTo(PairLen) : Permitted(k, x)}

Enc(k, x) == IF AsImplemented THEN CodeEncode(k, x) ELSE [ok |-> TRUE, tok |-> RefEncode(k, x)]
HasIDs(k) == k \in {"global", "local", "type", "label", "mdname"}
SomeIDs == {<<48>>, <<49>>, <<52, 50>>, <<48, 48>>, <<52, 50, 57, 52, 57, 54, 55, 50, 57>>}

Init == kind = "" /\ s = <<>> /\ t = <<>> /\ stage = 0
Next == \/ stage = 0 /\ kind' \in Kinds /\ stage' = 1 /\ UNCHANGED <<s, t>>
        \/ stage = 1 /\ s' \in Domain(kind) /\ stage' = 2 /\ UNCHANGED <<kind, t>>
        \/ stage = 2 /\ Len(s) <= PairLen /\ Permitted(kind, s)
                     /\ t' \in PairDomain(kind) /\ stage' = 3 /\ UNCHANGED <<kind, s>>
Spec == Init /\ [][Next]_vars

NoCrash     == stage = 2 => Enc(kind, s).ok
RoundTrip   == stage = 2 /\ Enc(kind, s).ok /\ Permitted(kind, s)
                 => DecodeToken(kind, Enc(kind, s).tok) = NameTok(s)
NotAnID     == stage = 2 /\ Enc(kind, s).ok => DecodeToken(kind, Enc(kind, s).tok).k # "id"
OneToken    == stage = 2 /\ Enc(kind, s).ok => DecodeToken(kind, Enc(kind, s).tok).k # "bad"
IDRoundTrip == stage = 1 /\ HasIDs(kind) => \A ds \in SomeIDs : DecodeToken(kind, RefEncodeID(kind, ds)) = IdTok(ds)
Injective   == stage = 3 /\ s # t /\ Enc(kind, s).ok /\ Enc(kind, t).ok => Enc(kind, s).tok # Enc(kind, t).tok
UnescapeLaw == stage = 2 => UnEscape(RefEscape(s)) = s
\* LLVM's printer and the code's printer are both decoders' inverses where both are right: the
\* code's token, when it is right, need not equal LLVM's (e.g. \5C versus \\)

\* every alternative spelling is read as the same name
AltDecodes  == stage = 2 /\ Permitted(kind, s) /\ s # <<>>
                 => \A a \in AltEncodings(kind, s) : DecodeToken(kind, a.tok) = NameTok(s)

\* one vector per spelling: ref = LLVM's canonical spelling, tok = the spelling fed to the parser
Vec(tag, tok) == ToJson([kind |-> kind, bytes |-> s, tag |-> tag, ref |-> RefEncode(kind, s), tok |-> tok])
Emit == (stage = 2 /\ EmitFile = "stdout" /\ Permitted(kind, s) /\ s # <<>>) =>
          /\ PrintT(Vec("reference", RefEncode(kind, s)))
          /\ \A a \in AltEncodings(kind, s) : a.tok = RefEncode(kind, s) \/ PrintT(Vec(a.tag, a.tok))
=============================================================================
