SPECIFICATION Spec
CONSTANTS
  Dev = {"dedup-succs"}
  MaxCalls = 3
  Classes = FALSE
  MaxOps = 5
INVARIANTS SuccsLive
VIEW View
CHECK_DEADLOCK FALSE
