SPECIFICATION Spec
CONSTANTS
  MaxCalls = 3
  AsImplemented = TRUE
INVARIANTS SuccsLive
VIEW View
CHECK_DEADLOCK FALSE
