SPECIFICATION Spec
CONSTANTS
  AsImplemented = TRUE
INVARIANTS SuccsLive
VIEW View
CHECK_DEADLOCK FALSE
