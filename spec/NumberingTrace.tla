--------------------------- MODULE NumberingTrace ---------------------------
(***************************************************************************)
(* Judges recordings of what the real ID assignment wrote (C08, direction  *)
(* code -> spec).  numbering_rec.ndjson has one record per observed        *)
(* assignment pass over one function or one module name space:             *)
(*   {"id": n, "what": "func"|"module",                                    *)
(*    "items":  [{"name","res","before"}]  the definitions in the order    *)
(*              the pass walks them (FlatLocal / FlatGlobal layout), with  *)
(*              the id each object cached before the pass,                 *)
(*    "events": [{"pos","old","new"}]      the ir.VerifHook "setid" events *)
(*              of the pass, pos = 1-based index into items,               *)
(*    "after":  [ids]                      the cached ids after the pass}  *)
(* Law, per record (RecOK):                                                *)
(*   - every event concerns an unnamed value-producing item, reports its   *)
(*     cached id as old and LLVM's number of that position as new;         *)
(*   - events come in walk order (strictly increasing positions);          *)
(*   - every item whose cached id was not already its LLVM number is       *)
(*     written (writing an unchanged id again is allowed, not required);   *)
(*   - afterwards every unnamed value carries its LLVM number, nothing     *)
(*     else changed, and the code-shaped walk of module Numbering          *)
(*     (renumbering) predicts exactly the ids found.                       *)
(* Failing records are printed (BADREC law id) so that all are classified. *)
(***************************************************************************)
EXTENDS Numbering, TLC, Json

Trace == ndJsonDeserialize("numbering_rec.ndjson")
N == Len(Trace)

Items(r) == [p \in 1..Len(r.items) |->
               [name |-> r.items[p].name, res |-> r.items[p].res, id |-> r.items[p].before]]

Bad(law, r) == PrintT(<<"BADREC", law, r.id>>) /\ FALSE

RecOK(r) ==
  LET it  == Items(r)
      num == CountNumbering(it)
      ev  == r.events
      written == {ev[k].pos : k \in 1..Len(ev)}
  IN /\ (\A k \in 1..Len(ev) :
            /\ ev[k].pos \in 1..Len(it) /\ Numbered(it[ev[k].pos])
            /\ ev[k].new = num[ev[k].pos] /\ ev[k].old = it[ev[k].pos].id)     \/ Bad("event", r)
     /\ (\A k \in 1..(Len(ev) - 1) : ev[k].pos < ev[k + 1].pos)               \/ Bad("order", r)
     /\ (\A p \in 1..Len(it) : (Numbered(it[p]) /\ it[p].id # num[p]) => p \in written)
                                                                             \/ Bad("missing-write", r)
     /\ (\A p \in 1..Len(it) : r.after[p] = IF Numbered(it[p]) THEN num[p] ELSE it[p].id)
                                                                             \/ Bad("after", r)
     /\ (LET w == WalkSeq(it, 0, FALSE) IN w.ok /\ IdsOf(w.s) = r.after)      \/ Bad("walk", r)

VARIABLE l
Init == l = 0
Next == l < N /\ l' = l + 1
Spec == Init /\ [][Next]_l

RowOK == l >= 1 => RecOK(Trace[l])
=============================================================================
