------------------------------ MODULE Translate ------------------------------
(***************************************************************************)
(* The AST -> IR translator of llir/llvm (asm/translate.go and the files   *)
(* it drives) as a state machine (properties C04, C05, C12, C20).          *)
(*                                                                         *)
(* The translator indexes the top-level entities of the input into Go maps *)
(* in textual order (step 1), then runs a fixed sequence of phases; each   *)
(* phase ranges over one map, i.e. processes the entities of one index in  *)
(* an order chosen by the Go runtime.  Here a phase is a Pick action that  *)
(* removes ANY element of `pend` -- TLC explores every processing order.   *)
(*                                                                         *)
(*   pc        current phase (Phases below, in code order)                 *)
(*   src       the input: sequence of abstract entities (TranslateSrc.tla) *)
(*   lay       the layout of the text (TranslateSrc.tla: line ending,      *)
(*             definitions per line, indentation, comments); it decides    *)
(*             the positions of the entities and the bytes of a raw line   *)
(*             break inside a string literal, nothing else                 *)
(*   i         next entity of src to index (phase "index")                 *)
(*   old       the AST indices: name -> position(s) in src (0 = absent),   *)
(*             the textual order of global entities, the ID counter for    *)
(*             unnamed globals                                             *)
(*   new       the IR indices: name -> "none" | "scaffold" | "filled" |    *)
(*             "materialised"; for types also the object the name denotes  *)
(*   pend      names the current phase has not processed yet               *)
(*   uses      every resolved reference: [e, l, r, obj, copy] (entity,     *)
(*             local, reference position; the object it was bound to)      *)
(*   todo      blockaddress constants still holding a dummy block          *)
(*   res       "run", or the outcome: ok (with the assembled module),      *)
(*             err (error, no module), crash (panic / nil dereference)     *)
(*   picks     the processing order taken (observation only, hidden by     *)
(*             VIEW; written to the vectors)                               *)
(*                                                                         *)
(* AsImplemented = TRUE switches on the deviation of the code under test   *)
(* (a type alias `%a = type %b` is a look-alike copy of %b, not %b); FALSE *)
(* is what the properties require.  Two further deviations of the pinned   *)
(* commit (nil dereference for an undefined alias target; a second         *)
(* definition accepted after `opaque`) were found with this model and      *)
(* repaired in /repo (fix commits 593ec85, 3e90b41).  Properties: Deterministic (C12, and C05's ErrorOnFault since  *)
(* Canon is "err" exactly for sources with an undefined or duplicate       *)
(* name), RefIdentity and NoDummyLeft (C04), ScaffoldBeforeUse, CanonOrder *)
(* (C20).  Canon(src) is a closed form of src that never mentions an       *)
(* order, so Deterministic is confluence over all Pick orders.             *)
(*                                                                         *)
(* Fault classes (all single-point): RefFaults (undefined name), DupFaults, *)
(* DelFaults, ClashFaults, QuotedFaults (%"0"), NumeralFaults (%0),        *)
(* DupZeroFaults, EmptyQuotedFaults (%"", @""), CrossFaults (a local or    *)
(* block of ANOTHER function), ModLocalFaults (a local at module level),   *)
(* WideIdFaults (an ID wider than 64 bits).  TextualIsPositional (C20):    *)
(* textual order is the order of (line, column) under every layout.        *)
(*                                                                         *)
(* Binding: TranslateGen.cfg emits one vector per source (pattern x        *)
(* fault x permutation) with Canon(src); the Go harness renders it,        *)
(* parses it with the real translator and compares outcome, definition     *)
(* order and object identity.  TranslateTrace.tla replays the hook events  *)
(* of the real translator (asm.VerifHook) as Pick actions of this module.  *)
(***************************************************************************)
EXTENDS TranslateSrc, Json, IOUtils

CONSTANTS AsImplemented,   \* model the pinned code's deviations
          SourceSet,       \* which sources to enumerate: "patterns", "faults", "perms", "faultperms", "alias", "aliasperms" (every permutation of the type-alias patterns), "all",
                           \* "layouts" (patterns x Layouts), "layoutfaults" (their faults x Layouts)
          PermAllUpTo      \* sources up to this length are permuted in every way

NS == INSTANCE NatSort WITH Alphabet <- {}, MaxLen <- 0, a <- <<>>, b <- <<>>, c <- <<>>, stage <- 0
ASSUME NamesSorted == \A j \in 1..(Len(NameOrder) - 1) : NS!RefLess(NameBytes[j], NameBytes[j + 1])

VARIABLES pc, src, lay, i, old, new, pend, uses, todo, res, picks
vars == <<pc, src, lay, i, old, new, pend, uses, todo, res, picks>>
View == <<pc, src, lay, i, old, new, pend, uses, todo, res>>

Phases == <<"choose", "index", "createType", "translateType", "translateComdat", "createGlobal",
            "createAttr", "createNmd", "createMd", "translateGlobal", "translateAttr", "translateNmd",
            "translateMd", "ulo", "ulobb", "fixBaddr", "addDefs", "done">>
PhaseNo(p) == CHOOSE k \in 1..Len(Phases) : Phases[k] = p
Succ(p) == Phases[PhaseNo(p) + 1]

GlobKinds == {"global", "alias", "ifunc", "func"}
IndexOf(k) == CASE k \in GlobKinds -> "glob" [] k = "type" -> "type" [] k = "comdat" -> "comdat"
                [] k = "attr" -> "attr" [] k = "nmd" -> "nmd" [] k = "md" -> "md" [] OTHER -> "none"

NoneF == [n \in Names |-> 0]
EmptyOld == [type |-> NoneF, comdat |-> NoneF, glob |-> NoneF, md |-> NoneF,
             attr |-> [n \in Names |-> <<>>], nmd |-> [n \in Names |-> <<>>],
             globOrder |-> <<>>, ulos |-> <<>>, ulobbs |-> <<>>, nextID |-> 0,
             asms |-> <<>>, target |-> [srcfile |-> 0, triple |-> 0, datalayout |-> 0]]
NoneS == [n \in Names |-> "none"]
EmptyNew == [type |-> NoneS, comdat |-> NoneS, glob |-> NoneS, md |-> NoneS, attr |-> NoneS, nmd |-> NoneS,
             tobj |-> [n \in Names |-> [to |-> "", copy |-> FALSE]]]

----------------------------------------------------------------------------
\* Sources: patterns, single-point faults, permutations
\* name under which entity e of s is indexed: unnamed globals get "@k", k = number of unnamed
\* global entities before it (textual numbering, giveUnnamedIdentID)
UnnamedBefore(s, e) == Cardinality({x \in 1..(e - 1) : s[x].k \in GlobKinds /\ s[x].n = ""})
KeyOf(s, e) == IF s[e].k \in GlobKinds /\ s[e].n = "" THEN IdNames[UnnamedBefore(s, e) + 1] ELSE s[e].n

SetRefTo(refs, r, to) == [refs EXCEPT ![r] = [@ EXCEPT !.to = to]]
SetRefAux(refs, r, aux) == [refs EXCEPT ![r] = [@ EXCEPT !.aux = aux]]

\* every reference site of s redirected to the undefined name (one at a time)
RefFaults(s) ==
  LET top == { [s EXCEPT ![e] = [@ EXCEPT !.refs = SetRefTo(@, r, Undef)]] :
                 <<e, r>> \in {<<e, r>> \in (1..Len(s)) \X (1..8) : r <= Len(s[e].refs)} }
      topaux == { [s EXCEPT ![e] = [@ EXCEPT !.refs = SetRefAux(@, r, Undef)]] :
                 <<e, r>> \in {<<e, r>> \in (1..Len(s)) \X (1..8) : r <= Len(s[e].refs) /\ s[e].refs[r].aux # ""} }
      loc == { [s EXCEPT ![e] = [@ EXCEPT !.locals = [@ EXCEPT ![l] = [@ EXCEPT !.refs = SetRefTo(@, r, Undef)]]]] :
                 <<e, l, r>> \in {<<e, l, r>> \in (1..Len(s)) \X (1..16) \X (1..4) :
                                    l <= Len(s[e].locals) /\ r <= Len(s[e].locals[l].refs)} }
      locaux == { [s EXCEPT ![e] = [@ EXCEPT !.locals = [@ EXCEPT ![l] = [@ EXCEPT !.refs = SetRefAux(@, r, Undef)]]]] :
                 <<e, l, r>> \in {<<e, l, r>> \in (1..Len(s)) \X (1..16) \X (1..4) :
                                    l <= Len(s[e].locals) /\ r <= Len(s[e].locals[l].refs) /\ s[e].locals[l].refs[r].aux # ""} }
  IN top \cup topaux \cup loc \cup locaux

\* every definition duplicated (the copy is appended at the end of the module / function)
DupFaults(s) ==
  LET ents == { Append(s, s[e]) : e \in {e \in 1..Len(s) : s[e].k \in GlobKinds \cup {"type", "comdat", "md"} /\ s[e].n # ""} }
      locs == { [s EXCEPT ![e] = [@ EXCEPT !.locals = Append(@, [@[l] EXCEPT !.refs = <<>>])]] :
                  <<e, l>> \in {<<e, l>> \in (1..Len(s)) \X (1..16) : l <= Len(s[e].locals) /\ s[e].locals[l].n # ""
                                                                       /\ s[e].locals[l].lk \in {"inst", "block", "param"}} }
      \* an unnamed global entity defined a second time under the NUMBER it was given (`@0 = ...` twice):
      \* the copy carries the number as its name, so it is rendered with that explicit ID
      unn == { Append(s, [s[e] EXCEPT !.n = KeyOf(s, e)]) : e \in {e \in 1..Len(s) : s[e].k \in GlobKinds /\ s[e].n = ""} }
  IN ents \cup locs \cup unn

\* a definition that something refers to is deleted (the only way to leave an IMPLICIT reference --
\* the bare `comdat` of a global -- without its target); unnamed globals after it are renumbered by
\* the textual numbering, which Canon takes into account
Referenced(s, e) ==
  LET idx == IndexOf(s[e].k) IN
  /\ idx \in {"type", "comdat", "glob", "md"}
  /\ s[e].n # ""
  /\ \E t \in {<<x, 0, r>> : <<x, r>> \in {<<x, r>> \in (1..Len(s)) \X (1..8) : r <= Len(s[x].refs)}}
             \cup {<<x, l, r>> : <<x, l, r>> \in {<<x, l, r>> \in (1..Len(s)) \X (1..16) \X (1..4) : l <= Len(s[x].locals) /\ r <= Len(s[x].locals[l].refs)}} :
        LET rf == IF t[2] = 0 THEN s[t[1]].refs[t[3]] ELSE s[t[1]].locals[t[2]].refs[t[3]] IN
        /\ t[1] # e
        /\ rf.to = s[e].n
        /\ (RefClass(rf.rk) = idx \/ (RefClass(rf.rk) = "block" /\ idx = "glob"))
DelFaults(s) == { [x \in 1..(Len(s) - 1) |-> IF x < e THEN s[x] ELSE s[x + 1]] : e \in {e \in 1..Len(s) : Referenced(s, e)} }

\* two locals of one function given the same name: the later one is renamed after the earlier one
\* and so are the references to it (the only fault left is the double definition)
RenameIn(ls, from, to) ==
  [l \in 1..Len(ls) |-> [ls[l] EXCEPT !.n = IF @ = from THEN to ELSE @,
                                      !.refs = [r \in 1..Len(ls[l].refs) |->
                                                  [ls[l].refs[r] EXCEPT !.to = IF RefClass(ls[l].refs[r].rk) = "local" /\ @ = from THEN to ELSE @,
                                                                        !.aux = IF RefClass(ls[l].refs[r].rk) = "local" /\ @ = from THEN to ELSE @]]]]
ClashFaults(s) ==
  { [s EXCEPT ![e] = [@ EXCEPT !.locals = RenameIn(@, s[e].locals[l2].n, s[e].locals[l1].n)]] :
      <<e, l1, l2>> \in {<<e, l1, l2>> \in (1..Len(s)) \X (1..16) \X (1..16) :
                            /\ l1 < l2 /\ l2 <= Len(s[e].locals)
                            /\ s[e].locals[l1].n # "" /\ s[e].locals[l2].n # "" /\ s[e].locals[l1].n # s[e].locals[l2].n
                            /\ s[e].locals[l1].lk \in {"param", "inst", "invoke", "lpad", "block", "catchswitch", "catchpad", "cleanuppad"}
                            /\ s[e].locals[l2].lk \in {"param", "inst", "invoke", "lpad", "block", "catchswitch", "catchpad", "cleanuppad"}} }

\* references to locals and globals redirected to the quoted numeral "0": a NAME that must not be
\* confused with the unnamed value %0 / @0 that the source may contain
QuotedFaults(s) ==
  LET top == { [s EXCEPT ![e] = [@ EXCEPT !.refs = SetRefTo(@, r, UndefQ)]] :
                 <<e, r>> \in {<<e, r>> \in (1..Len(s)) \X (1..8) : r <= Len(s[e].refs) /\ RefClass(s[e].refs[r].rk) = "glob"} }
      loc == { [s EXCEPT ![e] = [@ EXCEPT !.locals = [@ EXCEPT ![l] = [@ EXCEPT !.refs = SetRefTo(@, r, UndefQ)]]]] :
                 <<e, l, r>> \in {<<e, l, r>> \in (1..Len(s)) \X (1..16) \X (1..4) :
                                    l <= Len(s[e].locals) /\ r <= Len(s[e].locals[l].refs)
                                    /\ RefClass(s[e].locals[l].refs[r].rk) \in {"glob", "local"}} }
  IN top \cup loc

\* every reference to a local, a block (blockaddress / uselistorder_bb) or a global entity redirected to the EMPTY quoted
\* name of its sigil (%"", @""): a name nothing has -- it must not be taken for the entity numbered 0 (whose name field is
\* empty as well), whether or not the source has such an entity
EmptyQuotedFaults(s) ==
  LET top == { [s EXCEPT ![e] = [@ EXCEPT !.refs = SetRefTo(@, r, UndefE)]] :
                 <<e, r>> \in {<<e, r>> \in (1..Len(s)) \X (1..8) : r <= Len(s[e].refs) /\ RefClass(s[e].refs[r].rk) \in {"glob", "block"}} }
      topaux == { [s EXCEPT ![e] = [@ EXCEPT !.refs = SetRefAux(@, r, UndefE)]] :
                 <<e, r>> \in {<<e, r>> \in (1..Len(s)) \X (1..8) : r <= Len(s[e].refs) /\ RefClass(s[e].refs[r].rk) = "block"} }
      loc == { [s EXCEPT ![e] = [@ EXCEPT !.locals = [@ EXCEPT ![l] = [@ EXCEPT !.refs = SetRefTo(@, r, UndefE)]]]] :
                 <<e, l, r>> \in {<<e, l, r>> \in (1..Len(s)) \X (1..16) \X (1..4) :
                                    l <= Len(s[e].locals) /\ r <= Len(s[e].locals[l].refs)
                                    /\ RefClass(s[e].locals[l].refs[r].rk) \in {"glob", "local", "block"}} }
      locaux == { [s EXCEPT ![e] = [@ EXCEPT !.locals = [@ EXCEPT ![l] = [@ EXCEPT !.refs = SetRefAux(@, r, UndefE)]]]] :
                 <<e, l, r>> \in {<<e, l, r>> \in (1..Len(s)) \X (1..16) \X (1..4) :
                                    l <= Len(s[e].locals) /\ r <= Len(s[e].locals[l].refs)
                                    /\ (RefClass(s[e].locals[l].refs[r].rk) = "block" \/ s[e].locals[l].refs[r].aux \notin {"", "implicit"})} }
  IN top \cup topaux \cup loc \cup locaux

FuncsOf(s) == {e \in 1..Len(s) : s[e].k = "func" /\ s[e].locals # <<>>}
LocalNamesOf(f) == {f.locals[l].n : l \in 1..Len(f.locals)} \ {""}
BlockNamesOf(f) == {f.locals[l].n : l \in {l \in 1..Len(f.locals) : f.locals[l].lk = "block"}} \ {""}
\* a local named where no function scope exists: a value `i32 %x` in a module-level metadata node, the value of a
\* module-level use-list order (the name is a local of some function of the source if it has one)
AnyLocal(s) == LET ns == UNION {LocalNamesOf(s[g]) : g \in FuncsOf(s)} IN
               IF ns = {} THEN Undef ELSE CHOOSE n \in ns : \A m \in ns : Rank(n) <= Rank(m)
ModLocalFaults(s) ==
  { [s EXCEPT ![e] = [@ EXCEPT !.refs = Append(@, Ref("l.mdlocal", AnyLocal(s)))]] :
      e \in {e \in 1..Len(s) : s[e].k = "md" /\ s[e].body \in {"tuple", "distinct"}} }
  \cup { [s EXCEPT ![e] = [@ EXCEPT !.refs = <<Ref("l.ulolocal", AnyLocal(s))>>]] : e \in {e \in 1..Len(s) : s[e].k = "ulo"} }
\* metadata / attribute-group references redirected to an ID that does not fit 64 bits
WideIdFaults(s) ==
  { [s EXCEPT ![e] = [@ EXCEPT !.refs = SetRefTo(@, r, UndefW)]] :
      <<e, r>> \in {<<e, r>> \in (1..Len(s)) \X (1..8) : r <= Len(s[e].refs) /\ RefClass(s[e].refs[r].rk) \in {"md", "attr"}} }

\* scope faults: a reference to a local redirected to a name that is a local of ANOTHER function and not of this one; a
\* block reference (blockaddress / uselistorder_bb) redirected to a block that another function has and the named one has
\* not.  A local never resolves outside its own function.
CrossFaults(s) ==
  LET \* one foreign name per reference site (the least in name order)
      Pick1(S) == CHOOSE n \in S : \A m \in S : Rank(n) <= Rank(m)
      ForeignLocals(e) == (UNION {LocalNamesOf(s[g]) : g \in FuncsOf(s) \ {e}}) \ LocalNamesOf(s[e])
      loc == { [s EXCEPT ![t[1]] = [@ EXCEPT !.locals = [@ EXCEPT ![t[2]] = [@ EXCEPT !.refs = SetRefTo(@, t[3], t[4])]]]] :
                 t \in {t \in (1..Len(s)) \X (1..16) \X (1..4) \X Names :
                          /\ t[2] <= Len(s[t[1]].locals) /\ t[3] <= Len(s[t[1]].locals[t[2]].refs)
                          /\ RefClass(s[t[1]].locals[t[2]].refs[t[3]].rk) = "local"
                          /\ ForeignLocals(t[1]) # {} /\ t[4] = Pick1(ForeignLocals(t[1]))} }
      ownerOf(to) == {e \in FuncsOf(s) : KeyOf(s, e) = to}
      foreign(to) == UNION {BlockNamesOf(s[g]) : g \in FuncsOf(s) \ ownerOf(to)} \ UNION {BlockNamesOf(s[g]) : g \in ownerOf(to)}
      top == { [s EXCEPT ![t[1]] = [@ EXCEPT !.refs = SetRefAux(@, t[2], t[3])]] :
                 t \in {t \in (1..Len(s)) \X (1..8) \X Names :
                          /\ t[2] <= Len(s[t[1]].refs) /\ RefClass(s[t[1]].refs[t[2]].rk) = "block"
                          /\ foreign(s[t[1]].refs[t[2]].to) # {} /\ t[3] = Pick1(foreign(s[t[1]].refs[t[2]].to))} }
      locb == { [s EXCEPT ![t[1]] = [@ EXCEPT !.locals = [@ EXCEPT ![t[2]] = [@ EXCEPT !.refs = SetRefAux(@, t[3], t[4])]]]] :
                 t \in {t \in (1..Len(s)) \X (1..16) \X (1..4) \X Names :
                          /\ t[2] <= Len(s[t[1]].locals) /\ t[3] <= Len(s[t[1]].locals[t[2]].refs)
                          /\ RefClass(s[t[1]].locals[t[2]].refs[t[3]].rk) = "block"
                          /\ foreign(s[t[1]].locals[t[2]].refs[t[3]].to) # {} /\ t[4] = Pick1(foreign(s[t[1]].locals[t[2]].refs[t[3]].to))} }
  IN loc \cup top \cup locb

\* references to locals and to blocks (blockaddress / uselistorder_bb) redirected to the bare numeral %0 in a
\* function all of whose values are named: an ID nothing has (it must not be taken for the first named block, whose
\* ID field is also 0)
ValueKinds == {"param", "block", "inst", "lpad", "catchswitch", "catchpad", "cleanuppad"}
AllNamed(f) == f.k = "func" /\ f.locals # <<>> /\ \A l \in 1..Len(f.locals) : f.locals[l].lk \in ValueKinds => f.locals[l].n # ""
FuncNamed(s, n) == \E e \in 1..Len(s) : s[e].k = "func" /\ s[e].n = n /\ AllNamed(s[e])
NumeralFaults(s) ==
  LET topaux == { [s EXCEPT ![e] = [@ EXCEPT !.refs = SetRefAux(@, r, UndefN)]] :
                 <<e, r>> \in {<<e, r>> \in (1..Len(s)) \X (1..8) : r <= Len(s[e].refs) /\ RefClass(s[e].refs[r].rk) = "block"
                                                                        /\ FuncNamed(s, s[e].refs[r].to)} }
      locaux == { [s EXCEPT ![e] = [@ EXCEPT !.locals = [@ EXCEPT ![l] = [@ EXCEPT !.refs = SetRefAux(@, r, UndefN)]]]] :
                 <<e, l, r>> \in {<<e, l, r>> \in (1..Len(s)) \X (1..16) \X (1..4) :
                                    l <= Len(s[e].locals) /\ r <= Len(s[e].locals[l].refs)
                                    /\ RefClass(s[e].locals[l].refs[r].rk) = "block" /\ FuncNamed(s, s[e].locals[l].refs[r].to)} }
      loc == { [s EXCEPT ![e] = [@ EXCEPT !.locals = [@ EXCEPT ![l] = [@ EXCEPT !.refs = SetRefTo(@, r, UndefN)]]]] :
                 <<e, l, r>> \in {<<e, l, r>> \in (1..Len(s)) \X (1..16) \X (1..4) :
                                    l <= Len(s[e].locals) /\ r <= Len(s[e].locals[l].refs)
                                    /\ RefClass(s[e].locals[l].refs[r].rk) = "local" /\ AllNamed(s[e])} }
  IN topaux \cup locaux \cup loc

\* a value numbered %0 by the source although an unnamed value precedes it in the function (the unnamed one IS %0):
\* a second definition of %0 (in the IR an ID of 0 also means "not numbered", which hid it from the validation)
UnnamedValue(lc) == lc.n = "" /\ lc.lk \in {"param", "inst"}
BadZero(f) == \E x, y \in 1..Len(f.locals) : x < y /\ UnnamedValue(f.locals[x]) /\ f.locals[y].n = UndefN
DupZeroFaults(s) ==
  { [s EXCEPT ![e] = [@ EXCEPT !.locals = Append(@, Loc(UndefN, "inst", <<>>))]] :
      e \in {e \in 1..Len(s) : s[e].k = "func" /\ s[e].body = "def" /\ \E l \in 1..Len(s[e].locals) : UnnamedValue(s[e].locals[l])} }

\* permutations of the top-level entities that keep the relative order of unnamed globals and of
\* entities with the same key (attribute groups / named metadata merged in textual order);
\* use-list order directives stay last (LLVM wants their targets defined)
Fixed(e) == e.k \in {"ulo", "ulobb"} \/ e.k \in TargetKinds \/ (e.k \in GlobKinds /\ e.n = "")
PermOK(s, p) ==
  /\ \A x \in 1..Len(s) : Fixed(s[x]) => p[x] = x
  /\ \A x, y \in 1..Len(s) : (x < y /\ s[p[x]].k = s[p[y]].k /\ s[p[x]].n = s[p[y]].n) => p[x] < p[y]
RECURSIVE PermsOf(_)
PermsOf(S) == IF S = {} THEN {<<>>} ELSE UNION {{<<x>> \o q : q \in PermsOf(S \ {x})} : x \in S}
Swap(n, x) == [y \in 1..n |-> IF y = x THEN x + 1 ELSE IF y = x + 1 THEN x ELSE y]
Rot(n, k) == [y \in 1..n |-> ((y + k - 1) % n) + 1]
\* all permutations of short sources; rotations, adjacent swaps and the reversal of longer ones
CandPerms(n) == IF n <= PermAllUpTo THEN PermsOf(1..n)
                ELSE {Rot(n, k) : k \in 0..(n - 1)} \cup {Swap(n, x) : x \in 1..(n - 1)} \cup {[y \in 1..n |-> n + 1 - y]}
Perms(s) == { [x \in 1..Len(s) |-> s[p[x]]] : p \in {q \in CandPerms(Len(s)) : PermOK(s, q)} }

PatternSet == {Patterns[k] : k \in 1..Len(Patterns)}
\* patterns laid out in every way: those with four or more global entities, use-list orders (module- or function-level), strings
LayoutPatterns == {k \in 1..Len(Patterns) : \/ Cardinality({e \in 1..Len(Patterns[k]) : Patterns[k][e].k \in GlobKinds}) >= 4
                                             \/ \E e \in 1..Len(Patterns[k]) : Patterns[k][e].k \in StrKinds \cup {"ulo", "ulobb"}}
LayoutFaultPatterns == {k \in LayoutPatterns : Len(Patterns[k]) <= 4 \/ \E e \in 1..Len(Patterns[k]) : Patterns[k][e].k \in StrKinds}
AllSources ==
  CASE SourceSet = "patterns" -> PatternSet
    [] SourceSet = "faults"   -> UNION {RefFaults(s) \cup DupFaults(s) \cup ClashFaults(s) \cup QuotedFaults(s) \cup DelFaults(s) \cup NumeralFaults(s) \cup DupZeroFaults(s) \cup CrossFaults(s) \cup EmptyQuotedFaults(s) \cup ModLocalFaults(s) \cup WideIdFaults(s) : s \in PatternSet}
    [] SourceSet = "perms"    -> UNION {Perms(s) : s \in PatternSet}
    [] SourceSet = "faultperms" -> UNION {UNION {RefFaults(t) \cup DupFaults(t) \cup ClashFaults(t) : t \in Perms(s)} : s \in {u \in PatternSet : Len(u) <= 5}}
    [] SourceSet = "layouts"  -> {Patterns[k] : k \in LayoutPatterns}
    [] SourceSet = "layoutfaults" -> UNION {RefFaults(Patterns[k]) \cup DupFaults(Patterns[k]) : k \in LayoutFaultPatterns}
    [] SourceSet = "alias"    -> {AliasPatterns[k] : k \in 1..Len(AliasPatterns)}
                                  \cup UNION {RefFaults(AliasPatterns[k]) : k \in 1..Len(AliasPatterns)}
    [] SourceSet = "aliasperms" -> UNION {Perms(AliasPatterns[k]) : k \in 1..Len(AliasPatterns)}
    [] SourceSet = "all"      -> PatternSet \cup UNION {RefFaults(s) \cup DupFaults(s) \cup ClashFaults(s) \cup QuotedFaults(s) \cup DelFaults(s) \cup NumeralFaults(s) \cup DupZeroFaults(s) \cup CrossFaults(s) \cup EmptyQuotedFaults(s) \cup ModLocalFaults(s) \cup WideIdFaults(s) : s \in PatternSet}
                                  \cup {AliasPatterns[k] : k \in 1..Len(AliasPatterns)}

----------------------------------------------------------------------------
\* Closed-form semantics of a source (no notion of processing order)


DefsOf(s, idx) == {e \in 1..Len(s) : IndexOf(s[e].k) = idx}
Defined(s, idx, n) == \E e \in DefsOf(s, idx) : KeyOf(s, e) = n
DefOf(s, idx, n) == CHOOSE e \in DefsOf(s, idx) : KeyOf(s, e) = n

\* follow  %a = type %b  chains; result: name of the defining non-alias type, "cycle" or "undef"
RECURSIVE Chase(_, _, _)
Chase(s, n, seen) ==
  IF ~Defined(s, "type", n) THEN "undef"
  ELSE LET e == s[DefOf(s, "type", n)] IN
       IF e.body # "alias" THEN n
       ELSE IF n \in seen THEN "cycle" ELSE Chase(s, e.refs[1].to, seen \cup {n})

\* the key of a local: its name; the FIRST unnamed value of a function (parameter, block or instruction) is %0, which
\* references spell as the bare numeral UndefN (later unnamed values are not referenced by the patterns)
NumberedKinds == {"param", "block", "inst", "lpad", "catchswitch", "catchpad", "cleanuppad"}
LocalKey(e, l) == IF e.locals[l].n # "" THEN e.locals[l].n
                  ELSE IF e.locals[l].lk \in NumberedKinds /\ ~\E x \in 1..(l - 1) : e.locals[x].n = "" /\ e.locals[x].lk \in NumberedKinds
                       THEN UndefN ELSE ""
LocalNames(e) == {LocalKey(e, l) : l \in 1..Len(e.locals)} \ {""}
BlockNames(e) == {LocalKey(e, l) : l \in {l \in 1..Len(e.locals) : e.locals[l].lk = "block"}} \ {""}
\* a reference resolves iff its target is defined in the index of its class
RefDefined(s, e, r) ==
  LET c == RefClass(r.rk) IN
  CASE c = "attr"  -> TRUE                                   \* documented exception: materialised
    [] c = "local" -> r.to \in LocalNames(s[e]) /\ (r.aux = "" \/ r.aux \in LocalNames(s[e]))
    [] c = "block" -> /\ Defined(s, "glob", r.to)
                      /\ LET f == s[DefOf(s, "glob", r.to)] IN f.k = "func" /\ r.aux \in BlockNames(f)
    [] c = "type"  -> IF r.rk = "ty.alias" THEN Chase(s, r.to, {}) \notin {"undef", "cycle"}
                      ELSE Defined(s, "type", r.to) /\ Chase(s, r.to, {}) \notin {"undef", "cycle"}
    [] OTHER       -> Defined(s, c, r.to)
AllRefs(s) == { <<e, 0, r>> : <<e, r>> \in {<<e, r>> \in (1..Len(s)) \X (1..8) : r <= Len(s[e].refs)} }
              \cup { <<e, l, r>> : <<e, l, r>> \in {<<e, l, r>> \in (1..Len(s)) \X (1..16) \X (1..4) :
                                                     l <= Len(s[e].locals) /\ r <= Len(s[e].locals[l].refs)} }
RefAt(s, t) == IF t[2] = 0 THEN s[t[1]].refs[t[3]] ELSE s[t[1]].locals[t[2]].refs[t[3]]
HasUndef(s) == \E t \in AllRefs(s) : ~RefDefined(s, t[1], RefAt(s, t))

\* duplicate definitions: same index and key twice (attribute groups and named metadata merge)
DupIdx == {"type", "comdat", "glob", "md"}
HasDupTop(s) == \E x, y \in 1..Len(s) : x < y /\ IndexOf(s[x].k) \in DupIdx
                    /\ IndexOf(s[x].k) = IndexOf(s[y].k) /\ KeyOf(s, x) = KeyOf(s, y)
HasDupLocal(s) == \/ \E e \in 1..Len(s) : \E x, y \in 1..Len(s[e].locals) :
                          x < y /\ s[e].locals[x].n # "" /\ s[e].locals[x].n = s[e].locals[y].n
                  \/ \E e \in 1..Len(s) : BadZero(s[e])
HasAliasCycle(s) == \E e \in DefsOf(s, "type") : s[e].body = "alias" /\ Chase(s, s[e].n, {}) = "cycle"

\* sorting a finite set of names by Rank
RECURSIVE SortNames(_)
SortNames(S) == IF S = {} THEN <<>>
                ELSE LET m == CHOOSE x \in S : \A y \in S : Rank(x) <= Rank(y) IN <<m>> \o SortNames(S \ {m})
RECURSIVE Concat(_)
Concat(ss) == IF ss = <<>> THEN <<>> ELSE Head(ss) \o Concat(Tail(ss))
KeysOfKind(s, k) == [x \in 1..Cardinality({e \in 1..Len(s) : s[e].k = k}) |->
                       LET e == CHOOSE e \in 1..Len(s) : s[e].k = k /\ Cardinality({y \in 1..e : s[y].k = k}) = x IN KeyOf(s, e)]
NmdNodes(s, n) == LET ds == [x \in 1..Cardinality({e \in 1..Len(s) : s[e].k = "nmd" /\ s[e].n = n}) |->
                               CHOOSE e \in 1..Len(s) : s[e].k = "nmd" /\ s[e].n = n
                                                        /\ Cardinality({y \in 1..e : s[y].k = "nmd" /\ s[y].n = n}) = x]
                  IN Concat([x \in 1..Len(ds) |-> [r \in 1..Len(s[ds[x]].refs) |-> s[ds[x]].refs[r].to]])
NamesOfIdx(s, idx) == {KeyOf(s, e) : e \in DefsOf(s, idx)}
\* the bodies of all definitions of attribute group n, in textual order (the harness splits them into
\* attributes and drops repeated ones, as irAttrGroupDef's `present` map does)
AttrBodies(s, n) == LET k == Cardinality({e \in 1..Len(s) : s[e].k = "attr" /\ s[e].n = n}) IN
                    [x \in 1..k |-> s[CHOOSE e \in 1..Len(s) : s[e].k = "attr" /\ s[e].n = n
                                                /\ Cardinality({y \in 1..e : s[y].k = "attr" /\ s[y].n = n}) = x].body]

\* string entities: module asm lines in textual order; of the target definitions of a kind the last one counts
SeqOfKind(s, k) == [x \in 1..Cardinality({e \in 1..Len(s) : s[e].k = k}) |->
                      CHOOSE e \in 1..Len(s) : s[e].k = k /\ Cardinality({y \in 1..e : s[y].k = k}) = x]
LastOfKind(s, k, l) == LET es == {e \in 1..Len(s) : s[e].k = k} IN
                       IF es = {} THEN <<"", "">> ELSE StrVal(s[CHOOSE e \in es : \A y \in es : y <= e].body, l)
\* string constants (c"..." initialisers, metadata strings) with their values, in textual order
StrEnts(s) == SelectSeq([e \in 1..Len(s) |-> e], LAMBDA e : s[e].body \in {"cstr", "mdstr"})
ModuleOf(s, l) ==
               [ asms    |-> [x \in 1..Len(SeqOfKind(s, "asm")) |-> StrVal(s[SeqOfKind(s, "asm")[x]].body, l)],
                 srcfile |-> LastOfKind(s, "srcfile", l), triple |-> LastOfKind(s, "triple", l), datalayout |-> LastOfKind(s, "datalayout", l),
                 strs    |-> [x \in 1..Len(StrEnts(s)) |-> [k |-> s[StrEnts(s)[x]].k, key |-> KeyOf(s, StrEnts(s)[x]), val |-> StrVal("ml", l)]],
                 types   |-> SortNames(NamesOfIdx(s, "type")),
                 comdats |-> SortNames(NamesOfIdx(s, "comdat")),
                 globals |-> KeysOfKind(s, "global"), aliases |-> KeysOfKind(s, "alias"),
                 ifuncs  |-> KeysOfKind(s, "ifunc"),  funcs   |-> KeysOfKind(s, "func"),
                 attrs   |-> SortNames(NamesOfIdx(s, "attr")),
                 attrBodies |-> [x \in 1..Cardinality(NamesOfIdx(s, "attr")) |-> AttrBodies(s, SortNames(NamesOfIdx(s, "attr"))[x])],
                 nmds    |-> SortNames(NamesOfIdx(s, "nmd")),
                 nmdNodes |-> [x \in 1..Cardinality(NamesOfIdx(s, "nmd")) |-> NmdNodes(s, SortNames(NamesOfIdx(s, "nmd"))[x])],
                 mds     |-> SortNames(NamesOfIdx(s, "md")) ]

Canon(s, l) == IF HasDupTop(s) \/ HasDupLocal(s) \/ HasUndef(s) \/ HasAliasCycle(s)
            THEN [st |-> "err"] ELSE [st |-> "ok", mod |-> ModuleOf(s, l)]

----------------------------------------------------------------------------
\* The machine
Init == /\ pc = "choose" /\ src = <<>> /\ lay = PlainLayout /\ i = 1 /\ old = EmptyOld /\ new = EmptyNew /\ pend = {}
        /\ uses = {} /\ todo = {} /\ res = [st |-> "run"] /\ picks = <<>>

Choose == /\ pc = "choose"
          /\ src' \in AllSources
          /\ lay' \in IF SourceSet \in {"layouts", "layoutfaults"} THEN {Layouts[k] : k \in 2..Len(Layouts)} ELSE {PlainLayout}
          /\ pc' = "index"
          /\ UNCHANGED <<i, old, new, pend, uses, todo, res, picks>>

Fail(st) == /\ res' = [st |-> st] /\ pc' = "done" /\ pend' = {}

\* phase 1: index the entities in textual order (indexTopLevelEntities)
PendOf(p, o) ==
  CASE p \in {"createType", "translateType"} -> {n \in Names : o.type[n] # 0}
    [] p = "translateComdat" -> {n \in Names : o.comdat[n] # 0}
    [] p \in {"createGlobal", "translateGlobal"} -> {n \in Names : o.glob[n] # 0}
    [] p \in {"createAttr", "translateAttr"} -> {n \in Names : o.attr[n] # <<>>}
    [] p \in {"createNmd", "translateNmd"} -> {n \in Names : o.nmd[n] # <<>>}
    [] p \in {"createMd", "translateMd"} -> {n \in Names : o.md[n] # 0}
    [] OTHER -> {}

\* enter phase p; phases whose index is empty are passed through at once
RECURSIVE Enter(_, _)
Enter(p, o) == IF p \in {"ulo", "ulobb", "fixBaddr", "addDefs", "done"} \/ PendOf(p, o) # {} THEN p ELSE Enter(Succ(p), o)

Index ==
  /\ pc = "index"
  /\ IF i > Len(src)
     THEN /\ pc' = Enter("createType", old) /\ pend' = PendOf(Enter("createType", old), old)
          /\ UNCHANGED <<old, res>>
     ELSE LET e == src[i]  idx == IndexOf(e.k) IN
          CASE idx = "type" ->
                 IF old.type[e.n] # 0     \* (before the repair 3e90b41 a definition after `opaque` was accepted)
                 THEN Fail("err") /\ UNCHANGED old
                 ELSE old' = [old EXCEPT !.type[e.n] = i] /\ UNCHANGED <<pc, pend, res>>
            [] idx \in {"comdat", "md"} ->
                 IF old[idx][e.n] # 0 THEN Fail("err") /\ UNCHANGED old
                 ELSE old' = [old EXCEPT ![idx][e.n] = i] /\ UNCHANGED <<pc, pend, res>>
            [] idx = "glob" ->
                 LET key == IF e.n = "" THEN IdNames[old.nextID + 1] ELSE e.n IN
                 IF old.glob[key] # 0 THEN Fail("err") /\ UNCHANGED old
                 ELSE old' = [old EXCEPT !.glob[key] = i, !.globOrder = Append(@, key),
                                         !.nextID = IF e.n = "" THEN @ + 1 ELSE @]
                      /\ UNCHANGED <<pc, pend, res>>
            [] idx \in {"attr", "nmd"} ->
                 old' = [old EXCEPT ![idx][e.n] = Append(@, i)] /\ UNCHANGED <<pc, pend, res>>
            [] e.k = "asm"   -> old' = [old EXCEPT !.asms = Append(@, i)] /\ UNCHANGED <<pc, pend, res>>
            [] e.k \in TargetKinds -> old' = [old EXCEPT !.target[e.k] = i] /\ UNCHANGED <<pc, pend, res>>   \* the last one wins
            [] e.k = "ulo"   -> old' = [old EXCEPT !.ulos = Append(@, i)] /\ UNCHANGED <<pc, pend, res>>
            [] e.k = "ulobb" -> old' = [old EXCEPT !.ulobbs = Append(@, i)] /\ UNCHANGED <<pc, pend, res>>
  /\ i' = IF i > Len(src) THEN i ELSE i + 1
  /\ UNCHANGED <<src, lay, new, uses, todo, picks>>

\* chase of alias types over the AST index, as newType does
RECURSIVE ChaseOld(_, _)
ChaseOld(n, seen) ==
  IF old.type[n] = 0 THEN "undef"
  ELSE LET e == src[old.type[n]] IN
       IF e.body # "alias" THEN n ELSE IF n \in seen THEN "cycle" ELSE ChaseOld(e.refs[1].to, seen \cup {n})

\* lookup of one reference in the IR indices; "ok" | "err" | "materialise"
Lookup(e, r) ==
  LET c == RefClass(r.rk) IN
  CASE c = "type"   -> IF new.type[r.to] = "none" THEN "err" ELSE "ok"
    [] c = "glob"   -> IF new.glob[r.to] = "none" THEN "err" ELSE "ok"
    [] c = "comdat" -> IF new.comdat[r.to] = "none" THEN "err" ELSE "ok"
    [] c = "md"     -> IF new.md[r.to] = "none" THEN "err" ELSE "ok"
    [] c = "attr"   -> IF new.attr[r.to] = "none" THEN "materialise" ELSE "ok"
    [] c = "local"  -> IF r.to \in LocalNames(e) /\ (r.aux = "" \/ r.aux \in LocalNames(e)) THEN "ok" ELSE "err"
    [] c = "block"  -> IF new.glob[r.to] = "none" THEN "err" ELSE "ok"   \* the block is checked later (todo)
\* object a resolved reference is bound to
ObjOf(r) == IF RefClass(r.rk) = "type" THEN new.tobj[r.to] ELSE [to |-> r.to, copy |-> FALSE]

RefsOfEntity(e, which) ==
  { <<0, r>> : r \in {r \in 1..Len(e.refs) : which[IF IsSigRef(e.refs[r].rk) THEN 1 ELSE 2]} }
  \cup (IF which[2] THEN { <<l, r>> : <<l, r>> \in {<<l, r>> \in (1..Len(e.locals)) \X (1..4) : r <= Len(e.locals[l].refs)} } ELSE {})
RefOf(e, t) == IF t[1] = 0 THEN e.refs[t[2]] ELSE e.locals[t[1]].refs[t[2]]

\* leave entity n: last of its phase => enter the next phase that has work
Finish(n) == LET rest == pend \ {n}  nxt == Enter(Succ(pc), old) IN
             IF rest = {} THEN pc' = nxt /\ pend' = PendOf(nxt, old) ELSE pc' = pc /\ pend' = rest
Mark(idx, n, st) == new' = [new EXCEPT ![idx][n] = st] /\ UNCHANGED <<uses, todo, res>> /\ Finish(n)

\* resolve the references `rs` of entity number en (indexed as n in idx); effects on new / uses /
\* todo, or failure
Resolve(en, rs, idx, n, st) ==
  LET e == src[en]
      dupLocal == pc = "translateGlobal" /\ ((\E x, y \in 1..Len(e.locals) : x < y /\ e.locals[x].n # "" /\ e.locals[x].n = e.locals[y].n)
                                              \/ BadZero(e))
      bad == {t \in rs : Lookup(e, RefOf(e, t)) = "err"}
      mat == {RefOf(e, t).to : t \in {t \in rs : Lookup(e, RefOf(e, t)) = "materialise"}}
      new1 == [new EXCEPT !.attr = [m \in Names |-> IF m \in mat THEN "materialised" ELSE @[m]]]
  IN IF dupLocal \/ bad # {}
     THEN Fail("err") /\ UNCHANGED <<new, uses, todo>>
     ELSE /\ uses' = uses \cup { [e |-> en, l |-> t[1], r |-> t[2], obj |-> ObjOf(RefOf(e, t))] :
                                   t \in {t \in rs : RefClass(RefOf(e, t).rk) # "local"} }
          /\ todo' = todo \cup { <<RefOf(e, t).to, RefOf(e, t).aux>> : t \in {t \in rs : RefOf(e, t).rk = "l.baddr"} }
          /\ new' = [new1 EXCEPT ![idx][n] = st]
          /\ UNCHANGED res
          /\ Finish(n)

PickPhases == {"createType", "translateType", "translateComdat", "createGlobal", "createAttr", "createNmd", "createMd",
               "translateGlobal", "translateAttr", "translateNmd", "translateMd"}
Pick(n) ==
  /\ pc \in PickPhases
  /\ n \in pend
  /\ picks' = Append(picks, <<pc, n>>)
  /\ UNCHANGED <<src, lay, i, old>>
  /\ CASE pc = "createType" ->
            LET tgt == ChaseOld(n, {}) IN
            IF tgt = "cycle" THEN Fail("err") /\ UNCHANGED <<new, uses, todo>>
            ELSE IF tgt = "undef"
                 THEN Fail("err") /\ UNCHANGED <<new, uses, todo>>   \* (before the repair 593ec85: nil dereference)
                 ELSE /\ new' = [new EXCEPT !.type[n] = "scaffold",
                                            !.tobj[n] = [to |-> tgt, copy |-> AsImplemented /\ tgt # n]]
                      /\ UNCHANGED <<uses, todo, res>> /\ Finish(n)
       [] pc = "translateType" ->
            IF src[old.type[n]].body = "alias" THEN Mark("type", n, "filled")
            ELSE Resolve(old.type[n], RefsOfEntity(src[old.type[n]], <<TRUE, TRUE>>), "type", n, "filled")
       [] pc = "translateComdat" -> Mark("comdat", n, "filled")
       [] pc = "createGlobal" -> Resolve(old.glob[n], RefsOfEntity(src[old.glob[n]], <<TRUE, FALSE>>), "glob", n, "scaffold")
       [] pc = "createAttr" -> Mark("attr", n, "scaffold")
       [] pc = "createNmd"  -> Mark("nmd", n, "scaffold")
       [] pc = "createMd"   -> Mark("md", n, "scaffold")
       [] pc = "translateGlobal" -> Resolve(old.glob[n], RefsOfEntity(src[old.glob[n]], <<FALSE, TRUE>>), "glob", n, "filled")
       [] pc = "translateAttr" -> Mark("attr", n, "filled")
       [] pc = "translateNmd" ->
            \* the definitions of one name are translated in textual order; all must resolve
            LET ds == old.nmd[n]
                bad == \E x \in 1..Len(ds) : \E r \in 1..Len(src[ds[x]].refs) : new.md[src[ds[x]].refs[r].to] = "none" IN
            IF bad THEN Fail("err") /\ UNCHANGED <<new, uses, todo>>
            ELSE /\ new' = [new EXCEPT !.nmd[n] = "filled"]
                 /\ uses' = uses \cup { [e |-> ds[x[1]], l |-> 0, r |-> x[2], obj |-> [to |-> src[ds[x[1]]].refs[x[2]].to, copy |-> FALSE]] :
                                          x \in {x \in (1..Len(ds)) \X (1..8) : x[2] <= Len(src[ds[x[1]]].refs)} }
                 /\ UNCHANGED <<todo, res>> /\ Finish(n)
       [] pc = "translateMd" -> Resolve(old.md[n], RefsOfEntity(src[old.md[n]], <<TRUE, TRUE>>), "md", n, "filled")

\* steps 5-7: use-list orders in textual order, then the blockaddress fix-ups
BlockDefined(f, bname) == old.glob[f] # 0 /\ src[old.glob[f]].k = "func" /\ bname \in BlockNames(src[old.glob[f]])
Tail3 ==
  /\ pc \in {"ulo", "ulobb", "fixBaddr"}
  /\ UNCHANGED <<src, lay, i, old, new, uses, picks>>
  /\ CASE pc = "ulo" ->
            \* the directive's value is translated here: a global is looked up; a blockaddress constant
            \* looks up its function and is queued for the block fix-up of step 7
            LET rs == [x \in 1..Len(old.ulos) |-> src[old.ulos[x]].refs[1]] IN
            IF \E x \in 1..Len(rs) : new.glob[rs[x].to] = "none" \/ RefClass(rs[x].rk) = "local"   \* no function scope here
            THEN Fail("err") /\ UNCHANGED todo
            ELSE /\ pc' = "ulobb" /\ UNCHANGED <<res, pend>>
                 /\ todo' = todo \cup { <<rs[x].to, rs[x].aux>> : x \in {x \in 1..Len(rs) : rs[x].rk = "l.baddr"} }
       [] pc = "ulobb" ->
            IF \E x \in 1..Len(old.ulobbs) : ~BlockDefined(src[old.ulobbs[x]].refs[1].to, src[old.ulobbs[x]].refs[1].aux)
            THEN Fail("err") /\ UNCHANGED todo ELSE pc' = "fixBaddr" /\ UNCHANGED <<res, pend, todo>>
       [] pc = "fixBaddr" ->
            IF \E t \in todo : ~BlockDefined(t[1], t[2])
            THEN Fail("err") /\ UNCHANGED todo ELSE pc' = "addDefs" /\ UNCHANGED <<res, pend, todo>>

\* step 8: assemble the module (addDefsToModule): types and comdats in natural order, attribute
\* groups and metadata by ID, globals in recorded textual order, all from the AST indices
KindSeq(k) == SelectSeq(old.globOrder, LAMBDA n : src[old.glob[n]].k = k)
TargetVal(k) == IF old.target[k] = 0 THEN <<"", "">> ELSE StrVal(src[old.target[k]].body, lay)
AddDefs ==
  /\ pc = "addDefs"
  /\ res' = [st |-> "ok",
             mod |-> [ asms    |-> [x \in 1..Len(old.asms) |-> StrVal(src[old.asms[x]].body, lay)],
                       srcfile |-> TargetVal("srcfile"), triple |-> TargetVal("triple"), datalayout |-> TargetVal("datalayout"),
                       strs    |-> LET es == SelectSeq([e \in 1..Len(src) |-> e], LAMBDA e : src[e].body \in {"cstr", "mdstr"}) IN
                                   [x \in 1..Len(es) |-> [k |-> src[es[x]].k, key |-> KeyOf(src, es[x]), val |-> StrVal("ml", lay)]],
                       types   |-> SortNames({n \in Names : old.type[n] # 0}),
                       comdats |-> SortNames({n \in Names : old.comdat[n] # 0}),
                       globals |-> KindSeq("global"), aliases |-> KindSeq("alias"),
                       ifuncs  |-> KindSeq("ifunc"),  funcs   |-> KindSeq("func"),
                       attrs   |-> SortNames({n \in Names : old.attr[n] # <<>>}),
                       attrBodies |-> LET ns == SortNames({n \in Names : old.attr[n] # <<>>}) IN
                                      [x \in 1..Len(ns) |-> [y \in 1..Len(old.attr[ns[x]]) |-> src[old.attr[ns[x]][y]].body]],
                       nmds    |-> SortNames({n \in Names : old.nmd[n] # <<>>}),
                       nmdNodes |-> LET ns == SortNames({n \in Names : old.nmd[n] # <<>>}) IN
                                    [x \in 1..Len(ns) |-> Concat([y \in 1..Len(old.nmd[ns[x]]) |->
                                        [r \in 1..Len(src[old.nmd[ns[x]][y]].refs) |-> src[old.nmd[ns[x]][y]].refs[r].to]])],
                       mds     |-> SortNames({n \in Names : old.md[n] # 0}) ]]
  /\ pc' = "done"
  /\ UNCHANGED <<src, lay, i, old, new, pend, uses, todo, picks>>

Next == Choose \/ Index \/ (\E n \in Names : Pick(n)) \/ Tail3 \/ AddDefs
Spec == Init /\ [][Next]_vars

----------------------------------------------------------------------------
\* Properties
Done == pc = "done"
\* C12 (confluence) and C05 (error exactly on undefined / duplicate names)
Deterministic == Done => res = Canon(src, lay)
ErrorOnFault == Done /\ (HasUndef(src) \/ HasDupTop(src) \/ HasDupLocal(src)) => res.st = "err"
NeverCrash == res.st # "crash"
\* C04: every resolved reference is bound to the defining object itself (no look-alike copy), and
\* no blockaddress keeps its dummy
RefIdentity == \A u \in uses : ~u.obj.copy
NoDummyLeft == Done /\ res.st = "ok" => \A t \in todo : BlockDefined(t[1], t[2])
\* every lookup happens after the scaffold of every entity of that index was created
ScaffoldBeforeUse ==
  /\ pc \in {"translateGlobal", "translateAttr", "translateNmd", "translateMd", "ulo", "ulobb", "fixBaddr", "addDefs"} /\ res.st = "run"
       => \A n \in Names : (old.glob[n] # 0 => new.glob[n] # "none") /\ (old.md[n] # 0 => new.md[n] # "none")
  /\ pc \in {"translateType"} /\ res.st = "run" => \A n \in Names : old.type[n] # 0 => new.type[n] # "none"
\* C20: the assembled module lists its definitions in canonical order
CanonOrder == Done /\ res.st = "ok" => res.mod = ModuleOf(src, lay)
\* C20: textual order is the lexicographic order of the (line, column) positions the layout gives the entities --
\* whatever the indentation and however many definitions share a line -- and the recorded order of the global
\* entities is that order
TextualIsPositional ==
  /\ \A x, y \in 1..Len(src) : x < y => PosLess(Pos(lay, x, Len(src)), Pos(lay, y, Len(src)))
  /\ \A x, y \in 1..Len(old.globOrder) : x < y =>
        PosLess(Pos(lay, old.glob[old.globOrder[x]], Len(src)), Pos(lay, old.glob[old.globOrder[y]], Len(src)))
\* vacuity guards (negated in TranslateVacuity.cfg)
NeverOk == ~(Done /\ res.st = "ok")
NeverErr == ~(Done /\ res.st = "err")

\* vector emission: one line per finished run of a distinct source (first order reached)
Emit == (pc' = "done" /\ pc # "done") =>
          Serialize(ToJson([src |-> src', lay |-> lay', want |-> Canon(src', lay'), got |-> res', picks |-> picks']) \o "\n", "vectors.ndjson",
                    [format |-> "TXT", charset |-> "UTF-8", openOptions |-> <<"WRITE", "CREATE", "APPEND">>]).exitValue = 0
=============================================================================
