SPECIFICATION Spec
CONSTANTS
  DenseLens = {1100}
  DenseExplicit = {0, 1024}
  Emit = FALSE
INVARIANTS WideLaws WideIdempotent WideAssignedSmall WideTokensIdentify ScaleInjective EmitVector
CHECK_DEADLOCK FALSE
