SPECIFICATION Spec
CONSTANTS
  DenseLens = {1100}
  Emit = FALSE
INVARIANTS WideLaws WideIdempotent WideAssignedSmall WideTokensIdentify ScaleInjective EmitVector
CHECK_DEADLOCK FALSE
