\* IRState with the *exact* metadata IDs compared (ObserverTransparentLiteral): violated by the code as it
\* is -- an ID stored by a print is kept by the next print like an explicit one.  Kept as a documented
\* expectation (harness/props/c14 runs it as a guard); the constants are overridden by the harness.
SPECIFICATION Spec
CONSTANTS
  ValidateOnPrint = FALSE
  EagerType = TRUE
  MdVariant = "code"
  AssignAllFirst = TRUE
  OperandsMemo = FALSE
  RenameTaken = FALSE
  HeaderBeforeAssign = FALSE
  GlobalRefresh = "fields"
  AllocaRefresh = "fields"
  MaxCalls = 5
  Groups = {"globals", "aliases", "ifuncs"}
  MaxPerGroup = 1
  MaxFuncs = 1
  MaxParams = 1
  MaxBlocks = 2
  MaxInsts = 2
  NewNames = {"", "x"}
  SetNames = {"", "y"}
  InstRes = {"value", "void", "none"}
  InstOps = {}
  RefTargets = {}
  RefGlobals = FALSE
  FieldEdits = {}
  TermKinds = {"ret", "invoke"}
  MaxMd = 0
  MdExplicit = {}
  MdAttach = FALSE
  MaxSrc = 0
  TrackQueries = FALSE
  StickyQueries = FALSE
  Preset = ""
  IndirectRefresh = "never"
  UnlockOnPanic = TRUE
  CountMemo = FALSE
  EmptyType = "panic"
  LitRetype = FALSE
  DepKinds = {}
  Edits = {}
  TrustCachedID = FALSE
  PrintReadsTyp = FALSE
  Observers = {"PrintModule", "PrintFunc", "PrintBlock", "QueryType", "QueryIdent", "QueryOperands", "QuerySuccs"}
  EmitFile = "transitions.ndjson"
VIEW View
INVARIANTS TypeOK ObserverTransparentLiteral
CHECK_DEADLOCK FALSE
