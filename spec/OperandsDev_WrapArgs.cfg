SPECIFICATION Spec
CONSTANTS
  Dev = {"wrap-args"}
  MaxCalls = 3
  Classes = FALSE
  MaxOps = 5
INVARIANTS Complete
VIEW View
CHECK_DEADLOCK FALSE
