SPECIFICATION Spec
CONSTANTS
  WithCExprs = FALSE
INVARIANTS CaseOK Emit
CHECK_DEADLOCK FALSE
