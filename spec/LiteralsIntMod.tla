---------------------------- MODULE LiteralsIntMod ----------------------------
(***************************************************************************)
(* C09, spec -> code: modules with SEVERAL integer literals.               *)
(*                                                                         *)
(* The denotation of a literal is a function of (width, text) and of       *)
(* nothing else: not of the other literals of the module, not of their     *)
(* order, not of what was parsed before.  LiteralsInt.tla feeds every      *)
(* literal alone; this machine builds module contents `mod`, a sequence of *)
(* entries [w, lit], in three families, and emits each complete module     *)
(* with the value required for every entry (IntDenote of the entry alone): *)
(*                                                                         *)
(*  "same-text"  one literal text (a spelling of a boundary value of a     *)
(*               width of TextWidths) at 2..MaxSame widths of ModWidths at *)
(*               which it denotes, in every order, repetition of a width   *)
(*               included: s0xFF at i8 then i16, at i16 then i8, ...       *)
(*  "notations"  every spelling of one boundary value at one width, in a   *)
(*               fixed order and reversed: several distinct literals of    *)
(*               one width, all notations, the same value                  *)
(*  "values"     one notation, the boundary values of one width in order   *)
(*               and reversed: distinct literals, distinct values          *)
(*                                                                         *)
(* The harness renders each module in three layouts (one global per entry; *)
(* one struct constant with a field per entry; one function with an add    *)
(* per entry), parses it with asm.ParseString and compares every value     *)
(* exactly; the printed module is parsed again.                            *)
(*                                                                         *)
(* Design-level check.  CachedParse models a translator that remembers     *)
(* literal values in a per-parse cache; CacheKey says what the cache is    *)
(* keyed by.  "none" (no cache) and "width+text" satisfy CacheSound;       *)
(* "text" (LiteralsIntModCache.cfg) is violated by i8 s0xFF ; i16 s0xFF -- *)
(* any state shared between literals that is keyed too coarsely shows up   *)
(* as a module whose reading differs from the readings of its entries.     *)
(*                                                                         *)
(* Variables: fam, mod, done (mod is a complete module), stage.            *)
(***************************************************************************)
EXTENDS Literals, Json

CONSTANTS TextWidths,   \* widths whose boundary values supply the literal texts
          ModWidths,    \* widths at which a text is used / modules of one width are built
          MaxSame,      \* longest "same-text" module
          CacheKey,     \* "none", "width+text", "text"
          EmitFile      \* "" or "stdout"

VARIABLES fam, mod, done, stage
vars == <<fam, mod, done, stage>>

\* boundary values of a width, as a sequence: min, -2, -1, 0, 1, 2, max signed, max signed + 1, max
BoundarySeq(ww) ==
  LET cand == <<IntVal(TRUE, Pow2Nat(ww - 1)), IntVal(TRUE, <<2>>), IntVal(TRUE, <<1>>),
                IntVal(FALSE, <<>>), IntVal(FALSE, <<1>>), IntVal(FALSE, <<2>>),
                IntVal(FALSE, NatSub(Pow2Nat(ww - 1), <<1>>)),
                IntVal(FALSE, Pow2Nat(ww - 1)),
                IntVal(FALSE, NatSub(Pow2Nat(ww), <<1>>))>>
  IN SelectSeq(cand, LAMBDA v : Representable(ww, v))
\* a sequence without repeated elements (keeps the first occurrence)
RECURSIVE Dedup(_, _)
Dedup(sq, acc) == IF sq = <<>> THEN acc
                  ELSE IF \E i \in 1..Len(acc) : acc[i] = Head(sq) THEN Dedup(Tail(sq), acc)
                  ELSE Dedup(Tail(sq), Append(acc, Head(sq)))
Boundary(ww) == Dedup(BoundarySeq(ww), <<>>)
BoundarySet(ww) == {Boundary(ww)[i] : i \in 1..Len(Boundary(ww))}

TagOrder == <<"dec", "dec-leading-zeros", "dec-minus-zero", "u0x", "u0x-lower", "u0x-leading-zero",
              "u0x-long", "s0x", "s0x-lower", "s0x-long", "s0x-short", "bool">>
LitOf(ww, v, tg) == (CHOOSE n \in Notations(ww, v) : n.tag = tg).lit
HasTag(ww, v, tg) == \E n \in Notations(ww, v) : n.tag = tg
Reverse(sq) == [i \in 1..Len(sq) |-> sq[Len(sq) + 1 - i]]
Entry(ww, l) == [w |-> ww, lit |-> l]

Texts == UNION {UNION {{n.lit : n \in Notations(w0, v)} : v \in BoundarySet(w0)} : w0 \in TextWidths}

NotationsModule(ww, v) ==
  Dedup([i \in 1..Len(SelectSeq(TagOrder, LAMBDA tg : HasTag(ww, v, tg))) |->
           Entry(ww, LitOf(ww, v, SelectSeq(TagOrder, LAMBDA tg : HasTag(ww, v, tg))[i]))], <<>>)
ValuesModule(ww, tg) ==
  LET vs == SelectSeq(Boundary(ww), LAMBDA v : HasTag(ww, v, tg))
  IN Dedup([i \in 1..Len(vs) |-> Entry(ww, LitOf(ww, vs[i], tg))], <<>>)

Init == fam = "" /\ mod = <<>> /\ done = FALSE /\ stage = 0
Next ==
  \/ stage = 0 /\ fam' \in {"same-text", "notations", "values"} /\ stage' = 1 /\ UNCHANGED <<mod, done>>
  \* same-text: choose the text with its first width, then append further widths
  \/ stage = 1 /\ fam = "same-text"
       /\ \E l \in Texts, ww \in ModWidths : IntDenote(ww, l).ok /\ mod' = <<Entry(ww, l)>>
       /\ stage' = 2 /\ UNCHANGED <<fam, done>>
  \/ stage = 2 /\ fam = "same-text" /\ Len(mod) < MaxSame
       /\ \E ww \in ModWidths : IntDenote(ww, mod[1].lit).ok /\ mod' = Append(mod, Entry(ww, mod[1].lit))
       /\ done' = TRUE /\ UNCHANGED <<fam, stage>>
  \/ stage = 1 /\ fam = "notations"
       /\ \E ww \in ModWidths : \E v \in BoundarySet(ww), rev \in BOOLEAN :
             LET m == NotationsModule(ww, v) IN Len(m) >= 2 /\ mod' = (IF rev THEN Reverse(m) ELSE m)
       /\ done' = TRUE /\ stage' = 3 /\ UNCHANGED fam
  \/ stage = 1 /\ fam = "values"
       /\ \E ww \in ModWidths, i \in 1..Len(TagOrder), rev \in BOOLEAN :
             LET m == ValuesModule(ww, TagOrder[i]) IN Len(m) >= 2 /\ mod' = (IF rev THEN Reverse(m) ELSE m)
       /\ done' = TRUE /\ stage' = 3 /\ UNCHANGED fam
Spec == Init /\ [][Next]_vars

----------------------------------------------------------------------------
\* the reading the property requires: every entry on its own
Required(m) == [i \in 1..Len(m) |-> IntDenote(m[i].w, m[i].lit)]
AllDenote == done => \A i \in 1..Len(mod) : Required(mod)[i].ok

\* a translator with a cache of literal values
KeyOf(e) == CASE CacheKey = "text" -> <<e.lit>> [] OTHER -> <<e.w, e.lit>>
RECURSIVE CachedAcc(_, _, _, _)
CachedAcc(m, i, cache, out) ==
  IF i > Len(m) THEN out
  ELSE LET k == KeyOf(m[i]) IN
       IF CacheKey # "none" /\ k \in DOMAIN cache
       THEN CachedAcc(m, i + 1, cache, Append(out, cache[k]))
       ELSE LET d == IntDenote(m[i].w, m[i].lit)
            IN CachedAcc(m, i + 1, [x \in DOMAIN cache \cup {k} |-> IF x = k THEN d ELSE cache[x]], Append(out, d))
CachedParse(m) == CachedAcc(m, 1, [x \in {} |-> 0], <<>>)
CacheSound == done => CachedParse(mod) = Required(mod)

Vector == ToJson([fam |-> fam,
                  entries |-> [i \in 1..Len(mod) |->
                     [w |-> mod[i].w, lit |-> mod[i].lit,
                      neg |-> Required(mod)[i].neg, mag |-> Required(mod)[i].mag]]])
Emit == (done /\ EmitFile = "stdout") => PrintT(Vector)
=============================================================================
