SPECIFICATION Spec
CONSTANTS
  Widths = {1, 16, 64, 80}
  DeepWidths = {16}
  MaxChanges = 2
  Memoise = FALSE
  EmitFile = "stdout"
INVARIANTS TypeOK PrintCurrent SharedAlike Emit
CHECK_DEADLOCK FALSE
