SPECIFICATION Spec
CONSTANTS
  Emit = FALSE
  Tier = "quick"
INVARIANTS ImplAgrees
CHECK_DEADLOCK FALSE
