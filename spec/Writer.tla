------------------------------- MODULE Writer -------------------------------
(***************************************************************************)
(* The error-latching, byte-counting writer wrapper of ir/helper.go         *)
(* (fmtWriter) against models of the io.Writer it wraps (C19).              *)
(*                                                                         *)
(* What is modelled.  Module.WriteTo creates fw = &fmtWriter{w: w} and     *)
(* performs a fixed sequence of formatted prints fw.Fprint / fw.Fprintf /  *)
(* fw.Fprintln.  The three methods are the same code up to formatting:     *)
(*                                                                         *)
(*     if fw.err != nil { return 0, nil }      -- the latch (early return) *)
(*     n, err = fmt.FprintX(fw.w, ...)         -- exactly ONE w.Write(buf) *)
(*     fw.size += int64(n)                                                 *)
(*     fw.err = err                                                        *)
(*                                                                         *)
(* and WriteTo returns (fw.size, fw.err).  So a print is abstracted to the *)
(* number of bytes it offers ("chunk"); String() is the concatenation of   *)
(* all chunks; bytes are identified by their position 1..Total in String().*)
(*                                                                         *)
(* Variables.                                                              *)
(*   stage      "cfg" (writer not chosen yet), "run", "done" (WriteTo      *)
(*              returned)                                                  *)
(*   w          the writer: [mode, sticky, piece, cap, cap0, failed, src]  *)
(*                mode   "never"  never fails                              *)
(*                       "whole"  a Write that does not fit the remaining  *)
(*                                capacity is rejected whole: (0, error)   *)
(*                       "prefix" ... is cut: (cap, error)  -- short write *)
(*                       "edge"   a Write SHORTER than the remaining       *)
(*                                capacity succeeds; the Write that        *)
(*                                reaches or exceeds it accepts the        *)
(*                                remaining cap bytes and reports the      *)
(*                                error: when the Write is exactly as long *)
(*                                as the capacity this is (len(p), error): *)
(*                                an error TOGETHER WITH A FULL COUNT,     *)
(*                                which io.Writer allows (a disk that      *)
(*                                fills up with this very Write, a failed  *)
(*                                sync after the data went out).  The      *)
(*                                capacity is 0 afterwards: every later    *)
(*                                Write fails (sticky by construction)     *)
(*                       "silent" every Write accepts at most cap bytes    *)
(*                                and reports (cap, nil) for a longer one: *)
(*                                a short write without error, which       *)
(*                                violates the io.Writer contract; used    *)
(*                                only to show which laws need the contract*)
(*                sticky TRUE: after its first failure the writer fails    *)
(*                       every Write; FALSE: a later Write that fits (e.g. *)
(*                       a shorter or empty one) succeeds again            *)
(*                piece  0: Write hands the buffer to the sink in one      *)
(*                       piece; p>0: a re-chunking writer that hands it on *)
(*                       in pieces of <= p bytes and stops at the first    *)
(*                       piece the sink refuses                            *)
(*                cap    remaining capacity of the sink, cap0 the initial  *)
(*                src    index of the chunk sequence (generator mode)      *)
(*   chunks     sizes of the prints performed so far (history)             *)
(*   fw         the implementation state [n |-> fw.size, err |-> fw.err];  *)
(*              err is 0 for nil, else the index of the Write call whose   *)
(*              error value is stored (every call returns its own error    *)
(*              value, so "first error" is an identity, not a boolean)     *)
(*   obs        ghost observer [calls, failedAt, accepted, sinkWrites,     *)
(*              offered]: Write calls performed, index of the first        *)
(*              failing call (0 = none), sum of the byte counts Write      *)
(*              returned, pieces the sink saw, bytes formatted so far      *)
(*   delivered  bytes that reached the sink: sequence of maximal intervals *)
(*              <<lo, hi>> of positions of String(), in arrival order      *)
(*                                                                         *)
(*   sess       the history of WriteTo calls made one after the other in   *)
(*              one process: number of this call, whether an earlier call  *)
(*              failed.  NextCall starts the next WriteTo (another writer, *)
(*              the same or another module).  As written each call         *)
(*              allocates its own fmtWriter (FreshPerCall = TRUE); FALSE   *)
(*              models a pooled fmtWriter whose error latch survives       *)
(*              (a plausible optimisation): TLC then reports               *)
(*              CallStartsFresh, HealthyAfterFailure, FirstError and       *)
(*              NoFailEqualsString violated in the second call.            *)
(*                                                                         *)
(*              A later call of the history may also go to the SAME writer *)
(*              (ShareChoices contains TRUE; sess.shared): two modules     *)
(*              written to one stream, a retry on the same file.  The      *)
(*              writer keeps its remaining capacity and, if it failed      *)
(*              before, its failed flag (w.failed0); the observer, the     *)
(*              positions of String() and all laws are per call: the       *)
(*              count is the count of THIS call, the first error is the    *)
(*              first error of THIS call (a sticky writer that failed in   *)
(*              the call before fails again and the new error value is the *)
(*              one to return), and a recovering writer into which the     *)
(*              second module fits must get all of it.  PerWriterWrapper = *)
(*              TRUE is the deviation "the wrapper is kept per destination *)
(*              writer" (count and latch continue where the last call to   *)
(*              that writer stopped): invisible with one writer per call;  *)
(*              with a shared writer CountExact, FirstError,               *)
(*              CallStartsFresh, HealthyAfterFailure, NoFailEqualsString   *)
(*              are violated in the later call (WriterShared.cfg).         *)
(*                                                                         *)
(* The writer's INTERFACE SET and the routes of a print (round 7).          *)
(*   w.ifs      the optional interfaces the caller's writer has beside     *)
(*              io.Writer: a subset of {"StringWriter", "ByteWriter",      *)
(*              "ReaderFrom"} (a bare test double / gzip.Writer / net.Conn *)
(*              has none, strings.Builder and bytes.Buffer have            *)
(*              WriteString and WriteByte, bufio.Writer and os.File also   *)
(*              ReadFrom).  Bytes can reach the writer through EVERY       *)
(*              method of MethodsOf(w.ifs): Write(p), WriteString(s),      *)
(*              WriteByte(c), ReadFrom(r); all of them feed the same sink  *)
(*              with the same capacity and failure behaviour, and obs      *)
(*              counts the calls of all of them, so the laws below are     *)
(*              laws over every method, not over Write alone.              *)
(*   units      a print is a unit [sz, kind]: kind "fmt" a formatted print *)
(*              (fmt.FprintX: always exactly one Write, whatever the       *)
(*              writer implements), "str" a ready string (a function body: *)
(*              f.LLString()), "byte" a single separator byte.  Sizes come *)
(*              from UnitSizes and differ widely (0, 1 ... more than two   *)
(*              MaxWrite: three pieces).                                   *)
(*   Route      "fmt": as written, every unit is one Write.  "direct": a   *)
(*              legitimate alternative (skip fmt's copy of the operand):   *)
(*              a "str" unit goes through WriteString if the writer has    *)
(*              it, else through ReadFrom (io.Copy) if it has that, else   *)
(*              through Write in pieces of at most MaxWrite bytes (loop    *)
(*              ends at the first error); a "byte" unit through WriteByte  *)
(*              if present.  The laws hold for both routes (WriterDirect   *)
(*              .cfg): they do not depend on how the wrapper reaches the   *)
(*              writer.                                                    *)
(*   deviations on the direct route (each a class of plausible slips):     *)
(*     PieceCount = "running": size += the running total of the unit once  *)
(*              per piece instead of the bytes of the piece.  Invisible    *)
(*              for every unit of one piece and for every writer with      *)
(*              WriteString; CountExact violated for a plain writer and a  *)
(*              unit > MaxWrite.                                           *)
(*     LatchBy = "redirect": instead of testing the latch the wrapper      *)
(*              swaps its destination for io.Discard at the first error    *)
(*              (size and err frozen).  Correct if every view of the       *)
(*              writer is swapped (CachedViews = FALSE).  CachedViews =    *)
(*              TRUE: the io.StringWriter / io.ByteWriter / io.ReaderFrom  *)
(*              views resolved once at construction keep pointing at the   *)
(*              caller's writer: n and err stay right, but every later     *)
(*              unit routed through such a view still reaches the writer:  *)
(*              NoWriteAfterFailure, PrefixDelivered and (a recovering     *)
(*              writer accepts more) CountExact violated, only for writers *)
(*              that HAVE the interface.                                   *)
(*                                                                         *)
(* Faults by VALUE and the Flusher capability (round 8).                    *)
(*   w.errk     the class of the error values the writer returns (ErrKinds:*)
(*              "plain" an opaque error; "eintr" syscall.EINTR, bare or    *)
(*              wrapped in *os.PathError; further classes in the harness:  *)
(*              EAGAIN, io.ErrShortWrite, timeouts, context errors, EOF -  *)
(*              the values code commonly special-cases).  The contract     *)
(*              does not depend on the class: WHATEVER the writer returned *)
(*              first is reported and ends the writing.  Deviation         *)
(*              RetryKinds # {}: the wrapper re-issues a Write that failed *)
(*              with such a value, whole buffer, up to MaxRetry times:     *)
(*              NoWriteAfterFailure, FirstError, PrefixDelivered (bytes    *)
(*              twice) and CountExact are violated - only for writers that *)
(*              return that class.  Writer mode "once" is the transient    *)
(*              failure such code has in mind (see Resp).                  *)
(*   w.flush    "none": the writer has no Flush method; else it has        *)
(*              Flush() error and w.flush says what it returns             *)
(*              (FlushResult): "nil" / "sticky" / "fails".  Flush is a     *)
(*              method of the writer like the others: a call of it is a    *)
(*              call (obs.calls, NoWriteAfterFailure).  Deviation          *)
(*              FlushAtEnd: WriteTo ends with Flush() and returns its      *)
(*              result: FirstError violated for "nil" (the latched error   *)
(*              is lost) and NoWriteAfterFailure for every flusher that    *)
(*              failed; invisible for writers without Flush and, as far as *)
(*              FirstError goes, for sticky flushers.                      *)
(*                                                                         *)
(* Actions: ChooseWriter (enumeration staged in Next), Unit(sz, kind) --   *)
(* one per print, Return, NextCall.  Chunk sequences are enumerated on the fly: every *)
(* sequence of <= MaxChunks sizes 0..MaxSize is a path; with Given # <<>>  *)
(* the chunk sequences are the given ones (sizes of the Write calls of a   *)
(* real module, recorded by the harness) and TLC generates one vector per  *)
(* writer behaviour with the outcome the specification requires.           *)
(*                                                                         *)
(* Switches (all TRUE/FALSE as written in the code = AsWritten):           *)
(*   LatchError     FALSE: the early return is removed                     *)
(*   CountAccepted  FALSE: size += bytes offered instead of bytes accepted *)
(*   KeepFirstError TRUE : err is assigned only while it is nil (another   *)
(*                  way to keep the first error without the early return)  *)
(*   LatchOn        "err" as written: the error value decides.  "short":   *)
(*                  the wrapper takes a SHORT COUNT for the failure signal *)
(*                  (err is stored only if n < len): right for "whole" and *)
(*                  "prefix" failures that cut the Write, wrong for an     *)
(*                  error with a full count ("edge" writer, exact fit):    *)
(*                  FirstError and NoWriteAfterFailure violated            *)
(*                                                                         *)
(* Properties (io.WriterTo contract as stated by C19):                     *)
(*   CountExact          returned n = bytes the writer accepted            *)
(*   FirstError          returned err = the error of the first failing     *)
(*                       Write (identity)                                  *)
(*   PrefixDelivered     the bytes delivered are a prefix of String() and  *)
(*                       as many as were accepted                          *)
(*   NoWriteAfterFailure no Write call follows the first failing one       *)
(*   NoFailEqualsString  no failure => delivered = String(), n = Total     *)
(*   FailsAtCapacity     the writer models do what their name says         *)
(*                       (prefix mode: exactly cap0 bytes arrive)          *)
(*                                                                         *)
(* Binding to the code.  (G) WriterGen.cfg (GivenFile = recorded chunk     *)
(* sizes of real modules: the sizes of the Write calls Module.WriteTo      *)
(* performed on a never-failing writer) checks the invariants on every     *)
(* writer behaviour (mode x sticky x piece x every capacity                *)
(* 0..Len(String())) and prints one VEC tuple per behaviour with the       *)
(* required (n, errAt, calls, delivered length, sink writes); the          *)
(* harness runs the real Module.WriteTo against an instrumented writer     *)
(* with that behaviour and compares.  (T) WriterTrace.tla folds FwStep     *)
(* over the recorded Write log of every run and evaluates the *P           *)
(* predicates below on what WriteTo really returned.                       *)
(***************************************************************************)
EXTENDS Integers, Sequences, FiniteSets, TLC, Json

CONSTANTS MaxChunks, UnitSizes,   \* enumeration bounds: prints per call, set of sizes of a print (ignored when Given # <<>>)
          UnitKinds,              \* subset of {"fmt", "str", "byte"} ("byte" units have size 1)
          IfaceSets,              \* set of interface sets (subsets of {"StringWriter", "ByteWriter", "ReaderFrom"})
          Route, MaxWrite,        \* "fmt" (as written) | "direct"; piece limit of the direct route (0 = none)
          PieceCount, LatchBy, CachedViews,   \* "piece" | "running"; "test" | "redirect"; see header
          LatchError, CountAccepted, KeepFirstError,
          LatchOn,                \* "err" (as written) | "short": see header
          Modes,                  \* subset of {"never", "whole", "prefix", "silent"}
          Pieces,                 \* set of re-chunking piece sizes, 0 = none
          GivenFile,              \* "" or the name of an NDJSON file, one module per line: [c |-> sizes of its prints,
                                  \*   all |-> 1: every capacity 0..Len(String()), 0: the capacities k, k |-> capacities,
                                  \*   p |-> re-chunking piece sizes of the writers]
          MaxCalls,               \* length of the history: WriteTo calls made one after the other
          LaterModes,             \* writer modes of the calls after the first (a subset of Modes)
          FreshPerCall,           \* TRUE: as written: every WriteTo allocates its own fmtWriter
          ShareChoices,           \* subset of BOOLEAN: TRUE: the next call of a history may go to the SAME writer
          PerWriterWrapper,       \* FALSE as written; TRUE: the wrapper (count, latch) is kept per destination writer
          FlushKinds,             \* behaviours of the writer's Flush method: subset of {"none", "nil", "sticky", "fails"} (header)
          ErrKinds,               \* classes of error VALUES the writers return (e.g. {"plain", "eintr"}; header)
          FlushAtEnd,             \* FALSE as written; TRUE: WriteTo ends with Flush() of a writer that has it and returns ITS result
          RetryKinds, MaxRetry    \* {} as written; error classes on which the wrapper re-issues the Write (at most MaxRetry times)

\* <<>> (chunk sequences are enumerated) or the sequence of given chunk sequences.  A definition,
\* not a constant substituted in the cfg: TLC evaluates it once (a cfg substitution
\* Given <- ndJsonDeserialize(..) re-read the file at every use: 102 s instead of 23 s).
Given == IF GivenFile = "" THEN <<>> ELSE ndJsonDeserialize(GivenFile)

----------------------------------------------------------------------------
(* Writer models: pure functions, shared with WriterTrace.tla *)

\* the sink is offered sz bytes in one piece
SinkWrite(mode, sticky, cap, failed, sz) ==
  IF mode = "never" THEN [acc |-> sz, fail |-> FALSE, cap |-> cap, failed |-> FALSE]
  ELSE IF mode = "silent"       \* at most cap bytes per Write, the rest is dropped, no error
       THEN [acc |-> IF sz <= cap THEN sz ELSE cap, fail |-> FALSE, cap |-> cap, failed |-> FALSE]
  ELSE IF sticky /\ failed THEN [acc |-> 0, fail |-> TRUE, cap |-> cap, failed |-> TRUE]
  ELSE IF mode = "edge"         \* the Write that reaches the capacity already reports the error (full count if it fits exactly)
       THEN IF sz < cap THEN [acc |-> sz, fail |-> FALSE, cap |-> cap - sz, failed |-> failed]
            ELSE [acc |-> cap, fail |-> TRUE, cap |-> 0, failed |-> TRUE]
  ELSE IF sz <= cap THEN [acc |-> sz, fail |-> FALSE, cap |-> cap - sz, failed |-> failed]
  ELSE IF mode = "whole" THEN [acc |-> 0, fail |-> TRUE, cap |-> cap, failed |-> TRUE]
  ELSE [acc |-> cap, fail |-> TRUE, cap |-> 0, failed |-> TRUE]       \* "prefix"

\* a re-chunking writer hands `rest` bytes on in pieces of <= p bytes
RECURSIVE Rechunk(_, _, _, _, _, _, _, _)
Rechunk(mode, sticky, p, cap, failed, rest, acc, writes) ==
  IF rest = 0 THEN [acc |-> acc, fail |-> FALSE, cap |-> cap, failed |-> failed, writes |-> writes]
  ELSE LET q == IF rest < p THEN rest ELSE p
           r == SinkWrite(mode, sticky, cap, failed, q)
       IN IF r.fail \/ r.acc < q
          THEN [acc |-> acc + r.acc, fail |-> r.fail, cap |-> r.cap, failed |-> r.failed, writes |-> writes + 1]
          ELSE Rechunk(mode, sticky, p, r.cap, r.failed, rest - q, acc + q, writes + 1)

\* The same in closed form (TLC evaluates the recursion slowly for Writes of 60 bytes in
\* pieces of 1).  WriterEquiv.tla checks RechunkClosed = Rechunk for all small arguments.
RechunkClosed(mode, sticky, p, cap, failed, rest) ==
  LET np   == (rest + p - 1) \div p                \* number of pieces
      f    == IF np = 0 THEN 0 ELSE np - 1          \* full pieces before the last one
      l    == rest - f * p                          \* size of the last piece
  IN IF rest = 0 THEN [acc |-> 0, fail |-> FALSE, cap |-> cap, failed |-> failed, writes |-> 0]
     ELSE IF mode = "never" THEN [acc |-> rest, fail |-> FALSE, cap |-> cap, failed |-> FALSE, writes |-> np]
     ELSE IF sticky /\ failed THEN [acc |-> 0, fail |-> TRUE, cap |-> cap, failed |-> TRUE, writes |-> 1]
     ELSE IF mode = "edge"      \* the piece that reaches the capacity is piece ceil(cap / p) (the first if cap = 0)
          THEN IF rest < cap THEN [acc |-> rest, fail |-> FALSE, cap |-> cap - rest, failed |-> failed, writes |-> np]
               ELSE [acc |-> cap, fail |-> TRUE, cap |-> 0, failed |-> TRUE,
                     writes |-> IF cap = 0 THEN 1 ELSE (cap + p - 1) \div p]
     ELSE IF mode = "whole"
          THEN LET a == IF cap \div p < f THEN cap \div p ELSE f IN
               IF a < f THEN [acc |-> a * p, fail |-> TRUE, cap |-> cap - a * p, failed |-> TRUE, writes |-> a + 1]
               ELSE IF l <= cap - f * p
                    THEN [acc |-> rest, fail |-> FALSE, cap |-> cap - rest, failed |-> failed, writes |-> np]
                    ELSE [acc |-> f * p, fail |-> TRUE, cap |-> cap - f * p, failed |-> TRUE, writes |-> np]
     ELSE (* "prefix" *)
          IF rest <= cap THEN [acc |-> rest, fail |-> FALSE, cap |-> cap - rest, failed |-> failed, writes |-> np]
          ELSE [acc |-> cap, fail |-> TRUE, cap |-> 0, failed |-> TRUE, writes |-> cap \div p + 1]

\* response of writer wr to Write(buf) with Len(buf) = sz : [acc, fail, cap, failed, writes]
RespBase(wr, sz) ==
  IF wr.piece = 0
  THEN LET r == SinkWrite(wr.mode, wr.sticky, wr.cap, wr.failed, sz)
       IN [acc |-> r.acc, fail |-> r.fail, cap |-> r.cap, failed |-> r.failed, writes |-> 1]
  ELSE RechunkClosed(wr.mode, wr.sticky, wr.piece, wr.cap, wr.failed, sz)
\* mode "once": a TRANSIENT failure (an interrupted system call, a timeout, a full pipe that drains): the
\* Write that crosses the capacity is cut there and reports the error (as "prefix"); every later Write
\* succeeds.  The contract is the same - WriteTo stops at the first error - but a wrapper that carries on
\* or retries now DELIVERS what it sends after the failure.
Resp(wr, sz) ==
  IF wr.mode # "once" THEN RespBase(wr, sz)
  ELSE IF wr.failed THEN [RespBase([wr EXCEPT !.mode = "never"], sz) EXCEPT !.failed = TRUE]
  ELSE RespBase([wr EXCEPT !.mode = "prefix", !.sticky = FALSE], sz)

----------------------------------------------------------------------------
(* fmtWriter: pure step functions, shared with WriterTrace.tla *)

FwInit  == [n |-> 0, err |-> 0]
\* methods: the methods through which the writer was called; pieces: the largest number of calls one print took
ObsInit == [calls |-> 0, failedAt |-> 0, accepted |-> 0, sinkWrites |-> 0, offered |-> 0, methods |-> {}, pieces |-> 0]

\* the methods of a writer with the optional interfaces ifs
IfaceMethod(i) == CASE i = "StringWriter" -> "WriteString" [] i = "ByteWriter" -> "WriteByte" [] i = "ReaderFrom" -> "ReadFrom"
AllIfaces == {"StringWriter", "ByteWriter", "ReaderFrom"}
MethodsOf(ifs) == {"Write"} \cup {IfaceMethod(i) : i \in ifs}
\* ... of a writer record: a writer whose flush is not "none" also has Flush() error
MethodsOfW(wr) == MethodsOf(wr.ifs) \cup (IF wr.flush = "none" THEN {} ELSE {"Flush"})
\* The result of Flush() after the calls observed in o, as the index of the call whose error value it is
\* (0 = nil): "nil" a no-op Flush (an adapter, text/tabwriter, a rotating log file); "sticky" repeats the
\* value of the first failed call (bufio.Writer, gzip.Writer); "fails" returns an error value of its own.
FlushResult(wr, o) == CASE wr.flush = "nil" -> 0
                        [] wr.flush = "sticky" -> o.failedAt
                        [] wr.flush = "fails" -> o.calls + 1
                        [] OTHER -> 0

\* the early return
FwSkips(f) == LatchError /\ f.err # 0
\* one performed print of sz bytes whose Write (call number c) answered (acc, fail)
\* (add = what the wrapper adds to size for this call: the bytes the call accepted, as written)
FwStepN(f, c, sz, add, fail) ==
  [n   |-> f.n + (IF CountAccepted THEN add ELSE sz),
   err |-> IF KeepFirstError /\ f.err # 0 THEN f.err
           ELSE IF fail /\ (LatchOn = "err" \/ add < sz) THEN c ELSE 0]
FwStep(f, c, sz, acc, fail) == FwStepN(f, c, sz, acc, fail)
\* one call of the writer through method via (any of Write, WriteString, WriteByte, ReadFrom)
ObsStepM(o, via, sz, acc, fail, writes) ==
  [calls |-> o.calls + 1, offered |-> o.offered + sz,
   failedAt |-> IF fail /\ o.failedAt = 0 THEN o.calls + 1 ELSE o.failedAt,
   accepted |-> o.accepted + acc,
   sinkWrites |-> o.sinkWrites + writes,
   methods |-> o.methods \cup {via}, pieces |-> o.pieces]
ObsStep(o, sz, acc, fail, writes) == ObsStepM(o, "Write", sz, acc, fail, writes)

\* append the interval lo..hi to a sequence of maximal intervals
AddInterval(d, lo, hi) ==
  IF hi < lo THEN d
  ELSE IF d # <<>> /\ d[Len(d)][2] + 1 = lo
       THEN [d EXCEPT ![Len(d)] = <<d[Len(d)][1], hi>>]
       ELSE Append(d, <<lo, hi>>)
RECURSIVE IntervalSum(_, _)
IntervalSum(d, i) == IF i = 0 THEN 0 ELSE d[i][2] - d[i][1] + 1 + IntervalSum(d, i - 1)
DeliveredLen(d) == IntervalSum(d, Len(d))
\* length of the longest common prefix of the delivered bytes and String()
DeliveredLCP(d) == IF d = <<>> \/ d[1][1] # 1 THEN 0 ELSE d[1][2]

----------------------------------------------------------------------------
(* The laws of C19 over a summary of one WriteTo call:                     *)
(* [n, err]          what WriteTo returned                                 *)
(* [calls, failedAt, accepted]   what the writer saw and answered          *)
(* [dlen, lcp, slen] bytes delivered, their common prefix with String(),   *)
(*                   Len(String())                                         *)
CountExactP(s)          == s.n = s.accepted
FirstErrorP(s)          == s.err = s.failedAt
PrefixDeliveredP(s)     == s.lcp = s.dlen /\ s.dlen = s.accepted /\ s.dlen <= s.slen
NoWriteAfterFailureP(s) == s.failedAt # 0 => s.calls = s.failedAt
NoFailEqualsStringP(s)  == s.failedAt = 0 => s.dlen = s.slen /\ s.n = s.slen /\ s.err = 0
\* the writer model itself (test equipment): mode/capacity mean what they say
\* (wr.failed0: the writer is shared with an earlier call of the history and failed there)
FailsAtCapacityP(s, wr) ==
  LET stuck == wr.sticky /\ wr.failed0 IN
  /\ wr.mode = "never" => s.failedAt = 0
  /\ (wr.mode \in {"whole", "prefix"} /\ wr.cap0 >= s.slen /\ ~stuck) => s.failedAt = 0
  /\ (wr.mode \in {"whole", "prefix"} /\ wr.cap0 < s.slen) => s.failedAt # 0 /\ s.dlen <= wr.cap0
  /\ (wr.mode = "prefix" /\ wr.cap0 < s.slen /\ ~stuck) => s.dlen = wr.cap0
  /\ stuck => s.dlen = 0 /\ (s.slen > 0 => s.failedAt # 0)
  \* "edge": the print that reaches the capacity fails, with everything up to the capacity delivered
  /\ (wr.mode = "edge" /\ wr.cap0 > s.slen /\ ~stuck) => s.failedAt = 0
  /\ (wr.mode = "edge" /\ wr.cap0 <= s.slen /\ s.slen > 0 /\ ~stuck) => s.failedAt # 0 /\ s.dlen = wr.cap0
  \* "once": fails exactly when the module does not fit, unless its one failure already happened
  /\ (wr.mode = "once" /\ (wr.failed0 \/ wr.cap0 >= s.slen)) => s.failedAt = 0
  /\ (wr.mode = "once" /\ ~wr.failed0 /\ wr.cap0 < s.slen) => s.failedAt # 0 /\ s.dlen = wr.cap0

----------------------------------------------------------------------------
(* Routes: how one print reaches the writer *)

Max(S) == CHOOSE x \in S : \A y \in S : y <= x
\* sizes of the pieces in which sz bytes are handed over when no piece may exceed mw (0 = no limit)
PieceSizes(sz, mw) ==
  IF mw = 0 \/ sz <= mw THEN <<sz>>
  ELSE [j \in 1..((sz + mw - 1) \div mw) |-> IF j * mw <= sz THEN mw ELSE sz - (j - 1) * mw]
\* the calls (method, bytes offered) by which a print of sz bytes of kind `kind` reaches a writer that
\* has the optional interfaces ifs
UnitCalls(sz, kind, ifs) ==
  IF Route = "fmt" \/ kind = "fmt" THEN << [via |-> "Write", sz |-> sz] >>            \* fmt.FprintX: one Write
  ELSE IF kind = "byte" THEN << [via |-> IF "ByteWriter" \in ifs THEN "WriteByte" ELSE "Write", sz |-> sz] >>
  ELSE IF "StringWriter" \in ifs THEN << [via |-> "WriteString", sz |-> sz] >>
  ELSE IF "ReaderFrom" \in ifs THEN << [via |-> "ReadFrom", sz |-> sz] >>              \* io.Copy(w, reader over s)
  ELSE LET ps == PieceSizes(sz, MaxWrite) IN [j \in DOMAIN ps |-> [via |-> "Write", sz |-> ps[j]]]

\* LatchBy = "redirect": after the first error the destination is io.Discard.  A call through Write
\* always uses the swapped field; a call through a view of the writer resolved at construction is
\* redirected only if the views are swapped too.
Redirected(via) == via = "Write" \/ ~CachedViews

\* The calls cs[j..] of one print, performed on st = [w, fw, obs, dl]; base = position in String()
\* before the first byte of call j; run = bytes of this print accepted so far (the running total of
\* the piece loop).  The loop ends at the first failing call.
RECURSIVE DoCallsT(_, _, _, _, _, _)
DoCalls(st, cs, j, base, run) == DoCallsT(st, cs, j, base, run, 0)
\* tries: how often call j was already re-issued (deviation RetryKinds: while the error is of a class in
\* RetryKinds the wrapper calls the writer again WITH THE WHOLE BUFFER and keeps only the outcome of the
\* last attempt: the error of the first attempt is not reported, the writer is called after its failure
\* and the bytes the failed attempt had accepted are delivered twice)
DoCallsT(st, cs, j, base, run, tries) ==
  IF j > Len(cs) THEN st
  ELSE LET c == cs[j]
           swapped == LatchBy = "redirect" /\ st.fw.err # 0
       IN IF swapped /\ Redirected(c.via)
          THEN DoCallsT(st, cs, j + 1, base + c.sz, run, 0)           \* io.Discard took it: (len, nil)
          ELSE LET r   == Resp(st.w, c.sz)
                   add == IF PieceCount = "running" THEN run + r.acc ELSE r.acc
                   nst == [w   |-> [st.w EXCEPT !.cap = r.cap, !.failed = r.failed],
                           \* done(): once swapped, size and err keep their values
                           fw  |-> IF swapped THEN st.fw ELSE FwStepN(st.fw, st.obs.calls + 1, c.sz, add, r.fail),
                           obs |-> ObsStepM(st.obs, c.via, c.sz, r.acc, r.fail, r.writes),
                           dl  |-> AddInterval(st.dl, base + 1, base + r.acc)]
               IN IF r.fail /\ st.w.errk \in RetryKinds /\ tries < MaxRetry
                  THEN DoCallsT([nst EXCEPT !.fw = st.fw], cs, j, base, run, tries + 1)   \* once more, from the start of the buffer
                  ELSE IF r.fail THEN nst ELSE DoCallsT(nst, cs, j + 1, base + c.sz, run + r.acc, 0)

----------------------------------------------------------------------------
(* The state machine *)
VARIABLES stage, w, chunks, kinds, fw, obs, delivered,
          sess       \* the history: [call |-> number of this WriteTo, prevFailed |-> an earlier call failed]
vars == <<stage, w, chunks, kinds, fw, obs, delivered, sess>>

RECURSIVE SumSeq(_)
SumSeq(s) == IF s = <<>> THEN 0 ELSE Head(s) + SumSeq(Tail(s))

Enumerating == Given = <<>>
GivenSeq(src) == IF Enumerating \/ src = 0 THEN <<>> ELSE Given[src].c
MaxTotal(src) == IF Enumerating THEN MaxChunks * Max(UnitSizes) ELSE SumSeq(GivenSeq(src))
Sources == IF Enumerating THEN {0} ELSE 1..Len(Given)
\* capacities and piece sizes of the writers tried on a source
Caps(src) == IF Enumerating \/ Given[src].all = 1 THEN 0..MaxTotal(src)
             ELSE {Given[src].k[i] : i \in DOMAIN Given[src].k}
PiecesOf(src) == IF Enumerating THEN Pieces ELSE {Given[src].p[i] : i \in DOMAIN Given[src].p}
NoWriter == [mode |-> "none", sticky |-> FALSE, piece |-> 0, cap |-> 0, cap0 |-> 0, failed |-> FALSE, failed0 |-> FALSE, src |-> 0, ifs |-> {}, flush |-> "none", errk |-> "plain"]

Init == /\ stage = "cfg" /\ w = NoWriter /\ chunks = <<>> /\ kinds = <<>>
        /\ fw = FwInit /\ obs = ObsInit /\ delivered = <<>>
        /\ sess = [call |-> 1, prevFailed |-> FALSE, shared |-> FALSE]

\* enumeration of the writer behaviours, one step (not in Init: all workers share it)
ChooseWriter ==
  /\ stage = "cfg"
  /\ \E src \in Sources, m \in (IF sess.call = 1 THEN Modes ELSE LaterModes), st \in BOOLEAN, ifs \in IfaceSets, fl \in FlushKinds, ek \in ErrKinds :
     \E p \in PiecesOf(src), c \in Caps(src) \cup {0} :
       /\ (m = "never" => ~st /\ c = 0)          \* no capacity, nothing to stick to
       /\ (m # "never" => c \in Caps(src))
       /\ (m = "silent" => ~st /\ p = 0)
       /\ (m = "edge" => ~st)                    \* capacity 0 after its failure: sticky by construction
       /\ (m = "once" => ~st)                    \* transient by definition
       /\ (m \in {"never", "silent"} => ek = CHOOSE e \in ErrKinds : TRUE)     \* returns no error: no class to vary
       /\ w' = [mode |-> m, sticky |-> st, piece |-> p, cap |-> c, cap0 |-> c, failed |-> FALSE, failed0 |-> FALSE, src |-> src, ifs |-> ifs,
                flush |-> fl, errk |-> ek]
  /\ stage' = "run"
  /\ UNCHANGED <<chunks, kinds, fw, obs, delivered, sess>>

Total == obs.offered             \* bytes formatted so far; Len(String()) once all prints are done

\* one print of WriteTo: fw.Fprint / fw.Fprintf / fw.Fprintln with a formatted text of sz bytes (kind
\* "fmt"; the only kind as written), or a ready string / a separator byte on the direct route
Unit(sz, kind) ==
  /\ stage = "run"
  /\ IF Enumerating THEN Len(chunks) < MaxChunks /\ (kind = "byte" => sz = 1)
     ELSE Len(chunks) < Len(GivenSeq(w.src)) /\ sz = GivenSeq(w.src)[Len(chunks) + 1]
  /\ chunks' = Append(chunks, sz) /\ kinds' = Append(kinds, kind)
  /\ LET st0 == [w |-> w, fw |-> fw, obs |-> obs, dl |-> delivered]
         st  == IF LatchBy = "test" /\ FwSkips(fw) THEN st0                           \* return 0, nil
                ELSE DoCalls(st0, UnitCalls(sz, kind, w.ifs), 1, Total, 0)           \* size += n ; err = err
         took == st.obs.calls - obs.calls
     IN /\ w' = st.w /\ fw' = st.fw /\ delivered' = st.dl
        /\ obs' = [st.obs EXCEPT !.offered = obs.offered + sz, !.pieces = IF took > @ THEN took ELSE @]
  /\ UNCHANGED <<stage, sess>>

\* return fw.size, fw.err
Return ==
  /\ stage = "run"
  /\ (~Enumerating => Len(chunks) = Len(GivenSeq(w.src)))
  /\ stage' = "done"
  /\ IF FlushAtEnd /\ w.flush # "none"
     THEN \* deviation: f.Flush() is one more call of the writer and ITS result replaces the latched error
          LET e == FlushResult(w, obs) IN
          /\ fw' = [fw EXCEPT !.err = e]
          /\ obs' = [ObsStepM(obs, "Flush", 0, 0, e # 0, 0) EXCEPT !.failedAt = IF obs.failedAt = 0 /\ e # 0 THEN e ELSE obs.failedAt]
     ELSE UNCHANGED <<fw, obs>>
  /\ UNCHANGED <<w, chunks, kinds, delivered, sess>>

\* The next WriteTo of the history: another writer, the same or another module (chunk sequence).
\* As written every call does fw := &fmtWriter{w: w}.  FreshPerCall = FALSE is a pooled fmtWriter
\* whose size is reset but whose error latch is not: the latch of an earlier call (the error value
\* of ANOTHER writer, -1) is still set when the next call starts.
\* share: the next WriteTo gets the very writer of this call (two modules into one stream): the writer
\* keeps what is left of its capacity and its failed flag; cap0 / failed0 are its state when the call
\* starts.  Everything else restarts: the laws are per call.  PerWriterWrapper (deviation): the wrapper
\* kept for this destination goes on counting and stays latched; the error it holds is, for the new
\* call, a value no call of THIS WriteTo returned (-1).
NextCall ==
  /\ stage = "done" /\ sess.call < MaxCalls
  /\ chunks' = <<>> /\ kinds' = <<>> /\ obs' = ObsInit /\ delivered' = <<>>
  /\ \E share \in ShareChoices :
       /\ IF share
          THEN /\ stage' = "run"
               /\ \E src \in Sources : w' = [w EXCEPT !.cap0 = w.cap, !.failed0 = w.failed, !.src = src]
          ELSE stage' = "cfg" /\ w' = NoWriter
       /\ fw' = IF share /\ PerWriterWrapper THEN [n |-> fw.n, err |-> IF fw.err = 0 THEN 0 ELSE -1]
                ELSE IF FreshPerCall THEN FwInit ELSE [n |-> 0, err |-> IF fw.err = 0 THEN 0 ELSE -1]
       /\ sess' = [call |-> sess.call + 1, prevFailed |-> sess.prevFailed \/ obs.failedAt # 0, shared |-> share]

Sizes == IF Enumerating THEN UnitSizes
         ELSE IF Len(chunks) < Len(GivenSeq(w.src)) THEN {GivenSeq(w.src)[Len(chunks) + 1]} ELSE {}
Kinds == IF Enumerating THEN UnitKinds ELSE {"fmt"}
Next == \/ ChooseWriter
        \/ Return
        \/ NextCall
        \/ /\ stage = "run"
           /\ (Enumerating \/ Len(chunks) < Len(GivenSeq(w.src)))
           /\ \E sz \in Sizes, kd \in Kinds : Unit(sz, kd)
Spec == Init /\ [][Next]_vars

Summary == [n |-> fw.n, err |-> fw.err, calls |-> obs.calls, failedAt |-> obs.failedAt,
            accepted |-> obs.accepted, dlen |-> DeliveredLen(delivered),
            lcp |-> DeliveredLCP(delivered), slen |-> Total]
Done == stage = "done"
Honest == w.mode # "silent"     \* the writer obeys the io.Writer contract

TypeOK == /\ stage \in {"cfg", "run", "done"}
          /\ fw.n \in Nat /\ fw.err \in Int /\ fw.err >= -1
          /\ sess.call \in 1..MaxCalls
          /\ obs.failedAt <= obs.calls
          /\ Len(kinds) = Len(chunks)
          /\ (Route = "fmt" /\ RetryKinds = {} /\ ~FlushAtEnd => obs.calls <= Len(chunks) /\ obs.pieces <= 1)
          /\ obs.methods \subseteq MethodsOfW(w)           \* only methods the writer has (Go's type system)
          /\ (Route = "fmt" => obs.methods \subseteq {"Write", "Flush"})
          /\ (~FlushAtEnd => "Flush" \notin obs.methods)   \* as written WriteTo never flushes the caller's writer

\* invariants at every step (the count is exact all along, not only at the end).  obs counts the calls
\* of EVERY method, so each law speaks about Write, WriteString, WriteByte and ReadFrom alike.
CountExact          == stage # "cfg" => CountExactP(Summary)
NoWriteAfterFailure == stage # "cfg" => NoWriteAfterFailureP(Summary)
PrefixDelivered     == stage # "cfg" /\ Honest => PrefixDeliveredP(Summary)
PrefixDeliveredAnyWriter == stage # "cfg" => PrefixDeliveredP(Summary)   \* violated by "silent"
FirstError          == Done /\ Honest => FirstErrorP(Summary)
NoFailEqualsString  == Done /\ Honest => NoFailEqualsStringP(Summary)
FailsAtCapacity     == Done => FailsAtCapacityP(Summary, w)
\* String() is WriteTo into a strings.Builder and panics on an error: it never does
StringNeverPanics   == Done /\ w.mode = "never" => fw.err = 0 /\ fw.n = Total
\* with a contract-violating writer only the count and the (nil) error are still right
SilentStillCounts   == Done /\ w.mode = "silent" => CountExactP(Summary) /\ fw.err = 0

\* Histories: a call behaves like a first call whatever happened before it.  All invariants above
\* are evaluated per call (obs and delivered restart), so they already state it; the two below
\* name the history effect.  Both are VIOLATED with FreshPerCall = FALSE.
CallStartsFresh     == stage = "run" /\ chunks = <<>> => fw = FwInit
HealthyAfterFailure == Done /\ Honest /\ sess.prevFailed /\ obs.failedAt = 0
                         => fw.err = 0 /\ fw.n = Total /\ DeliveredLen(delivered) = Total /\ obs.calls >= Len(chunks)

\* vacuity guards (must be VIOLATED): failures and successes both occur
NeverFails   == ~(Done /\ obs.failedAt # 0)
AlwaysFails  == ~(Done /\ obs.failedAt = 0 /\ Total > 0)
NeverSkips   == ~(Done /\ obs.calls < Len(chunks))
NoHistory    == ~(Done /\ sess.call > 1 /\ sess.prevFailed /\ obs.failedAt = 0 /\ Total > 0)
\* ... with a shared writer (WriterShared.cfg): a recovering writer that failed in the call before takes
\* the whole next module; a sticky one fails again at once; a third call on the writer of the first two;
\* an error together with a full count
NoSharedRecovery   == ~(Done /\ sess.shared /\ w.failed0 /\ ~w.sticky /\ obs.failedAt = 0 /\ Total > 0)
NoSharedStuck      == ~(Done /\ sess.shared /\ w.failed0 /\ w.sticky /\ obs.failedAt = 1 /\ w.cap > 0)
NoThirdSharedCall  == ~(Done /\ sess.shared /\ sess.call = 3 /\ obs.failedAt # 0 /\ obs.accepted > 0)
NoFullCountError   == ~(Done /\ obs.failedAt # 0 /\ obs.accepted = obs.offered /\ Total > 0)
\* ... of WriterFaults.cfg: a transient failure in the middle of a print; a writer with a no-op Flush that failed
NoTransientFailure == ~(Done /\ w.mode = "once" /\ obs.failedAt # 0 /\ obs.accepted > 0 /\ obs.accepted < Total)
NoFailedFlusher    == ~(Done /\ w.flush = "nil" /\ obs.failedAt # 0)
\* ... on the direct route (WriterDirect.cfg): a print goes out in three pieces; a failure in a piece
\* after the first; every optional method is used
NoThreePieces      == ~(Done /\ obs.pieces >= 3)
NoFailInLaterPiece == ~(Done /\ obs.failedAt # 0 /\ obs.calls > Len(chunks))
NoWriteString      == ~(Done /\ "WriteString" \in obs.methods)
NoWriteByte        == ~(Done /\ "WriteByte" \in obs.methods)
NoReadFrom         == ~(Done /\ "ReadFrom" \in obs.methods /\ obs.failedAt # 0)

----------------------------------------------------------------------------
(* Generator: one vector per (chunk sequence, writer behaviour) at "done".  Route = "fmt" never
   consults w.ifs: the required outcome of (module, behaviour) is the same for every interface set,
   and the harness compares the runs of every interface set with the one vector. *)
Vector == <<"VEC", w.src, w.mode, w.sticky, w.piece, w.cap0,
            fw.n, fw.err, obs.calls, DeliveredLen(delivered), obs.sinkWrites, sess.call, sess.prevFailed>>
EmitVector == Done => PrintT(Vector)
=============================================================================
