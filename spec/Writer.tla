------------------------------- MODULE Writer -------------------------------
(***************************************************************************)
(* The error-latching, byte-counting writer wrapper of ir/helper.go         *)
(* (fmtWriter) against models of the io.Writer it wraps (C19).              *)
(*                                                                         *)
(* What is modelled.  Module.WriteTo creates fw = &fmtWriter{w: w} and     *)
(* performs a fixed sequence of formatted prints fw.Fprint / fw.Fprintf /  *)
(* fw.Fprintln.  The three methods are the same code up to formatting:     *)
(*                                                                         *)
(*     if fw.err != nil { return 0, nil }      -- the latch (early return) *)
(*     n, err = fmt.FprintX(fw.w, ...)         -- exactly ONE w.Write(buf) *)
(*     fw.size += int64(n)                                                 *)
(*     fw.err = err                                                        *)
(*                                                                         *)
(* and WriteTo returns (fw.size, fw.err).  So a print is abstracted to the *)
(* number of bytes it offers ("chunk"); String() is the concatenation of   *)
(* all chunks; bytes are identified by their position 1..Total in String().*)
(*                                                                         *)
(* Variables.                                                              *)
(*   stage      "cfg" (writer not chosen yet), "run", "done" (WriteTo      *)
(*              returned)                                                  *)
(*   w          the writer: [mode, sticky, piece, cap, cap0, failed, src]  *)
(*                mode   "never"  never fails                              *)
(*                       "whole"  a Write that does not fit the remaining  *)
(*                                capacity is rejected whole: (0, error)   *)
(*                       "prefix" ... is cut: (cap, error)  -- short write *)
(*                       "silent" every Write accepts at most cap bytes    *)
(*                                and reports (cap, nil) for a longer one: *)
(*                                a short write without error, which       *)
(*                                violates the io.Writer contract; used    *)
(*                                only to show which laws need the contract*)
(*                sticky TRUE: after its first failure the writer fails    *)
(*                       every Write; FALSE: a later Write that fits (e.g. *)
(*                       a shorter or empty one) succeeds again            *)
(*                piece  0: Write hands the buffer to the sink in one      *)
(*                       piece; p>0: a re-chunking writer that hands it on *)
(*                       in pieces of <= p bytes and stops at the first    *)
(*                       piece the sink refuses                            *)
(*                cap    remaining capacity of the sink, cap0 the initial  *)
(*                src    index of the chunk sequence (generator mode)      *)
(*   chunks     sizes of the prints performed so far (history)             *)
(*   fw         the implementation state [n |-> fw.size, err |-> fw.err];  *)
(*              err is 0 for nil, else the index of the Write call whose   *)
(*              error value is stored (every call returns its own error    *)
(*              value, so "first error" is an identity, not a boolean)     *)
(*   obs        ghost observer [calls, failedAt, accepted, sinkWrites,     *)
(*              offered]: Write calls performed, index of the first        *)
(*              failing call (0 = none), sum of the byte counts Write      *)
(*              returned, pieces the sink saw, bytes formatted so far      *)
(*   delivered  bytes that reached the sink: sequence of maximal intervals *)
(*              <<lo, hi>> of positions of String(), in arrival order      *)
(*                                                                         *)
(*   sess       the history of WriteTo calls made one after the other in   *)
(*              one process: number of this call, whether an earlier call  *)
(*              failed.  NextCall starts the next WriteTo (another writer, *)
(*              the same or another module).  As written each call         *)
(*              allocates its own fmtWriter (FreshPerCall = TRUE); FALSE   *)
(*              models a pooled fmtWriter whose error latch survives       *)
(*              (a plausible optimisation): TLC then reports               *)
(*              CallStartsFresh, HealthyAfterFailure, FirstError and       *)
(*              NoFailEqualsString violated in the second call.            *)
(*                                                                         *)
(* Actions: ChooseWriter (enumeration staged in Next), Fprint(sz) -- one   *)
(* per API call, Return, NextCall.  Chunk sequences are enumerated on the fly: every *)
(* sequence of <= MaxChunks sizes 0..MaxSize is a path; with Given # <<>>  *)
(* the chunk sequences are the given ones (sizes of the Write calls of a   *)
(* real module, recorded by the harness) and TLC generates one vector per  *)
(* writer behaviour with the outcome the specification requires.           *)
(*                                                                         *)
(* Switches (all TRUE/FALSE as written in the code = AsWritten):           *)
(*   LatchError     FALSE: the early return is removed                     *)
(*   CountAccepted  FALSE: size += bytes offered instead of bytes accepted *)
(*   KeepFirstError TRUE : err is assigned only while it is nil (another   *)
(*                  way to keep the first error without the early return)  *)
(*                                                                         *)
(* Properties (io.WriterTo contract as stated by C19):                     *)
(*   CountExact          returned n = bytes the writer accepted            *)
(*   FirstError          returned err = the error of the first failing     *)
(*                       Write (identity)                                  *)
(*   PrefixDelivered     the bytes delivered are a prefix of String() and  *)
(*                       as many as were accepted                          *)
(*   NoWriteAfterFailure no Write call follows the first failing one       *)
(*   NoFailEqualsString  no failure => delivered = String(), n = Total     *)
(*   FailsAtCapacity     the writer models do what their name says         *)
(*                       (prefix mode: exactly cap0 bytes arrive)          *)
(*                                                                         *)
(* Binding to the code.  (G) WriterGen.cfg (GivenFile = recorded chunk     *)
(* sizes of real modules: the sizes of the Write calls Module.WriteTo      *)
(* performed on a never-failing writer) checks the invariants on every     *)
(* writer behaviour (mode x sticky x piece x every capacity                *)
(* 0..Len(String())) and prints one VEC tuple per behaviour with the       *)
(* required (n, errAt, calls, delivered length, sink writes); the          *)
(* harness runs the real Module.WriteTo against an instrumented writer     *)
(* with that behaviour and compares.  (T) WriterTrace.tla folds FwStep     *)
(* over the recorded Write log of every run and evaluates the *P           *)
(* predicates below on what WriteTo really returned.                       *)
(***************************************************************************)
EXTENDS Integers, Sequences, FiniteSets, TLC, Json

CONSTANTS MaxChunks, MaxSize,     \* enumeration bounds (ignored when Given # <<>>)
          LatchError, CountAccepted, KeepFirstError,
          Modes,                  \* subset of {"never", "whole", "prefix", "silent"}
          Pieces,                 \* set of re-chunking piece sizes, 0 = none
          GivenFile,              \* "" or the name of an NDJSON file: one array of chunk sizes per line
          MaxCalls,               \* length of the history: WriteTo calls made one after the other
          LaterModes,             \* writer modes of the calls after the first (a subset of Modes)
          FreshPerCall            \* TRUE: as written: every WriteTo allocates its own fmtWriter

\* <<>> (chunk sequences are enumerated) or the sequence of given chunk sequences.  A definition,
\* not a constant substituted in the cfg: TLC evaluates it once (a cfg substitution
\* Given <- ndJsonDeserialize(..) re-read the file at every use: 102 s instead of 23 s).
Given == IF GivenFile = "" THEN <<>> ELSE ndJsonDeserialize(GivenFile)

----------------------------------------------------------------------------
(* Writer models: pure functions, shared with WriterTrace.tla *)

\* the sink is offered sz bytes in one piece
SinkWrite(mode, sticky, cap, failed, sz) ==
  IF mode = "never" THEN [acc |-> sz, fail |-> FALSE, cap |-> cap, failed |-> FALSE]
  ELSE IF mode = "silent"       \* at most cap bytes per Write, the rest is dropped, no error
       THEN [acc |-> IF sz <= cap THEN sz ELSE cap, fail |-> FALSE, cap |-> cap, failed |-> FALSE]
  ELSE IF sticky /\ failed THEN [acc |-> 0, fail |-> TRUE, cap |-> cap, failed |-> TRUE]
  ELSE IF sz <= cap THEN [acc |-> sz, fail |-> FALSE, cap |-> cap - sz, failed |-> failed]
  ELSE IF mode = "whole" THEN [acc |-> 0, fail |-> TRUE, cap |-> cap, failed |-> TRUE]
  ELSE [acc |-> cap, fail |-> TRUE, cap |-> 0, failed |-> TRUE]       \* "prefix"

\* a re-chunking writer hands `rest` bytes on in pieces of <= p bytes
RECURSIVE Rechunk(_, _, _, _, _, _, _, _)
Rechunk(mode, sticky, p, cap, failed, rest, acc, writes) ==
  IF rest = 0 THEN [acc |-> acc, fail |-> FALSE, cap |-> cap, failed |-> failed, writes |-> writes]
  ELSE LET q == IF rest < p THEN rest ELSE p
           r == SinkWrite(mode, sticky, cap, failed, q)
       IN IF r.fail \/ r.acc < q
          THEN [acc |-> acc + r.acc, fail |-> r.fail, cap |-> r.cap, failed |-> r.failed, writes |-> writes + 1]
          ELSE Rechunk(mode, sticky, p, r.cap, r.failed, rest - q, acc + q, writes + 1)

\* The same in closed form (TLC evaluates the recursion slowly for Writes of 60 bytes in
\* pieces of 1).  WriterEquiv.tla checks RechunkClosed = Rechunk for all small arguments.
RechunkClosed(mode, sticky, p, cap, failed, rest) ==
  LET np   == (rest + p - 1) \div p                \* number of pieces
      f    == IF np = 0 THEN 0 ELSE np - 1          \* full pieces before the last one
      l    == rest - f * p                          \* size of the last piece
  IN IF rest = 0 THEN [acc |-> 0, fail |-> FALSE, cap |-> cap, failed |-> failed, writes |-> 0]
     ELSE IF mode = "never" THEN [acc |-> rest, fail |-> FALSE, cap |-> cap, failed |-> FALSE, writes |-> np]
     ELSE IF sticky /\ failed THEN [acc |-> 0, fail |-> TRUE, cap |-> cap, failed |-> TRUE, writes |-> 1]
     ELSE IF mode = "whole"
          THEN LET a == IF cap \div p < f THEN cap \div p ELSE f IN
               IF a < f THEN [acc |-> a * p, fail |-> TRUE, cap |-> cap - a * p, failed |-> TRUE, writes |-> a + 1]
               ELSE IF l <= cap - f * p
                    THEN [acc |-> rest, fail |-> FALSE, cap |-> cap - rest, failed |-> failed, writes |-> np]
                    ELSE [acc |-> f * p, fail |-> TRUE, cap |-> cap - f * p, failed |-> TRUE, writes |-> np]
     ELSE (* "prefix" *)
          IF rest <= cap THEN [acc |-> rest, fail |-> FALSE, cap |-> cap - rest, failed |-> failed, writes |-> np]
          ELSE [acc |-> cap, fail |-> TRUE, cap |-> 0, failed |-> TRUE, writes |-> cap \div p + 1]

\* response of writer wr to Write(buf) with Len(buf) = sz : [acc, fail, cap, failed, writes]
Resp(wr, sz) ==
  IF wr.piece = 0
  THEN LET r == SinkWrite(wr.mode, wr.sticky, wr.cap, wr.failed, sz)
       IN [acc |-> r.acc, fail |-> r.fail, cap |-> r.cap, failed |-> r.failed, writes |-> 1]
  ELSE RechunkClosed(wr.mode, wr.sticky, wr.piece, wr.cap, wr.failed, sz)

----------------------------------------------------------------------------
(* fmtWriter: pure step functions, shared with WriterTrace.tla *)

FwInit  == [n |-> 0, err |-> 0]
ObsInit == [calls |-> 0, failedAt |-> 0, accepted |-> 0, sinkWrites |-> 0, offered |-> 0]

\* the early return
FwSkips(f) == LatchError /\ f.err # 0
\* one performed print of sz bytes whose Write (call number c) answered (acc, fail)
FwStep(f, c, sz, acc, fail) ==
  [n   |-> f.n + (IF CountAccepted THEN acc ELSE sz),
   err |-> IF KeepFirstError /\ f.err # 0 THEN f.err ELSE IF fail THEN c ELSE 0]
ObsStep(o, sz, acc, fail, writes) ==
  [calls |-> o.calls + 1, offered |-> o.offered + sz,
   failedAt |-> IF fail /\ o.failedAt = 0 THEN o.calls + 1 ELSE o.failedAt,
   accepted |-> o.accepted + acc,
   sinkWrites |-> o.sinkWrites + writes]

\* append the interval lo..hi to a sequence of maximal intervals
AddInterval(d, lo, hi) ==
  IF hi < lo THEN d
  ELSE IF d # <<>> /\ d[Len(d)][2] + 1 = lo
       THEN [d EXCEPT ![Len(d)] = <<d[Len(d)][1], hi>>]
       ELSE Append(d, <<lo, hi>>)
RECURSIVE IntervalSum(_, _)
IntervalSum(d, i) == IF i = 0 THEN 0 ELSE d[i][2] - d[i][1] + 1 + IntervalSum(d, i - 1)
DeliveredLen(d) == IntervalSum(d, Len(d))
\* length of the longest common prefix of the delivered bytes and String()
DeliveredLCP(d) == IF d = <<>> \/ d[1][1] # 1 THEN 0 ELSE d[1][2]

----------------------------------------------------------------------------
(* The laws of C19 over a summary of one WriteTo call:                     *)
(* [n, err]          what WriteTo returned                                 *)
(* [calls, failedAt, accepted]   what the writer saw and answered          *)
(* [dlen, lcp, slen] bytes delivered, their common prefix with String(),   *)
(*                   Len(String())                                         *)
CountExactP(s)          == s.n = s.accepted
FirstErrorP(s)          == s.err = s.failedAt
PrefixDeliveredP(s)     == s.lcp = s.dlen /\ s.dlen = s.accepted /\ s.dlen <= s.slen
NoWriteAfterFailureP(s) == s.failedAt # 0 => s.calls = s.failedAt
NoFailEqualsStringP(s)  == s.failedAt = 0 => s.dlen = s.slen /\ s.n = s.slen /\ s.err = 0
\* the writer model itself (test equipment): mode/capacity mean what they say
FailsAtCapacityP(s, wr) ==
  /\ (wr.mode = "never" \/ wr.cap0 >= s.slen) => s.failedAt = 0
  /\ (wr.mode \in {"whole", "prefix"} /\ wr.cap0 < s.slen) => s.failedAt # 0 /\ s.dlen <= wr.cap0
  /\ (wr.mode = "prefix" /\ wr.cap0 < s.slen) => s.dlen = wr.cap0

----------------------------------------------------------------------------
(* The state machine *)
VARIABLES stage, w, chunks, fw, obs, delivered,
          sess       \* the history: [call |-> number of this WriteTo, prevFailed |-> an earlier call failed]
vars == <<stage, w, chunks, fw, obs, delivered, sess>>

RECURSIVE SumSeq(_)
SumSeq(s) == IF s = <<>> THEN 0 ELSE Head(s) + SumSeq(Tail(s))

Enumerating == Given = <<>>
GivenSeq(src) == IF Enumerating \/ src = 0 THEN <<>> ELSE Given[src]
MaxTotal(src) == IF Enumerating THEN MaxChunks * MaxSize ELSE SumSeq(GivenSeq(src))
Sources == IF Enumerating THEN {0} ELSE 1..Len(Given)
NoWriter == [mode |-> "none", sticky |-> FALSE, piece |-> 0, cap |-> 0, cap0 |-> 0, failed |-> FALSE, src |-> 0]

Init == /\ stage = "cfg" /\ w = NoWriter /\ chunks = <<>>
        /\ fw = FwInit /\ obs = ObsInit /\ delivered = <<>>
        /\ sess = [call |-> 1, prevFailed |-> FALSE]

\* enumeration of the writer behaviours, one step (not in Init: all workers share it)
ChooseWriter ==
  /\ stage = "cfg"
  /\ \E src \in Sources, m \in (IF sess.call = 1 THEN Modes ELSE LaterModes), st \in BOOLEAN, p \in Pieces :
     \E c \in 0..MaxTotal(src) :
       /\ (m = "never" => ~st /\ c = 0)          \* no capacity, nothing to stick to
       /\ (m = "silent" => ~st /\ p = 0)
       /\ w' = [mode |-> m, sticky |-> st, piece |-> p, cap |-> c, cap0 |-> c, failed |-> FALSE, src |-> src]
  /\ stage' = "run"
  /\ UNCHANGED <<chunks, fw, obs, delivered, sess>>

Total == obs.offered             \* bytes formatted so far; Len(String()) once all prints are done

\* fw.Fprint / fw.Fprintf / fw.Fprintln with a formatted text of sz bytes
Fprint(sz) ==
  /\ stage = "run"
  /\ IF Enumerating THEN Len(chunks) < MaxChunks
     ELSE Len(chunks) < Len(GivenSeq(w.src)) /\ sz = GivenSeq(w.src)[Len(chunks) + 1]
  /\ chunks' = Append(chunks, sz)
  /\ IF FwSkips(fw)
     THEN /\ obs' = [obs EXCEPT !.offered = @ + sz]                  \* return 0, nil
          /\ UNCHANGED <<w, fw, delivered>>
     ELSE LET r == Resp(w, sz) IN
          /\ w' = [w EXCEPT !.cap = r.cap, !.failed = r.failed]
          /\ fw' = FwStep(fw, obs.calls + 1, sz, r.acc, r.fail)     \* size += n ; err = err
          /\ obs' = ObsStep(obs, sz, r.acc, r.fail, r.writes)
          /\ delivered' = AddInterval(delivered, Total + 1, Total + r.acc)
  /\ UNCHANGED <<stage, sess>>

\* return fw.size, fw.err
Return ==
  /\ stage = "run"
  /\ (~Enumerating => Len(chunks) = Len(GivenSeq(w.src)))
  /\ stage' = "done"
  /\ UNCHANGED <<w, chunks, fw, obs, delivered, sess>>

\* The next WriteTo of the history: another writer, the same or another module (chunk sequence).
\* As written every call does fw := &fmtWriter{w: w}.  FreshPerCall = FALSE is a pooled fmtWriter
\* whose size is reset but whose error latch is not: the latch of an earlier call (the error value
\* of ANOTHER writer, -1) is still set when the next call starts.
NextCall ==
  /\ stage = "done" /\ sess.call < MaxCalls
  /\ stage' = "cfg" /\ w' = NoWriter /\ chunks' = <<>> /\ obs' = ObsInit /\ delivered' = <<>>
  /\ fw' = IF FreshPerCall THEN FwInit ELSE [n |-> 0, err |-> IF fw.err = 0 THEN 0 ELSE -1]
  /\ sess' = [call |-> sess.call + 1, prevFailed |-> sess.prevFailed \/ obs.failedAt # 0]

Sizes == IF Enumerating THEN 0..MaxSize
         ELSE IF Len(chunks) < Len(GivenSeq(w.src)) THEN {GivenSeq(w.src)[Len(chunks) + 1]} ELSE {}
Next == \/ ChooseWriter
        \/ Return
        \/ NextCall
        \/ /\ stage = "run"
           /\ (Enumerating \/ Len(chunks) < Len(GivenSeq(w.src)))
           /\ \E sz \in Sizes : Fprint(sz)
Spec == Init /\ [][Next]_vars

Summary == [n |-> fw.n, err |-> fw.err, calls |-> obs.calls, failedAt |-> obs.failedAt,
            accepted |-> obs.accepted, dlen |-> DeliveredLen(delivered),
            lcp |-> DeliveredLCP(delivered), slen |-> Total]
Done == stage = "done"
Honest == w.mode # "silent"     \* the writer obeys the io.Writer contract

TypeOK == /\ stage \in {"cfg", "run", "done"}
          /\ fw.n \in Nat /\ fw.err \in Int /\ fw.err >= -1 /\ obs.calls <= Len(chunks)
          /\ sess.call \in 1..MaxCalls
          /\ obs.failedAt <= obs.calls

\* invariants at every step (the count is exact all along, not only at the end)
CountExact          == stage # "cfg" => CountExactP(Summary)
NoWriteAfterFailure == stage # "cfg" => NoWriteAfterFailureP(Summary)
PrefixDelivered     == stage # "cfg" /\ Honest => PrefixDeliveredP(Summary)
PrefixDeliveredAnyWriter == stage # "cfg" => PrefixDeliveredP(Summary)   \* violated by "silent"
FirstError          == Done /\ Honest => FirstErrorP(Summary)
NoFailEqualsString  == Done /\ Honest => NoFailEqualsStringP(Summary)
FailsAtCapacity     == Done => FailsAtCapacityP(Summary, w)
\* String() is WriteTo into a strings.Builder and panics on an error: it never does
StringNeverPanics   == Done /\ w.mode = "never" => fw.err = 0 /\ fw.n = Total
\* with a contract-violating writer only the count and the (nil) error are still right
SilentStillCounts   == Done /\ w.mode = "silent" => CountExactP(Summary) /\ fw.err = 0

\* Histories: a call behaves like a first call whatever happened before it.  All invariants above
\* are evaluated per call (obs and delivered restart), so they already state it; the two below
\* name the history effect.  Both are VIOLATED with FreshPerCall = FALSE.
CallStartsFresh     == stage = "run" /\ chunks = <<>> => fw = FwInit
HealthyAfterFailure == Done /\ Honest /\ sess.prevFailed /\ obs.failedAt = 0
                         => fw.err = 0 /\ fw.n = Total /\ DeliveredLen(delivered) = Total /\ obs.calls = Len(chunks)

\* vacuity guards (must be VIOLATED): failures and successes both occur
NeverFails   == ~(Done /\ obs.failedAt # 0)
AlwaysFails  == ~(Done /\ obs.failedAt = 0 /\ Total > 0)
NeverSkips   == ~(Done /\ obs.calls < Len(chunks))
NoHistory    == ~(Done /\ sess.call > 1 /\ sess.prevFailed /\ obs.failedAt = 0 /\ Total > 0)

----------------------------------------------------------------------------
(* Generator: one vector per (chunk sequence, writer behaviour) at "done" *)
Vector == <<"VEC", w.src, w.mode, w.sticky, w.piece, w.cap0,
            fw.n, fw.err, obs.calls, DeliveredLen(delivered), obs.sinkWrites, sess.call, sess.prevFailed>>
EmitVector == Done => PrintT(Vector)
=============================================================================
