------------------------------ MODULE PrintConc ------------------------------
(***************************************************************************)
(* Concurrent printers of one ir.Module (property C13).                    *)
(*                                                                         *)
(* The model follows ir/module.go, ir/func.go, ir/block.go, ir/global.go   *)
(* access by access.  One label = one shared-memory access (or one mutex   *)
(* operation), so TLC explores every interleaving of the accesses.         *)
(*                                                                         *)
(* Shared cells                                                            *)
(*   gid[x]     GlobalID of unnamed global x            (ir/helper.go)     *)
(*   mid[d]     MetadataID of definition d, -1 = unassigned                *)
(*   lid[f][x]  LocalID of unnamed local x of function f                   *)
(*   typ[f][x]  "the lazily cached Typ field of instruction x of f is      *)
(*              filled" (inst.Type() writes it when nil)                   *)
(*   gtyp[x]    "the cached Typ of global/function x is filled and current"*)
(*              Global.Type / Func.Type store it when nil (documented:     *)
(*              "If Typ is nil, the first invocation of Type stores ...")  *)
(*              -- from operand printing, which holds NO mutex             *)
(*   scratch    package-level state of a helper of a constant / type /     *)
(*              attribute printer (only with SharedScratch = TRUE; the     *)
(*              code as written has none): written and read back while a   *)
(*              global definition is printed, no mutex held                *)
(*   mmu        holder of Module.mu (0 = free); fmu[f] holder of Func.mu   *)
(*                                                                         *)
(* Processes = printers of three kinds (sets of process ids):              *)
(*   ModulePrinters  Module.String / WriteTo:                              *)
(*        AssignGlobalIDs   lock mmu; per global: read id, write id; unlock*)
(*        AssignMetadataIDs lock mmu; read every id (index `used`); per    *)
(*                          definition: read id, write it if -1; unlock    *)
(*        print the globals: read gid[x]  WITHOUT a lock                   *)
(*        per function: Func.LLString (below)                              *)
(*        print the metadata definitions: read mid[d] without a lock       *)
(*   FuncPrinters    Func.LLString of one function (chosen freely):        *)
(*        AssignIDs  lock fmu[f]; per local: inst.Type() (read typ, write  *)
(*                   if nil), read id, write id; unlock                    *)
(*        print header and body = what a BlockPrinter does                 *)
(*   BlockPrinters   Block.LLString / Ident / Type of the values of one    *)
(*        function: read every gid (operands), every mid (attachments),    *)
(*        typ[f][x] (write if nil) and lid[f][x] -- all without a lock.    *)
(*                                                                         *)
(* Switches                                                                *)
(*   WriteOnlyIfChanged  FALSE = as implemented: setName calls SetID even  *)
(*        when the cached ID is already right.  TRUE = the repair.         *)
(*   StartPrinted  TRUE: some printer has finished before (all cells hold  *)
(*        their final value; a parsed module is in the same state, the     *)
(*        parser pre-assigns IDs in textual order and pre-computes types). *)
(*        FALSE: freshly constructed module (ids 0, metadata ids MdInit,   *)
(*        typ cells filled iff CachePrefilled).                            *)
(*   GCachePrefilled  TRUE: NewGlobal/NewFunc/the parser computed the      *)
(*        pointer types.  FALSE: the module was built the other legal way  *)
(*        (struct literal with Typ nil), or a Type() that re-derives a     *)
(*        stale cache (exported field such as AddrSpace set after the      *)
(*        constructor) -- both mean: the first Type() call writes.  For    *)
(*        instruction caches the same start state is CachePrefilled=FALSE. *)
(*   FillGlobalCachesUnderLock  TRUE as the code is since a8ce732:         *)
(*        AssignGlobalIDs calls Type() of every global and function while  *)
(*        it holds Module.mu (FALSE = before that repair).  Since 1644016  *)
(*        Global.Type / Func.Type also re-derive a cache that is stale     *)
(*        (AddrSpace set after the constructor): that is the start state   *)
(*        GCachePrefilled = FALSE again; on a consistent module            *)
(*        (GCachePrefilled = TRUE) no Type() call writes.                  *)
(*   SharedScratch  TRUE: "someone made a printing helper keep its scratch *)
(*        table in a package-level variable": NoRace and TextEqual fail    *)
(*        from every start state, even for printers of different modules   *)
(*        (the cell does not belong to a module).                          *)
(*   NumberUpFront  TRUE as the code is since 094ed28: Module.WriteTo runs   *)
(*        AssignIDs of every function (each under that function's mutex)   *)
(*        right after the metadata IDs, before anything is printed; the    *)
(*        Func.LLString of each function later takes the mutex again and   *)
(*        finds nothing to write.  FALSE: only Func.LLString numbers.      *)
(*   StaleLocals  TRUE: the module was printed and then edited (an unnamed *)
(*        instruction inserted in front): every cached LocalID is off by   *)
(*        one, the next print has to renumber (stale, not unassigned).     *)
(*   Orphans, LockViaParent  Orphans = functions that were attached by     *)
(*        hand (ir.NewFunc / literal + append to m.Funcs: Parent is nil).  *)
(*        As the code is (LockViaParent = FALSE) AssignIDs locks the       *)
(*        function's own mutex however it was attached.  TRUE = "AssignIDs *)
(*        takes the parent module's mutex, and none when Parent is nil":   *)
(*        two printers of an orphan run AssignIDs at the same time.        *)
(*   LockGlobals, LockLocals  TRUE as the code; FALSE = "someone removed   *)
(*        the Lock" (sensitivity checks for Mutex / NoRace).               *)
(*                                                                         *)
(* Properties                                                              *)
(*   NoRace    no two processes have enabled next-accesses to the same     *)
(*             cell, at least one a write, without a common held mutex     *)
(*             (the happens-before definition the Go race detector uses,   *)
(*             in its simultaneous-enabledness form).                      *)
(*   TextEqual every value a printer reads while printing is the value a   *)
(*             lone sequential call of the same entry point reads: the     *)
(*             final numbering for cells whose assignment that entry point *)
(*             performs itself, the start value otherwise.                 *)
(*   Mutex     a mutex has one holder; ID writes happen only by the holder.*)
(*   RaceLog   (always true) prints the class of every race TLC meets,     *)
(*             once per worker: <<"RACE", cell class, writer step, other   *)
(*             party>>.  The harness takes the classes the as-implemented  *)
(*             model predicts as the vocabulary of its race signatures.    *)
(*                                                                         *)
(* Results (see notes/C13.md for the counts): as implemented NoRace is     *)
(* violated from both start states; with WriteOnlyIfChanged it holds for   *)
(* every mix of printers from the printed state and for module/function    *)
(* printers from the fresh state; a lock-free reader (BlockPrinter, or a   *)
(* FuncPrinter with respect to gid/mid) next to a *first* print still      *)
(* races and may see half-assigned numbering.                              *)
(*                                                                         *)
(* With GCachePrefilled = FALSE (cached pointer type of a global nil --     *)
(* struct literal, which the documentation allows -- or stale and re-      *)
(* derived by Type()) NoRace fails even for two module printers on a first *)
(* print: operand printing stores the type while holding no mutex;         *)
(* FillGlobalCachesUnderLock = TRUE restores it.                           *)
(*                                                                         *)
(* With SharedScratch = TRUE (a printing helper keeps scratch state in a   *)
(* package-level variable) NoRace and TextEqual fail from every start      *)
(* state.                                                                  *)
(*                                                                         *)
(* Binding to the code: harness/props/c13 runs the real printers under the *)
(* Go race detector (same kinds, same start states) and maps every report  *)
(* to a class <<cell, writer step, other party>>; the hook events          *)
(* lock/setid/unlock are judged by PrintConcTrace.tla.                     *)
(***************************************************************************)
EXTENDS Integers, Sequences, FiniteSets, TLC

CONSTANTS ModulePrinters, FuncPrinters, BlockPrinters,   \* disjoint sets of process ids (positive integers)
          NG, NF, NL,             \* unnamed globals; functions; unnamed locals per function
          MdCase,                 \* selects MdInit, the metadata IDs of a fresh module (a cfg cannot hold a tuple)
          WriteOnlyIfChanged, StartPrinted, CachePrefilled, LockGlobals, LockLocals,
          GCachePrefilled, FillGlobalCachesUnderLock, SharedScratch,
          StaleLocals, Orphans, LockViaParent, NumberUpFront

Printers == ModulePrinters \cup FuncPrinters \cup BlockPrinters
MdInit == CASE MdCase = 0 -> <<>>
            [] MdCase = 1 -> <<-1>>
            [] MdCase = 2 -> <<-1, 0>>            \* explicit 0 after an unassigned one: the unassigned gets 1
            [] MdCase = 3 -> <<-1, 0, -1>>
            [] OTHER      -> <<1, -1, -1, 3>>
NM == Len(MdInit)

Md == INSTANCE Metadata WITH MaxDefs <- 0, MaxId <- 0, Variant <- "code", Emit <- FALSE,
                             ids <- <<>>, shape <- 0, stage <- "none"

\* the numbering a sequential print produces (LLVM numbering: 0, 1, 2, ... in order)
WantG(x) == x - 1
WantL(x) == x - 1
WantM    == Md!MdAssign(MdInit).ids
ASSUME Md!MdAssign(MdInit).ok

\* the lock protocol and the write rule, shared with PrintConcTrace.tla
LockFree(holder)      == holder = 0
HolderIs(holder, p)   == holder = p
WriteNeeded(old, new) == ~WriteOnlyIfChanged \/ old # new     \* setName: n.SetID(id)

(* --algorithm PrintConc
variables
  gid = [x \in 1..NG |-> IF StartPrinted THEN WantG(x) ELSE 0],
  mid = [d \in 1..NM |-> IF StartPrinted THEN WantM[d] ELSE MdInit[d]],
  lid = [h \in 1..NF |-> [x \in 1..NL |-> IF StaleLocals THEN WantL(x) + 1 ELSE IF StartPrinted THEN WantL(x) ELSE 0]],
  typ = [h \in 1..NF |-> [x \in 1..NL |-> StartPrinted \/ CachePrefilled]],
  gtyp = [x \in 1..NG |-> StartPrinted \/ GCachePrefilled],
  scratch = 0,
  mmu = 0,
  fmu = [h \in 1..NF |-> 0],
  bad = [p \in Printers |-> FALSE];      \* p read a value a lone sequential call would not read

define
  InitG(x) == IF StartPrinted THEN WantG(x) ELSE 0
  InitM(d) == IF StartPrinted THEN WantM[d] ELSE MdInit[d]
  InitL(x) == IF StaleLocals THEN WantL(x) + 1 ELSE IF StartPrinted THEN WantL(x) ELSE 0
  \* value a lone sequential call of p's entry point reads
  LoneG(p, x) == IF p \in ModulePrinters THEN WantG(x) ELSE InitG(x)
  LoneM(p, d) == IF p \in ModulePrinters THEN WantM[d] ELSE InitM(d)
  LoneL(p, x) == IF p \in ModulePrinters \cup FuncPrinters THEN WantL(x) ELSE InitL(x)
end define;

fair process printer \in Printers
variables c = 1, f = 1, last = 1, tmp = 0, pre = FALSE;
begin
Start:
  if self \in ModulePrinters then
    f := 1; last := NF;
  else
    with ff \in 1..NF do f := ff; last := ff; end with;
    if self \in FuncPrinters then goto LockF; else goto EmG; end if;
  end if;
\* ---- Module.AssignGlobalIDs -------------------------------------------
LockG:
  if LockGlobals then await LockFree(mmu); mmu := self; end if;
AG:
  while c <= NG do
RdG:  tmp := gid[c];                                                   \* n.ID()
WrG:  if WriteNeeded(tmp, WantG(c)) then gid[c] := WantG(c); end if;   \* n.SetID(id)
      if FillGlobalCachesUnderLock then
FgT:    tmp := IF gtyp[c] THEN 1 ELSE 0;                               \* repair candidate: n.Type() under Module.mu
FwT:    if tmp = 0 then gtyp[c] := TRUE; end if;
      end if;
NxG:  c := c + 1;
  end while;
UnlockG:
  if LockGlobals then mmu := 0; end if;
  c := 1;
\* ---- Module.AssignMetadataIDs -----------------------------------------
LockM:
  if LockGlobals then await LockFree(mmu); mmu := self; end if;
IM:
  while c <= NM do
RdM1: tmp := mid[c]; c := c + 1;                                       \* index the used IDs
  end while;
  c := 1;
AM:
  while c <= NM do
RdM:  tmp := mid[c];
WrM:  if tmp = -1 then mid[c] := WantM[c]; end if;                     \* md.SetID(newID)
      c := c + 1;
  end while;
UnlockM:
  if LockGlobals then mmu := 0; end if;
  c := 1;
\* ---- Module.WriteTo: for every function f.assignIDs, before anything is printed
UpFront:
  if NumberUpFront /\ NF > 0 then pre := TRUE; goto LockF; end if;
\* ---- global definitions: g.Ident() without a lock ----------------------
PG:
  while c <= NG do
      if SharedScratch then
SwG:    scratch := self;                                               \* helper fills its package-level table
SrG:    bad[self] := bad[self] \/ scratch # self;                      \* ... reads it back
ScG:    scratch := 0;                                                  \* ... and clears it for the next call
      end if;
PrG:  bad[self] := bad[self] \/ gid[c] # LoneG(self, c); c := c + 1;
  end while;
  c := 1;
\* ---- Func.LLString: AssignIDs ------------------------------------------
LockF:
  if LockLocals /\ ~LockViaParent then
    await LockFree(fmu[f]); fmu[f] := self;                            \* f.mu.Lock(): the function's own mutex
  elsif LockLocals /\ f \notin Orphans then
    await LockFree(mmu); mmu := self;                                  \* variant: f.Parent.mu.Lock(), nothing if Parent == nil
  end if;
AL:
  while c <= NL do
RdT:  tmp := IF typ[f][c] THEN 1 ELSE 0;                               \* n.Type(): Typ == nil ?
WrT:  if tmp = 0 then typ[f][c] := TRUE; end if;                       \*   Typ = ...
RdL:  tmp := lid[f][c];
WrL:  if WriteNeeded(tmp, WantL(c)) then lid[f][c] := WantL(c); end if;
      c := c + 1;
  end while;
UnlockF:
  if LockLocals /\ ~LockViaParent then
    fmu[f] := 0;
  elsif LockLocals /\ f \notin Orphans then
    mmu := 0;
  end if;
  c := 1;
AfterF:
  if pre then
    if f < last then
      f := f + 1; goto LockF;
    else
      pre := FALSE; f := 1; goto PG;
    end if;
  end if;
\* ---- header and body: every read without a lock ------------------------
EmG:
  while c <= NG do
PrGT: tmp := IF gtyp[c] THEN 1 ELSE 0;                                 \* operand "T* @N": g.Type(), Typ == nil (or stale)?
PwGT: if tmp = 0 then gtyp[c] := TRUE; end if;                         \*   g.Typ = types.NewPointer(...): no lock held
PrEG: bad[self] := bad[self] \/ gid[c] # LoneG(self, c); c := c + 1;   \* operands @N, the function's own @N
  end while;
  c := 1;
EmM:
  while c <= NM do
PrEM: bad[self] := bad[self] \/ mid[c] # LoneM(self, c); c := c + 1;   \* attachments !dbg !N
  end while;
  c := 1;
EmL:
  while c <= NL do
PrT:  tmp := IF typ[f][c] THEN 1 ELSE 0;                               \* inst.Type() while printing
PwT:  if tmp = 0 then typ[f][c] := TRUE; end if;
PrL:  bad[self] := bad[self] \/ lid[f][c] # LoneL(self, c); c := c + 1;   \* inst.Ident()
  end while;
  c := 1;
NextF:
  if f < last then f := f + 1; goto LockF; end if;
\* ---- metadata definitions: md.Ident() without a lock -------------------
PM:
  while self \in ModulePrinters /\ c <= NM do
PrM:  bad[self] := bad[self] \/ mid[c] # LoneM(self, c); c := c + 1;
  end while;
end process;
end algorithm *)
\* BEGIN TRANSLATION
VARIABLES pc, gid, mid, lid, typ, gtyp, scratch, mmu, fmu, bad

(* define statement *)
InitG(x) == IF StartPrinted THEN WantG(x) ELSE 0
InitM(d) == IF StartPrinted THEN WantM[d] ELSE MdInit[d]
InitL(x) == IF StaleLocals THEN WantL(x) + 1 ELSE IF StartPrinted THEN WantL(x) ELSE 0

LoneG(p, x) == IF p \in ModulePrinters THEN WantG(x) ELSE InitG(x)
LoneM(p, d) == IF p \in ModulePrinters THEN WantM[d] ELSE InitM(d)
LoneL(p, x) == IF p \in ModulePrinters \cup FuncPrinters THEN WantL(x) ELSE InitL(x)

VARIABLES c, f, last, tmp, pre

vars == << pc, gid, mid, lid, typ, gtyp, scratch, mmu, fmu, bad, c, f, last, 
           tmp, pre >>

ProcSet == (Printers)

Init == (* Global variables *)
        /\ gid = [x \in 1..NG |-> IF StartPrinted THEN WantG(x) ELSE 0]
        /\ mid = [d \in 1..NM |-> IF StartPrinted THEN WantM[d] ELSE MdInit[d]]
        /\ lid = [h \in 1..NF |-> [x \in 1..NL |-> IF StaleLocals THEN WantL(x) + 1 ELSE IF StartPrinted THEN WantL(x) ELSE 0]]
        /\ typ = [h \in 1..NF |-> [x \in 1..NL |-> StartPrinted \/ CachePrefilled]]
        /\ gtyp = [x \in 1..NG |-> StartPrinted \/ GCachePrefilled]
        /\ scratch = 0
        /\ mmu = 0
        /\ fmu = [h \in 1..NF |-> 0]
        /\ bad = [p \in Printers |-> FALSE]
        (* Process printer *)
        /\ c = [self \in Printers |-> 1]
        /\ f = [self \in Printers |-> 1]
        /\ last = [self \in Printers |-> 1]
        /\ tmp = [self \in Printers |-> 0]
        /\ pre = [self \in Printers |-> FALSE]
        /\ pc = [self \in ProcSet |-> "Start"]

Start(self) == /\ pc[self] = "Start"
               /\ IF self \in ModulePrinters
                     THEN /\ f' = [f EXCEPT ![self] = 1]
                          /\ last' = [last EXCEPT ![self] = NF]
                          /\ pc' = [pc EXCEPT ![self] = "LockG"]
                     ELSE /\ \E ff \in 1..NF:
                               /\ f' = [f EXCEPT ![self] = ff]
                               /\ last' = [last EXCEPT ![self] = ff]
                          /\ IF self \in FuncPrinters
                                THEN /\ pc' = [pc EXCEPT ![self] = "LockF"]
                                ELSE /\ pc' = [pc EXCEPT ![self] = "EmG"]
               /\ UNCHANGED << gid, mid, lid, typ, gtyp, scratch, mmu, fmu, 
                               bad, c, tmp, pre >>

LockG(self) == /\ pc[self] = "LockG"
               /\ IF LockGlobals
                     THEN /\ LockFree(mmu)
                          /\ mmu' = self
                     ELSE /\ TRUE
                          /\ mmu' = mmu
               /\ pc' = [pc EXCEPT ![self] = "AG"]
               /\ UNCHANGED << gid, mid, lid, typ, gtyp, scratch, fmu, bad, c, 
                               f, last, tmp, pre >>

AG(self) == /\ pc[self] = "AG"
            /\ IF c[self] <= NG
                  THEN /\ pc' = [pc EXCEPT ![self] = "RdG"]
                  ELSE /\ pc' = [pc EXCEPT ![self] = "UnlockG"]
            /\ UNCHANGED << gid, mid, lid, typ, gtyp, scratch, mmu, fmu, bad, 
                            c, f, last, tmp, pre >>

RdG(self) == /\ pc[self] = "RdG"
             /\ tmp' = [tmp EXCEPT ![self] = gid[c[self]]]
             /\ pc' = [pc EXCEPT ![self] = "WrG"]
             /\ UNCHANGED << gid, mid, lid, typ, gtyp, scratch, mmu, fmu, bad, 
                             c, f, last, pre >>

WrG(self) == /\ pc[self] = "WrG"
             /\ IF WriteNeeded(tmp[self], WantG(c[self]))
                   THEN /\ gid' = [gid EXCEPT ![c[self]] = WantG(c[self])]
                   ELSE /\ TRUE
                        /\ gid' = gid
             /\ IF FillGlobalCachesUnderLock
                   THEN /\ pc' = [pc EXCEPT ![self] = "FgT"]
                   ELSE /\ pc' = [pc EXCEPT ![self] = "NxG"]
             /\ UNCHANGED << mid, lid, typ, gtyp, scratch, mmu, fmu, bad, c, f, 
                             last, tmp, pre >>

FgT(self) == /\ pc[self] = "FgT"
             /\ tmp' = [tmp EXCEPT ![self] = IF gtyp[c[self]] THEN 1 ELSE 0]
             /\ pc' = [pc EXCEPT ![self] = "FwT"]
             /\ UNCHANGED << gid, mid, lid, typ, gtyp, scratch, mmu, fmu, bad, 
                             c, f, last, pre >>

FwT(self) == /\ pc[self] = "FwT"
             /\ IF tmp[self] = 0
                   THEN /\ gtyp' = [gtyp EXCEPT ![c[self]] = TRUE]
                   ELSE /\ TRUE
                        /\ gtyp' = gtyp
             /\ pc' = [pc EXCEPT ![self] = "NxG"]
             /\ UNCHANGED << gid, mid, lid, typ, scratch, mmu, fmu, bad, c, f, 
                             last, tmp, pre >>

NxG(self) == /\ pc[self] = "NxG"
             /\ c' = [c EXCEPT ![self] = c[self] + 1]
             /\ pc' = [pc EXCEPT ![self] = "AG"]
             /\ UNCHANGED << gid, mid, lid, typ, gtyp, scratch, mmu, fmu, bad, 
                             f, last, tmp, pre >>

UnlockG(self) == /\ pc[self] = "UnlockG"
                 /\ IF LockGlobals
                       THEN /\ mmu' = 0
                       ELSE /\ TRUE
                            /\ mmu' = mmu
                 /\ c' = [c EXCEPT ![self] = 1]
                 /\ pc' = [pc EXCEPT ![self] = "LockM"]
                 /\ UNCHANGED << gid, mid, lid, typ, gtyp, scratch, fmu, bad, 
                                 f, last, tmp, pre >>

LockM(self) == /\ pc[self] = "LockM"
               /\ IF LockGlobals
                     THEN /\ LockFree(mmu)
                          /\ mmu' = self
                     ELSE /\ TRUE
                          /\ mmu' = mmu
               /\ pc' = [pc EXCEPT ![self] = "IM"]
               /\ UNCHANGED << gid, mid, lid, typ, gtyp, scratch, fmu, bad, c, 
                               f, last, tmp, pre >>

IM(self) == /\ pc[self] = "IM"
            /\ IF c[self] <= NM
                  THEN /\ pc' = [pc EXCEPT ![self] = "RdM1"]
                       /\ c' = c
                  ELSE /\ c' = [c EXCEPT ![self] = 1]
                       /\ pc' = [pc EXCEPT ![self] = "AM"]
            /\ UNCHANGED << gid, mid, lid, typ, gtyp, scratch, mmu, fmu, bad, 
                            f, last, tmp, pre >>

RdM1(self) == /\ pc[self] = "RdM1"
              /\ tmp' = [tmp EXCEPT ![self] = mid[c[self]]]
              /\ c' = [c EXCEPT ![self] = c[self] + 1]
              /\ pc' = [pc EXCEPT ![self] = "IM"]
              /\ UNCHANGED << gid, mid, lid, typ, gtyp, scratch, mmu, fmu, bad, 
                              f, last, pre >>

AM(self) == /\ pc[self] = "AM"
            /\ IF c[self] <= NM
                  THEN /\ pc' = [pc EXCEPT ![self] = "RdM"]
                  ELSE /\ pc' = [pc EXCEPT ![self] = "UnlockM"]
            /\ UNCHANGED << gid, mid, lid, typ, gtyp, scratch, mmu, fmu, bad, 
                            c, f, last, tmp, pre >>

RdM(self) == /\ pc[self] = "RdM"
             /\ tmp' = [tmp EXCEPT ![self] = mid[c[self]]]
             /\ pc' = [pc EXCEPT ![self] = "WrM"]
             /\ UNCHANGED << gid, mid, lid, typ, gtyp, scratch, mmu, fmu, bad, 
                             c, f, last, pre >>

WrM(self) == /\ pc[self] = "WrM"
             /\ IF tmp[self] = -1
                   THEN /\ mid' = [mid EXCEPT ![c[self]] = WantM[c[self]]]
                   ELSE /\ TRUE
                        /\ mid' = mid
             /\ c' = [c EXCEPT ![self] = c[self] + 1]
             /\ pc' = [pc EXCEPT ![self] = "AM"]
             /\ UNCHANGED << gid, lid, typ, gtyp, scratch, mmu, fmu, bad, f, 
                             last, tmp, pre >>

UnlockM(self) == /\ pc[self] = "UnlockM"
                 /\ IF LockGlobals
                       THEN /\ mmu' = 0
                       ELSE /\ TRUE
                            /\ mmu' = mmu
                 /\ c' = [c EXCEPT ![self] = 1]
                 /\ pc' = [pc EXCEPT ![self] = "UpFront"]
                 /\ UNCHANGED << gid, mid, lid, typ, gtyp, scratch, fmu, bad, 
                                 f, last, tmp, pre >>

UpFront(self) == /\ pc[self] = "UpFront"
                 /\ IF NumberUpFront /\ NF > 0
                       THEN /\ pre' = [pre EXCEPT ![self] = TRUE]
                            /\ pc' = [pc EXCEPT ![self] = "LockF"]
                       ELSE /\ pc' = [pc EXCEPT ![self] = "PG"]
                            /\ pre' = pre
                 /\ UNCHANGED << gid, mid, lid, typ, gtyp, scratch, mmu, fmu, 
                                 bad, c, f, last, tmp >>

PG(self) == /\ pc[self] = "PG"
            /\ IF c[self] <= NG
                  THEN /\ IF SharedScratch
                             THEN /\ pc' = [pc EXCEPT ![self] = "SwG"]
                             ELSE /\ pc' = [pc EXCEPT ![self] = "PrG"]
                       /\ c' = c
                  ELSE /\ c' = [c EXCEPT ![self] = 1]
                       /\ pc' = [pc EXCEPT ![self] = "LockF"]
            /\ UNCHANGED << gid, mid, lid, typ, gtyp, scratch, mmu, fmu, bad, 
                            f, last, tmp, pre >>

PrG(self) == /\ pc[self] = "PrG"
             /\ bad' = [bad EXCEPT ![self] = bad[self] \/ gid[c[self]] # LoneG(self, c[self])]
             /\ c' = [c EXCEPT ![self] = c[self] + 1]
             /\ pc' = [pc EXCEPT ![self] = "PG"]
             /\ UNCHANGED << gid, mid, lid, typ, gtyp, scratch, mmu, fmu, f, 
                             last, tmp, pre >>

SwG(self) == /\ pc[self] = "SwG"
             /\ scratch' = self
             /\ pc' = [pc EXCEPT ![self] = "SrG"]
             /\ UNCHANGED << gid, mid, lid, typ, gtyp, mmu, fmu, bad, c, f, 
                             last, tmp, pre >>

SrG(self) == /\ pc[self] = "SrG"
             /\ bad' = [bad EXCEPT ![self] = bad[self] \/ scratch # self]
             /\ pc' = [pc EXCEPT ![self] = "ScG"]
             /\ UNCHANGED << gid, mid, lid, typ, gtyp, scratch, mmu, fmu, c, f, 
                             last, tmp, pre >>

ScG(self) == /\ pc[self] = "ScG"
             /\ scratch' = 0
             /\ pc' = [pc EXCEPT ![self] = "PrG"]
             /\ UNCHANGED << gid, mid, lid, typ, gtyp, mmu, fmu, bad, c, f, 
                             last, tmp, pre >>

LockF(self) == /\ pc[self] = "LockF"
               /\ IF LockLocals /\ ~LockViaParent
                     THEN /\ LockFree(fmu[f[self]])
                          /\ fmu' = [fmu EXCEPT ![f[self]] = self]
                          /\ mmu' = mmu
                     ELSE /\ IF LockLocals /\ f[self] \notin Orphans
                                THEN /\ LockFree(mmu)
                                     /\ mmu' = self
                                ELSE /\ TRUE
                                     /\ mmu' = mmu
                          /\ fmu' = fmu
               /\ pc' = [pc EXCEPT ![self] = "AL"]
               /\ UNCHANGED << gid, mid, lid, typ, gtyp, scratch, bad, c, f, 
                               last, tmp, pre >>

AL(self) == /\ pc[self] = "AL"
            /\ IF c[self] <= NL
                  THEN /\ pc' = [pc EXCEPT ![self] = "RdT"]
                  ELSE /\ pc' = [pc EXCEPT ![self] = "UnlockF"]
            /\ UNCHANGED << gid, mid, lid, typ, gtyp, scratch, mmu, fmu, bad, 
                            c, f, last, tmp, pre >>

RdT(self) == /\ pc[self] = "RdT"
             /\ tmp' = [tmp EXCEPT ![self] = IF typ[f[self]][c[self]] THEN 1 ELSE 0]
             /\ pc' = [pc EXCEPT ![self] = "WrT"]
             /\ UNCHANGED << gid, mid, lid, typ, gtyp, scratch, mmu, fmu, bad, 
                             c, f, last, pre >>

WrT(self) == /\ pc[self] = "WrT"
             /\ IF tmp[self] = 0
                   THEN /\ typ' = [typ EXCEPT ![f[self]][c[self]] = TRUE]
                   ELSE /\ TRUE
                        /\ typ' = typ
             /\ pc' = [pc EXCEPT ![self] = "RdL"]
             /\ UNCHANGED << gid, mid, lid, gtyp, scratch, mmu, fmu, bad, c, f, 
                             last, tmp, pre >>

RdL(self) == /\ pc[self] = "RdL"
             /\ tmp' = [tmp EXCEPT ![self] = lid[f[self]][c[self]]]
             /\ pc' = [pc EXCEPT ![self] = "WrL"]
             /\ UNCHANGED << gid, mid, lid, typ, gtyp, scratch, mmu, fmu, bad, 
                             c, f, last, pre >>

WrL(self) == /\ pc[self] = "WrL"
             /\ IF WriteNeeded(tmp[self], WantL(c[self]))
                   THEN /\ lid' = [lid EXCEPT ![f[self]][c[self]] = WantL(c[self])]
                   ELSE /\ TRUE
                        /\ lid' = lid
             /\ c' = [c EXCEPT ![self] = c[self] + 1]
             /\ pc' = [pc EXCEPT ![self] = "AL"]
             /\ UNCHANGED << gid, mid, typ, gtyp, scratch, mmu, fmu, bad, f, 
                             last, tmp, pre >>

UnlockF(self) == /\ pc[self] = "UnlockF"
                 /\ IF LockLocals /\ ~LockViaParent
                       THEN /\ fmu' = [fmu EXCEPT ![f[self]] = 0]
                            /\ mmu' = mmu
                       ELSE /\ IF LockLocals /\ f[self] \notin Orphans
                                  THEN /\ mmu' = 0
                                  ELSE /\ TRUE
                                       /\ mmu' = mmu
                            /\ fmu' = fmu
                 /\ c' = [c EXCEPT ![self] = 1]
                 /\ pc' = [pc EXCEPT ![self] = "AfterF"]
                 /\ UNCHANGED << gid, mid, lid, typ, gtyp, scratch, bad, f, 
                                 last, tmp, pre >>

AfterF(self) == /\ pc[self] = "AfterF"
                /\ IF pre[self]
                      THEN /\ IF f[self] < last[self]
                                 THEN /\ f' = [f EXCEPT ![self] = f[self] + 1]
                                      /\ pc' = [pc EXCEPT ![self] = "LockF"]
                                      /\ pre' = pre
                                 ELSE /\ pre' = [pre EXCEPT ![self] = FALSE]
                                      /\ f' = [f EXCEPT ![self] = 1]
                                      /\ pc' = [pc EXCEPT ![self] = "PG"]
                      ELSE /\ pc' = [pc EXCEPT ![self] = "EmG"]
                           /\ UNCHANGED << f, pre >>
                /\ UNCHANGED << gid, mid, lid, typ, gtyp, scratch, mmu, fmu, 
                                bad, c, last, tmp >>

EmG(self) == /\ pc[self] = "EmG"
             /\ IF c[self] <= NG
                   THEN /\ pc' = [pc EXCEPT ![self] = "PrGT"]
                        /\ c' = c
                   ELSE /\ c' = [c EXCEPT ![self] = 1]
                        /\ pc' = [pc EXCEPT ![self] = "EmM"]
             /\ UNCHANGED << gid, mid, lid, typ, gtyp, scratch, mmu, fmu, bad, 
                             f, last, tmp, pre >>

PrGT(self) == /\ pc[self] = "PrGT"
              /\ tmp' = [tmp EXCEPT ![self] = IF gtyp[c[self]] THEN 1 ELSE 0]
              /\ pc' = [pc EXCEPT ![self] = "PwGT"]
              /\ UNCHANGED << gid, mid, lid, typ, gtyp, scratch, mmu, fmu, bad, 
                              c, f, last, pre >>

PwGT(self) == /\ pc[self] = "PwGT"
              /\ IF tmp[self] = 0
                    THEN /\ gtyp' = [gtyp EXCEPT ![c[self]] = TRUE]
                    ELSE /\ TRUE
                         /\ gtyp' = gtyp
              /\ pc' = [pc EXCEPT ![self] = "PrEG"]
              /\ UNCHANGED << gid, mid, lid, typ, scratch, mmu, fmu, bad, c, f, 
                              last, tmp, pre >>

PrEG(self) == /\ pc[self] = "PrEG"
              /\ bad' = [bad EXCEPT ![self] = bad[self] \/ gid[c[self]] # LoneG(self, c[self])]
              /\ c' = [c EXCEPT ![self] = c[self] + 1]
              /\ pc' = [pc EXCEPT ![self] = "EmG"]
              /\ UNCHANGED << gid, mid, lid, typ, gtyp, scratch, mmu, fmu, f, 
                              last, tmp, pre >>

EmM(self) == /\ pc[self] = "EmM"
             /\ IF c[self] <= NM
                   THEN /\ pc' = [pc EXCEPT ![self] = "PrEM"]
                        /\ c' = c
                   ELSE /\ c' = [c EXCEPT ![self] = 1]
                        /\ pc' = [pc EXCEPT ![self] = "EmL"]
             /\ UNCHANGED << gid, mid, lid, typ, gtyp, scratch, mmu, fmu, bad, 
                             f, last, tmp, pre >>

PrEM(self) == /\ pc[self] = "PrEM"
              /\ bad' = [bad EXCEPT ![self] = bad[self] \/ mid[c[self]] # LoneM(self, c[self])]
              /\ c' = [c EXCEPT ![self] = c[self] + 1]
              /\ pc' = [pc EXCEPT ![self] = "EmM"]
              /\ UNCHANGED << gid, mid, lid, typ, gtyp, scratch, mmu, fmu, f, 
                              last, tmp, pre >>

EmL(self) == /\ pc[self] = "EmL"
             /\ IF c[self] <= NL
                   THEN /\ pc' = [pc EXCEPT ![self] = "PrT"]
                        /\ c' = c
                   ELSE /\ c' = [c EXCEPT ![self] = 1]
                        /\ pc' = [pc EXCEPT ![self] = "NextF"]
             /\ UNCHANGED << gid, mid, lid, typ, gtyp, scratch, mmu, fmu, bad, 
                             f, last, tmp, pre >>

PrT(self) == /\ pc[self] = "PrT"
             /\ tmp' = [tmp EXCEPT ![self] = IF typ[f[self]][c[self]] THEN 1 ELSE 0]
             /\ pc' = [pc EXCEPT ![self] = "PwT"]
             /\ UNCHANGED << gid, mid, lid, typ, gtyp, scratch, mmu, fmu, bad, 
                             c, f, last, pre >>

PwT(self) == /\ pc[self] = "PwT"
             /\ IF tmp[self] = 0
                   THEN /\ typ' = [typ EXCEPT ![f[self]][c[self]] = TRUE]
                   ELSE /\ TRUE
                        /\ typ' = typ
             /\ pc' = [pc EXCEPT ![self] = "PrL"]
             /\ UNCHANGED << gid, mid, lid, gtyp, scratch, mmu, fmu, bad, c, f, 
                             last, tmp, pre >>

PrL(self) == /\ pc[self] = "PrL"
             /\ bad' = [bad EXCEPT ![self] = bad[self] \/ lid[f[self]][c[self]] # LoneL(self, c[self])]
             /\ c' = [c EXCEPT ![self] = c[self] + 1]
             /\ pc' = [pc EXCEPT ![self] = "EmL"]
             /\ UNCHANGED << gid, mid, lid, typ, gtyp, scratch, mmu, fmu, f, 
                             last, tmp, pre >>

NextF(self) == /\ pc[self] = "NextF"
               /\ IF f[self] < last[self]
                     THEN /\ f' = [f EXCEPT ![self] = f[self] + 1]
                          /\ pc' = [pc EXCEPT ![self] = "LockF"]
                     ELSE /\ pc' = [pc EXCEPT ![self] = "PM"]
                          /\ f' = f
               /\ UNCHANGED << gid, mid, lid, typ, gtyp, scratch, mmu, fmu, 
                               bad, c, last, tmp, pre >>

PM(self) == /\ pc[self] = "PM"
            /\ IF self \in ModulePrinters /\ c[self] <= NM
                  THEN /\ pc' = [pc EXCEPT ![self] = "PrM"]
                  ELSE /\ pc' = [pc EXCEPT ![self] = "Done"]
            /\ UNCHANGED << gid, mid, lid, typ, gtyp, scratch, mmu, fmu, bad, 
                            c, f, last, tmp, pre >>

PrM(self) == /\ pc[self] = "PrM"
             /\ bad' = [bad EXCEPT ![self] = bad[self] \/ mid[c[self]] # LoneM(self, c[self])]
             /\ c' = [c EXCEPT ![self] = c[self] + 1]
             /\ pc' = [pc EXCEPT ![self] = "PM"]
             /\ UNCHANGED << gid, mid, lid, typ, gtyp, scratch, mmu, fmu, f, 
                             last, tmp, pre >>

printer(self) == Start(self) \/ LockG(self) \/ AG(self) \/ RdG(self)
                    \/ WrG(self) \/ FgT(self) \/ FwT(self) \/ NxG(self)
                    \/ UnlockG(self) \/ LockM(self) \/ IM(self)
                    \/ RdM1(self) \/ AM(self) \/ RdM(self) \/ WrM(self)
                    \/ UnlockM(self) \/ UpFront(self) \/ PG(self)
                    \/ PrG(self) \/ SwG(self) \/ SrG(self) \/ ScG(self)
                    \/ LockF(self) \/ AL(self) \/ RdT(self) \/ WrT(self)
                    \/ RdL(self) \/ WrL(self) \/ UnlockF(self)
                    \/ AfterF(self) \/ EmG(self) \/ PrGT(self)
                    \/ PwGT(self) \/ PrEG(self) \/ EmM(self) \/ PrEM(self)
                    \/ EmL(self) \/ PrT(self) \/ PwT(self) \/ PrL(self)
                    \/ NextF(self) \/ PM(self) \/ PrM(self)

(* Allow infinite stuttering to prevent deadlock on termination. *)
Terminating == /\ \A self \in ProcSet: pc[self] = "Done"
               /\ UNCHANGED vars

Next == (\E self \in Printers: printer(self))
           \/ Terminating

Spec == /\ Init /\ [][Next]_vars
        /\ \A self \in Printers : WF_vars(printer(self))

Termination == <>(\A self \in ProcSet: pc[self] = "Done")

\* END TRANSLATION

---------------------------------------------------------------------------
\* mutexes held by p
Held(p) == (IF mmu = p THEN {"m"} ELSE {}) \cup {<<"f", g>> : g \in {h \in 1..NF : fmu[h] = p}}

NoAcc == [cls |-> "none", idx |-> <<>>, w |-> FALSE, step |-> "none"]
\* the next memory access of p: cell class, cell index, write?, code step
Acc(p) ==
  LET at == pc[p] cc == c[p] ff == f[p] IN
  CASE at = "RdG"  -> [cls |-> "gid", idx |-> <<cc>>, w |-> FALSE, step |-> "AssignGlobalIDs"]
    [] at = "WrG"  -> IF WriteNeeded(tmp[p], WantG(cc))
                      THEN [cls |-> "gid", idx |-> <<cc>>, w |-> TRUE, step |-> "AssignGlobalIDs"] ELSE NoAcc
    [] at = "RdM1" -> [cls |-> "mid", idx |-> <<cc>>, w |-> FALSE, step |-> "AssignMetadataIDs"]
    [] at = "RdM"  -> [cls |-> "mid", idx |-> <<cc>>, w |-> FALSE, step |-> "AssignMetadataIDs"]
    [] at = "WrM"  -> IF tmp[p] = -1
                      THEN [cls |-> "mid", idx |-> <<cc>>, w |-> TRUE, step |-> "AssignMetadataIDs"] ELSE NoAcc
    [] at = "SwG"  -> [cls |-> "pkg", idx |-> <<>>, w |-> TRUE, step |-> "print"]
    [] at = "SrG"  -> [cls |-> "pkg", idx |-> <<>>, w |-> FALSE, step |-> "print"]
    [] at = "ScG"  -> [cls |-> "pkg", idx |-> <<>>, w |-> TRUE, step |-> "print"]
    [] at = "PrG"  -> [cls |-> "gid", idx |-> <<cc>>, w |-> FALSE, step |-> "print"]
    [] at = "RdT"  -> [cls |-> "typ", idx |-> <<ff, cc>>, w |-> FALSE, step |-> "AssignIDs"]
    [] at = "WrT"  -> IF tmp[p] = 0
                      THEN [cls |-> "typ", idx |-> <<ff, cc>>, w |-> TRUE, step |-> "AssignIDs"] ELSE NoAcc
    [] at = "RdL"  -> [cls |-> "lid", idx |-> <<ff, cc>>, w |-> FALSE, step |-> "AssignIDs"]
    [] at = "WrL"  -> IF WriteNeeded(tmp[p], WantL(cc))
                      THEN [cls |-> "lid", idx |-> <<ff, cc>>, w |-> TRUE, step |-> "AssignIDs"] ELSE NoAcc
    [] at = "FgT"  -> [cls |-> "gtyp", idx |-> <<cc>>, w |-> FALSE, step |-> "AssignGlobalIDs"]
    [] at = "FwT"  -> IF tmp[p] = 0
                      THEN [cls |-> "gtyp", idx |-> <<cc>>, w |-> TRUE, step |-> "AssignGlobalIDs"] ELSE NoAcc
    [] at = "PrGT" -> [cls |-> "gtyp", idx |-> <<cc>>, w |-> FALSE, step |-> "print"]
    [] at = "PwGT" -> IF tmp[p] = 0
                      THEN [cls |-> "gtyp", idx |-> <<cc>>, w |-> TRUE, step |-> "print"] ELSE NoAcc
    [] at = "PrEG" -> [cls |-> "gid", idx |-> <<cc>>, w |-> FALSE, step |-> "print"]
    [] at = "PrEM" -> [cls |-> "mid", idx |-> <<cc>>, w |-> FALSE, step |-> "print"]
    [] at = "PrT"  -> [cls |-> "typ", idx |-> <<ff, cc>>, w |-> FALSE, step |-> "print"]
    [] at = "PwT"  -> IF tmp[p] = 0
                      THEN [cls |-> "typ", idx |-> <<ff, cc>>, w |-> TRUE, step |-> "print"] ELSE NoAcc
    [] at = "PrL"  -> [cls |-> "lid", idx |-> <<ff, cc>>, w |-> FALSE, step |-> "print"]
    [] at = "PrM"  -> [cls |-> "mid", idx |-> <<cc>>, w |-> FALSE, step |-> "print"]
    [] OTHER       -> NoAcc

Races(p, q) == LET a == Acc(p) b == Acc(q) IN
  /\ a.cls # "none" /\ a.cls = b.cls /\ a.idx = b.idx
  /\ (a.w \/ b.w)
  /\ Held(p) \cap Held(q) = {}

NoRace == \A p, q \in Printers : p # q => ~Races(p, q)

\* does p's entry point take the mutex that guards cells of class cls before it reads them?
\* (no mutex guards a gtyp cell unless the repair candidate fills it in AssignGlobalIDs)
Locks(p, cls) == IF cls \in {"gid", "mid"} THEN p \in ModulePrinters
                 ELSE IF cls = "gtyp" THEN FillGlobalCachesUnderLock /\ p \in ModulePrinters
                 ELSE IF cls = "pkg" THEN FALSE
                 ELSE p \in ModulePrinters \cup FuncPrinters
\* class of a race: the cell class, the step of the writer, and what the other party is
RaceClass(p, q) ==   \* p is a writer
  LET a == Acc(p) b == Acc(q) IN
  <<a.cls, a.step,
    IF b.w THEN "write:" \o b.step
    ELSE IF Locks(q, a.cls) THEN "read:locking-printer" ELSE "read:lock-free-reader">>

ASSUME TLCSet(1, {})
RaceLog == \A p, q \in Printers :
  (p # q /\ Races(p, q) /\ Acc(p).w) =>
     LET k == RaceClass(p, q) IN
     IF k \in TLCGet(1) THEN TRUE
     ELSE TLCSet(1, TLCGet(1) \cup {k}) /\ PrintT(<<"RACE", k[1], k[2], k[3]>>)

TextEqual == \A p \in Printers : ~bad[p]
KindOf(p) == IF p \in ModulePrinters THEN "module" ELSE IF p \in FuncPrinters THEN "func" ELSE "block"
ASSUME TLCSet(2, {})
TextLog == \A p \in Printers : bad[p] =>
     IF KindOf(p) \in TLCGet(2) THEN TRUE
     ELSE TLCSet(2, TLCGet(2) \cup {KindOf(p)}) /\ PrintT(<<"TEXT", KindOf(p)>>)

Mutex == /\ mmu \in {0} \cup Printers
         /\ \A g \in 1..NF : fmu[g] \in {0} \cup Printers
         \* ID writes only by the holder of the guarding mutex
         /\ \A p \in Printers :
              /\ (pc[p] \in {"RdG", "WrG", "FgT", "FwT", "NxG", "RdM1", "RdM", "WrM"} => HolderIs(mmu, p))
              \* the numbering of a function is exclusive however the function was attached
              /\ (pc[p] \in {"RdT", "WrT", "RdL", "WrL"} =>
                     \/ HolderIs(fmu[f[p]], p)
                     \/ (LockViaParent /\ f[p] \notin Orphans /\ HolderIs(mmu, p)))

\* every printer terminates (no deadlock between the two mutexes): checked as a liveness property
Terminates == <>(\A p \in Printers : pc[p] = "Done")
=============================================================================
