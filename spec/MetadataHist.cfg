SPECIFICATION Spec
CONSTANTS
  MaxDefs = 3
  MaxId = 3
  Emit = FALSE
INVARIANTS HistLaws EmitHist
CHECK_DEADLOCK FALSE
