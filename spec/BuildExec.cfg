SPECIFICATION Spec
CONSTANTS
  Mode = "exec"
  MaxSteps = 1
  ExecWidths = {1, 8, 32}
  ExecExhaustive = TRUE
  BoundarySmall = TRUE
INVARIANTS ProgWellFormed EvalLaws Emit
CHECK_DEADLOCK FALSE
