SPECIFICATION Spec
CONSTANT K = 4
INVARIANT Equivalent
CHECK_DEADLOCK FALSE
