---------------------------- MODULE MetadataGraph ----------------------------
(***************************************************************************)
(* Metadata graphs as the parser must read them (property C17, second      *)
(* half): every reference to !N is the *same node object* as definition    *)
(* !N -- forward references and cycles included --, `distinct` and the     *)
(* inline-versus-numbered placement of every node are preserved, and       *)
(* repeated named-metadata definitions are merged in textual order.        *)
(*                                                                         *)
(* A pattern p is an abstract module text:                                 *)
(*   n       number of numbered definitions (1..MaxN)                      *)
(*   shape   operand structure, Metadata!Refs(shape, n): none, chain of    *)
(*           forward references, cycle, shared node reached twice,         *)
(*           backward + self reference, complete graph                     *)
(*   sparse  IDs 0,1,2 or 7,8,10,19                                        *)
(*   big     0: IDs as `sparse` says; k > 0: the IDs around 2^k,           *)
(*           Metadata!AroundPow(k) = 2^k - 1, 2^k, 2^k + 1, 2^k + 2 (model *)
(*           IDs: for k = 31, 32 the IDs around the end of int32 and of    *)
(*           uint32, see PART 3 of Metadata.tla) -- where a table, a cast  *)
(*           or an index by ID in the parser or the printer may end        *)
(*   perm    textual order of the definitions (a permutation)              *)
(*   dm      distinct: 0 none, 1 all, 2 only the first                     *)
(*   inl     0: operands are plain references; 1: every reference is       *)
(*           wrapped in an inline tuple !{!N}; 2: null, string and empty   *)
(*           inline tuple operands are appended                            *)
(*   sp      spelling of the IDs in the text (an ID is its decimal value,  *)
(*           however many leading zeros it is written with): 0 canonical;  *)
(*           1 definitions with one leading zero (!00, !07, !08, !010),    *)
(*           references canonical; 2 references with two leading zeros     *)
(*           (!0010), definitions canonical; 3 both, differently           *)
(*   ac      attachments per position: 0..3 with distinct names and nodes; *)
(*           4 = the same name twice with different nodes                  *)
(*   nv      named metadata: 0 none; 1 one definition (before the nodes it *)
(*           names); 2: !a, !b, !a again; 3: !a three times around !b      *)
(* Dense patterns (n = Dense definitions, IDs 0..n-1, chain of forward     *)
(* references or every node referring to the first one, written in ID     *)
(* order or in reverse): a module the size of real debug info, crossing    *)
(* every boundary below Dense.                                             *)
(* Around it the renderer (harness/props/c17) puts a fixed scaffold: a     *)
(* global, a function declaration, a function definition, an instruction   *)
(* and a terminator, each with p.ac attachments, and two calls with        *)
(* metadata arguments (one of them an inline tuple).                       *)
(*                                                                         *)
(* TextOf(p) is the abstract text (definitions in textual order, named     *)
(* metadata with their position, attachment sites); WantOf(p) is what the  *)
(* property requires of the parsed module, in the shape the harness        *)
(* records its observation in:                                             *)
(*   defs   sorted by ID: [id, distinct, ops]                              *)
(*   op     [k |-> "ref", id, same]  same = "is pointer-identical with the *)
(*                                   entry of m.MetadataDefs that has id"  *)
(*          [k |-> "tuple", id, ops] inline: id must be -1                 *)
(*          [k |-> "null"] | [k |-> "str", s]                              *)
(*   named  per name, in order of first occurrence: the merged node list   *)
(*   sites  per attachment position (global, decl, func, inst, term) the   *)
(*          sequence of [name, node] attachments in textual order; and the *)
(*          metadata call arguments                                        *)
(*                                                                         *)
(* The state machine has one step: from the initial state to every         *)
(* pattern.  Invariants state spec-level sanity (every reference of the    *)
(* text resolves, merged lists are the concatenation); EmitPattern writes  *)
(* md_patterns.ndjson: {"pat":..., "text":..., "want":...} (direction G).  *)
(* MetadataTrace.tla judges what the real parser and printer did.          *)
(***************************************************************************)
EXTENDS Integers, Sequences, FiniteSets, TLC, Json, IOUtils

CONSTANTS MaxN,      \* largest number of definitions of the enumerated patterns
          BigPows,   \* the k of the large-ID patterns (subset of 7..32)
          Dense,     \* number of definitions of the dense patterns (0: none)
          Emit

VARIABLES pat, stage
vars == <<pat, stage>>

M == INSTANCE Metadata WITH MaxDefs <- 0, MaxId <- 0, Variant <- "code", Emit <- FALSE,
                            ids <- <<>>, shape <- 0, stage <- "none"

Perms(n) == {s \in [1..n -> 1..n] : \A i, j \in 1..n : i # j => s[i] # s[j]}

Patterns == UNION {
  [n : {n}, shape : 1..M!NShapes, sparse : BOOLEAN, perm : Perms(n), dm : 0..2, inl : 0..2, nv : 0..3, sp : {0}, ac : {1}, big : {0}]
  \cup
  \* 0, 2, 3 attachments per position and repeated names, on a slice of the matrix
  [n : {n}, shape : 1..M!NShapes, sparse : BOOLEAN, perm : Perms(n), dm : {0}, inl : 0..1, nv : {0}, sp : {0}, ac : {0, 2, 3, 4}, big : {0}]
  \cup
  \* non-canonical spellings of the IDs, on a slice of the matrix
  [n : {n}, shape : 1..M!NShapes, sparse : BOOLEAN, perm : Perms(n), dm : {0}, inl : 0..1, nv : {0, 2}, sp : 1..3, ac : {2}, big : {0}]
  \cup
  \* large and boundary IDs, on a slice of the matrix
  [n : {n}, shape : {2, 3, 5}, sparse : {TRUE}, perm : Perms(n), dm : {2}, inl : 0..1, nv : {2}, sp : {0, 3}, ac : {2}, big : BigPows]
  : n \in 1..MaxN }
  \cup
  \* dense: many definitions
  (IF Dense = 0 THEN {} ELSE
   [n : {Dense}, shape : {2, 4}, sparse : {FALSE}, perm : {[i \in 1..Dense |-> i], [i \in 1..Dense |-> Dense + 1 - i]},
    dm : {0}, inl : {0}, nv : {1}, sp : {0}, ac : {1}, big : {0}])

---------------------------------------------------------------------------
SparseIds == <<7, 8, 10, 19>>   \* with a leading zero: 07, 08 (no octal number), 010, 019
IdOf(p, i)   == IF p.big > 0 THEN M!AroundPow(p.big)[i] ELSE IF p.sparse THEN SparseIds[i] ELSE i - 1
IsDistinct(p, i) == p.dm = 1 \/ (p.dm = 2 /\ i = 1)

Ref(p, j)    == [k |-> "ref", id |-> IdOf(p, j), same |-> TRUE]
Inline(ops)  == [k |-> "tuple", id |-> -1, ops |-> ops]
NullOp       == [k |-> "null"]
StrOp(s)     == [k |-> "str", s |-> s]

Targets(p, i) == M!Refs(p.shape, p.n)[i]
Ops(p, i) ==
  LET base == [x \in 1..Len(Targets(p, i)) |-> Ref(p, Targets(p, i)[x])] IN
  CASE p.inl = 0 -> base
    [] p.inl = 1 -> [x \in 1..Len(base) |-> Inline(<<base[x]>>)]
    [] OTHER     -> base \o <<NullOp, StrOp("s"), Inline(<<>>)>>

Def(p, i) == [id |-> IdOf(p, i), distinct |-> IsDistinct(p, i), ops |-> Ops(p, i)]

\* named metadata definitions in textual order; pos "pre": before the numbered definitions
NamedText(p) ==
  LET first == Ref(p, 1) last == Ref(p, p.n) IN
  CASE p.nv = 0 -> <<>>
    [] p.nv = 1 -> <<[name |-> "a", nodes |-> <<first>>, pos |-> "pre"]>>
    [] p.nv = 2 -> <<[name |-> "a", nodes |-> <<first>>, pos |-> "pre"],
                     [name |-> "b", nodes |-> <<>>, pos |-> "pre"],
                     [name |-> "a", nodes |-> <<last, first>>, pos |-> "post"]>>
    [] OTHER    -> <<[name |-> "a", nodes |-> <<last>>, pos |-> "pre"],
                     [name |-> "a", nodes |-> <<>>, pos |-> "post"],
                     [name |-> "b", nodes |-> <<first, first>>, pos |-> "post"],
                     [name |-> "a", nodes |-> <<first>>, pos |-> "post"]>>

\* Attachments.  Every attachment position -- global, function declaration, function
\* definition, instruction, terminator -- carries p.ac attachments (0..3) with distinct names
\* and distinct nodes, in a different order at each position; ac = 4: the same name twice
\* with different nodes on the global and on the functions (LLVM allows repeated kinds there,
\* as for !type), two different names on the instruction and the terminator.
AttNames == <<"foo", "bar", "baz">>
AttNodes(p) == <<Ref(p, 1), Ref(p, p.n), Inline(<<Ref(p, 1)>>)>>
Att(p, pos) ==     \* pos = 0..4: rotates names and nodes
  LET k == IF p.ac = 4 THEN 2 ELSE p.ac IN
  [x \in 1..k |-> [name |-> IF p.ac = 4 /\ pos <= 2 THEN "foo" ELSE AttNames[((x + pos) % 3) + 1],
                   node |-> AttNodes(p)[((x + 2 * pos) % 3) + 1]]]

Sites(p) ==
  [global |-> Att(p, 0), decl |-> Att(p, 1), func |-> Att(p, 2), inst |-> Att(p, 3), term |-> Att(p, 4),
   args   |-> <<Ref(p, p.n), Inline(<<Ref(p, 1), NullOp>>)>>]

TextOf(p) == [defs  |-> [t \in 1..p.n |-> Def(p, p.perm[t])],
              named |-> NamedText(p),
              sites |-> Sites(p)]

\* --- what the property requires of the parsed module ----------------------
\* names in order of first occurrence
RECURSIVE FirstNames(_, _)
FirstNames(nt, seen) ==
  IF nt = <<>> THEN <<>>
  ELSE IF Head(nt).name \in seen THEN FirstNames(Tail(nt), seen)
  ELSE <<Head(nt).name>> \o FirstNames(Tail(nt), seen \cup {Head(nt).name})
\* textual-order concatenation of the node lists of one name
RECURSIVE Merged(_, _)
Merged(nt, name) ==
  IF nt = <<>> THEN <<>>
  ELSE (IF Head(nt).name = name THEN Head(nt).nodes ELSE <<>>) \o Merged(Tail(nt), name)

WantNamed(p) == LET nt == NamedText(p) names == FirstNames(nt, {}) IN
  [x \in 1..Len(names) |-> [name |-> names[x], nodes |-> Merged(nt, names[x])]]

\* IDs are increasing in the definition index, so "sorted by ID" is index order
WantOf(p) == [defs  |-> [i \in 1..p.n |-> Def(p, i)],
              named |-> WantNamed(p),
              sites |-> Sites(p)]

---------------------------------------------------------------------------
\* Laws on a (want, obs) pair, also used by MetadataTrace.tla for rows whose
\* `want` was read off a hand-written text (specialised nodes).
RECURSIVE OpsIdentity(_), OpsKinds(_), OpsIds(_), FlatRefs(_)
\* every reference is the node object of the definition with that ID
OpsIdentity(ops) == \A x \in 1..Len(ops) :
   CASE ops[x].k = "ref"   -> ops[x].same
     [] ops[x].k = "tuple" -> OpsIdentity(ops[x].ops)
     [] OTHER              -> TRUE
\* (The two projections below are flat sequences of one element type -- strings, integers --:
\* TLC cannot compare values of different shapes, and a wrong observation may have any shape.)
\* inline-versus-numbered placement: the kind of every operand, inline nodes carry no ID
OpsKinds(ops) ==
  IF ops = <<>> THEN <<>>
  ELSE (CASE Head(ops).k = "tuple" -> <<"inline[">> \o (IF Head(ops).id = -1 THEN <<>> ELSE <<"with-id">>)
                                      \o OpsKinds(Head(ops).ops) \o <<"]">>
          [] OTHER                 -> <<Head(ops).k>>) \o OpsKinds(Tail(ops))
\* the IDs referred to, in place (-2 / -3 bracket an inline node, -4 stands for any other operand)
OpsIds(ops) ==
  IF ops = <<>> THEN <<>>
  ELSE (CASE Head(ops).k = "ref"   -> <<Head(ops).id>>
          [] Head(ops).k = "tuple" -> <<-2>> \o OpsIds(Head(ops).ops) \o <<-3>>
          [] OTHER                 -> <<-4>>) \o OpsIds(Tail(ops))
\* reference tokens of a definition line, left to right
FlatRefs(ops) ==
  IF ops = <<>> THEN <<>>
  ELSE (CASE Head(ops).k = "ref"   -> <<Head(ops).id>>
          [] Head(ops).k = "tuple" -> FlatRefs(Head(ops).ops)
          [] OTHER                 -> <<>>) \o FlatRefs(Tail(ops))

\* the field every operand of a specialised node is held in / written in (lower-cased keyword; "" for list
\* elements), in place: a reference routed into another field of the node shows here and nowhere else
RECURSIVE OpsFields(_)
OpsFields(ops) ==
  IF ops = <<>> THEN <<>>
  ELSE (CASE Head(ops).k = "tuple" -> <<Head(ops).f, "[">> \o OpsFields(Head(ops).ops) \o <<"]">>
          [] OTHER                 -> <<Head(ops).f>>) \o OpsFields(Tail(ops))

AttNodesOf(a) == [x \in 1..Len(a) |-> a[x].node]
AttNamesOf(a) == [x \in 1..Len(a) |-> a[x].name]
SiteOps(s)   == AttNodesOf(s.global) \o AttNodesOf(s.decl) \o AttNodesOf(s.func)
                \o AttNodesOf(s.inst) \o AttNodesOf(s.term) \o s.args
\* name and number of the attachments at every position, in order
SiteNames(s) == <<AttNamesOf(s.global), AttNamesOf(s.decl), AttNamesOf(s.func), AttNamesOf(s.inst), AttNamesOf(s.term)>>
AllOps(w)  == [x \in 1..Len(w.defs) |-> w.defs[x].ops]
NamedOps(w) == [x \in 1..Len(w.named) |-> w.named[x].nodes]

---------------------------------------------------------------------------
Init == pat = <<>> /\ stage = "start"
Next == /\ stage = "start"
        /\ \E p \in Patterns : pat' = p
        /\ stage' = "done"
Spec == Init /\ [][Next]_vars

\* spec-level sanity: every reference in the text names a definition of the text
RefsResolve == stage = "done" =>
   LET w == WantOf(pat) idset == {w.defs[x].id : x \in 1..Len(w.defs)} IN
   /\ \A x \in 1..Len(w.defs) : \A y \in 1..Len(FlatRefs(w.defs[x].ops)) : FlatRefs(w.defs[x].ops)[y] \in idset
   /\ \A x \in 1..Len(w.named) : \A y \in 1..Len(w.named[x].nodes) : w.named[x].nodes[y].id \in idset
   /\ \A x \in 1..Len(w.defs) : x < Len(w.defs) => w.defs[x].id < w.defs[x + 1].id
\* merging keeps every node, in textual order, and names occur once
MergeComplete == stage = "done" =>
   LET nt == NamedText(pat) w == WantNamed(pat) IN
   /\ \A x, y \in 1..Len(w) : x # y => w[x].name # w[y].name
   /\ \A x \in 1..Len(w) :
        Len(w[x].nodes) = Cardinality({<<t, y>> \in (1..Len(nt)) \X (1..4) :
                                          nt[t].name = w[x].name /\ y <= Len(nt[t].nodes)})

EmitPattern == (Emit /\ stage = "done") =>
   Serialize(ToJson([pat |-> pat, text |-> TextOf(pat), want |-> WantOf(pat)]) \o "\n", "md_patterns.ndjson",
             [format |-> "TXT", charset |-> "UTF-8",
              openOptions |-> <<"WRITE", "CREATE", "APPEND">>]).exitValue = 0
=============================================================================
