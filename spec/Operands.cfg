SPECIFICATION Spec
CONSTANTS
  Dev = {}
  MaxCalls = 3
  MaxOps = 4
INVARIANTS Complete NoUseLeft SuccsLive WriteLive
PROPERTIES WriteExact
VIEW View
CHECK_DEADLOCK FALSE
