SPECIFICATION Spec
CONSTANTS
  MaxCalls = 3
  AsImplemented = FALSE
INVARIANTS NoUseLeft SuccsLive Complete
PROPERTIES WriteExact
VIEW View
CHECK_DEADLOCK FALSE
