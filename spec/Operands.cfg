SPECIFICATION Spec
CONSTANTS
  AsImplemented = FALSE
INVARIANTS NoUseLeft SuccsLive Complete
PROPERTIES WriteExact
VIEW View
CHECK_DEADLOCK FALSE
