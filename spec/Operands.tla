------------------------------ MODULE Operands ------------------------------
(***************************************************************************)
(* Operand and successor views as a state machine (C15).                   *)
(*                                                                         *)
(* A *user* is one instruction or terminator in one configuration of       *)
(* Schema.tla (kind, repetition counts, operand bundles, *ir.Arg           *)
(* wrapping).  Its state is vals: the value currently held by every        *)
(* operand of the configuration (in textual order; this is what printing   *)
(* shows), and cache: the successor list remembered by the first Succs()   *)
(* call (unset before).  Values are abstract: "a" is the value under      *)
(* replacement, "o1", "o2"... are pairwise distinct other values, "n" is   *)
(* the new value.                                                          *)
(*                                                                         *)
(* Actions (one per API call):                                             *)
(*   Place            choose which one or two operands hold "a";           *)
(*   QuerySuccs       Succs();                                             *)
(*   ReplaceOperand   *Operands()[k] = "n" for one exposed slot k;         *)
(*   ReplaceAllUses   for every slot s of Operands(): if *s = "a" then     *)
(*                    *s = "n"  (the loop every client writes).            *)
(*                                                                         *)
(* AsImplemented = FALSE is the view the property requires: every operand  *)
(* of the Schema table is exposed as itself and Succs() is computed from   *)
(* the targets.  AsImplemented = TRUE models llir/llvm as it is: operand   *)
(* bundle inputs are not exposed (NotExposed), a call argument wrapped in  *)
(* *ir.Arg shows the wrapper instead of the value (Visible), and Succs()   *)
(* returns the list cached by its first call.                              *)
(*                                                                         *)
(* Properties: NoUseLeft (after ReplaceAllUses no operand holds "a"),      *)
(* WriteExact (ReplaceOperand changes exactly slot k), SuccsLive (Succs()  *)
(* is the current branch targets, in order).  TLC: all hold with           *)
(* AsImplemented = FALSE; with TRUE (and -continue) NoUseLeft and          *)
(* SuccsLive are violated -- the three defect classes the harness finds    *)
(* in the real code (bundle inputs, Arg wrapper, stale successor cache).   *)
(* The harness performs the same calls on the real instruction for every   *)
(* configuration (harness/props/c15) and OperandsTrace.tla judges the      *)
(* recorded before/after operand texts.                                    *)
(***************************************************************************)
EXTENDS Schema

CONSTANTS AsImplemented,   \* FALSE: the view the property requires; TRUE: llir/llvm as it is
          MaxCalls        \* bound on the number of API calls per history

VARIABLES stage,   \* "init" "kind" "case" "placed" then API calls
          k,       \* index of the kind
          c,       \* the configuration (a Schema case)
          vals,    \* value held by every operand
          cache,   \* remembered successor list: [set, v]
          out,     \* answer of the last Succs() call
          last,    \* last API call: [op, slot]
          steps    \* number of API calls so far
vars == <<stage, k, c, vals, cache, out, last, steps>>

N == Len(c.ops)
Other(i) == "o" \o ToString(i)

NotExposed(i) == AsImplemented /\ c.ops[i].role = "bundle input"
Wrapped(i)    == AsImplemented /\ c.wrap /\ c.ops[i].role = "arg"
Visible(i)    == IF Wrapped(i) THEN "wrapper" ELSE vals[i]
Targets       == [n \in 1..Len(c.succs) |-> vals[c.succs[n]]]

Init == /\ stage = "init" /\ k = 0 /\ c = <<>> /\ vals = <<>> /\ cache = [set |-> FALSE, v |-> <<>>] /\ out = <<>>
        /\ last = [op |-> "none", slot |-> 0] /\ steps = 0

PickKind == /\ stage = "init" /\ k' \in 1..NKinds /\ stage' = "kind"
            /\ UNCHANGED <<c, vals, cache, out, last, steps>>
PickCase == /\ stage = "kind"
            /\ c' \in {x \in Cases(Kinds[k]) : x.fam \in {"config", "wrap"} /\ Len(x.ops) > 0}
            /\ stage' = "case" /\ UNCHANGED <<k, vals, cache, out, last, steps>>
\* one or two operands hold the value under replacement
Place == /\ stage = "case"
         /\ \E i \in 1..N : \E j \in i..N :
              vals' = [x \in 1..N |-> IF x = i \/ x = j THEN "a" ELSE Other(x)]
         /\ stage' = "placed" /\ UNCHANGED <<k, c, cache, out, last, steps>>

QuerySuccs ==
  /\ stage = "placed" /\ steps < MaxCalls /\ Kinds[k].cat = "term"
  /\ out' = IF AsImplemented /\ cache.set THEN cache.v ELSE Targets
  /\ cache' = IF cache.set THEN cache ELSE [set |-> TRUE, v |-> Targets]
  /\ last' = [op |-> "succs", slot |-> 0] /\ steps' = steps + 1
  /\ UNCHANGED <<stage, k, c, vals>>

ReplaceOperand ==
  /\ stage = "placed" /\ steps < MaxCalls
  /\ \E i \in {x \in 1..N : ~NotExposed(x)} :
       /\ vals' = [vals EXCEPT ![i] = "n"]
       /\ last' = [op |-> "write", slot |-> i]
  /\ steps' = steps + 1 /\ UNCHANGED <<stage, k, c, cache, out>>

ReplaceAllUses ==
  /\ stage = "placed" /\ steps < MaxCalls
  /\ vals' = [i \in 1..N |-> IF ~NotExposed(i) /\ Visible(i) = "a" THEN "n" ELSE vals[i]]
  /\ last' = [op |-> "rauw", slot |-> 0]
  /\ steps' = steps + 1 /\ UNCHANGED <<stage, k, c, cache, out>>

Next == PickKind \/ PickCase \/ Place \/ QuerySuccs \/ ReplaceOperand \/ ReplaceAllUses
Spec == Init /\ [][Next]_vars

NoUseLeft == last.op = "rauw" => \A i \in 1..N : vals[i] # "a"
SuccsLive == last.op = "succs" => out = Targets
\* a write through slot k changes exactly operand k (action property)
WriteExact == [][last'.op = "write" /\ stage = "placed" =>
                  \A i \in 1..N : i # last'.slot => vals'[i] = vals[i]]_vars
\* every operand of the table is reachable through some exposed slot as itself
Complete == stage = "placed" => \A i \in 1..N : ~NotExposed(i) /\ ~Wrapped(i)

View == <<stage, k, c, vals, cache, out, last>>
=============================================================================
