------------------------------ MODULE Operands ------------------------------
(***************************************************************************)
(* Operand and successor views as a state machine (C15).                   *)
(*                                                                         *)
(* A *user* is one instruction or terminator in one configuration of       *)
(* Schema.tla (kind, repetition counts, operand bundles, *ir.Arg           *)
(* wrapping).  Its operands live in memory cells: addr[i] is the cell      *)
(* (the Go field, slice element or helper-struct field) that holds operand *)
(* i, mem[cell] the value in it; printing shows mem[addr[i]].  A slot      *)
(* returned by Operands() is a cell.  Values are abstract: "a" is the      *)
(* value under replacement, "o1", "o2"... pairwise distinct others, "n"    *)
(* the new value.                                                          *)
(*                                                                         *)
(* Actions (one per API call or client statement):                         *)
(*   Place            one or two operands hold "a" (two branch targets     *)
(*                    holding "a" is a repeated target);                   *)
(*   QuerySuccs       Succs();                                             *)
(*   QueryOperands    Operands();                                          *)
(*   ReplaceOperand   *Operands()[p] = "n";                                *)
(*   ReplaceAllUses   for s in Operands(): if *s = "a" then *s = "n";      *)
(*   DirectAssign     inst.Field = "n" / inst.Slice[i] = "n" (same cell);  *)
(*   ReplaceElem      inst.Incs[i] = NewIncoming(...): the repetition      *)
(*                    moves to fresh cells (helper structs: phi incoming,  *)
(*                    switch case, landingpad clause, operand bundle);     *)
(*   SwapSlice        inst.Args = newSliceOfSameLength: all elements of a  *)
(*                    []value.Value group move to fresh cells;             *)
(*   SetPresent / SetAbsent  an optional operand (ret value, alloca count,  *)
(*                    unwind target) is assigned / set to nil;             *)
(*   CopyStruct       dup := *inst right after a query; from then on the *)
(*                    copy is observed: the operands in fields of the      *)
(*                    struct live in fresh cells                            *)
(*                    (slice elements and helper structs stay shared);      *)
(*   AppendRep / RemoveRep  one repetition of a repeated group is appended /     *)
(*                    removed (the configuration changes).                 *)
(*                                                                         *)
(* Dev is the set of deviations from the required views that are switched  *)
(* on.  {} is what the property requires.  "wrap-args" is llir/llvm as it  *)
(* is now (an argument wrapped in *ir.Arg shows the wrapper).  The others  *)
(* are deviations found earlier and repaired ("hide-bundles": bundle       *)
(* inputs not exposed, "cache-succs": Succs() answers from its first call) *)
(* or plausible optimisations ("cache-ops": Operands() reuses its slot     *)
(* list while the length is unchanged, "dedup-succs": Succs() lists a      *)
(* repeated target once, "sticky-succs": Succs() keeps its last answer     *)
(* when no target is left, "fold-succs": Succs() of a branch whose         *)
(* non-target operand is a literal constant lists only the feasible        *)
(* target, "ops-succs": Succs() is derived from the label-typed operands,  *)
(* so a block passed as a call argument or bundle input of an invoke /     *)
(* callbr shows up as a successor), "struct-ops": a fixed-arity kind keeps  *)
(* the slot list of its first Operands() call inside the struct, so a      *)
(* struct copy hands out the slots of the original).                       *)
(* Value classes (constant Classes): with Classes = TRUE (terminators      *)
(* only) an operand that admits any value may hold, from the start or by   *)
(* a write through its slot, the literal constant "k" instead of an SSA    *)
(* value; the law is SuccsLive itself: the successor list is independent   *)
(* of the operands that are not branch targets.                            *)
(* TLC: every property holds for Dev = {}; each                            *)
(* singleton violates the property named in OperandsDev_*.cfg (run as      *)
(* vacuity guards in every tier).                                          *)
(*                                                                         *)
(* Properties: Complete (Operands() is exactly the current cells, each     *)
(* showing the operand itself), WriteLive (a write through slot p changes  *)
(* what operand p prints), WriteExact (and nothing else), NoUseLeft,       *)
(* SuccsLive (Succs() = current targets, in order, with multiplicity).     *)
(* harness/props/c15 performs the same calls and edits on the real         *)
(* instruction for every configuration; OperandsTrace.tla judges the       *)
(* recorded replace-all-uses experiments.                                  *)
(***************************************************************************)
EXTENDS Schema

CONSTANTS Dev,        \* set of deviations switched on
          MaxCalls,   \* bound on the number of calls / edits per history
          MaxOps,     \* only configurations with at most this many operands
          Classes     \* TRUE: terminators only, operands may hold / be overwritten with a literal constant "k"

VARIABLES stage,   \* "init" "kind" "case" "placed"
          k,       \* index of the kind
          e,       \* its table entry Kinds[k] (kept in the state only so that TLC need not re-evaluate the table)
          c,       \* the configuration (a Schema case)
          addr,    \* addr[i]: the cell of operand i
          mem,     \* mem[cell]: the value in the cell (detached cells keep their value)
          cacheS,  \* what the first Succs() returned: [set, v]
          cacheO,  \* what the last Operands() returned: [set, v]
          out,     \* answer of the last Succs() call
          last,    \* last call: [op, slot]
          steps
vars == <<stage, k, e, c, addr, mem, cacheS, cacheO, out, last, steps>>

N == Len(c.ops)
\* sequences built as functions are turned into tuples at once (TLC normalises them lazily otherwise,
\* which races with the state queue being written to disk by several workers)
Tup(f) == SubSeq(f, 1, Len(f))
Val(i) == mem[addr[i]]
Other(i) == "o" \o ToString(i)
E == e

Hidden(i)  == "hide-bundles" \in Dev /\ c.ops[i].role = "bundle input"
Wrapped(i) == "wrap-args" \in Dev /\ c.wrap /\ c.ops[i].role = "arg"
ExposedIdx == SelectSeq([i \in 1..N |-> i], LAMBDA i : ~Hidden(i))
FreshSlots == [p \in 1..Len(ExposedIdx) |-> addr[ExposedIdx[p]]]
\* the slot list an Operands() call returns now
\* (deviation struct-ops: a kind without repeated groups keeps the slot list of its first Operands() call in the struct)
FixedArity == \A gi \in 1..Len(e.groups) : e.groups[gi].ar \notin {"many", "many1", "bundles"}
OperandsNow == IF "cache-ops" \in Dev /\ cacheO.set /\ Len(cacheO.v) = Len(FreshSlots) THEN cacheO.v
               ELSE IF "struct-ops" \in Dev /\ cacheO.set /\ FixedArity /\ Len(cacheO.v) = Len(FreshSlots) THEN cacheO.v
               ELSE FreshSlots
Remember == cacheO' = [set |-> TRUE, v |-> Tup(OperandsNow)]
\* what a client sees in a cell: the wrapper for a wrapped argument
IsWrapperCell(cell) == \E i \in 1..N : addr[i] = cell /\ Wrapped(i)
Visible(cell) == IF IsWrapperCell(cell) THEN "wrapper" ELSE mem[cell]

Targets == [n \in 1..Len(c.succs) |-> Val(c.succs[n])]
RECURSIVE Dedup(_)
Dedup(s) == IF s = <<>> THEN <<>>
            ELSE LET r == Dedup(SubSeq(s, 1, Len(s) - 1)) x == s[Len(s)]
                 IN IF \E j \in 1..Len(r) : r[j] = x THEN r ELSE Append(r, x)

Init == /\ stage = "init" /\ k = 0 /\ e = <<>> /\ c = <<>> /\ addr = <<>> /\ mem = <<>>
        /\ cacheS = [set |-> FALSE, v |-> <<>>] /\ cacheO = [set |-> FALSE, v |-> <<>>] /\ out = <<>>
        /\ last = [op |-> "none", slot |-> 0] /\ steps = 0

PickKind == /\ stage = "init" /\ k' \in (IF Classes THEN {i \in 1..NKinds : Kinds[i].cat = "term"} ELSE 1..NKinds)
            /\ e' = Kinds[k'] /\ stage' = "kind"
            /\ UNCHANGED <<c, addr, mem, cacheS, cacheO, out, last, steps>>
PickCase == /\ stage = "kind"
            /\ c' \in {x \in Cases(E) : x.fam \in {"config", "wrap", "labelarg"} /\ Len(x.ops) > 0 /\ Len(x.ops) <= MaxOps}
            /\ stage' = "case" /\ UNCHANGED <<k, e, addr, mem, cacheS, cacheO, out, last, steps>>
Place == /\ stage = "case"
         /\ addr' = Tup([i \in 1..N |-> i])
         /\ \E i \in 1..N : \E j \in i..N :
              \* (value classes: at most one other operand that admits any value is the literal constant "k")
              \E q \in {0} \cup (IF Classes THEN {x \in 1..N : x # i /\ x # j /\ c.ops[x].src = "any"} ELSE {}) :
                mem' = Tup([x \in 1..N |-> IF x = i \/ x = j THEN "a" ELSE IF x = q THEN "k" ELSE Other(x)])
         /\ stage' = "placed" /\ UNCHANGED <<k, e, c, cacheS, cacheO, out, last, steps>>

Call == stage = "placed" /\ steps < MaxCalls /\ steps' = steps + 1 /\ UNCHANGED <<stage, k, e>>

\* deviation fold-succs: a literal constant in a non-target operand leaves only the first ("feasible") target
Folded == IF Len(Targets) > 1 /\ \E i \in 1..N : c.ops[i].role = "value" /\ Val(i) = "k" THEN <<Targets[1]>> ELSE Tup(Targets)
\* deviation ops-succs: the blocks among the operands, in operand order
LabelOps == SelectSeq([i \in 1..N |-> i], LAMBDA i : c.ops[i].ty = TyLabel)
BlocksAmongOps == Tup([n \in 1..Len(LabelOps) |-> Val(LabelOps[n])])
QuerySuccs ==
  /\ Call /\ E.cat = "term"
  /\ out' = IF "sticky-succs" \in Dev /\ c.succs = <<>> THEN out     \* nothing assigned when there is no target
            ELSE IF "cache-succs" \in Dev /\ cacheS.set THEN cacheS.v
            ELSE IF "fold-succs" \in Dev THEN Folded
            ELSE IF "ops-succs" \in Dev THEN BlocksAmongOps
            ELSE IF "dedup-succs" \in Dev THEN Dedup(Targets) ELSE Tup(Targets)
  /\ cacheS' = IF cacheS.set THEN cacheS ELSE [set |-> TRUE, v |-> Tup(Targets)]
  /\ last' = [op |-> "succs", slot |-> 0]
  /\ UNCHANGED <<c, addr, mem, cacheO>>

QueryOperands ==
  /\ Call /\ Remember /\ last' = [op |-> "ops", slot |-> 0] /\ UNCHANGED <<c, addr, mem, cacheS, out>>

\* the operand (if any) whose cell is `cell` admits any value
AnyAt(cell) == \E i \in 1..N : addr[i] = cell /\ c.ops[i].src = "any"
ReplaceOperand ==
  /\ Call /\ Remember
  /\ \E p \in 1..Len(OperandsNow) :
       \/ /\ mem' = [mem EXCEPT ![OperandsNow[p]] = "n"]
          /\ last' = [op |-> "write", slot |-> p]
       \/ /\ Classes /\ AnyAt(OperandsNow[p])          \* a literal constant instead of an SSA value
          /\ mem' = [mem EXCEPT ![OperandsNow[p]] = "k"]
          /\ last' = [op |-> "writek", slot |-> p]
  /\ UNCHANGED <<c, addr, cacheS, out>>

ReplaceAllUses ==
  /\ Call /\ Remember
  /\ mem' = Tup([cell \in 1..Len(mem) |->
               IF (\E p \in 1..Len(OperandsNow) : OperandsNow[p] = cell) /\ Visible(cell) = "a" THEN "n" ELSE mem[cell]])
  /\ last' = [op |-> "rauw", slot |-> 0]
  /\ UNCHANGED <<c, addr, cacheS, out>>

\* --- direct edits of the exported fields ----------------------------------
StructRoles == {"incoming value", "incoming pred", "case value", "case target", "clause", "bundle input"}
SameRep(i, j) == /\ c.ops[i].i = c.ops[j].i
                 /\ \E gi \in 1..Len(E.groups) : \E m1, m2 \in 1..Len(E.groups[gi].mem) :
                      E.groups[gi].mem[m1].n = c.ops[i].slot /\ E.groups[gi].mem[m2].n = c.ops[j].slot
GroupOf(i) == CHOOSE gi \in 1..Len(E.groups) : \E m \in 1..Len(E.groups[gi].mem) : E.groups[gi].mem[m].n = c.ops[i].slot
Repeated(i) == E.groups[GroupOf(i)].ar \in {"many", "many1", "bundles"}
\* move the operands in S to fresh cells (keeping their values), then store v in operand i
Move(ss, i, v) ==
  LET idx == SelectSeq([x \in 1..N |-> x], LAMBDA x : x \in ss)
      pos(x) == CHOOSE p \in 1..Len(idx) : idx[p] = x
  IN /\ addr' = Tup([x \in 1..N |-> IF x \in ss THEN Len(mem) + pos(x) ELSE addr[x]])
     /\ mem' = Tup(mem \o [p \in 1..Len(idx) |-> IF idx[p] = i THEN v ELSE Val(idx[p])])

DirectAssign ==
  /\ Call /\ \E i \in 1..N : mem' = [mem EXCEPT ![addr[i]] = "n"] /\ last' = [op |-> "assign", slot |-> i]
  /\ UNCHANGED <<c, addr, cacheS, cacheO, out>>
ReplaceElem ==
  /\ Call
  /\ \E i \in {x \in 1..N : c.ops[x].role \in StructRoles} :
       /\ Move({j \in 1..N : IF c.ops[i].role = "bundle input" THEN c.ops[j].role = "bundle input" /\ c.ops[j].i = c.ops[i].i
                                                              ELSE SameRep(i, j)}, i, "n")
       /\ last' = [op |-> "replace", slot |-> i]
  /\ UNCHANGED <<c, cacheS, cacheO, out>>
SwapSlice ==
  /\ Call
  /\ \E i \in {x \in 1..N : Repeated(x) /\ c.ops[x].role \notin StructRoles} :
       /\ Move({j \in 1..N : c.ops[j].slot = c.ops[i].slot}, i, "n")
       /\ last' = [op |-> "swap", slot |-> i]
  /\ UNCHANGED <<c, cacheS, cacheO, out>>

\* dup := *inst (a struct copy; the library has no Clone): the user under observation is from now on the
\* COPY.  The operands held in fields of the struct itself live in fresh cells with the same values; slice
\* elements and helper structs (reached through pointers) are shared with the original, as Go copies them.
\* Everything unexported that the struct remembers (cacheS, cacheO) is copied along.
OwnField(x) == ~Repeated(x) /\ c.ops[x].role \notin StructRoles
CopyStruct ==
  /\ Call /\ last.op \in {"ops", "succs"}      \* (only right after a query: the struct is primed; keeps the state space small)
  /\ Move({x \in 1..N : OwnField(x)}, 0, "n")
  /\ last' = [op |-> "copy", slot |-> 0]
  /\ UNCHANGED <<c, cacheS, cacheO, out>>

\* Append / Remove one repetition of group gi: the configuration changes
Start(gi) == LET before == {x \in 1..N : GroupOf(x) < gi} IN Cardinality(before)
Resize(gi, d, kinds) ==
  LET g == E.groups[gi]
      m == Len(g.mem)
      cfg2 == [c.cfg EXCEPT !.cnt = Tup([x \in 1..Len(c.cfg.cnt) |-> IF x = gi THEN c.cfg.cnt[x] + d ELSE c.cfg.cnt[x]])]
      c2 == MkCase(E, c.fam, c.cls, cfg2, <<>>, c.attrs, TRUE, c.wrap)
      cut == Start(gi) + c.cfg.cnt[gi] * m          \* operands up to the end of the group
  IN /\ g.ar \in kinds /\ c.cfg.cnt[gi] + d >= g.min /\ c.cfg.cnt[gi] + d <= MaxOf(E, g, c.cls)
     /\ c' = c2
     /\ IF d = 1
        THEN /\ addr' = Tup(SubSeq(addr, 1, cut) \o [x \in 1..m |-> Len(mem) + x] \o SubSeq(addr, cut + 1, N))
             /\ mem' = Tup(mem \o [x \in 1..m |-> "n"])
        ELSE /\ addr' = SubSeq(addr, 1, cut - m) \o SubSeq(addr, cut + 1, N)
             /\ mem' = mem
Lists == {"many", "many1"}
AppendRep == /\ Call /\ \E gi \in 1..Len(E.groups) : Resize(gi, 1, Lists) /\ last' = [op |-> "append", slot |-> gi]
          /\ UNCHANGED <<cacheS, cacheO, out>>
RemoveRep == /\ Call /\ \E gi \in 1..Len(E.groups) : Resize(gi, -1, Lists) /\ last' = [op |-> "remove", slot |-> gi]
          /\ UNCHANGED <<cacheS, cacheO, out>>
\* an optional operand (ret value, alloca count, unwind target of cleanupret / catchswitch) is set or cleared
SetPresent == /\ Call /\ \E gi \in 1..Len(E.groups) : Resize(gi, 1, {"opt"}) /\ last' = [op |-> "set-present", slot |-> gi]
           /\ UNCHANGED <<cacheS, cacheO, out>>
SetAbsent == /\ Call /\ \E gi \in 1..Len(E.groups) : Resize(gi, -1, {"opt"}) /\ last' = [op |-> "set-absent", slot |-> gi]
           /\ UNCHANGED <<cacheS, cacheO, out>>

Next == PickKind \/ PickCase \/ Place \/ QuerySuccs \/ QueryOperands \/ ReplaceOperand \/ ReplaceAllUses
        \/ DirectAssign \/ ReplaceElem \/ SwapSlice \/ AppendRep \/ RemoveRep \/ SetPresent \/ SetAbsent \/ CopyStruct
Spec == Init /\ [][Next]_vars

----------------------------------------------------------------------------
Placed == stage = "placed"
\* Operands() is exactly the current cells, every operand visible as itself
Complete == Placed => /\ OperandsNow = addr
                      /\ \A i \in 1..N : ~Wrapped(i)
NoUseLeft == Placed /\ last.op = "rauw" => \A i \in 1..N : Val(i) # "a"
SuccsLive == Placed /\ last.op = "succs" => out = Targets
\* a write through slot p is seen at the p-th exposed operand
WriteLive == /\ Placed /\ last.op = "write" => Val(ExposedIdx[last.slot]) = "n"
             /\ Placed /\ last.op = "writek" => Val(ExposedIdx[last.slot]) = "k"
\* ... and changes nothing else (action property)
WriteExact == [][Placed /\ last'.op \in {"write", "writek"} =>
                  \A i \in 1..N : i # ExposedIdx[last'.slot] => mem'[addr'[i]] = mem[addr[i]]]_vars

View == <<stage, k, c, addr, mem, cacheS, cacheO, out, last>>
=============================================================================
