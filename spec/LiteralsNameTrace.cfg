SPECIFICATION Spec
CONSTANTS
  Chunks = 64
INVARIANTS RowsOK
CHECK_DEADLOCK FALSE
