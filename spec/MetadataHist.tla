---------------------------- MODULE MetadataHist ----------------------------
(***************************************************************************)
(* Histories of metadata ID assignment (property C17): a module is         *)
(* printed, an unnumbered definition is inserted in front of, between or   *)
(* after the existing definitions (MetadataDefs is an exported slice), and *)
(* the module is printed again.                                            *)
(*                                                                         *)
(* After the first print every definition is numbered, so the second print *)
(* sees "unnumbered definition(s) before an explicitly numbered last       *)
(* definition" (or in the middle, or last).  The property requires of the  *)
(* second print exactly what Metadata!MdAssign requires of the list        *)
(* InsAt(first result, ins, -1): every old definition keeps its number,    *)
(* the new one receives the smallest unused number, and every reference    *)
(* prints the ID of its target.  A print that skips the assignment because *)
(* "the last definition is numbered" leaves a definition at -1.            *)
(*                                                                         *)
(* Second kind of history (del > 0): after the first print a definition   *)
(* that no other definition refers to is REMOVED from MetadataDefs, then   *)
(* the unnumbered definition is inserted and the module printed again.     *)
(* The removed definition's number is free again: it is a gap below the    *)
(* numbers the first print handed out, and "smallest unused" must find it  *)
(* (an assignment that continues after the highest number, or remembers    *)
(* the numbers it once gave, does not).                                    *)
(*                                                                         *)
(* The machine enumerates ID lists (length <= MaxDefs over -1..MaxId,      *)
(* enumeration in Next), a graph shape and the insert position; HistLaws   *)
(* is checked by TLC on every history; EmitHist writes md_hist.ndjson:     *)
(*   {"ids","shape","refs","ins","want":{ok,ids,tokens},                   *)
(*    "refs2","want2":{ok,ids,tokens}}                                     *)
(* replayed by harness/props/c17 into the ir API and judged again by       *)
(* MetadataTrace.tla on what the real code printed.                        *)
(***************************************************************************)
EXTENDS Integers, Sequences, FiniteSets, TLC, Json, IOUtils

CONSTANTS MaxDefs, MaxId, Emit
VARIABLES ids, shape, ins, del, stage
vars == <<ids, shape, ins, del, stage>>

M == INSTANCE Metadata WITH Variant <- "code", Emit <- FALSE, ids <- <<>>, shape <- 0, stage <- "none"

HistShapes == {1, 2, 3, 6}      \* none, forward chain, cycle, complete graph

Init == ids = <<>> /\ shape = 0 /\ ins = -1 /\ del = 0 /\ stage = "build"
Extend == /\ stage = "build" /\ Len(ids) < MaxDefs
          /\ \E v \in -1..MaxId : ids' = Append(ids, v)
          /\ UNCHANGED <<shape, ins, del, stage>>
Choose == /\ stage = "build" /\ Len(ids) >= 1 /\ M!MdAssign(ids).ok
          /\ \E s \in HistShapes, p \in 0..Len(ids) : shape' = s /\ ins' = p
          /\ del' = 0 /\ stage' = "done" /\ UNCHANGED ids
ChooseDel == /\ stage = "build" /\ Len(ids) >= 2 /\ M!MdAssign(ids).ok
             /\ \E s \in HistShapes : \E d \in M!Deletable(M!Refs(s, Len(ids))) : \E p \in 0..(Len(ids) - 1) :
                   shape' = s /\ del' = d /\ ins' = p
             /\ stage' = "done" /\ UNCHANGED ids
Next == Extend \/ Choose \/ ChooseDel
Spec == Init /\ [][Next]_vars

First   == M!MdAssign(ids)
Kept    == M!DelAt(First.ids, del)            \* the numbered definitions the second print starts from
Second  == M!MdAssign(M!InsAt(Kept, ins, -1))
Refs1   == M!Refs(shape, Len(ids))
Refs2   == M!InsRefs(M!DelRefs(Refs1, del), ins)

HistLaws == stage = "done" =>
  LET s2 == M!InsAt(Kept, ins, -1) IN
  /\ Second.ok /\ M!LawsHold(s2, Second)
  \* every remaining old definition keeps the number the first print gave it
  /\ \A i \in 1..Len(Kept) : Second.ids[IF i > ins THEN i + 1 ELSE i] = Kept[i]
  \* the new definition receives the smallest number not in use (the removed definition's, if that is it)
  /\ LET new == Second.ids[ins + 1] IN
       /\ new \notin {Kept[i] : i \in 1..Len(Kept)}
       /\ \A k \in 0..(new - 1) : k \in {Kept[i] : i \in 1..Len(Kept)}
  \* printing a third time changes nothing
  /\ M!MdAssign(Second.ids) = Second

Hist == [ids |-> ids, shape |-> shape, refs |-> Refs1, ins |-> ins, del |-> del,
         want  |-> [ok |-> TRUE, ids |-> First.ids, tokens |-> M!Tokens(First.ids, Refs1)],
         refs2 |-> Refs2,
         want2 |-> [ok |-> Second.ok, ids |-> Second.ids, tokens |-> M!Tokens(Second.ids, Refs2)]]

EmitHist == (Emit /\ stage = "done") =>
   Serialize(ToJson(Hist) \o "\n", "md_hist.ndjson",
             [format |-> "TXT", charset |-> "UTF-8",
              openOptions |-> <<"WRITE", "CREATE", "APPEND">>]).exitValue = 0
=============================================================================
