----------------------------- MODULE RankEquiv -----------------------------
(***************************************************************************)
(* On a finite set, a relation is a strict total order iff the rank        *)
(* function (number of smaller elements) is injective and                  *)
(* R(x,y) <=> rank(x) < rank(y).  TLC checks the equivalence on every      *)
(* relation over K elements; NatSortTrace relies on it to judge a recorded *)
(* relation in O(n^2) instead of O(n^3).                                   *)
(***************************************************************************)
EXTENDS Integers, FiniteSets
CONSTANT K
E == 1..K
VARIABLES rel, chosen
Init == rel = {} /\ chosen = FALSE
Next == ~chosen /\ chosen' = TRUE /\ rel' \in SUBSET (E \X E)      \* enabled once: K^2 bits, 2^(K^2) relations
Spec == Init /\ [][Next]_<<rel, chosen>>
R(x, y) == <<x, y>> \in rel
Axioms == /\ \A x \in E : ~R(x, x)
          /\ \A x, y \in E : ~(R(x, y) /\ R(y, x))
          /\ \A x, y, z \in E : R(x, y) /\ R(y, z) => R(x, z)
          /\ \A x, y \in E : x # y => R(x, y) \/ R(y, x)
Rank(x) == Cardinality({k \in E : R(k, x)})
RankChar == /\ \A x, y \in E : x # y => Rank(x) # Rank(y)
            /\ \A x, y \in E : R(x, y) <=> Rank(x) < Rank(y)
Equivalent == Axioms <=> RankChar
=============================================================================
