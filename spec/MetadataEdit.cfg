SPECIFICATION Spec
CONSTANTS
  MaxNodes = 3
  MaxOps = 2
  Emit = FALSE
INVARIANTS EditedLaw EmitEdit
PROPERTY FrameLaw
CHECK_DEADLOCK FALSE
