---------------------------- MODULE MetadataTrace ----------------------------
(***************************************************************************)
(* Judges what the real code did with metadata (property C17).             *)
(*                                                                         *)
(* md_ir_rec.ndjson -- IR side, one row per definition list built through  *)
(* the ir API (metadata.Tuple + SetID), printed with Module.String, the    *)
(* !N tokens read back:                                                    *)
(*   {"ids":[..], "refs":[[..],..],                                        *)
(*    "got":{"ok":b, "ids":[..], "tokens":[[def id, ref ids..],..]}}       *)
(*   ok = FALSE: printing panicked (AssignMetadataIDs returned an error).  *)
(*   History rows carry in addition "ins", "refs2", "got2": an unnumbered  *)
(*   definition was inserted after position ins and the module printed     *)
(*   again; the same laws are required of (InsAt(got.ids, ins, -1), got2). *)
(*   With "del" > 0 that definition was removed from the module before the *)
(*   insertion: the laws are required of InsAt(DelAt(got.ids, del), ..).   *)
(* Laws (operators of Metadata.tla applied to the recorded outcome):       *)
(*   error-iff-duplicate, unique, explicit-kept, smallest-unused,          *)
(*   ref-prints-target-id  (tokens = Tokens(got.ids, refs)).               *)
(*                                                                         *)
(* md_parse_rec.ndjson -- parser side, one row per module text parsed with *)
(* asm.ParseString and walked by reflection:                               *)
(*   {"src":"graph"|"text", "pat":{..} (graph rows), "want":{..},          *)
(*    "obs":{..}, "printed":{"ids":[..], "tokens":[[..],..]}}              *)
(*   want/obs in the shape of MetadataGraph!WantOf; for "graph" rows want  *)
(*   must equal WantOf(pat) (transport check), for "text" rows (the 28     *)
(*   specialised node kinds) want was read off the text by the harness.    *)
(* Laws: identity (every reference is the object of definition !N),        *)
(*   ref-target, placement (inline vs numbered, inline nodes carry ID -1), *)
(*   field (text rows: every reference / inline node of a specialised node *)
(*   sits in the struct field named like the keyword it was written under),*)
(*   def-order (MetadataDefs sorted by ID), distinct, kind (node type),    *)
(*   attachments (number, names and order of the attachments at every      *)
(*   position: global, declaration, definition, instruction, terminator;   *)
(*   their nodes are covered by identity / ref-target / placement),        *)
(*   named-merge,                                                          *)
(*   printed-ids (explicit IDs kept by the printer), printed-refs (every   *)
(*   printed reference is the target's ID).                                *)
(*                                                                         *)
(* The `distinct` law is exercised per node kind: harness/props/c17/di.go  *)
(* (distinctRows) writes the 28-kind module with the numbered definitions  *)
(* of ONE kind distinct (K@distinct) / not distinct (K@uniqued), for every *)
(* kind and for tuples, and with all kinds distinct; want.defs[x].distinct *)
(* is read off the text, llvm-as decides which variants are valid.  The    *)
(* law is judged on the parsed module (distinct) and on the module parsed  *)
(* from the print (distinct-after-reprint).                                *)
(* Histories parse -> edit -> print are specified in MetadataEdit.tla.     *)
(*                                                                         *)
(* md_iso_rec.ndjson -- isolation, one row per pair of texts (A, B) parsed  *)
(* in one process: {"a","b", "shared_same":[types of node objects reachable *)
(* from two separate parses of A], "shared_diff":[... from A and from B],  *)
(* "b_changed": B prints differently after every inline node of A was      *)
(* hoisted into A's MetadataDefs and A was printed, "fresh_differs": a     *)
(* fresh parse of B's text prints differently from B's first print}.       *)
(*                                                                         *)
(* Every failing (row, law) is printed as <<"BADROW", file, law, row>>;    *)
(* the invariant itself is always true (the harness classifies the list).  *)
(***************************************************************************)
EXTENDS Integers, Sequences, FiniteSets, TLC, Json

M == INSTANCE Metadata WITH MaxDefs <- 0, MaxId <- 0, Variant <- "code", Emit <- FALSE,
                            ids <- <<>>, shape <- 0, stage <- "none"
G == INSTANCE MetadataGraph WITH MaxN <- 0, BigPows <- {}, Dense <- 0, Emit <- FALSE, pat <- <<>>, stage <- "none"

Iso   == ndJsonDeserialize("md_iso_rec.ndjson")
IR    == ndJsonDeserialize("md_ir_rec.ndjson")
Parse == ndJsonDeserialize("md_parse_rec.ndjson")
N1 == Len(IR)
N2 == Len(Parse)
N3 == Len(Iso)

Chk(cond, file, law, r) == IF cond THEN 0 ELSE IF PrintT(<<"BADROW", file, law, r>>) THEN 1 ELSE 1

IRBad(r) == LET row == IR[r] s == row.ids g == row.got IN
    Chk(M!LawErrorIffDuplicate(s, g), "ir", "error-iff-duplicate", r)
  + Chk(M!LawUnique(s, g),            "ir", "unique", r)
  + Chk(M!LawExplicitKept(s, g),      "ir", "explicit-kept", r)
  + Chk(M!LawSmallestUnused(s, g),    "ir", "smallest-unused", r)
  + Chk(g.ok /\ Len(g.ids) = Len(s) => g.tokens = M!Tokens(g.ids, row.refs), "ir", "ref-prints-target-id", r)
  \* history rows (MetadataHist.tla): an unnumbered definition inserted after position ins, printed again
  + (IF "ins" \in DOMAIN row /\ g.ok /\ Len(g.ids) = Len(s)   \* (a wrong first print is reported above)
     THEN LET del == IF "del" \in DOMAIN row THEN row.del ELSE 0   \* a definition removed before the insertion
              s2 == M!InsAt(M!DelAt(g.ids, del), row.ins, -1) g2 == row.got2 IN
            Chk(g2.ok, "ir", "second-print-ok", r)
          + Chk(M!LawUnique(s2, g2) /\ M!LawExplicitKept(s2, g2), "ir", "second-print-explicit-kept", r)
          + Chk(M!LawSmallestUnused(s2, g2), "ir", "second-print-smallest-unused", r)
          + Chk(g2.ok /\ Len(g2.ids) = Len(s2) => g2.tokens = M!Tokens(g2.ids, row.refs2),
                "ir", "second-print-ref-prints-target-id", r)
     ELSE 0)

DefIds(w)      == [x \in 1..Len(w.defs) |-> w.defs[x].id]
DefDistinct(w) == [x \in 1..Len(w.defs) |-> w.defs[x].distinct]
DefKind(w)     == [x \in 1..Len(w.defs) |-> IF "kind" \in DOMAIN w.defs[x] THEN w.defs[x].kind ELSE "Tuple"]
NamedNames(w)  == [x \in 1..Len(w.named) |-> w.named[x].name]
Everything(w)  == G!AllOps(w) \o G!NamedOps(w) \o <<G!SiteOps(w.sites)>>

\* the structural laws on an observation o against what is required, w; sfx names the stage
ObsBad(o, w, r, sfx, flds) ==
    Chk(\A x \in 1..Len(Everything(o)) : G!OpsIdentity(Everything(o)[x]), "parse", "identity" \o sfx, r)
  + Chk([x \in 1..Len(Everything(o)) |-> G!OpsIds(Everything(o)[x])]
        = [x \in 1..Len(Everything(w)) |-> G!OpsIds(Everything(w)[x])], "parse", "ref-target" \o sfx, r)
  + Chk([x \in 1..Len(Everything(o)) |-> G!OpsKinds(Everything(o)[x])]
        = [x \in 1..Len(Everything(w)) |-> G!OpsKinds(Everything(w)[x])], "parse", "placement" \o sfx, r)
  + Chk(flds => [x \in 1..Len(o.defs) |-> G!OpsFields(o.defs[x].ops)]
                = [x \in 1..Len(w.defs) |-> G!OpsFields(w.defs[x].ops)], "parse", "field" \o sfx, r)
  + Chk(DefIds(o) = DefIds(w), "parse", "def-order" \o sfx, r)
  + Chk(DefDistinct(o) = DefDistinct(w), "parse", "distinct" \o sfx, r)
  + Chk(DefKind(o) = DefKind(w), "parse", "kind" \o sfx, r)
  + Chk(G!SiteNames(o.sites) = G!SiteNames(w.sites), "parse", "attachments" \o sfx, r)
  + Chk(NamedNames(o) = NamedNames(w)
        /\ [x \in 1..Len(o.named) |-> G!OpsIds(o.named[x].nodes)]
         = [x \in 1..Len(w.named) |-> G!OpsIds(w.named[x].nodes)], "parse", "named-merge" \o sfx, r)

\* obs: the parsed input; obs2: the module obtained by parsing what Module.String printed.
\* A reference that the printer writes inline instead of as !N (or the other way round)
\* shows in obs2 as a placement / identity difference at exactly that position.
ParseBad(r) == LET row == Parse[r] w == row.want IN
    Chk(row.src = "graph" => w = G!WantOf(row.pat), "parse", "want-transport", r)
  + ObsBad(row.obs, w, r, "", row.src = "text")
  + ObsBad(row.obs2, w, r, "-after-reprint", row.src = "text")
  + Chk(row.printed.ids = DefIds(w), "parse", "printed-ids", r)
  \* (rows whose fields may be written in any order prescribe no token order: their print is judged through obs2)
  + Chk("unordered" \notin DOMAIN row =>
        row.printed.tokens = [x \in 1..Len(w.defs) |-> <<w.defs[x].id>> \o G!FlatRefs(w.defs[x].ops)],
        "parse", "printed-refs", r)

\* Cross-module isolation: modules parsed separately in one process share no metadata node
\* object (metadata.Null excepted), so nothing done to one module -- hoisting its inline nodes
\* into MetadataDefs, numbering, printing -- can show in another.
IsoBad(r) == LET row == Iso[r] IN
    Chk(row.shared_same = <<>>, "iso", "no-node-shared-by-two-parses-of-one-text", r)
  + Chk(row.shared_diff = <<>>, "iso", "no-node-shared-by-two-modules", r)
  + Chk(~row.b_changed, "iso", "untouched-module-prints-as-before", r)
  + Chk(~row.fresh_differs, "iso", "fresh-parse-prints-alike", r)

VARIABLE l
Init == l = 0
Next == l < N1 + N2 + N3 /\ l' = l + 1
Spec == Init /\ [][Next]_l

\* always true: the verdict is the BADROW list
RowOK == l >= 1 => (IF l <= N1 THEN IRBad(l) ELSE IF l <= N1 + N2 THEN ParseBad(l - N1) ELSE IsoBad(l - N1 - N2)) >= 0
=============================================================================
