\* deviation: WriteTo takes its fmtWriter from a pool that resets the byte count but not the error latch.
\* A single call is correct whatever the writer does; in a history (failing call, then any call) TLC must
\* report CallStartsFresh, HealthyAfterFailure, FirstError and NoFailEqualsString violated.
SPECIFICATION Spec
CONSTANTS
  MaxChunks = 3
  UnitSizes = {0, 1, 2}
  UnitKinds = {"fmt"}
  IfaceSets = {{}}
  Route = "fmt"
  MaxWrite = 0
  PieceCount = "piece"
  LatchBy = "test"
  CachedViews = FALSE
  LatchError = TRUE
  CountAccepted = TRUE
  KeepFirstError = FALSE
  LatchOn = "err"
  Modes = {"never", "whole", "prefix"}
  Pieces = {0, 1}
  GivenFile = ""
  MaxCalls = 2
  LaterModes = {"never", "whole", "prefix"}
  FreshPerCall = FALSE
  ShareChoices = {FALSE}
  PerWriterWrapper = FALSE
  FlushKinds = {"none"}
  ErrKinds = {"plain"}
  FlushAtEnd = FALSE
  RetryKinds = {}
  MaxRetry = 0
INVARIANTS TypeOK CountExact NoWriteAfterFailure PrefixDelivered FirstError NoFailEqualsString FailsAtCapacity StringNeverPanics CallStartsFresh HealthyAfterFailure
CHECK_DEADLOCK FALSE
