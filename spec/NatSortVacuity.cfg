SPECIFICATION Spec
CONSTANTS
  Alphabet = {48, 49, 50, 97}
  MaxLen = 2
INVARIANTS NumericRunsNeverApplies
CHECK_DEADLOCK FALSE
