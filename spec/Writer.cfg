\* fmtWriter as written, every chunk sequence <= 4 x sizes 0..3, every capacity, all honest writer models
SPECIFICATION Spec
CONSTANTS
  MaxChunks = 4
  UnitSizes = {0, 1, 2, 3}
  UnitKinds = {"fmt"}
  IfaceSets = {{}}
  Route = "fmt"
  MaxWrite = 0
  PieceCount = "piece"
  LatchBy = "test"
  CachedViews = FALSE
  LatchError = TRUE
  CountAccepted = TRUE
  KeepFirstError = FALSE
  LatchOn = "err"
  Modes = {"never", "whole", "prefix", "edge"}
  Pieces = {0, 1, 2}
  GivenFile = ""
  MaxCalls = 2
  LaterModes = {"never", "whole", "prefix"}
  FreshPerCall = TRUE
  ShareChoices = {FALSE}
  PerWriterWrapper = FALSE
  FlushKinds = {"none"}
  ErrKinds = {"plain"}
  FlushAtEnd = FALSE
  RetryKinds = {}
  MaxRetry = 0
INVARIANTS TypeOK CountExact NoWriteAfterFailure PrefixDelivered FirstError NoFailEqualsString FailsAtCapacity StringNeverPanics CallStartsFresh HealthyAfterFailure
CHECK_DEADLOCK FALSE
