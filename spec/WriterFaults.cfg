\* Faults by VALUE and the Flusher capability: writers that return error values of several classes, the
\* transient failure "once", writers with a Flush method (no-op / sticky / failing).  As written (no retry,
\* no flush) every law holds for all of them; c19.go runs the deviations FlushAtEnd = TRUE and
\* RetryKinds = {"eintr"} on this configuration and expects the violations named there.
SPECIFICATION Spec
CONSTANTS
  MaxChunks = 3
  UnitSizes = {0, 1, 2, 3}
  UnitKinds = {"fmt"}
  IfaceSets = {{}}
  Route = "fmt"
  MaxWrite = 0
  PieceCount = "piece"
  LatchBy = "test"
  CachedViews = FALSE
  LatchError = TRUE
  CountAccepted = TRUE
  KeepFirstError = FALSE
  LatchOn = "err"
  Modes = {"never", "whole", "prefix", "edge", "once"}
  Pieces = {0, 2}
  GivenFile = ""
  MaxCalls = 1
  LaterModes = {"never"}
  FreshPerCall = TRUE
  ShareChoices = {FALSE}
  PerWriterWrapper = FALSE
  FlushKinds = {"none", "nil", "sticky", "fails"}
  ErrKinds = {"plain", "eintr"}
  FlushAtEnd = FALSE
  RetryKinds = {}
  MaxRetry = 2
INVARIANTS TypeOK CountExact NoWriteAfterFailure PrefixDelivered FirstError NoFailEqualsString FailsAtCapacity StringNeverPanics CallStartsFresh HealthyAfterFailure
CHECK_DEADLOCK FALSE
