SPECIFICATION Spec
CONSTANTS
  Dev = {"ops-succs"}
  MaxCalls = 1
  Classes = FALSE
  MaxOps = 8
INVARIANTS SuccsLive
VIEW View
CHECK_DEADLOCK FALSE
