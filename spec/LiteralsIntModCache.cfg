SPECIFICATION Spec
CONSTANTS
  TextWidths = {8}
  ModWidths = {8, 16}
  MaxSame = 2
  CacheKey = "text"
  EmitFile = ""
INVARIANTS AllDenote CacheSound
CHECK_DEADLOCK FALSE
