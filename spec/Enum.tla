-------------------------------- MODULE Enum --------------------------------
(***************************************************************************)
(* Enumerated keywords (C18): laws over RECORDED tables.                   *)
(*                                                                         *)
(* Nothing about the ~640 keywords is transcribed here (a snapshot would   *)
(* alarm on a legitimately added enumerator).  The harness finds the       *)
(* enumerated types and all their constants in the source of the working   *)
(* tree at run time (go/types), calls the real String methods, the real    *)
(* asm/enum.XxxFromString functions, the real hand-written flag printers   *)
(* and the real parser, and records what they did.  This module states the *)
(* laws the records must obey and generates the flag sets to be recorded.  *)
(*                                                                         *)
(* Values are decimal strings (TLC integers are 32-bit; only equality is   *)
(* needed); bit sets are sets of bit positions.                            *)
(*                                                                         *)
(* Keyword rows  [kind |-> "kw", fam, v, name, printed, ok, back]:         *)
(*   RoundTrip     the parser accepts the printed keyword (ok) and maps it *)
(*                 back to the value that printed it (back = v)            *)
(*   SameKeyword   two different values of a family print the same keyword *)
(*                 (must never hold: printing is injective per family)     *)
(* Flag-set rows [kind |-> "set", fam, bits, printed, absent, toks, pok,   *)
(*                pback]: the value `bits` was printed by the real printer *)
(*   to `printed`, which splits into tokens toks[i] = [t, ok, bits] (each  *)
(*   token parsed alone by XxxFromString); the real parser read the whole  *)
(*   printed form back as pback (pok: it accepted it).                     *)
(*   AbsentOnlyZero  the printer may omit the field only for the empty set *)
(*   TokensDefined   every printed token is a keyword of a defined member  *)
(*   ExactSet        the union of the printed members is the set: nothing  *)
(*                   dropped, nothing added                                *)
(*   NoDuplicate     no member is printed twice                            *)
(*   ParsesBack      the parser maps the printed form back to the set      *)
(* Member rows   [kind |-> "member", fam, name, v, bits]: every constant   *)
(*   of a flag family.                                                     *)
(* List-valued flag fields and combinations of enumerated fields of one    *)
(* entity: see the comments at ComboRoundTrip below and EnumCombo.tla.     *)
(*                                                                         *)
(* Generator (direction G).  State machine fam/val/stage: choose a flag    *)
(* family, then a set of its members; val is the union.  Families in       *)
(* ExhaustiveFams get EVERY subset of their members, the others every      *)
(* union of at most Arity members, the empty set and the full set (the     *)
(* harness adds seeded random sets).  Every reached (fam, val) is printed   *)
(* as a SET tuple; the harness must record a flag-set row for each.        *)
(* On every generated set TLC also checks ExactCover for a reference       *)
(* printer RefPrint: with RangeLimited = FALSE it prints every single-bit  *)
(* member contained in the set (the required behaviour); with              *)
(* RangeLimited = TRUE it walks only the bits <Fam>First..<Fam>Last as the *)
(* hand-written printers in ir/metadata/helper.go and ir/helper.go do (the *)
(* bits below First are printed as one field).  The bounds are taken from  *)
(* the recorded constants, so TLC shows exactly the sets the printers of   *)
(* the working tree must lose (as implemented) and none as required.       *)
(***************************************************************************)
EXTENDS Integers, Sequences, FiniteSets, TLC, Json

CONSTANTS MembersFile,      \* "" or NDJSON file of member rows (generator)
          ExhaustiveFams,   \* flag families whose every subset is generated
          Arity,            \* the other flag families: unions of at most Arity (2 or 3) members
          RangeLimited      \* TRUE: reference printer as implemented (First..Last walk)

SeqToSet(s) == {s[i] : i \in 1..Len(s)}

----------------------------------------------------------------------------
(* Laws over recorded rows; shared with EnumTrace.tla *)
RoundTrip(r)      == r.ok /\ r.back = r.v
SameKeyword(r, s) == r.fam = s.fam /\ r.v # s.v /\ r.printed = s.printed

TokBits(r)        == {SeqToSet(r.toks[i].bits) : i \in 1..Len(r.toks)}
AbsentOnlyZero(r) == r.absent => SeqToSet(r.bits) = {}
TokensDefined(r, members) == \A i \in 1..Len(r.toks) : r.toks[i].ok /\ SeqToSet(r.toks[i].bits) \in members
ExactSet(r)       == UNION TokBits(r) = SeqToSet(r.bits)
NoDuplicate(r)    == \A i, j \in 1..Len(r.toks) : i # j => r.toks[i].t # r.toks[j].t
ParsesBack(r)     == r.pok /\ SeqToSet(r.pback) = SeqToSet(r.bits)

\* field rows [fam, node, field, place, v, printed, omitted, ok, back, mate]: the value v of family fam
\* set in the enum-typed field of a specialised metadata node that stands at place ("numbered":
\* `!0 = !DIx(..)`, "inline": `!0 = !{!DIx(..)}`), printed, parsed, read back.  The value must come
\* back whether the printer wrote the field or omitted it as a default, and both places must read alike.
FieldRoundTrip(r)   == r.ok /\ r.back = r.v
PlaceAgnostic(r, s) == r.ok = s.ok /\ r.back = s.back /\ r.omitted = s.omitted /\ r.printed = s.printed

\* LIST-valued flag fields (FastMathFlags, OverflowFlags of instructions and constant expressions) are
\* flag-set rows too: fam is the keyword family, node the carrier (InstFAdd, ExprShl, ...), bits the SET
\* of member values placed in the list, printed the flag tokens of the printed instruction, pback the set
\* of members of the list the parser built from the printed module.  The members are the defined values
\* of the family (member rows with bits = {value}); the same laws apply (ExactSet: `fast` printed for
\* seven individual flags is a member that is not in the set and seven members dropped).  The generator
\* below enumerates EVERY subset of these families (they are in ExhaustiveFams).

\* combination rows [kind |-> "combo", node (the entity: global, declare, define, alias, ifunc), fam (the
\* families joined by "*"), bits (the SEQUENCE of values, one per family, set together on one entity),
\* printed, pok, pback]: the values must all come back TOGETHER - a keyword may not be dropped because a
\* value of another field implies it.  The combinations are generated by EnumCombo.tla.
ComboRoundTrip(r)   == r.pok /\ r.pback = r.bits

----------------------------------------------------------------------------
(* Generator *)
MemberRows == IF MembersFile = "" THEN <<>> ELSE ndJsonDeserialize(MembersFile)
Idx        == 1..Len(MemberRows)
Fams       == {MemberRows[i].fam : i \in Idx}
AllMembers(f) == {SeqToSet(MemberRows[i].bits) : i \in {j \in Idx : MemberRows[j].fam = f}}
Members(f) == AllMembers(f) \ {{}}          \* the non-zero members
Atomic(f)  == {m \in Members(f) : Cardinality(m) = 1}
Full(f)    == UNION Members(f)

\* bit position of the single-bit constant <f><suffix>, or dflt
Bound(f, suffix, dflt) ==
  LET S == {i \in Idx : MemberRows[i].fam = f /\ MemberRows[i].name = f \o suffix /\ Len(MemberRows[i].bits) = 1}
  IN IF S = {} THEN dflt ELSE MemberRows[CHOOSE i \in S : TRUE].bits[1]
Lo(f) == Bound(f, "First", 0)
Hi(f) == Bound(f, "Last", 1000)

RefPrint(f, v) ==
  IF ~RangeLimited THEN {m \in Atomic(f) : m \subseteq v}
  ELSE LET low == {b \in v : b < Lo(f)} IN
       (IF low = {} THEN {} ELSE {low})
       \cup {m \in Atomic(f) : m \subseteq v /\ \A b \in m : Lo(f) <= b /\ b <= Hi(f)}

VARIABLES fam, val, stage
vars == <<fam, val, stage>>
Init == fam = "" /\ val = {} /\ stage = 0
Sets(f) == IF f \in ExhaustiveFams THEN {UNION S : S \in SUBSET Members(f)}
           ELSE (IF Arity >= 3 THEN {a \cup b \cup c : a, b, c \in Members(f)} ELSE {a \cup b : a, b \in Members(f)})
                \cup {{}, Full(f)}
Next == \/ stage = 0 /\ fam' \in Fams /\ stage' = 1 /\ UNCHANGED val
        \/ stage = 1 /\ val' \in Sets(fam) /\ stage' = 2 /\ UNCHANGED fam
Spec == Init /\ [][Next]_vars

\* the reference printer prints exactly the set, and only defined members
ExactCover == stage = 2 => UNION RefPrint(fam, val) = val /\ RefPrint(fam, val) \subseteq Members(fam)
\* every set is a union of single-bit members (otherwise "the set of its members" is not defined)
Decomposable == stage = 2 => UNION {m \in Atomic(fam) : m \subseteq val} = val
Emit == stage = 2 => PrintT(<<"SET", fam, val>>)
=============================================================================
