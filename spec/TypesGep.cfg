SPECIFICATION Spec
CONSTANTS
  Emit = TRUE
  Tier = "quick"
INVARIANTS Valid PtrOrVecOfPtr AddrSpaceKept VectorIffAny ScalableIffAny LengthAgrees Stepping EmitOK
CHECK_DEADLOCK FALSE
