SPECIFICATION Spec
CONSTANTS
  Mode = "exec"
  MaxSteps = 6
  ExecWidths = {1, 8, 16, 32, 64}
  ExecExhaustive = FALSE
  BoundarySmall = FALSE
INVARIANTS ProgWellFormed EvalLaws Emit
CHECK_DEADLOCK FALSE
