\* reference printer as implemented (walks the bits <Fam>First..<Fam>Last only): TLC reports ExactCover
\* violated for every set that contains a member outside that range (on the pinned tree: DISPFlagDeleted,
\* DISPFlagObjCDirect)
SPECIFICATION Spec
CONSTANTS
  MembersFile = "members.ndjson"
  ExhaustiveFams = {"AllocKind", "DISPFlag", "FastMathFlag", "OverflowFlag"}
  Arity = 2
  RangeLimited = TRUE
INVARIANTS ExactCover
CHECK_DEADLOCK FALSE
