SPECIFICATION Spec
CONSTANTS
  Readers = {1, 2, 3}
  NT = 3
  Calls = 2
  InPlace = FALSE
INVARIANTS RetIsTargets
CHECK_DEADLOCK FALSE
