---------------------------- MODULE MetadataWide ----------------------------
(***************************************************************************)
(* Metadata ID assignment on LARGE, BOUNDARY and MANY IDs (property C17).   *)
(*                                                                         *)
(* Metadata.tla enumerates every definition list over the IDs -1..MaxId;   *)
(* the laws (unique, explicit-kept, smallest-unused, error-iff-duplicate,  *)
(* ref-prints-target-id) are the same for every ID, but code that prints   *)
(* or reads an ID may treat IDs differently by MAGNITUDE: a table of       *)
(* precomputed small IDs, a 16- or 32-bit cast, a cache indexed by ID, a    *)
(* buffer sized for so many digits.  This module enumerates the definition  *)
(* lists that stand at those places of the ID scale (Metadata!Landmarks:   *)
(* 2^k - 1, 2^k, 2^k + 1 for k = 1..32, 10^k - 1, 10^k, 10^k + 1 for       *)
(* k = 1..9; model IDs, see PART 3 of Metadata.tla):                       *)
(*   <<L>>                       a definition numbered L referring to itself*)
(*   <<s, L>>, <<L, s>>          s = unnumbered or 0, before and after      *)
(*   <<-1, L, -1>>               (the unnumbered ones receive 0 and 1)      *)
(*   <<L, L'>>, <<L', L>>        L' the next landmark above L               *)
(*   <<L, L>>                    duplicate: an error, nothing is printed    *)
(* and DENSE lists of n \in DenseLens definitions, all unnumbered, or all   *)
(* but one (numbered v \in DenseExplicit, first or last in the list): the   *)
(* assignment itself walks over every boundary below n, and the explicit   *)
(* ID must be skipped by the count.                                        *)
(*                                                                         *)
(* TLC checks Metadata!LawsHold, idempotence and that the tokens identify  *)
(* the graph on every list; EmitVector writes md_vectors.ndjson in the      *)
(* format of Metadata.tla plus "wide": Metadata!WideTable (model ID ->      *)
(* decimal text of the concrete ID).  harness/props/c17 builds each vector  *)
(* with the concrete IDs through the ir API, prints, reads the !N tokens    *)
(* back, maps them to model IDs; MetadataTrace.tla judges the rows.         *)
(***************************************************************************)
EXTENDS Integers, Sequences, FiniteSets, TLC, Json, IOUtils

CONSTANTS DenseLens,  \* lengths of the dense lists, e.g. {1100}
          DenseExplicit, \* the ID of the one numbered definition of a dense list, e.g. {0, 1024}
          Emit        \* TRUE: write vectors (use -workers 1)

VARIABLES ids, shape, stage
vars == <<ids, shape, stage>>

M == INSTANCE Metadata WITH MaxDefs <- 0, MaxId <- 0, Variant <- "code", Emit <- FALSE,
                            ids <- <<>>, shape <- 0, stage <- "none"

L == M!Landmarks
Adjacent == {p \in L \X L : p[1] < p[2] /\ ~\E c \in L : p[1] < c /\ c < p[2]}

SparseLists ==
       {<<l>> : l \in L}
  \cup {<<s, l>> : s \in {-1, 0}, l \in L} \cup {<<l, s>> : s \in {-1, 0}, l \in L}
  \cup {<<-1, l, -1>> : l \in L}
  \cup {<<p[1], p[2]>> : p \in Adjacent} \cup {<<p[2], p[1]>> : p \in Adjacent}
  \cup {<<l, l>> : l \in L}

DenseList(n, at, v) == [i \in 1..n |-> IF i = at THEN v ELSE -1]
DenseLists == UNION {
     {DenseList(n, 0, -1)}
     \cup {DenseList(n, at, v) : at \in {1, n}, v \in {w \in DenseExplicit : w <= n + 1}}
   : n \in DenseLens}

ShapesFor(s) == IF Len(s) = 1 THEN {3} ELSE IF Len(s) <= 3 THEN {3, 6} ELSE {2, 4}

Init == ids = <<>> /\ shape = 0 /\ stage = "start"
Next == /\ stage = "start"
        /\ \E s \in SparseLists \cup DenseLists : \E sh \in ShapesFor(s) : ids' = s /\ shape' = sh
        /\ stage' = "done"
Spec == Init /\ [][Next]_vars

Out == M!MdAssign(ids)

\* (LET: TLC evaluates a LET definition once, an operator at every mention)
WideLaws == stage = "done" => LET o == Out IN M!LawsHold(ids, o)
WideIdempotent == stage = "done" => LET o == Out IN o.ok => M!MdAssign(o.ids) = o
\* the assigned numbers stay below every landmark that is not an explicit ID of the list only as far
\* as the list is long: an unnumbered definition never receives a wide ID
WideAssignedSmall == stage = "done" => LET o == Out IN o.ok =>
   \A i \in 1..Len(ids) : ids[i] = -1 => o.ids[i] <= Len(ids)
\* reading the tokens back identifies the graph: a definition token occurs once
WideTokensIdentify == stage = "done" => LET o == Out IN o.ok =>
   LET r == M!Refs(shape, Len(ids)) t == M!Tokens(o.ids, r) IN
   \A i \in 1..Len(ids) : \A k \in 1..Len(r[i]) :
       /\ t[r[i][k]][1] = t[i][k + 1]
       /\ Len(ids) <= 8 => \A j \in 1..Len(ids) : t[j][1] = t[i][k + 1] => j = r[i][k]
\* the scale: distinct model IDs stand for distinct concrete IDs (the digit strings are listed in
\* increasing order in Metadata.tla; equal length or longer, never equal)
ScaleInjective == \A i, j \in 1..Len(M!WideIds) : i # j => M!WideIds[i] # M!WideIds[j]

Vector == LET o == Out r == M!Refs(shape, Len(ids)) IN
          [ids   |-> ids, shape |-> shape, refs |-> r,
           want  |-> [ok |-> o.ok, ids |-> o.ids, tokens |-> IF o.ok THEN M!Tokens(o.ids, r) ELSE <<>>],
           wide  |-> M!WideTable]

EmitVector == (Emit /\ stage = "done") =>
   Serialize(ToJson(Vector) \o "\n", "md_vectors.ndjson",
             [format |-> "TXT", charset |-> "UTF-8",
              openOptions |-> <<"WRITE", "CREATE", "APPEND">>]).exitValue = 0
=============================================================================
