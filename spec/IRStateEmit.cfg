\* Transition generator: IRState.cfg plus one NDJSON line per explored transition (run with -workers 1).
\* overrides the constants per tier and mode (build: MaxSrc = 0; parse: MaxSrc = 2, few calls).
\* ValidateOnPrint = FALSE (as required): everything must hold.
SPECIFICATION Spec
CONSTANTS
  ValidateOnPrint = FALSE
  EagerType = TRUE
  MdVariant = "code"
  AssignAllFirst = TRUE
  OperandsMemo = FALSE
  RenameTaken = FALSE
  HeaderBeforeAssign = FALSE
  GlobalRefresh = "fields"
  AllocaRefresh = "fields"
  MaxCalls = 5
  Groups = {"globals", "aliases", "ifuncs"}
  MaxPerGroup = 1
  MaxFuncs = 1
  MaxParams = 1
  MaxBlocks = 2
  MaxInsts = 2
  NewNames = {"", "x"}
  SetNames = {"", "y"}
  InstRes = {"value", "void", "none"}
  InstOps = {}
  RefTargets = {}
  RefGlobals = FALSE
  FieldEdits = {}
  TermKinds = {"ret", "invoke"}
  MaxMd = 0
  MdExplicit = {}
  MdAttach = FALSE
  MaxSrc = 0
  TrackQueries = FALSE
  StickyQueries = FALSE
  Preset = ""
  IndirectRefresh = "never"
  UnlockOnPanic = TRUE
  CountMemo = FALSE
  EmptyType = "panic"
  LitRetype = FALSE
  DepKinds = {}
  Edits = {}
  TrustCachedID = FALSE
  PrintReadsTyp = FALSE
  Observers = {"PrintModule", "PrintFunc", "PrintBlock", "QueryType", "QueryIdent", "QueryOperands", "QuerySuccs"}
  EmitFile = "transitions.ndjson"
VIEW View
INVARIANTS TypeOK NumberingCorrect PrintTotalOnParsed AssignIdempotent ObserverTransparent PrintTwiceSame PrintFuncTwiceSame PrintBlockTwiceSame PrintFuncIsPart ObserverOrderFree
PROPERTIES ObserverTransparentStep
CHECK_DEADLOCK FALSE
ACTION_CONSTRAINT Emit
