\* Design-level check of IRState (C08 + C14), exhaustive for the bounds below; the harness
\* overrides the constants per tier and mode (build: MaxSrc = 0; parse: MaxSrc = 2, few calls).
\* ValidateOnPrint = FALSE (as required): everything must hold.
SPECIFICATION Spec
CONSTANTS
  ValidateOnPrint = FALSE
  MaxCalls = 0
  MaxPerGroup = 1
  MaxFuncs = 1
  MaxParams = 1
  MaxBlocks = 1
  MaxInsts = 2
  NewNames = {"", "x"}
  SetNames = {""}
  InstRes = {"value", "void"}
  TermKinds = {"ret", "invoke"}
  MaxSrc = 0
  TrackQueries = FALSE
  Observers = {"PrintModule", "PrintFunc"}
  EmitFile = "transitions.ndjson"
VIEW View
INVARIANTS TypeOK NumberingCorrect PrintTotalOnParsed AssignIdempotent ObserverTransparent PrintTwiceSame
PROPERTIES ObserverTransparentStep
CHECK_DEADLOCK FALSE
