\* a writer that cuts a Write short without reporting an error (violates io.Writer): the count is still
\* exact and the error nil (SilentStillCounts holds) but PrefixDeliveredAnyWriter must be VIOLATED -
\* the prefix law of C19 needs the writer to honour its contract.
SPECIFICATION Spec
CONSTANTS
  MaxChunks = 3
  UnitSizes = {0, 1, 2, 3}
  UnitKinds = {"fmt"}
  IfaceSets = {{}}
  Route = "fmt"
  MaxWrite = 0
  PieceCount = "piece"
  LatchBy = "test"
  CachedViews = FALSE
  LatchError = TRUE
  CountAccepted = TRUE
  KeepFirstError = FALSE
  LatchOn = "err"
  Modes = {"silent"}
  Pieces = {0}
  GivenFile = ""
  MaxCalls = 1
  LaterModes = {"silent"}
  FreshPerCall = TRUE
  ShareChoices = {FALSE}
  PerWriterWrapper = FALSE
  FlushKinds = {"none"}
  ErrKinds = {"plain"}
  FlushAtEnd = FALSE
  RetryKinds = {}
  MaxRetry = 0
INVARIANTS TypeOK CountExact SilentStillCounts PrefixDeliveredAnyWriter
CHECK_DEADLOCK FALSE
