------------------------------ MODULE TypesMut ------------------------------
(***************************************************************************)
(* C16, histories: type identity has no hidden state.                      *)
(*                                                                         *)
(* The library's types are MUTABLE Go objects (exported fields, SetName,    *)
(* Module.NewTypeDef), and programs build them in steps: make a struct,    *)
(* make a pointer to it, print or compare something, THEN name the struct, *)
(* fill its body, replace an element type, toggle packed / variadic /      *)
(* scalable.  The property's Equal and String are functions of the CURRENT *)
(* structure: after any such step, every type that encloses the mutated    *)
(* object must compare and print exactly like a freshly built copy of the  *)
(* mutated term.                                                           *)
(*                                                                         *)
(* Objects are trees of records like the terms of Types.tla, except that   *)
(* an identified struct is a struct NODE with a name:                      *)
(*     [k |-> "struct", nm, op, pk, fs]    nm = "" literal; op = opaque    *)
(* Canon(o) is the term (Types.tla) the object denotes NOW: a struct with  *)
(* a name denotes TNamed(nm) whatever its body, everything else is         *)
(* structural.  A path is a sequence of child selectors (0 = element /     *)
(* return type, i >= 1 = i-th field / parameter).                          *)
(*                                                                         *)
(* State machine (one action per API step):                                *)
(*    Build      choose an initial object from Seeds                       *)
(*    Observe    String()/Equal on every node (this is when an             *)
(*               implementation may cache)                                 *)
(*    Mutate     choose a node and one mutation of it: setname, fields     *)
(*               (body filled / replaced in place), packed, variadic,      *)
(*               scalable, len, as, replace (a child object replaced)      *)
(* objs is the history of objects, muts the mutations applied so far.      *)
(*                                                                         *)
(* Properties.  NoHiddenState: what an observer sees at every node equals  *)
(* Canon of the current object.  With MemoStrings = FALSE observers        *)
(* compute from the structure (required); with MemoStrings = TRUE (the     *)
(* deviation: pointer nodes memoise their string and revalidate it only    *)
(* against the identity of their element object and their address space)   *)
(* TLC reports the counterexample Build {i32}*, Observe, setname,          *)
(* Observe.  Congruence: a mutation that changes what a node denotes       *)
(* changes what every enclosing node denotes, up to and excluding the      *)
(* first enclosing identified struct (a name cuts the dependency).         *)
(*                                                                         *)
(* Binding to the code: with Emit = TRUE every observed state with at      *)
(* least one mutation is written to types_hist.ndjson as                   *)
(*   {init, muts: [[path, mutation]..], chk: [ [[path, canon]..] per       *)
(*    observation ]}                                                       *)
(* harness/props/c16/mut.go builds init as live Go objects, queries        *)
(* String()/Equal on every node, applies the mutations through the real    *)
(* API (SetName, field writes) and after each one compares every node with *)
(* a freshly built copy of `canon` (String() equal, Equal both ways, and   *)
(* unequal to the copy of what it denoted before when that differs).       *)
(***************************************************************************)
EXTENDS Types, Json, IOUtils

CONSTANTS Emit, MemoStrings, MaxMuts

MStruct(nm, op, pk, fs) == [k |-> "struct", nm |-> nm, op |-> op, pk |-> pk, fs |-> fs]

RECURSIVE Canon(_)
Canon(o) ==
  CASE o.k = "struct" -> IF o.nm # "" THEN TNamed(o.nm)
                         ELSE TStruct(o.pk, [i \in 1..Len(o.fs) |-> Canon(o.fs[i])])
    [] o.k = "ptr"    -> TPtr(Canon(o.e), o.as)
    [] o.k = "vec"    -> TVec(o.sc, o.n, Canon(o.e))
    [] o.k = "arr"    -> TArr(o.n, Canon(o.e))
    [] o.k = "func"   -> TFunc(Canon(o.ret), [i \in 1..Len(o.ps) |-> Canon(o.ps[i])], o.va)
    [] OTHER          -> o

Sels(o) == CASE o.k \in {"ptr", "vec", "arr"} -> {0}
             [] o.k = "struct" -> 1..Len(o.fs)
             [] o.k = "func"   -> 0..Len(o.ps)
             [] OTHER          -> {}
Child(o, c) == CASE o.k \in {"ptr", "vec", "arr"} -> o.e
                 [] o.k = "struct" -> o.fs[c]
                 [] o.k = "func"   -> IF c = 0 THEN o.ret ELSE o.ps[c]
SetChild(o, c, x) == CASE o.k \in {"ptr", "vec", "arr"} -> [o EXCEPT !.e = x]
                       [] o.k = "struct" -> [o EXCEPT !.fs[c] = x]
                       [] o.k = "func"   -> IF c = 0 THEN [o EXCEPT !.ret = x] ELSE [o EXCEPT !.ps[c] = x]
RECURSIVE Sub(_, _)
Sub(o, p) == IF p = <<>> THEN o ELSE Sub(Child(o, Head(p)), Tail(p))
RECURSIVE Put(_, _, _)
Put(o, p, x) == IF p = <<>> THEN x ELSE SetChild(o, Head(p), Put(Child(o, Head(p)), Tail(p), x))
RECURSIVE Paths(_)
Paths(o) == {<<>>} \cup UNION {{<<c>> \o q : q \in Paths(Child(o, c))} : c \in Sels(o)}
IsPrefix(p, q) == Len(p) <= Len(q) /\ SubSeq(q, 1, Len(p)) = p

----------------------------------------------------------------------------
(* Mutations of one node *)
NewFields == {<<I32>>, <<I8, I8>>, <<TPtr(I8, 0)>>}
Repl(o) == IF o.k = "vec" THEN {I64, TPtr(I8, 1)} ELSE {I64, TPtr(I8, 1), MStruct("", FALSE, TRUE, <<I8>>)}
Muts(o) ==
  CASE o.k = "struct" -> {[m |-> "setname", nm |-> nm] : nm \in {"S", "T"} \ {o.nm}}
                         \cup {[m |-> "fields", fs |-> fs] : fs \in NewFields \ {o.fs}}
                         \cup (IF o.op THEN {} ELSE {[m |-> "packed"]})
    [] o.k = "ptr"    -> {[m |-> "as", as |-> 1 - o.as]} \cup {[m |-> "replace", c |-> 0, t |-> t] : t \in Repl(o) \ {o.e}}
    [] o.k = "vec"    -> {[m |-> "scalable"], [m |-> "len", n |-> o.n + 1]} \cup {[m |-> "replace", c |-> 0, t |-> t] : t \in Repl(o) \ {o.e}}
    [] o.k = "arr"    -> {[m |-> "len", n |-> o.n + 1]} \cup {[m |-> "replace", c |-> 0, t |-> t] : t \in Repl(o) \ {o.e}}
    [] o.k = "func"   -> {[m |-> "variadic"]}
                         \cup UNION {{[m |-> "replace", c |-> c, t |-> t] : t \in {I64, TPtr(I8, 1)} \ {o.ps[c]}} : c \in 1..Len(o.ps)}
    [] OTHER          -> {}
Mutated(o, mu) ==
  CASE mu.m = "setname"  -> [o EXCEPT !.nm = mu.nm]
    [] mu.m = "fields"   -> [o EXCEPT !.fs = mu.fs, !.op = FALSE]
    [] mu.m = "packed"   -> [o EXCEPT !.pk = ~o.pk]
    [] mu.m = "as"       -> [o EXCEPT !.as = mu.as]
    [] mu.m = "scalable" -> [o EXCEPT !.sc = ~o.sc]
    [] mu.m = "len"      -> [o EXCEPT !.n = mu.n]
    [] mu.m = "variadic" -> [o EXCEPT !.va = ~o.va]
    [] mu.m = "replace"  -> SetChild(o, mu.c, mu.t)

Lit   == MStruct("", FALSE, FALSE, <<I32>>)
Named == MStruct("S", FALSE, FALSE, <<I32>>)
Opq   == MStruct("S", TRUE, FALSE, <<>>)
Seeds == { TPtr(Lit, 0),
           TPtr(TPtr(Lit, 0), 1),
           TPtr(TPtr(Named, 0), 0),
           TPtr(Opq, 0),
           TArr(2, TPtr(Lit, 0)),
           TVec(FALSE, 2, TPtr(Lit, 1)),
           MStruct("", FALSE, FALSE, <<TPtr(Lit, 0), I8>>),
           TPtr(TFunc(TVoid, <<TPtr(Lit, 0), I32>>, FALSE), 0),
           TPtr(TVec(FALSE, 2, I32), 0),
           TPtr(TArr(2, MStruct("", FALSE, TRUE, <<I8, TPtr(I8, 0)>>)), 0) }
UM == [S |-> Opaque, T |-> Opaque]     \* the names a mutation can give

----------------------------------------------------------------------------
VARIABLES objs, muts, memo, stage
vars == <<objs, muts, memo, stage>>
Cur == objs[Len(objs)]

\* what an observer sees at path p (through the memo when the deviation is on)
RECURSIVE Obs(_, _, _)
Obs(o, mm, p) ==
  LET node == Sub(o, p) IN
  IF MemoStrings /\ node.k = "ptr" /\ \E e \in mm : e[1] = p
  THEN (CHOOSE e \in mm : e[1] = p)[2]
  ELSE CASE node.k = "struct" -> IF node.nm # "" THEN TNamed(node.nm)
                                 ELSE TStruct(node.pk, [i \in 1..Len(node.fs) |-> Obs(o, mm, p \o <<i>>)])
         [] node.k = "ptr"    -> TPtr(Obs(o, mm, p \o <<0>>), node.as)
         [] node.k = "vec"    -> TVec(node.sc, node.n, Obs(o, mm, p \o <<0>>))
         [] node.k = "arr"    -> TArr(node.n, Obs(o, mm, p \o <<0>>))
         [] node.k = "func"   -> TFunc(Obs(o, mm, p \o <<0>>), [i \in 1..Len(node.ps) |-> Obs(o, mm, p \o <<i>>)], node.va)
         [] OTHER             -> node

Init == objs = <<>> /\ muts = <<>> /\ memo = {} /\ stage = "start"
Build == stage = "start" /\ \E s \in Seeds : objs' = <<s>> /\ stage' = "built" /\ UNCHANGED <<muts, memo>>
Observe == /\ stage \in {"built", "mutated"}
           /\ memo' = memo \cup {<<p, Obs(Cur, memo, p)>> : p \in {q \in Paths(Cur) : Sub(Cur, q).k = "ptr"}}
           /\ stage' = "observed" /\ UNCHANGED <<objs, muts>>
Mutate == /\ stage = "observed" /\ Len(muts) < MaxMuts
          /\ \E q \in Paths(Cur) : \E mu \in Muts(Sub(Cur, q)) :
               LET new == Put(Cur, q, Mutated(Sub(Cur, q), mu)) IN
               /\ WellFormed(UM, Canon(new))
               /\ objs' = Append(objs, new)
               /\ muts' = Append(muts, <<q, mu>>)
               \* what the memoising implementation invalidates: the pointer whose own element object
               \* or address space changed, and everything below a replaced child (new objects)
               /\ memo' = {e \in memo :
                             /\ ~(mu.m = "replace" /\ (e[1] = q \/ IsPrefix(q \o <<mu.c>>, e[1])))
                             /\ ~(mu.m = "as" /\ e[1] = q)}
          /\ stage' = "mutated"
Next == Build \/ Observe \/ Mutate
Spec == Init /\ [][Next]_vars

NoHiddenState == stage = "observed" => \A p \in Paths(Cur) : Obs(Cur, memo, p) = Canon(Sub(Cur, p))

\* a name between the observer and the mutated node cuts the dependency; nothing else does
NameBetween(o, p, q) == \E r \in Paths(o) : IsPrefix(p, r) /\ IsPrefix(r, q) /\ r # q
                                            /\ Sub(o, r).k = "struct" /\ Sub(o, r).nm # ""
Congruence == stage = "mutated" =>
                LET old == objs[Len(objs) - 1]   q == muts[Len(muts)][1]
                    changedAt == Canon(Sub(old, q)) # Canon(Sub(Cur, q))
                IN \A p \in Paths(old) : IsPrefix(p, q) =>
                     ((Canon(Sub(old, p)) # Canon(Sub(Cur, p))) <=> (changedAt /\ ~NameBetween(old, p, q)))
CanonWellFormed == Len(objs) >= 1 => WellFormed(UM, Canon(Cur))

Out(rec) == Serialize(ToJson(rec) \o "\n", "types_hist.ndjson",
                      [format |-> "TXT", charset |-> "UTF-8",
                       openOptions |-> <<"WRITE", "CREATE", "APPEND">>]).exitValue = 0
ChkOf(o) == {<<p, Canon(Sub(o, p))>> : p \in Paths(o)}
EmitOK == (Emit /\ stage = "observed" /\ Len(muts) >= 1) =>
            Out([init |-> objs[1], muts |-> muts, chk |-> [i \in 1..Len(objs) |-> ChkOf(objs[i])]])
=============================================================================
