--------------------------- MODULE TranslateTrace ---------------------------
(***************************************************************************)
(* Trace validation of the real translator against Translate.tla (C12,     *)
(* and the phase discipline C04 relies on).                                *)
(*                                                                         *)
(* translate_trace.ndjson is a concatenation of recorded translations,     *)
(* each: one row {"ev":"src","src":<source>,"lay":<layout>}, then one row        *)
(* {"ev":"pick","phase":p,"key":k} per hook event of asm.VerifHook (one    *)
(* per iteration of each map-ranging loop of the translator, in the order  *)
(* the Go runtime produced), then {"ev":"end","st":"ok"|"err"|"crash"}.    *)
(* A pick row is accepted only as the action Pick(k) of Translate.tla in   *)
(* phase p; indexing, the use-list-order / blockaddress steps and module   *)
(* assembly have no hook and are taken as silent steps (they are           *)
(* deterministic).  The end row must find the model finished with the same *)
(* outcome and resets the machine.  The trace machine is deterministic,    *)
(* so a rejected trace shows up as a deadlock at the row that no action    *)
(* explains (CHECK_DEADLOCK TRUE); Finished stutters once all rows are     *)
(* consumed.                                                               *)
(***************************************************************************)
EXTENDS Translate

Trace == ndJsonDeserialize("translate_trace.ndjson")
VARIABLE l
tvars == <<vars, l>>

IsEvent(e) == l <= Len(Trace) /\ Trace[l].ev = e /\ l' = l + 1

TraceInit == Init /\ l = 1

TrSrc == /\ IsEvent("src") /\ pc = "choose"
         /\ src' = Trace[l].src /\ lay' = Trace[l].lay /\ pc' = "index"
         /\ UNCHANGED <<i, old, new, pend, uses, todo, res, picks>>
TrPick == /\ IsEvent("pick") /\ pc = Trace[l].phase
          /\ Trace[l].key \in Names
          /\ Pick(Trace[l].key)
\* steps of the translator that have no hook
Silent == /\ l <= Len(Trace) /\ Trace[l].ev # "src" /\ UNCHANGED l
          /\ (Index \/ Tail3 \/ AddDefs)
TrEnd == /\ IsEvent("end") /\ pc = "done" /\ res.st = Trace[l].st
         /\ pc' = "choose" /\ src' = <<>> /\ lay' = PlainLayout /\ i' = 1 /\ old' = EmptyOld /\ new' = EmptyNew /\ pend' = {}
         /\ uses' = {} /\ todo' = {} /\ res' = [st |-> "run"] /\ picks' = <<>>
Finished == l > Len(Trace) /\ UNCHANGED tvars

TraceNext == TrSrc \/ TrPick \/ Silent \/ TrEnd \/ Finished
TraceSpec == TraceInit /\ [][TraceNext]_tvars

\* every invariant of the model is evaluated in every state of the replayed executions
TraceDeterministic == Done => res = Canon(src, lay)
TraceView == <<View, l>>
=============================================================================
