SPECIFICATION Spec
CONSTANTS
  Alphabet = {48, 49, 50, 97}
  MaxLen = 3
INVARIANTS Irreflexive Asymmetric Transitive Total NumericRuns
CHECK_DEADLOCK FALSE
