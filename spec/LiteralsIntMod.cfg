SPECIFICATION Spec
CONSTANTS
  TextWidths = {1, 5, 8}
  ModWidths = {1, 5, 8, 9, 16, 33, 65}
  MaxSame = 2
  CacheKey = "width+text"
  EmitFile = "stdout"
INVARIANTS AllDenote CacheSound Emit
CHECK_DEADLOCK FALSE
