SPECIFICATION Spec
CONSTANTS
  SmallWidths = {1, 2}
  HexWidths = {}
  BigWidths = {}
  Exps = {}
  PatWidth = 0
  HexA = {}
  HexB = {}
  BoolPanics = TRUE
  EmitFile = ""
INVARIANTS TypeOK DenoteExact PrintParse
CHECK_DEADLOCK FALSE
