------------------------------ MODULE TypesGep ------------------------------
(***************************************************************************)
(* C07: getelementptr result types.  Generator of                          *)
(*    source element type  x  base type  x  index list                     *)
(* with the result type LLVM requires (Types!GepResultType), and the       *)
(* design-level statements of the property about that function.           *)
(*                                                                         *)
(*    stage 0 -> 1   choose the source element type  el \in Elems          *)
(*    stage 1 -> 2   choose the base  ba \in Bases(el): pointer or fixed / *)
(*                   scalable vector of pointers to el, address space 0/1  *)
(*    stage 2 -> 3   choose a valid index list  ix \in Lists(el, ba):      *)
(*                   all lists of length <= 2 over every index form        *)
(*                   (FormsAll) and all lists of length 3 over Forms3      *)
(*                                                                         *)
(* Index forms (Types.tla, "GETELEMENTPTR"): integers of width 1, 8, 32,   *)
(* 64, 128 spelled in decimal, hexadecimal (u0x), with leading zeros and   *)
(* negative; foldable integer constant expressions (trunc, zext, add, sub  *)
(* of literals); zeroinitializer, undef, poison as scalar, fixed, scalable *)
(* vector; splat and non-splat constant vectors, constant vectors with an  *)
(* undef or constant-expression element; constant expressions              *)
(* (ptrtoint, add of ptrtoint, vector ptrtoint); instruction operands      *)
(* (scalar, fixed vector, scalable vector); inrange-wrapped integers.      *)
(* ssa indices exist only in the instruction, inrange only in the constant *)
(* expression: lists containing both are not generated.                    *)
(*                                                                         *)
(* Invariants (TypesGep.cfg): the required function has the shape the      *)
(* property states -- pointer or vector of pointers; address space of the  *)
(* base; vector iff the base or an index is a vector, with that length and *)
(* scalability; element reached by stepping.  TypesGepDeviation.cfg checks *)
(* ImplAgrees for the walker as implemented (no scalability in the index   *)
(* record, classifiers blind to the type of zeroinitializer / undef /      *)
(* poison / expression indices): TLC reports the counterexamples.          *)
(*                                                                         *)
(* Binding to the code: with Emit = TRUE every stage-3 state is written to *)
(* gep_cases.ndjson as {elem, base, idxs, want} (first line: the type      *)
(* definitions {defs}).  harness/props/c07                                 *)
(* renders each case as instruction, constant expression and alias, lets   *)
(* llvm-as confirm that the result can be used at type `want`, and         *)
(* compares six implementations of the library with `want`.                *)
(***************************************************************************)
EXTENDS Types, Json, IOUtils

CONSTANTS Emit,      \* TRUE = write the cases
          Tier       \* "quick" | "thorough": size of the enumerated sets

----------------------------------------------------------------------------
S == TNamed("s")   Q == TNamed("q")
UG == [s |-> Body(FALSE, <<I32, TArr(2, I8), TPtr(S, 0)>>),
       q |-> Body(TRUE,  <<I8, TVec(FALSE, 2, I32)>>)]

I16 == TInt(16)
ElemsQuick ==
  { I8,                                                     \* scalar: only the first index
    TArr(2, I32),
    TVec(FALSE, 2, I32),                                    \* indexing into a vector
    TStruct(TRUE, <<I8, I32>>),                             \* packed literal
    S,                                                      \* identified, recursive
    TStruct(FALSE, <<I32, TArr(2, TVec(FALSE, 2, I16))>>) } \* struct > array > vector
ElemsMore ==
  { TStruct(FALSE, <<I32, I8>>),
    TArr(2, TArr(2, I8)),
    TArr(2, TStruct(FALSE, <<I8, TStruct(TRUE, <<I16, I64>>)>>)),   \* array > struct > packed
    Q,                                                      \* identified, packed
    TStruct(FALSE, <<S, TArr(2, Q)>>) }                     \* struct > identified > ..
Elems == IF Tier = "quick" THEN ElemsQuick ELSE ElemsQuick \cup ElemsMore

\* closed under the simplification steps of the harness (vector -> pointer, address space 1 -> 0)
Bases(e) ==
  {TPtr(e, 0), TPtr(e, 1), TVec(FALSE, 2, TPtr(e, 0)), TVec(TRUE, 2, TPtr(e, 0)), TVec(TRUE, 2, TPtr(e, 1))}
  \cup (IF Tier = "quick" THEN {} ELSE {TVec(FALSE, 2, TPtr(e, 1))})

FormsAll ==
  { Idx("int", w, v, 0, FALSE) : w \in {32, 64}, v \in {0, 1} }
  \cup { Idx("int", 1, 0, 0, FALSE), Idx("int", 1, 1, 0, FALSE), Idx("int", 8, 0, 0, FALSE), Idx("int", 128, 1, 0, FALSE) }
  \cup { Idx("zeroinit", w, 0, n, FALSE) : w \in {32, 64}, n \in {0, 2} }
  \cup { Idx("zeroinit", 64, 0, 2, TRUE) }
  \cup { Idx("splat", w, 1, 2, FALSE) : w \in {32, 64} }
  \cup { Idx("splat", 32, 0, 2, FALSE) }
  \cup { Idx("nonsplat", 64, -1, 2, FALSE) }
     \* constant vectors with an undef / a constant-expression element
  \cup { Idx("elemundef", 64, -1, 2, FALSE), Idx("elemcexpr", 64, -1, 2, FALSE) }
  \cup { Idx(f, 64, -1, n, FALSE) : f \in {"undef", "poison"}, n \in {0, 2} }
  \cup { Idx(f, 64, -1, 2, TRUE) : f \in {"undef", "poison"} }
  \cup { Idx("cexpr", 64, -1, 0, FALSE), Idx("cexpr", 64, -1, 2, FALSE), Idx("cexpr2", 64, -1, 0, FALSE) }
  \cup { Idx("ssa", 64, -1, 0, FALSE), Idx("ssa", 32, -1, 0, FALSE), Idx("ssa", 64, -1, 2, FALSE), Idx("ssa", 64, -1, 2, TRUE) }
  \cup { InRange(Idx("int", 32, 1, 0, FALSE)), InRange(Idx("int", 64, 0, 0, FALSE)) }
     \* other spellings of integer literals: hexadecimal, leading zeros, negative (arrays only)
  \cup { Spelled(Idx("int", w, 1, 0, FALSE), sp) : w \in {32, 64}, sp \in {"hex", "lead0"} }
  \cup { Idx("int", 64, -1, 0, FALSE), Idx("int", 32, -1, 0, FALSE) }
  \cup { Spelled(Idx("splat", 32, 1, 2, FALSE), sp) : sp \in {"hex", "lead0"} }
     \* integer constant expressions LLVM folds while parsing: they carry a value and may select
     \* a struct field (i32) like a literal
  \cup { Spelled(Idx("cfold", 32, 1, 0, FALSE), sp) : sp \in {"trunc", "add", "sub"} }
  \cup { Spelled(Idx("cfold", 32, 0, 0, FALSE), "add"), Spelled(Idx("cfold", 64, 1, 0, FALSE), "zext") }

\* The forms of the lists of length 3: the plainest form of every category.  The set is the
\* same in both tiers and, like FormsAll and Bases, closed under the simplification steps
\* with which the harness minimises a failing case (drop an index, replace an index by
\* i64 0 / i32 0 / i32 1, vector base -> pointer, address space 1 -> 0), so that the minimal
\* failing shape of a case does not depend on the tier.
Forms3 ==
  { Idx("int", 64, 0, 0, FALSE), Idx("int", 32, 0, 0, FALSE), Idx("int", 32, 1, 0, FALSE),
    Idx("zeroinit", 64, 0, 2, FALSE), Idx("zeroinit", 32, 0, 2, FALSE), Idx("zeroinit", 64, 0, 2, TRUE),
    Idx("splat", 32, 1, 2, FALSE), Idx("undef", 64, -1, 2, FALSE),
    Idx("ssa", 64, -1, 0, FALSE), Idx("ssa", 64, -1, 2, FALSE), Idx("ssa", 64, -1, 2, TRUE) }

\* LLVM accepts inrange on at most one index of an expression (llvm-as: a second one is a syntax error)
Realisable(l) == /\ ~( (\E i \in 1..Len(l) : l[i].f = "ssa") /\ (\E i \in 1..Len(l) : l[i].ir) )
                 /\ Cardinality({i \in 1..Len(l) : l[i].ir}) <= 1
Lists(e, b) ==
  {l \in GepLists(UG, FormsAll, e, BaseShape(b), TRUE, 2)
        \cup {x \in GepLists(UG, Forms3, e, BaseShape(b), TRUE, 3) : Len(x) = 3}
     : Realisable(l)}

----------------------------------------------------------------------------
VARIABLES el, ba, ix, stage
vars == <<el, ba, ix, stage>>

Init == el = TVoid /\ ba = TVoid /\ ix = <<>> /\ stage = 0
Next == \/ stage = 0 /\ el' \in Elems /\ stage' = 1 /\ UNCHANGED <<ba, ix>>
        \/ stage = 1 /\ ba' \in Bases(el) /\ stage' = 2 /\ UNCHANGED <<el, ix>>
        \/ stage = 2 /\ ix' \in Lists(el, ba) /\ stage' = 3 /\ UNCHANGED <<el, ba>>
Spec == Init /\ [][Next]_vars

Res == GepResultType(UG, el, ba, ix)
ResPtr == IF Res.k = "vec" THEN Res.e ELSE Res
AnyVec == ba.k = "vec" \/ \E i \in 1..Len(ix) : ix[i].vec # 0
AnyScalable == (ba.k = "vec" /\ ba.sc) \/ \E i \in 1..Len(ix) : ix[i].vec # 0 /\ ix[i].sc

\* every generated list is valid, and the types involved are LLVM types
Valid          == stage = 3 => GepOK(UG, el, ba, ix) /\ WellFormed(UG, Res) /\ WellFormed(UG, ba)
PtrOrVecOfPtr  == stage = 3 => ResPtr.k = "ptr" /\ (Res.k = "vec" => VecElemOK(Res.e))
AddrSpaceKept  == stage = 3 => ResPtr.as = BasePtr(ba).as
VectorIffAny   == stage = 3 => (Res.k = "vec" <=> AnyVec)
ScalableIffAny == stage = 3 => ((Res.k = "vec" /\ Res.sc) <=> AnyScalable)
LengthAgrees   == stage = 3 /\ Res.k = "vec" =>
                    /\ ba.k = "vec" => Res.n = ba.n
                    /\ \A i \in 1..Len(ix) : ix[i].vec # 0 => Res.n = ix[i].vec
\* the first index does not change the type; every later index steps into the aggregate
Stepping       == stage = 3 =>
                    /\ Len(ix) <= 1 => ResPtr.e = el
                    /\ Len(ix) >= 2 =>
                         LET pre == GepResultType(UG, el, ba, SubSeq(ix, 1, Len(ix) - 1))
                             pe  == IF pre.k = "vec" THEN pre.e.e ELSE pre.e
                         IN ResPtr.e = Step(UG, pe, ix[Len(ix)])
\* deviation: the walker as implemented
ImplAgrees(seesType) == stage = 3 => GepResultTypeAsImplemented(UG, el, ba, ix, seesType) = Res
ImplAgreesBlind  == ImplAgrees(FALSE)     \* asm and ir instruction classifiers
ImplAgreesSeeing == ImplAgrees(TRUE)      \* constant-expression classifier (looks at the index type)

Out(rec) == Serialize(ToJson(rec) \o "\n", "gep_cases.ndjson",
                      [format |-> "TXT", charset |-> "UTF-8",
                       openOptions |-> <<"WRITE", "CREATE", "APPEND">>]).exitValue = 0
EmitOK == Emit =>
            /\ stage = 0 => Out([defs |-> UG])
            /\ stage = 3 => Out([elem |-> el, base |-> ba, idxs |-> ix, want |-> Res])
=============================================================================
