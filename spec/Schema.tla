------------------------------- MODULE Schema -------------------------------
(***************************************************************************)
(* LLVM-14 construct tables (DESIGN.md 4.2) -- pure data, transcribed from *)
(* the LLVM 14 Language Reference, not from the Go sources.                *)
(*                                                                         *)
(* Kinds      the 54 instruction and 12 terminator kinds.  Each entry:     *)
(*   kind     LangRef opcode name (conditional/unconditional br split);    *)
(*   cat      "inst" | "term";                                             *)
(*   res      "value" (always yields a value), "none" (never), "callret"   *)
(*            (value unless the callee returns void);                      *)
(*   tmpl     text template, filled by the generic Go renderer             *)
(*            (harness/props/schema/render.go); directives:                *)
(*              {res} {flags} {f:FLAG} {a:KEY|PRE|POST} {ty} {T} {fnty}    *)
(*              {TV:S} {V:S} {T:S} {L:S}  one slot (typed value / value /  *)
(*              type / label); {TV:S|PRE} optional slot with prefix;       *)
(*              {TV*:S|PRE} every occurrence with prefix; {TV+:S|SEP} and  *)
(*              {L+:S|SEP} joined; {args} {bundles} {incs} {cases}         *)
(*              {clauses} {idx} {retval} {unwind:S};                       *)
(*   groups   operand slot groups in textual order.  A group is repeated   *)
(*            min..max times ("one" 1..1, "opt" 0..1, "many" 0..2,         *)
(*            "many1" 1..2); its members are the slots of one repetition   *)
(*            (phi: value+predecessor, switch: case value+target).  The    *)
(*            group "bundles" is a list of operand bundles, each with its  *)
(*            own list of inputs.  A slot has a name (used by the harness  *)
(*            to address the operand: it is the path of the Go field),     *)
(*            a role, a type descriptor and the admissible source          *)
(*            ("any" SSA value or constant, "const", "block", "func",      *)
(*            "pad", "catchswitch", "catchpad", "cleanuppad");             *)
(*   flags    optional keywords (each may be present or absent);           *)
(*   variants alternatives of the enumerated attributes (predicate,        *)
(*            ordering, atomic operation, tail marker ...), a variant may  *)
(*            name the class it needs;                                     *)
(*   classes  admissible operand type classes (see Concrete);              *)
(*   succs    the slots that are successors, in successor order;           *)
(*   index paths (AggPaths, GepPaths): per class the paths of extractvalue /  *)
(*            insertvalue / getelementptr, lengths 1..3(4), through nested  *)
(*            literal, identified and packed structs and arrays;           *)
(*   rty      result-type rule; ctx: the context the instruction needs to  *)
(*            be valid LLVM (scaffold built by Build.tla).                 *)
(*   ArgSpace the enumerated constructor ARGUMENTS that are not operands,  *)
(*            as a declared dimension (family "args"): atomic orderings    *)
(*            (cmpxchg: every success x failure pair LLVM 14 accepts;      *)
(*            atomicrmw: operation x ordering; atomic load / store;        *)
(*            fence), synchronisation scopes, weak / volatile, explicit    *)
(*            alignment of load / store / cmpxchg / atomicrmw, every       *)
(*            subset of the fast-math flags, predicates per operand class, *)
(*            calling conventions, tail markers.  Law (C03): what was      *)
(*            constructed is what prints.                                  *)
(*   VClasses the value classes of an operand (family "opclass"): every    *)
(*            operand that admits any value is, in turn, a literal         *)
(*            constant (0 / 1, true / false, element list), null,          *)
(*            zeroinitializer, undef, poison, a global, a constant         *)
(*            expression, a blockaddress (field vc of the operand).  Laws: *)
(*            the result type depends on the operand's TYPE only (C03);    *)
(*            the successor list is independent of non-target operands     *)
(*            (C15).                                                       *)
(*   labelarg a basic block passed as a `label`-typed call argument or     *)
(*            operand-bundle input (source "blockval"): an operand, never  *)
(*            a successor (family "labelarg").                             *)
(* CExprs     the constant-expression kinds (same shape, cat "cexpr").     *)
(*                                                                         *)
(* The module also defines the operators that turn an entry plus a         *)
(* *configuration* (type class, repetition count of every group, operand   *)
(* bundle shape) into the expected operand slot list and successor list:   *)
(* OpsOf, SuccsOf, Configs.  Operands.tla, Build.tla and SchemaEnum.tla    *)
(* use them; the harness reads the tables as JSON (SchemaEnum.tla).        *)
(***************************************************************************)
EXTENDS Integers, Sequences, FiniteSets, TLC

----------------------------------------------------------------------------
(* Types *)
TyVoid  == [k |-> "void"]
TyLabel == [k |-> "label"]
TyToken == [k |-> "token"]
TyInt(w) == [k |-> "int", w |-> w]
TyFP(n)  == [k |-> "fp", fp |-> n]
TyPtrAS(e, a) == [k |-> "ptr", e |-> e, as |-> a]
TyPtr(e) == TyPtrAS(e, 0)
TyVec(n, e)  == [k |-> "vec", sc |-> FALSE, n |-> n, e |-> e]
TySVec(n, e) == [k |-> "vec", sc |-> TRUE, n |-> n, e |-> e]
TyArr(n, e)  == [k |-> "arr", n |-> n, e |-> e]
TyStruct(fs) == [k |-> "struct", fs |-> fs]
TyPStruct(fs) == [k |-> "struct", fs |-> fs, pk |-> TRUE]      \* packed struct <{ ... }>
TyNamed(nm, body) == [k |-> "named", nm |-> nm, body |-> body]
TyFunc(ret, ps, va) == [k |-> "func", ret |-> ret, ps |-> ps, va |-> va]

I1 == TyInt(1)   I8 == TyInt(8)   I16 == TyInt(16)   I32 == TyInt(32)   I64 == TyInt(64)
F32 == TyFP("float")   F64 == TyFP("double")
I8Ptr == TyPtr(I8)
LPTy == TyStruct(<<I8Ptr, I32>>)          \* landingpad / resume value
PairTy == TyStruct(<<I32, I8>>)
\* nested aggregates whose sub-objects have pairwise different types (index paths, C03)
Nest3Ty == TyStruct(<<I32, TyStruct(<<I8, I64>>), TyArr(2, TyStruct(<<I16, F32>>))>>)
PNestTy == TyPStruct(<<I8, TyStruct(<<I16, I32>>), F64>>)
OuterTy == TyNamed("outer", TyStruct(<<I64, TyNamed("pair", PairTy), TyArr(2, I8)>>))
ArrSTy  == TyArr(2, TyStruct(<<I32, I8>>))

\* operand type classes -> the concrete type used for the class
Concrete == [
  void |-> TyVoid,
  i1 |-> I1, i8 |-> I8, i16 |-> I16, i32 |-> I32, i64 |-> I64, i128 |-> TyInt(128),
  float |-> F32, double |-> F64,
  ptr |-> TyPtr(I32), ptr8 |-> I8Ptr, ptras1 |-> TyPtrAS(I32, 1),
  pnstruct |-> TyPtr(TyNamed("pair", PairTy)), pnstructas1 |-> TyPtrAS(TyNamed("pair", PairTy), 1),
  vec |-> TyVec(2, I32), vec8 |-> TyVec(2, I8), vec64 |-> TyVec(2, I64), vec4 |-> TyVec(4, I32),
  svec |-> TySVec(2, I32), svec64 |-> TySVec(2, I64),
  fvec |-> TyVec(2, F32), dvec |-> TyVec(2, F64), sfvec |-> TySVec(2, F32),
  pvec |-> TyVec(2, TyPtr(I32)),
  arr |-> TyArr(2, I32), struct |-> PairTy, nstruct |-> TyNamed("pair", PairTy),
  nested |-> TyStruct(<<I32, TyArr(2, I8)>>),
  nest3 |-> Nest3Ty, pnest |-> PNestTy, outer |-> OuterTy, arrs |-> ArrSTy,
  lp |-> LPTy, none |-> TyVoid ]

IsVec(t) == t.k = "vec"
BoolShape(t) == IF IsVec(t) THEN [t EXCEPT !.e = I1] ELSE I1
MaskShape(t) == [t EXCEPT !.e = I32]
Body(t) == IF t.k = "named" THEN t.body ELSE t
RECURSIVE PathTy(_, _)
PathTy(t, idx) == IF idx = <<>> THEN t
                  ELSE LET b == Body(t) IN
                       IF b.k = "struct" THEN PathTy(b.fs[Head(idx) + 1], Tail(idx))
                       ELSE PathTy(b.e, Tail(idx))

\* index paths of extractvalue / insertvalue per class (the first is the default): lengths 1..3, through
\* literal, identified and packed structs and arrays, with different indices per level
AggPaths == [
  struct |-> <<<<1>>, <<0>>>>, arr |-> <<<<1>>, <<0>>>>, nstruct |-> <<<<0>>, <<1>>>>,
  nested |-> <<<<1, 0>>, <<1, 1>>, <<0>>, <<1>>>>,
  nest3 |-> <<<<1, 0>>, <<1, 1>>, <<2, 1, 0>>, <<2, 0, 1>>, <<2, 1>>, <<0>>, <<1>>, <<2>>>>,
  pnest |-> <<<<1, 0>>, <<1, 1>>, <<2>>, <<0>>, <<1>>>>,
  outer |-> <<<<1, 0>>, <<1, 1>>, <<2, 1>>, <<0>>, <<2>>>>,
  arrs |-> <<<<0, 1>>, <<1, 0>>, <<1>>>> ]
\* index paths of getelementptr per class; the first index steps over the pointer
GepPaths == [
  arr |-> <<<<0, 1>>>>, struct |-> <<<<0, 1>>, <<0, 0>>>>, nstruct |-> <<<<0, 1>>>>, i32 |-> <<<<0>>>>,
  nest3 |-> <<<<0, 2, 1, 1>>, <<0, 1, 0>>, <<0, 1, 1>>, <<0, 2, 0, 0>>, <<0, 2>>>>,
  pnest |-> <<<<0, 1, 1>>, <<0, 2>>>>,
  outer |-> <<<<0, 1, 1>>, <<0, 2, 1>>, <<0, 1, 0>>>>,
  arrs |-> <<<<0, 1, 0>>, <<0, 0, 1>>>>,
  pvec |-> <<<<0>>>> ]

\* types of the i-th call argument, of the j-th bundle input, of the i-th landingpad clause
ArgTys    == <<I32, I8Ptr>>
BundleTys == <<I32, I64>>
ClauseTys == <<I8Ptr, TyArr(1, I8Ptr)>>       \* 1: catch, 2: filter

----------------------------------------------------------------------------
(* Entries *)
S(n, role, ty, src) == [n |-> n, role |-> role, ty |-> ty, src |-> src]
Grp(ar, mn, mx, mem) == [ar |-> ar, min |-> mn, max |-> mx, mem |-> mem]
One(s)    == Grp("one", 1, 1, <<s>>)
Opt(s)    == Grp("opt", 0, 1, <<s>>)
Many(s)   == Grp("many", 0, 2, <<s>>)
Many1(s)  == Grp("many1", 1, 2, <<s>>)
Pairs(s1, s2)  == Grp("many", 0, 2, <<s1, s2>>)
Pairs1(s1, s2) == Grp("many1", 1, 2, <<s1, s2>>)
Bundles   == Grp("bundles", 0, 2, <<S("OperandBundles.Inputs", "bundle", "bundle", "any")>>)

V(n, ty)  == One(S(n, "value", ty, "any"))
Lbl(n, role) == One(S(n, role, "label", "block"))

Entry(kind, cat, res, tmpl, groups, flags, classes, rty, ctx) ==
  [kind |-> kind, cat |-> cat, res |-> res, tmpl |-> tmpl, groups |-> groups, flags |-> flags,
   classes |-> classes, rty |-> rty, ctx |-> ctx, succs |-> <<>>, variants |-> <<>>,
   fcls |-> "", to |-> <<>>, cmax |-> <<>>]
With(e, o) == o @@ e          \* fields of o override those of e

FMF  == <<"nnan", "ninf", "nsz", "arcp", "contract", "afn", "reassoc", "fast">>
IntC == <<"i32", "i1", "i8", "i64", "vec", "svec", "i16", "vec8", "vec64", "svec64">>
FpC  == <<"float", "double", "fvec", "sfvec">>
VecC == <<"vec", "svec", "fvec", "sfvec", "pvec">>
AggC == <<"struct", "arr", "nstruct", "nested", "nest3", "pnest", "outer", "arrs">>
MemC == <<"i32", "i1", "i8", "i64", "float", "double", "ptr", "vec", "svec", "fvec", "pvec", "arr", "struct", "nstruct">>
AnyC == <<"i32", "i1", "i64", "float", "double", "ptr", "vec", "svec", "fvec", "pvec", "arr", "struct", "nstruct">>

Bin(kind, flags, classes) ==
  Entry(kind, "inst", "value", "{res}" \o kind \o "{flags} {TV:X}, {V:Y}",
        <<V("X", "T"), V("Y", "T")>>, flags, classes, "T", "plain")
RECURSIVE SetToSeq(_)
SetToSeq(s) == IF s = {} THEN <<>> ELSE LET x == CHOOSE y \in s : TRUE IN <<x>> \o SetToSeq(s \ {x})
\* the classes of a conversion are the keys of its target table, dflt first
Cast(kind, dflt, to) ==
  With(Entry(kind, "inst", "value", "{res}" \o kind \o " {TV:From} to {ty}",
             <<V("From", "T")>>, <<>>, <<dflt>> \o SetToSeq(DOMAIN to \ {dflt}), "to", "plain"), [to |-> to])

Orderings == <<"monotonic", "acquire", "release", "acq_rel", "seq_cst">>
IPreds == <<"eq", "ne", "ugt", "uge", "ult", "ule", "sgt", "sge", "slt", "sle">>
FPreds == <<"false", "oeq", "ogt", "oge", "olt", "ole", "one", "ord", "ueq", "ugt", "uge", "ult", "ule", "une", "uno", "true">>
RMWOps == <<"xchg", "add", "sub", "and", "nand", "or", "xor", "max", "min", "umax", "umin">>

Var(a) == [a |-> a, cls |-> ""]
VarC(a, c) == [a |-> a, cls |-> c]
SeqMap(f(_), s) == SubSeq([i \in 1..Len(s) |-> f(s[i])], 1, Len(s))

CallGroups(callee) == <<One(S(callee, "callee", "callee", "func")), Many(S("Args", "arg", "arg", "any")), Bundles>>

Kinds == <<
  \* --- unary, binary, bitwise -------------------------------------------------
  Entry("fneg", "inst", "value", "{res}fneg{flags} {TV:X}", <<V("X", "T")>>, FMF, FpC, "T", "plain"),
  Bin("add", <<"nuw", "nsw">>, IntC),  Bin("fadd", FMF, FpC),
  Bin("sub", <<"nuw", "nsw">>, IntC),  Bin("fsub", FMF, FpC),
  Bin("mul", <<"nuw", "nsw">>, IntC),  Bin("fmul", FMF, FpC),
  Bin("udiv", <<"exact">>, IntC),      Bin("sdiv", <<"exact">>, IntC),  Bin("fdiv", FMF, FpC),
  Bin("urem", <<>>, IntC),             Bin("srem", <<>>, IntC),         Bin("frem", FMF, FpC),
  Bin("shl", <<"nuw", "nsw">>, IntC),  Bin("lshr", <<"exact">>, IntC),  Bin("ashr", <<"exact">>, IntC),
  Bin("and", <<>>, IntC),              Bin("or", <<>>, IntC),           Bin("xor", <<>>, IntC),
  \* --- vector -----------------------------------------------------------------
  With(Entry("extractelement", "inst", "value", "{res}extractelement {TV:X}, {TV:Index}",
        <<V("X", "T"), V("Index", "idx")>>, <<>>, VecC, "elemT", "plain"),
       \* the index is of any integer width
       [variants |-> <<Var([idxty |-> "i32"]), Var([idxty |-> "i64"]), Var([idxty |-> "i8"]), Var([idxty |-> "i16"]),
                       VarC([idxty |-> "i64"], "svec"), VarC([idxty |-> "i8"], "pvec")>>]),
  With(Entry("insertelement", "inst", "value", "{res}insertelement {TV:X}, {TV:Elem}, {TV:Index}",
        <<V("X", "T"), V("Elem", "elemT"), V("Index", "idx")>>, <<>>, VecC, "T", "plain"),
       [variants |-> <<Var([idxty |-> "i64"]), Var([idxty |-> "i8"]), Var([idxty |-> "i16"]),
                       VarC([idxty |-> "i64"], "sfvec"), VarC([idxty |-> "i16"], "fvec")>>]),
  \* the mask may be longer or shorter than the operands (the result has the mask's length) and may be
  \* undef / poison / zeroinitializer
  With(Entry("shufflevector", "inst", "value", "{res}shufflevector {TV:X}, {TV:Y}, {TV:Mask}",
        <<V("X", "T"), V("Y", "T"), One(S("Mask", "value", "mask", "const"))>>, <<>>, VecC, "shufT", "plain"),
       [variants |-> <<Var([masklen |-> "4"]), Var([masklen |-> "1"]), Var([maskform |-> "undef"]), Var([maskform |-> "poison"]),
                       Var([maskform |-> "zero"]), Var([masklen |-> "4", maskform |-> "zero"]),
                       VarC([masklen |-> "4"], "fvec"), VarC([masklen |-> "1"], "pvec"),
                       VarC([masklen |-> "4", maskform |-> "zero"], "svec"), VarC([masklen |-> "1", maskform |-> "undef"], "sfvec")>>]),
  \* --- aggregate --------------------------------------------------------------
  Entry("extractvalue", "inst", "value", "{res}extractvalue {TV:X}{idx}",
        <<V("X", "T")>>, <<>>, AggC, "pathT", "plain"),
  Entry("insertvalue", "inst", "value", "{res}insertvalue {TV:X}, {TV:Elem}{idx}",
        <<V("X", "T"), V("Elem", "pathT")>>, <<>>, AggC, "T", "plain"),
  \* --- memory -----------------------------------------------------------------
  With(Entry("alloca", "inst", "value",
        "{res}alloca{f:inalloca} {ty}{TV:NElems|, }{a:align|, align }{a:addrspace|, addrspace(|)}",
        <<Opt(S("NElems", "value", "cnt", "any"))>>, <<"inalloca">>, MemC, "allocaT", "plain"),
       \* the element count is of any integer width
       [variants |-> <<Var([align |-> "8"]), Var([addrspace |-> "1"]), Var([align |-> "16", addrspace |-> "1"]),
                       Var([cntty |-> "i64"]), Var([cntty |-> "i8"]), Var([cntty |-> "i16"]), VarC([cntty |-> "i64"], "struct")>>]),
  With(Entry("load", "inst", "value",
        "{res}load{f:atomic}{f:volatile} {ty}, {TV:Src}{a:syncscope| syncscope(\"|\")}{a:ordering| }{a:align|, align }",
        <<V("Src", "ptrT")>>, <<"volatile">>, MemC, "T", "plain"),
       [variants |-> <<Var([align |-> "4"]),
                       Var([atomic |-> "1", ordering |-> "seq_cst", align |-> "4"]),
                       Var([atomic |-> "1", ordering |-> "acquire", align |-> "4", syncscope |-> "singlethread"]),
                       Var([atomic |-> "1", ordering |-> "monotonic", align |-> "4"]),
                       Var([atomic |-> "1", ordering |-> "unordered", align |-> "4"])>>]),
  With(Entry("store", "inst", "none",
        "store{f:atomic}{f:volatile} {TV:Src}, {TV:Dst}{a:syncscope| syncscope(\"|\")}{a:ordering| }{a:align|, align }",
        <<V("Src", "T"), V("Dst", "ptrT")>>, <<"volatile">>, MemC, "none", "plain"),
       [variants |-> <<Var([align |-> "4"]),
                       Var([atomic |-> "1", ordering |-> "seq_cst", align |-> "4"]),
                       Var([atomic |-> "1", ordering |-> "release", align |-> "4", syncscope |-> "singlethread"])>>]),
  With(Entry("fence", "inst", "none", "fence{a:syncscope| syncscope(\"|\")} {a:ordering}",
        <<>>, <<>>, <<"none">>, "none", "plain"),
       [variants |-> <<Var([ordering |-> "seq_cst"]), Var([ordering |-> "acquire"]), Var([ordering |-> "release"]),
                       Var([ordering |-> "acq_rel"]), Var([ordering |-> "seq_cst", syncscope |-> "singlethread"])>>]),
  With(Entry("cmpxchg", "inst", "value",
        "{res}cmpxchg{f:weak}{f:volatile} {TV:Ptr}, {TV:Cmp}, {TV:New}{a:syncscope| syncscope(\"|\")} {a:ordering} {a:ordering2}{a:align|, align }",
        <<V("Ptr", "ptrT"), V("Cmp", "T"), V("New", "T")>>, <<"weak", "volatile">>, <<"i32", "i8", "i64", "ptr">>, "cmpxchgT", "plain"),
       [variants |-> <<Var([ordering |-> "seq_cst", ordering2 |-> "seq_cst"]),
                       Var([ordering |-> "acq_rel", ordering2 |-> "monotonic"]),
                       Var([ordering |-> "release", ordering2 |-> "acquire"]),
                       Var([ordering |-> "monotonic", ordering2 |-> "monotonic", syncscope |-> "singlethread"])>>]),
  With(Entry("atomicrmw", "inst", "value",
        "{res}atomicrmw{f:volatile} {a:op} {TV:Dst}, {TV:X}{a:syncscope| syncscope(\"|\")} {a:ordering}{a:align|, align }",
        <<V("Dst", "ptrT"), V("X", "T")>>, <<"volatile">>, <<"i32", "i8", "i64">>, "T", "plain"),
       [variants |-> SeqMap(LAMBDA o : Var([op |-> o, ordering |-> "seq_cst"]), RMWOps)
                     \o <<VarC([op |-> "fadd", ordering |-> "monotonic"], "float"),
                          VarC([op |-> "fsub", ordering |-> "acq_rel"], "double"),
                          VarC([op |-> "xchg", ordering |-> "release", syncscope |-> "singlethread"], "float")>>]),
  With(Entry("getelementptr", "inst", "value", "{res}getelementptr{f:inbounds} {ty}, {TV:Src}{TV*:Indices|, }",
        <<V("Src", "gepsrc"), Many(S("Indices", "index", "gepidx", "any"))>>, <<"inbounds">>,
        <<"arr", "struct", "nstruct", "i32", "pvec", "nest3", "pnest", "outer", "arrs">>, "gepT", "plain"),
       [cmax |-> [i32 |-> 1, pvec |-> 1, nest3 |-> 4, pnest |-> 3, outer |-> 3, arrs |-> 3],
        \* indices of any integer width; a vector index on a scalar base and a scalar index on a vector base
        variants |-> <<Var([gepidxty |-> "i32"]), Var([gepidxty |-> "i8"]), Var([gepidxty |-> "i16"]),
                       VarC([gepidxty |-> "i16"], "nest3"), VarC([gepvecidx |-> "1"], "i32"), VarC([gepscalaridx |-> "1"], "pvec"),
                       VarC([gepscalaridx |-> "1", gepidxty |-> "i32"], "pvec")>>]),
  \* --- conversion -------------------------------------------------------------
  Cast("trunc", "i32",    [i32 |-> I8, i64 |-> I32, i8 |-> I1, vec |-> TyVec(2, I8), svec |-> TySVec(2, I8)]),
  Cast("zext", "i8",     [i8 |-> I32, i1 |-> I32, i32 |-> I64, vec |-> TyVec(2, I64), svec |-> TySVec(2, I64)]),
  Cast("sext", "i8",     [i8 |-> I32, i1 |-> I32, i32 |-> I64, vec |-> TyVec(2, I64), svec |-> TySVec(2, I64)]),
  Cast("fptrunc", "double",  [double |-> F32, dvec |-> TyVec(2, F32)]),
  Cast("fpext", "float",    [float |-> F64, fvec |-> TyVec(2, F64), sfvec |-> TySVec(2, F64)]),
  Cast("fptoui", "float",   [float |-> I32, double |-> I64, fvec |-> TyVec(2, I32), sfvec |-> TySVec(2, I32)]),
  Cast("fptosi", "float",   [float |-> I32, double |-> I8, fvec |-> TyVec(2, I32), sfvec |-> TySVec(2, I32)]),
  Cast("uitofp", "i32",   [i32 |-> F32, i64 |-> F64, i1 |-> F32, vec |-> TyVec(2, F32), svec |-> TySVec(2, F32)]),
  Cast("sitofp", "i32",   [i32 |-> F32, i8 |-> F64, vec |-> TyVec(2, F64), svec |-> TySVec(2, F32)]),
  Cast("ptrtoint", "ptr", [ptr |-> I64, ptr8 |-> I32, pvec |-> TyVec(2, I64), ptras1 |-> I64, pnstruct |-> I64, pnstructas1 |-> I32]),
  Cast("inttoptr", "i64", [i64 |-> TyPtr(I32), i32 |-> I8Ptr, vec64 |-> TyVec(2, TyPtr(I32)), i8 |-> TyPtrAS(I32, 1),
                           i16 |-> TyPtrAS(TyNamed("pair", PairTy), 1)]),
  Cast("bitcast", "i32",  [i32 |-> F32, ptr |-> I8Ptr, vec |-> I64, double |-> TyVec(2, I32), fvec |-> TyVec(2, I32),
                    pvec |-> TyVec(2, I8Ptr), svec |-> TySVec(2, F32), ptras1 |-> TyPtrAS(I8, 1),
                    pnstruct |-> I8Ptr, pnstructas1 |-> TyPtrAS(PairTy, 1), ptr8 |-> TyPtr(TyNamed("pair", PairTy))]),
  Cast("addrspacecast", "ptr", [ptr |-> TyPtrAS(I32, 1), ptras1 |-> TyPtr(I32), pvec |-> TyVec(2, TyPtrAS(I32, 1)),
                                pnstruct |-> TyPtrAS(TyNamed("pair", PairTy), 1), pnstructas1 |-> TyPtr(TyNamed("pair", PairTy))]),
  \* --- other ------------------------------------------------------------------
  With(Entry("icmp", "inst", "value", "{res}icmp {a:pred} {TV:X}, {V:Y}", <<V("X", "T"), V("Y", "T")>>, <<>>,
        <<"i32", "i1", "i8", "i64", "ptr", "vec", "svec", "pvec">>, "bool", "plain"),
       [variants |-> SeqMap(LAMBDA p : Var([pred |-> p]), IPreds)]),
  With(Entry("fcmp", "inst", "value", "{res}fcmp{flags} {a:pred} {TV:X}, {V:Y}", <<V("X", "T"), V("Y", "T")>>, FMF,
        FpC, "bool", "plain"),
       [variants |-> SeqMap(LAMBDA p : Var([pred |-> p]), FPreds)]),
  With(Entry("phi", "inst", "value", "{res}phi{flags} {ty} {incs}",
        <<Pairs1(S("Incs.X", "incoming value", "T", "any"), S("Incs.Pred", "incoming pred", "label", "block"))>>,
        FMF, AnyC, "T", "phi"), [fcls |-> "float"]),
  With(Entry("select", "inst", "value", "{res}select{flags} {TV:Cond}, {TV:ValueTrue}, {TV:ValueFalse}",
        <<V("Cond", "bool"), V("ValueTrue", "T"), V("ValueFalse", "T")>>, FMF, AnyC, "T", "plain"),
       \* a scalar i1 condition also selects between whole vectors
       [fcls |-> "float",
        variants |-> <<VarC([scalarcond |-> "1"], "vec"), VarC([scalarcond |-> "1"], "svec"), VarC([scalarcond |-> "1"], "fvec"),
                       VarC([scalarcond |-> "1"], "pvec"), VarC([scalarcond |-> "1"], "vec64")>>]),
  Entry("freeze", "inst", "value", "{res}freeze {TV:X}", <<V("X", "T")>>, <<>>, AnyC, "T", "plain"),
  With(Entry("call", "inst", "callret",
        "{res}{a:tail|| }call{flags}{a:cc| }{a:retattr| }{a:ptras| addrspace(|)} {fnty} {V:Callee}({args}){a:fnattr| }{bundles}",
        CallGroups("Callee"), FMF, <<"void", "i32", "float", "ptr", "vec", "struct">>, "T", "plain"),
       [fcls |-> "float",
        variants |-> <<Var([tail |-> "tail"]), Var([tail |-> "notail"]), Var([cc |-> "fastcc"]), Var([cc |-> "coldcc"]),
                       VarC([retattr |-> "zeroext"], "i32"), Var([fnattr |-> "nounwind"]), Var([variadic |-> "1"]),
                       \* variadic callee with one fixed parameter: the second argument is a variable argument
                       Var([variadic |-> "1", fixedargs |-> "1"]), VarC([variadic |-> "1", fixedargs |-> "0"], "i32"),
                       VarC([argattr |-> "signext"], "i32")>>]),
  Entry("va_arg", "inst", "value", "{res}va_arg {TV:ArgList}, {ty}", <<V("ArgList", "i8**")>>, <<>>,
        <<"i32", "double", "ptr", "i64">>, "T", "plain"),
  Entry("landingpad", "inst", "value", "{res}landingpad {ty}{f:cleanup}{clauses}",
        <<Many(S("Clauses.X", "clause", "clause", "const"))>>, <<"cleanup">>, <<"lp">>, "T", "landingpad"),
  Entry("catchpad", "inst", "value", "{res}catchpad within {V:CatchSwitch} [{TV+:Args|, }]",
        <<One(S("CatchSwitch", "pad", "token", "catchswitch")), Many(S("Args", "arg", "arg", "any"))>>, <<>>,
        <<"none">>, "token", "catchpad"),
  Entry("cleanuppad", "inst", "value", "{res}cleanuppad within {V:ParentPad} [{TV+:Args|, }]",
        <<One(S("ParentPad", "pad", "token", "pad")), Many(S("Args", "arg", "arg", "any"))>>, <<>>,
        <<"none">>, "token", "cleanuppad"),
  \* --- terminators ------------------------------------------------------------
  Entry("ret", "term", "none", "ret {retval}", <<Opt(S("X", "value", "T", "any"))>>, <<>>,
        <<"i32", "float", "ptr", "vec", "svec", "struct", "arr", "i1">>, "none", "ret"),
  With(Entry("br", "term", "none", "br {L:Target}", <<Lbl("Target", "label")>>, <<>>, <<"none">>, "none", "labels"),
       [succs |-> <<"Target">>]),
  With(Entry("condbr", "term", "none", "br {TV:Cond}, {L:TargetTrue}, {L:TargetFalse}",
        <<V("Cond", "i1"), Lbl("TargetTrue", "label"), Lbl("TargetFalse", "label")>>, <<>>, <<"none">>, "none", "labels"),
       [succs |-> <<"TargetTrue", "TargetFalse">>]),
  With(Entry("switch", "term", "none", "switch {TV:X}, {L:TargetDefault} [{cases} ]",
        <<V("X", "T"), Lbl("TargetDefault", "label"),
          Pairs(S("Cases.X", "case value", "T", "const"), S("Cases.Target", "case target", "label", "block"))>>,
        <<>>, <<"i32", "i8", "i64", "i1", "i16", "i128">>, "none", "labels"),
       [succs |-> <<"TargetDefault", "Cases.Target">>]),
  With(Entry("indirectbr", "term", "none", "indirectbr {TV:Addr}, [{L+:ValidTargets|, }]",
        <<V("Addr", "i8*"), Many(S("ValidTargets", "indirect dest", "label", "block"))>>, <<>>, <<"none">>, "none", "indirectbr"),
       [succs |-> <<"ValidTargets">>]),
  With(Entry("invoke", "term", "callret",
        "{res}invoke{a:cc| }{a:retattr| }{a:ptras| addrspace(|)} {fnty} {V:Invokee}({args}){a:fnattr| }{bundles} to {L:NormalRetTarget} unwind {L:ExceptionRetTarget}",
        CallGroups("Invokee") \o <<Lbl("NormalRetTarget", "label"), Lbl("ExceptionRetTarget", "unwind target")>>,
        <<>>, <<"void", "i32", "ptr", "struct">>, "T", "invoke"),
       [succs |-> <<"NormalRetTarget", "ExceptionRetTarget">>,
        variants |-> <<Var([cc |-> "fastcc"]), VarC([retattr |-> "zeroext"], "i32"), Var([fnattr |-> "nounwind"]), Var([variadic |-> "1"])>>]),
  With(Entry("callbr", "term", "callret",
        "{res}callbr{a:cc| }{a:retattr| } {fnty} {V:Callee}({args}){a:fnattr| }{bundles} to {L:NormalRetTarget} [{L+:OtherRetTargets|, }]",
        CallGroups("Callee") \o <<Lbl("NormalRetTarget", "label"), Many(S("OtherRetTargets", "indirect dest", "label", "block"))>>,
        <<>>, <<"void", "i32">>, "T", "callbr"),
       [succs |-> <<"NormalRetTarget", "OtherRetTargets">>]),
  Entry("resume", "term", "none", "resume {TV:X}", <<V("X", "T")>>, <<>>, <<"lp">>, "none", "resume"),
  With(Entry("catchswitch", "term", "value",
        "{res}catchswitch within {V:ParentPad} [{L+:Handlers|, }] unwind {unwind:DefaultUnwindTarget}",
        <<One(S("ParentPad", "pad", "token", "pad")), Many1(S("Handlers", "handler", "label", "block")),
          Opt(S("DefaultUnwindTarget", "unwind target", "label", "block"))>>, <<>>, <<"none">>, "token", "catchswitch"),
       [succs |-> <<"Handlers", "DefaultUnwindTarget">>]),
  With(Entry("catchret", "term", "none", "catchret from {V:CatchPad} to {L:Target}",
        <<One(S("CatchPad", "pad", "token", "catchpad")), Lbl("Target", "label")>>, <<>>, <<"none">>, "none", "catchret"),
       [succs |-> <<"Target">>]),
  With(Entry("cleanupret", "term", "none", "cleanupret from {V:CleanupPad} unwind {unwind:UnwindTarget}",
        <<One(S("CleanupPad", "pad", "token", "cleanuppad")), Opt(S("UnwindTarget", "unwind target", "label", "block"))>>,
        <<>>, <<"none">>, "none", "cleanupret"),
       [succs |-> <<"UnwindTarget">>]),
  Entry("unreachable", "term", "none", "unreachable", <<>>, <<>>, <<"none">>, "none", "plain")
>>

NKinds == Len(Kinds)
KindIdx(kind) == CHOOSE i \in 1..NKinds : Kinds[i].kind = kind
KindOf(kind) == Kinds[KindIdx(kind)]

----------------------------------------------------------------------------
(* Constant expressions (LLVM 14 still has all of these) *)
CC(n, ty) == One(S(n, "value", ty, "const"))
CBin(kind, flags, classes) ==
  Entry(kind, "cexpr", "value", kind \o "{flags} ({TV:X}, {TV:Y})", <<CC("X", "T"), CC("Y", "T")>>, flags, classes, "T", "const")
CCast(kind, dflt, to) ==
  With(Entry(kind, "cexpr", "value", kind \o " ({TV:From} to {ty})", <<CC("From", "T")>>, <<>>,
             <<dflt>> \o SetToSeq(DOMAIN to \ {dflt}), "to", "const"), [to |-> to])
CIntC == <<"i32", "i8", "i64", "vec">>

CExprs == <<
  Entry("fneg", "cexpr", "value", "fneg ({TV:X})", <<CC("X", "T")>>, <<>>, <<"float", "double", "fvec">>, "T", "const"),
  CBin("add", <<"nuw", "nsw">>, CIntC), CBin("sub", <<"nuw", "nsw">>, CIntC), CBin("mul", <<"nuw", "nsw">>, CIntC),
  CBin("shl", <<"nuw", "nsw">>, CIntC), CBin("lshr", <<"exact">>, CIntC), CBin("ashr", <<"exact">>, CIntC),
  CBin("and", <<>>, CIntC), CBin("or", <<>>, CIntC), CBin("xor", <<>>, CIntC),
  Entry("extractelement", "cexpr", "value", "extractelement ({TV:X}, {TV:Index})", <<CC("X", "T"), CC("Index", "idx")>>, <<>>,
        <<"vec", "fvec">>, "elemT", "const"),
  Entry("insertelement", "cexpr", "value", "insertelement ({TV:X}, {TV:Elem}, {TV:Index})",
        <<CC("X", "T"), CC("Elem", "elemT"), CC("Index", "idx")>>, <<>>, <<"vec", "fvec">>, "T", "const"),
  Entry("shufflevector", "cexpr", "value", "shufflevector ({TV:X}, {TV:Y}, {TV:Mask})",
        <<CC("X", "T"), CC("Y", "T"), CC("Mask", "mask")>>, <<>>, <<"vec", "fvec">>, "T", "const"),
  With(Entry("getelementptr", "cexpr", "value", "getelementptr{f:inbounds} ({ty}, {TV:Src}{TV*:Indices|, })",
        <<CC("Src", "gepsrc"), Many(S("Indices", "index", "gepidx", "const"))>>, <<"inbounds">>,
        <<"arr", "struct", "nstruct", "i32", "nest3", "outer", "arrs">>, "gepT", "const"),
       [cmax |-> [i32 |-> 1, nest3 |-> 4, outer |-> 3, arrs |-> 3],
        \* a vector index on a scalar base: a vector of pointers
        variants |-> <<VarC([gepvecidx |-> "1"], "i32")>>]),
  CCast("trunc", "i32", [i32 |-> I8, i64 |-> I32]), CCast("zext", "i8", [i8 |-> I32, i32 |-> I64]), CCast("sext", "i8", [i8 |-> I32, i32 |-> I64]),
  CCast("fptrunc", "double", [double |-> F32]), CCast("fpext", "float", [float |-> F64]),
  CCast("fptoui", "float", [float |-> I32]), CCast("fptosi", "double", [double |-> I64]),
  CCast("uitofp", "i32", [i32 |-> F32]), CCast("sitofp", "i64", [i64 |-> F64]),
  CCast("ptrtoint", "ptr", [ptr |-> I64]), CCast("inttoptr", "i64", [i64 |-> TyPtr(I32)]),
  CCast("bitcast", "ptr", [ptr |-> I8Ptr, i32 |-> F32]), CCast("addrspacecast", "ptr", [ptr |-> TyPtrAS(I32, 1)]),
  With(Entry("icmp", "cexpr", "value", "icmp {a:pred} ({TV:X}, {TV:Y})", <<CC("X", "T"), CC("Y", "T")>>, <<>>,
        <<"i32", "i64", "ptr", "vec">>, "bool", "const"),
       [variants |-> SeqMap(LAMBDA p : Var([pred |-> p]), IPreds)]),
  With(Entry("fcmp", "cexpr", "value", "fcmp {a:pred} ({TV:X}, {TV:Y})", <<CC("X", "T"), CC("Y", "T")>>, <<>>,
        <<"float", "double">>, "bool", "const"),
       [variants |-> SeqMap(LAMBDA p : Var([pred |-> p]), FPreds)]),
  Entry("select", "cexpr", "value", "select ({TV:Cond}, {TV:X}, {TV:Y})", <<CC("Cond", "bool"), CC("X", "T"), CC("Y", "T")>>, <<>>,
        <<"i32", "float", "ptr", "vec">>, "T", "const")
>>
NCExprs == Len(CExprs)

----------------------------------------------------------------------------
(* Configurations: how often each group is repeated, and the bundle shape *)
Has(rec, key) == key \in DOMAIN rec
MaxOf(e, g, cls) == IF g.ar \in {"many", "many1"} /\ Has(e.cmax, cls) THEN e.cmax[cls] ELSE g.max

\* all operand-bundle shapes: up to two bundles with 0..2 inputs each
BundleShapes == {<<>>} \cup {<<a>> : a \in 0..2} \cup {<<a, b>> : a \in 0..2, b \in 0..2}

RECURSIVE CountSeqs(_, _, _)
CountSeqs(e, cls, i) ==      \* all sequences of per-group counts for groups i..n
  IF i > Len(e.groups) THEN {<<>>}
  ELSE LET g == e.groups[i]
           r == IF g.ar = "bundles" THEN {0} ELSE g.min..MaxOf(e, g, cls)
       IN {<<c>> \o rest : c \in r, rest \in CountSeqs(e, cls, i + 1)}
HasBundles(e) == \E i \in 1..Len(e.groups) : e.groups[i].ar = "bundles"
Configs(e, cls) ==
  {[cnt |-> c, bund |-> b] : c \in CountSeqs(e, cls, 1), b \in IF HasBundles(e) THEN BundleShapes ELSE {<<>>}}
\* the configuration used when another dimension is varied: everything present once, lists of length 2
\* (functions over 1..n are turned into tuples at once: TLC normalises them lazily otherwise, which races
\*  with several workers writing the state queue)
AsTuple(f) == SubSeq(f, 1, Len(f))
DefaultCfg(e, cls) ==
  [cnt |-> AsTuple([i \in 1..Len(e.groups) |-> IF e.groups[i].ar = "bundles" THEN 0 ELSE MaxOf(e, e.groups[i], cls)]),
   bund |-> <<>>]

----------------------------------------------------------------------------
(* Types of operand slots *)
\* the mask of a shufflevector: i32 elements, scalability of the operands, any length
MaskTy(T, attrs) == [MaskShape(T) EXCEPT !.n = IF Has(attrs, "masklen") THEN (IF attrs.masklen = "4" THEN 4 ELSE 1) ELSE T.n]
LitTy == [i1 |-> I1, i8 |-> I8, i16 |-> I16, i32 |-> I32, i64 |-> I64, label |-> TyLabel, token |-> TyToken,
          lp |-> LPTy]
RetOf(cls) == Concrete[cls]
\* attribute labelarg: the first call argument is a basic block (`label` is a first-class type: LLVM 14
\* accepts  declare void @g(label)  and  invoke void @g(label %bb) ...  for a block of the same function)
IsLabelArg(attrs, i) == Has(attrs, "labelarg") /\ i = 1
ArgTy(attrs, i) == IF IsLabelArg(attrs, i) THEN TyLabel ELSE ArgTys[i]
CalleeTy(cls, nargs, va, attrs) == TyPtr(TyFunc(RetOf(cls), AsTuple([i \in 1..nargs |-> ArgTy(attrs, i)]), va))
\* number of fixed parameters of the callee: all arguments, unless the attribute fixedargs says fewer
FixedArgs(attrs, nargs) == IF Has(attrs, "fixedargs") THEN (IF attrs.fixedargs = "0" THEN 0 ELSE 1) ELSE nargs

\* index paths: the kinds that have one, the paths of a class, the default
HasPath(e) == e.kind \in {"extractvalue", "insertvalue", "getelementptr"}
PathsOf(e, cls) == IF e.kind = "getelementptr" THEN GepPaths[cls]
                   ELSE IF e.kind \in {"extractvalue", "insertvalue"} THEN AggPaths[cls] ELSE <<>>
DefPath(e, cls) == IF HasPath(e) THEN PathsOf(e, cls)[1] ELSE <<>>

\* address space of the pointer operands: the attribute ptras puts them into address space 1
ASOf(attrs) == IF Has(attrs, "ptras") THEN 1 ELSE 0
GepSrcTy(cls, as) == IF cls = "pvec" THEN Concrete.pvec ELSE TyPtrAS(Concrete[cls], as)
GepElemTy(cls) == IF cls = "pvec" THEN I32 ELSE Concrete[cls]
\* the aggregate the i-th index (i >= 2) of a getelementptr steps into
GepLevel(cls, path, i) == PathTy(Concrete[cls], SubSeq(path, 2, i - 1))
GepIsField(cls, path, i) == cls # "pvec" /\ i >= 2 /\ i <= Len(path) /\ Body(GepLevel(cls, path, i)).k = "struct"
GepIdxTy(cls, path, i, attrs) ==
  IF GepIsField(cls, path, i) THEN I32
  ELSE IF Has(attrs, "gepvecidx") \/ (cls = "pvec" /\ ~Has(attrs, "gepscalaridx")) THEN TyVec(2, I64)
  ELSE IF Has(attrs, "gepidxty") THEN LitTy[attrs.gepidxty] ELSE I64
GepResTy(cls, path, n, as) ==
  IF cls = "pvec" THEN Concrete.pvec
  ELSE IF n = 0 THEN TyPtrAS(Concrete[cls], as) ELSE TyPtrAS(PathTy(Concrete[cls], SubSeq(path, 2, n)), as)

SlotTy(e, cls, s, i, attrs, nargs, path) ==
  LET T == Concrete[cls] d == s.ty IN
  CASE d = "T" -> T
    [] d = "bool" -> IF Has(attrs, "scalarcond") THEN I1 ELSE BoolShape(T)
    [] d = "ptrT" -> TyPtrAS(T, ASOf(attrs))
    [] d = "elemT" -> T.e
    [] d = "mask" -> MaskTy(T, attrs)
    [] d = "idx" -> IF Has(attrs, "idxty") THEN LitTy[attrs.idxty] ELSE I32
    [] d = "cnt" -> IF Has(attrs, "cntty") THEN LitTy[attrs.cntty] ELSE I32
    [] d = "pathT" -> PathTy(T, path)
    [] d = "gepsrc" -> GepSrcTy(cls, ASOf(attrs))
    [] d = "gepidx" -> GepIdxTy(cls, path, i, attrs)
    [] d = "arg" -> ArgTy(attrs, i)
    [] d = "clause" -> ClauseTys[i]
    [] d = "callee" -> IF Has(attrs, "calleeptr")      \* a call through a pointer value, possibly in address space 1
                       THEN [CalleeTy(cls, FixedArgs(attrs, nargs), Has(attrs, "variadic"), attrs) EXCEPT !.as = ASOf(attrs)]
                       ELSE CalleeTy(cls, FixedArgs(attrs, nargs), Has(attrs, "variadic"), attrs)
    [] d = "i8*" -> I8Ptr
    [] d = "i8**" -> TyPtr(I8Ptr)
    [] OTHER -> LitTy[d]

\* the extra type operand ({ty}): cast target, alloca / load / getelementptr element type, ...
ExtraTy(e, cls) ==
  CASE Has(e.to, cls) -> e.to[cls]
    [] e.kind = "getelementptr" -> GepElemTy(cls)
    [] e.kind \in {"alloca", "load", "va_arg", "landingpad", "phi"} -> Concrete[cls]
    [] OTHER -> TyVoid

ArgCount(e, cfg) ==
  LET is == {i \in 1..Len(e.groups) : e.groups[i].mem[1].role = "arg"} IN
  IF is = {} THEN 0 ELSE cfg.cnt[CHOOSE i \in is : TRUE]

\* result type of the instruction in configuration cfg ("none": no result)
ResTy(e, cls, cfg, attrs, path) ==
  LET T == Concrete[cls] r == e.rty IN
  CASE r = "T" -> T
    [] r = "shufT" -> [MaskTy(T, attrs) EXCEPT !.e = T.e]
    [] r = "bool" -> BoolShape(T)
    [] r = "elemT" -> T.e
    [] r = "to" -> IF Has(e.to, cls) THEN e.to[cls] ELSE TyVoid
    [] r = "pathT" -> PathTy(T, path)
    [] r = "allocaT" -> TyPtrAS(T, IF Has(attrs, "addrspace") THEN 1 ELSE 0)
    [] r = "cmpxchgT" -> TyStruct(<<T, I1>>)
    [] r = "gepT" -> IF Has(attrs, "gepvecidx") /\ cfg.cnt[2] > 0      \* a vector index makes a vector of pointers
                     THEN TyVec(2, GepResTy(cls, path, cfg.cnt[2], ASOf(attrs)))
                     ELSE GepResTy(cls, path, cfg.cnt[2], ASOf(attrs))
    [] r = "token" -> TyToken
    [] OTHER -> TyVoid

----------------------------------------------------------------------------
(* Expected operand list and successor list of a configuration *)
RECURSIVE FlatSeq(_)
FlatSeq(ss) == IF ss = <<>> THEN <<>> ELSE Head(ss) \o FlatSeq(Tail(ss))

\* cv: the value a constant operand must have (a struct field number of a getelementptr), else -1
GroupOps(e, cls, g, c, attrs, nargs, path) ==
  FlatSeq([i \in 1..c |->
    [m \in 1..Len(g.mem) |->
      LET field == g.mem[m].ty = "gepidx" /\ GepIsField(cls, path, i) IN
      [slot |-> g.mem[m].n, i |-> i, j |-> 0, role |-> g.mem[m].role,
       ty |-> SlotTy(e, cls, g.mem[m], i, attrs, nargs, path),
       src |-> IF field THEN "const"
               ELSE IF g.mem[m].role = "callee" /\ Has(attrs, "calleeptr") THEN "any"
               ELSE IF g.mem[m].role = "arg" /\ IsLabelArg(attrs, i) THEN "blockval" ELSE g.mem[m].src,
       cv |-> IF g.mem[m].ty = "gepidx" /\ i <= Len(path) /\ (field \/ g.mem[m].src = "const") THEN path[i] ELSE -1,
       vc |-> ""]]])
\* (attribute labelbundle: the first input of the first bundle is a basic block)
BundleOps(bund, attrs) ==
  FlatSeq([b \in 1..Len(bund) |->
    [j \in 1..bund[b] |->
      LET lb == Has(attrs, "labelbundle") /\ b = 1 /\ j = 1 IN
      [slot |-> "OperandBundles.Inputs", i |-> b, j |-> j, role |-> "bundle input",
       ty |-> IF lb THEN TyLabel ELSE BundleTys[j], src |-> IF lb THEN "blockval" ELSE "any", cv |-> -1, vc |-> ""]]])
OpsOf(e, cls, cfg, attrs, path) ==
  LET nargs == ArgCount(e, cfg) IN
  FlatSeq([gi \in 1..Len(e.groups) |->
    IF e.groups[gi].ar = "bundles" THEN BundleOps(cfg.bund, attrs)
    ELSE GroupOps(e, cls, e.groups[gi], cfg.cnt[gi], attrs, nargs, path)])

\* successors: positions (in the operand list) of the successor slots, in the order of e.succs
SuccsOf(e, ops) ==
  FlatSeq([si \in 1..Len(e.succs) |->
    LET idxs == {k \in 1..Len(ops) : ops[k].slot = e.succs[si]} IN
    [n \in 1..Cardinality(idxs) |-> CHOOSE k \in idxs : Cardinality({k2 \in idxs : k2 < k}) = n - 1]])

----------------------------------------------------------------------------
(* Cases: the configurations enumerated by SchemaEnum.tla (C15) and Build.tla (C03).
   A star design around a default: every repetition/bundle configuration (and Arg
   wrapping) at the default class; every class, named and unnamed, at the default
   configuration; every variant; every flag alone and all flags together. *)
NoAttrs == <<>>
NeedsAttrs(e) == e.kind \in {"icmp", "fcmp", "fence", "cmpxchg", "atomicrmw"}
DefAttrs(e) == IF NeedsAttrs(e) THEN e.variants[1].a ELSE NoAttrs
DefCls(e) == e.classes[1]
FlagCls(e) == IF e.fcls # "" THEN e.fcls ELSE DefCls(e)
SeqToSet(s) == {s[i] : i \in 1..Len(s)}
NonFast(fl) == SelectSeq(fl, LAMBDA f : f # "fast")
FlagSets(e) == IF e.flags = <<>> THEN {} ELSE {<<f>> : f \in SeqToSet(e.flags)} \cup {NonFast(e.flags)}
\* landingpad needs "cleanup" or at least one clause
FixFlags(e, cfg, fl) == IF e.kind = "landingpad" /\ cfg.cnt[1] = 0 THEN <<"cleanup">> ELSE fl

\* alias: for every operand the operand whose value it shares (itself by default); the "alias"
\* family makes two branch targets the same block (successors are a list with multiplicity)
NoAlias(ops) == AsTuple([i \in 1..Len(ops) |-> i])
MkCaseP(e, fam, cls, cfg, fl, attrs, named, wrap, path, ali) ==
  LET ops == OpsOf(e, cls, cfg, attrs, path) IN
  [kind |-> e.kind, cat |-> e.cat, fam |-> fam, cls |-> cls, cfg |-> cfg, flags |-> FixFlags(e, cfg, fl), attrs |-> attrs,
   named |-> named, wrap |-> wrap, T |-> Concrete[cls], ty |-> ExtraTy(e, cls),
   res |-> IF e.res = "none" THEN TyVoid ELSE ResTy(e, cls, cfg, attrs, path),
   idx |-> IF e.kind \in {"extractvalue", "insertvalue"} THEN path ELSE <<>>,
   ops |-> ops, succs |-> SuccsOf(e, ops),
   alias |-> IF ali = <<>> THEN NoAlias(ops) ELSE AsTuple([i \in 1..Len(ops) |-> IF i = ali[2] THEN ali[1] ELSE i])]
MkCase(e, fam, cls, cfg, fl, attrs, named, wrap) ==
  MkCaseP(e, fam, cls, cfg, fl, attrs, named, wrap, DefPath(e, cls), <<>>)

\* the configuration of an index path: a getelementptr has one index operand per path element
PathCfg(e, cls, path) ==
  IF e.kind = "getelementptr" THEN [DefaultCfg(e, cls) EXCEPT !.cnt = <<1, Len(path)>>] ELSE DefaultCfg(e, cls)
\* pairs <<i, j>>, i < j, of branch-target operands of a configuration
TargetPairs(e, cls, cfg, attrs) ==
  LET su == SuccsOf(e, OpsOf(e, cls, cfg, attrs, DefPath(e, cls))) IN
  {<<su[q[1]], su[q[2]]>> : q \in {r \in (1..Len(su)) \X (1..Len(su)) : r[1] < r[2]}}


----------------------------------------------------------------------------
(* Enumerated constructor arguments that are not operands (family "args").
   Each kind declares the domain of every such argument; ArgSpace is the
   product, cut down to what LLVM 14 accepts.  An element is <<class, flags,
   attributes>>. *)
RECURSIVE SubSeqs(_)
SubSeqs(s) == IF s = <<>> THEN {<<>>} ELSE LET r == SubSeqs(Tail(s)) IN r \cup {<<Head(s)>> \o x : x \in r}
Scope(sc) == IF sc = "" THEN NoAttrs ELSE [syncscope |-> sc]
ScopeNames == {"", "singlethread", "agent"}
\* cmpxchg: the success ordering is monotonic or stronger, the failure ordering may not release
\* (LLVM 13 dropped "no stronger than the success ordering"): 5 x 3 pairs
SuccessOrds == SeqToSet(Orderings)
FailureOrds == {"monotonic", "acquire", "seq_cst"}
LoadOrds  == {"unordered", "monotonic", "acquire", "seq_cst"}
StoreOrds == {"unordered", "monotonic", "release", "seq_cst"}
FenceOrds == {"acquire", "release", "acq_rel", "seq_cst"}
CallConvs == {"ccc", "fastcc", "coldcc", "ghccc", "cc 11", "webkit_jscc", "anyregcc", "preserve_mostcc", "preserve_allcc",
              "swiftcc", "cxx_fast_tlscc", "tailcc", "cfguard_checkcc", "swifttailcc", "x86_stdcallcc", "spir_func",
              "amdgpu_kernel", "cc 86"}
ArgSpace(e) ==
  CASE e.kind = "cmpxchg" ->
         {<<"i32", fl, [ordering |-> so, ordering2 |-> fo] @@ Scope(sc)>>
            : so \in SuccessOrds, fo \in FailureOrds, fl \in {<<>>, e.flags}, sc \in {"", "singlethread"}}
         \* explicit alignment (a power of two not below the size of the value)
         \cup {<<x[1], <<>>, [ordering |-> "seq_cst", ordering2 |-> "monotonic", align |-> x[2]]>>
                 : x \in {<<"i32", "4">>, <<"i32", "8">>, <<"i32", "16">>, <<"i8", "1">>, <<"i8", "2">>, <<"i64", "8">>, <<"i64", "32">>}}
    [] e.kind = "atomicrmw" ->
         {<<"i32", <<>>, [op |-> o, ordering |-> so]>> : o \in SeqToSet(RMWOps), so \in SuccessOrds}
         \cup {<<"i64", <<"volatile">>, [op |-> o, ordering |-> "acq_rel"] @@ Scope(sc)>> : o \in SeqToSet(RMWOps), sc \in {"singlethread", "agent"}}
         \cup {<<c, <<>>, [op |-> o, ordering |-> so]>> : c \in {"float", "double"}, o \in {"fadd", "fsub", "xchg"}, so \in SuccessOrds}
         \cup {<<x[1], fl, [op |-> o, ordering |-> "monotonic", align |-> x[2]]>>
                 : x \in {<<"i32", "4">>, <<"i32", "8">>, <<"i8", "1">>, <<"i8", "4">>, <<"i64", "16">>}, o \in {"add", "xchg", "umax"}, fl \in {<<>>, <<"volatile">>}}
    [] e.kind = "load" ->
         {<<"i32", fl, [atomic |-> "1", ordering |-> so, align |-> "4"] @@ Scope(sc)>>
            : so \in LoadOrds, fl \in SubSeqs(e.flags), sc \in ScopeNames}
         \* not atomic: volatile x alignment (absent, below, at and above the natural alignment)
         \cup {<<c, fl, IF al = "" THEN NoAttrs ELSE [align |-> al]>> : c \in {"i32", "vec"}, fl \in SubSeqs(e.flags), al \in {"", "1", "4", "64"}}
    [] e.kind = "store" ->
         {<<"i32", fl, [atomic |-> "1", ordering |-> so, align |-> "4"] @@ Scope(sc)>>
            : so \in StoreOrds, fl \in SubSeqs(e.flags), sc \in ScopeNames}
         \cup {<<c, fl, IF al = "" THEN NoAttrs ELSE [align |-> al]>> : c \in {"i32", "vec"}, fl \in SubSeqs(e.flags), al \in {"", "1", "4", "64"}}
    [] e.kind = "fence" -> {<<"none", <<>>, [ordering |-> so] @@ Scope(sc)>> : so \in FenceOrds, sc \in ScopeNames}
    \* every subset of the fast-math flags (all seven together are `fast`)
    [] e.kind = "fadd" /\ e.cat = "inst" -> {<<"float", fl, NoAttrs>> : fl \in SubSeqs(NonFast(e.flags))}
    [] e.kind = "fcmp" /\ e.cat = "inst" ->
         {<<c, fl, [pred |-> p]>> : c \in {"double", "fvec"}, p \in SeqToSet(FPreds), fl \in {<<>>}}
         \cup {<<"float", <<"nnan", "ninf">>, [pred |-> p]>> : p \in SeqToSet(FPreds)}
    [] e.kind = "icmp" /\ e.cat = "inst" -> {<<c, <<>>, [pred |-> p]>> : c \in {"i8", "ptr", "vec", "pvec"}, p \in SeqToSet(IPreds)}
    [] e.kind = "call" ->
         {<<"void", <<>>, [cc |-> cc]>> : cc \in CallConvs}
         \cup {<<"i32", <<>>, [tail |-> t, cc |-> cc]>> : t \in {"tail", "notail"}, cc \in {"fastcc", "tailcc", "swifttailcc"}}
    [] e.kind = "invoke" -> {<<"void", <<>>, [cc |-> cc]>> : cc \in CallConvs}
    [] OTHER -> {}

(* Value classes of an operand (family "opclass"): what an operand that admits any value may be,
   besides an SSA value. *)
VClasses(ty) ==
  CASE ty.k = "int" -> <<"lit0", "lit1", "undef", "poison", "expr">>
    [] ty.k = "fp" -> <<"lit", "undef", "poison", "expr">>
    [] ty.k = "ptr" -> IF ty.as = 0 THEN <<"null", "undef", "poison", "global", "expr">> ELSE <<"null", "undef", "poison">>
    [] ty.k = "vec" -> IF ty.sc THEN <<"zero", "undef", "poison">> ELSE <<"lit", "zero", "undef", "poison", "expr">>
    [] ty.k \in {"arr", "struct", "named"} -> <<"lit", "zero", "undef", "poison">>
    [] OTHER -> <<>>
\* the address operand of an indirectbr may also be the address of one of its destinations
VClassesOf(e, c, k) ==
  SeqToSet(VClasses(c.ops[k].ty))
  \cup (IF e.kind = "indirectbr" /\ c.ops[k].slot = "Addr" /\ c.succs # <<>> THEN {"blockaddr"} ELSE {})
\* the variants that change the TYPE of an operand the result type depends on (a vector index on a scalar
\* base, a scalar index on a vector base, a scalar condition over vectors): their operands get every value
\* class as well
TypeVariantKinds == {"getelementptr", "select"}

Cases(e) ==
  LET dc == DefCls(e) da == DefAttrs(e)
      vcls(v) == IF e.variants[v].cls # "" THEN e.variants[v].cls ELSE dc
      \* the cases whose operands are run through the value classes
      bases == {MkCase(e, "opclass", dc, DefaultCfg(e, dc), <<>>, da, TRUE, FALSE)}
               \cup (IF e.kind \in TypeVariantKinds
                     THEN {MkCase(e, "opclass", vcls(v), DefaultCfg(e, vcls(v)), <<>>, e.variants[v].a, TRUE, FALSE) : v \in 1..Len(e.variants)}
                     ELSE {})
               \cup (IF e.kind = "getelementptr" /\ e.cat = "inst" THEN {MkCase(e, "opclass", "pvec", DefaultCfg(e, "pvec"), <<>>, da, TRUE, FALSE)} ELSE {})
  IN
     {MkCase(e, "config", dc, cfg, <<>>, da, TRUE, FALSE) : cfg \in Configs(e, dc)}
  \cup {MkCase(e, "wrap", dc, cfg, <<>>, da, TRUE, TRUE) : cfg \in {c \in Configs(e, dc) : ArgCount(e, c) > 0}}
  \cup {MkCase(e, "class", c, DefaultCfg(e, c), <<>>, da, nm, FALSE) : c \in SeqToSet(e.classes), nm \in BOOLEAN}
  \cup {MkCase(e, "variant", IF e.variants[v].cls # "" THEN e.variants[v].cls ELSE dc,
               DefaultCfg(e, IF e.variants[v].cls # "" THEN e.variants[v].cls ELSE dc), <<>>, e.variants[v].a, TRUE, FALSE)
          : v \in 1..Len(e.variants)}
  \cup {MkCase(e, "flags", FlagCls(e), DefaultCfg(e, FlagCls(e)), fl, da, TRUE, FALSE) : fl \in FlagSets(e)}
  \* pointer operands in address space 1, from a parameter, an alloca and a global of that address space;
  \* calls through a pointer value (address space 0 and 1)
  \* (a constant expression can only start from the global; LLVM has no globals of scalable vector type)
  \cup (IF e.kind \in {"load", "store", "cmpxchg", "atomicrmw", "getelementptr"}
        THEN {x \in {MkCase(e, "as", c, DefaultCfg(e, c), <<>>, [ptras |-> "1", ptrsrc |-> ps] @@ da, TRUE, FALSE)
                      : c \in SeqToSet(e.classes) \ {"pvec"}, ps \in {"param", "alloca", "global"}}
                : /\ (e.cat = "cexpr" => x.attrs.ptrsrc = "global")
                  /\ ~(x.attrs.ptrsrc = "global" /\ x.cls = "svec")}
        ELSE {})
  \cup (IF e.kind \in {"call", "invoke"}
        THEN {MkCase(e, "as", c, DefaultCfg(e, c), <<>>, a, TRUE, FALSE)
                : c \in SeqToSet(e.classes), a \in {[calleeptr |-> "1"], [calleeptr |-> "1", ptras |-> "1"]}}
        ELSE {})
  \* every index path of every class
  \cup (IF HasPath(e)
        THEN UNION {{MkCaseP(e, "path", c, PathCfg(e, c, PathsOf(e, c)[pi]), <<>>, da, TRUE, FALSE, PathsOf(e, c)[pi], <<>>)
                      : pi \in 1..Len(PathsOf(e, c))} : c \in SeqToSet(e.classes)}
        ELSE {})
  \* the enumerated non-operand arguments
  \cup {MkCase(e, "args", x[1], DefaultCfg(e, x[1]), x[2], x[3], TRUE, FALSE) : x \in ArgSpace(e)}
  \* every operand that admits any value (every constant operand but the first of a constant expression), in turn, in every value class
  \cup UNION {UNION {{[b EXCEPT !.ops[k].src = "const", !.ops[k].vc = vc] : vc \in VClassesOf(e, b, k)}
                       : k \in {j \in 1..Len(b.ops) : IF e.cat = "cexpr"
                                                        THEN j > 1 /\ b.ops[j].slot # "Mask"
                                                             /\ ~(b.ops[j].slot = "Indices" /\ GepIsField(b.cls, DefPath(e, b.cls), b.ops[j].i))
                                                        ELSE b.ops[j].src = "any"}}
               : b \in bases}
  \* a basic block as a call argument / operand-bundle input (callbr: LLVM rejects a label argument)
  \cup (IF e.kind \in {"call", "invoke", "callbr"}
        THEN {MkCase(e, "labelarg", "void", [DefaultCfg(e, "void") EXCEPT !.bund = IF Has(a, "labelbundle") THEN <<1>> ELSE <<>>], <<>>, a, TRUE, FALSE)
                : a \in {x \in {[labelarg |-> "1"], [labelbundle |-> "1"], [labelarg |-> "1", labelbundle |-> "1"]}
                            : e.kind = "callbr" => ~Has(x, "labelarg")}}
        ELSE {})
  \* every pair of branch targets shared, at the default configuration and (bundles aside) at every configuration
  \cup (IF e.cat = "term" /\ e.succs # <<>> /\ e.kind # "invoke"      \* invoke: normal = unwind target is invalid
        THEN UNION {{MkCaseP(e, "alias", dc, cfg, <<>>, da, TRUE, FALSE, <<>>, pr) : pr \in TargetPairs(e, dc, cfg, da)}
                    : cfg \in {c \in Configs(e, dc) : c.bund = <<>>}}
        ELSE {})

\* sanity conditions every case must satisfy (checked as invariants by SchemaEnum)
LabelRoles == {"label", "unwind target", "indirect dest", "case target", "handler"}
CaseWellFormed(e, c) ==
  /\ \A k \in 1..Len(c.ops) : c.ops[k].ty.k \in {"int", "fp", "ptr", "vec", "arr", "struct", "named", "label", "token"}
  /\ \A k \in 1..Len(c.succs) : c.ops[c.succs[k]].ty = TyLabel /\ c.ops[c.succs[k]].role \in LabelRoles
  \* every branch-target operand is a successor, exactly once
  /\ \A k \in 1..Len(c.ops) : c.ops[k].role \in LabelRoles =>
        Cardinality({n \in 1..Len(c.succs) : c.succs[n] = k}) = 1
  /\ (e.cat # "term" => c.succs = <<>>)
  \* a block passed as an argument / bundle input is an operand of label type that is no successor
  /\ \A k \in 1..Len(c.ops) : c.ops[k].src = "blockval" =>
        c.ops[k].ty = TyLabel /\ c.ops[k].role \in {"arg", "bundle input"} /\ \A n \in 1..Len(c.succs) : c.succs[n] # k
  \* a value class is only given to an operand that is a constant of that class' type
  /\ \A k \in 1..Len(c.ops) : c.ops[k].vc # "" =>
        c.ops[k].src = "const" /\ c.ops[k].role \notin LabelRoles
        /\ (c.ops[k].vc = "blockaddr" \/ \E n \in 1..Len(VClasses(c.ops[k].ty)) : VClasses(c.ops[k].ty)[n] = c.ops[k].vc)
  \* constant struct indices of a getelementptr are valid field numbers; shared operands have one type
  /\ \A k \in 1..Len(c.ops) : c.ops[k].cv >= 0 => c.ops[k].src = "const"
  /\ \A k \in 1..Len(c.ops) : c.alias[k] <= k /\ c.ops[c.alias[k]].ty = c.ops[k].ty

=============================================================================
