------------------------------ MODULE TypesRes ------------------------------
(***************************************************************************)
(* C06: result types of instructions, value-producing terminators and      *)
(* constant expressions.  Generator of                                     *)
(*    kind  x  form  x  operand type shape                                 *)
(* with the result type LLVM requires (Types!ResultType).                  *)
(*                                                                         *)
(*    stage 0 -> 1   choose a kind k \in Kinds                             *)
(*    stage 1 -> 2   choose a case c \in CasesOf(k): a record              *)
(*         [kind, form, ops, x]   form \in {"inst", "term", "cexpr"},      *)
(*         ops = operand types in textual order, x = the non-operand parts *)
(*         (cast target, explicit type, index path, address space, atomic  *)
(*         operation, spelling of the callee type of call-like kinds) as   *)
(*         described at Types!ResultType                                   *)
(*                                                                         *)
(* Operand type shapes (Shapes below): i1 i8 i64 i129; half float double   *)
(* x86_fp80; i8* in address spaces 0 and 1; <2 x T> and <vscale x 2 x T>   *)
(* of these; [2 x T]; literal, packed and identified structs; pointers to  *)
(* functions with and without varargs; address spaces AS are a dimension   *)
(* of every pointer operand; getelementptr is a kind of this table with    *)
(* plain index forms (its index forms are C07's).  The constant-expression *)
(* kinds are                                                               *)
(* the ones the library represents (ir/constant/expr_*.go).                *)
(*                                                                         *)
(* Invariants (TypesRes.cfg) restate the sentences of the property about   *)
(* the required function: comparisons keep length and scalability, cmpxchg *)
(* yields {T, i1}, calls yield the callee's return type (and Sig() is the  *)
(* function type the callee points to, CallSig), casts their               *)
(* target, extractvalue / insertvalue follow the index path, shuffles take *)
(* the mask's length.  TypesResDeviation.cfg checks ImplAgrees for the     *)
(* rules as implemented (comparisons and shuffles build the result vector  *)
(* without copying `scalable`): TLC reports the counterexamples.           *)
(*                                                                         *)
(* Binding to the code: with Emit = TRUE every stage-2 state is written to *)
(* res_cases.ndjson as {kind, form, ops, x, want}; harness/props/c06       *)
(* (a) builds the value with the real constructor and compares Type(),     *)
(* (b) renders a function that uses the result at type `want` -- llvm-as   *)
(* accepting it validates `want` against LLVM -- and (c) parses that text  *)
(* with asm and compares the parser-attached type and the type the ir      *)
(* package recomputes after the cached Typ field is cleared; for call-like *)
(* kinds Sig() of the constructed and of the parsed value is compared with *)
(* `sig`.  TypesHist.tla extends this module with histories of one value.  *)
(***************************************************************************)
EXTENDS Types, Json, IOUtils

CONSTANTS Emit, Tier

----------------------------------------------------------------------------
S == TNamed("s")   Q == TNamed("q")
\* NAMED NON-STRUCT TYPES (aliases, see Types!Alias) are a dimension of the operand types of
\* every kind: each case also occurs with every operand / explicit type that has a name spelled by
\* that name (Named below).  The rule works on what the names stand for, and a result type
\* that an instruction BUILDS is a new, unnamed type: the harness requires that a type object
\* carrying a name denotes the type the name is defined as.
AliasDefs == { <<"I", TInt(8)>>, <<"V", TVec(FALSE, 2, TInt(8))>>, <<"P", TPtr(TInt(8), 0)>>,
               <<"A", TArr(2, TInt(64))>>, <<"D", TFloat("double")>>, <<"VD", TVec(FALSE, 2, TFloat("double"))>> }
UR == [s |-> Body(FALSE, <<I32, TArr(2, I8), TPtr(S, 0)>>),
       q |-> Body(TRUE,  <<I8, TVec(FALSE, 2, I32)>>)]
      @@ [nm \in {d[1] : d \in AliasDefs} |-> Alias((CHOOSE d \in AliasDefs : d[1] = nm)[2])]
\* spell every subterm that has a name by its name (outermost first)
RECURSIVE Named(_)
Named(t) ==
  IF \E d \in AliasDefs : d[2] = t THEN TNamed((CHOOSE d \in AliasDefs : d[2] = t)[1])
  ELSE CASE t.k \in {"ptr", "vec", "arr"} -> [t EXCEPT !.e = Named(t.e)]
         [] t.k = "struct" -> [t EXCEPT !.fs = [i \in 1..Len(t.fs) |-> Named(t.fs[i])]]
         [] t.k = "func"   -> [t EXCEPT !.ret = Named(t.ret), !.ps = [i \in 1..Len(t.ps) |-> Named(t.ps[i])]]
         [] OTHER          -> t
MapX(x, F(_)) == LET x1 == IF "ty" \in DOMAIN x THEN [x EXCEPT !.ty = F(x.ty)] ELSE x
                     x2 == IF "to" \in DOMAIN x1 THEN [x1 EXCEPT !.to = F(x1.to)] ELSE x1
                     x3 == IF "src" \in DOMAIN x2 THEN [x2 EXCEPT !.src = F(x2.src)] ELSE x2
                 IN x3
NamedCase(c) == [c EXCEPT !.ops = [i \in 1..Len(c.ops) |-> Named(c.ops[i])], !.x = MapX(c.x, Named)]
DerefT(t) == Deref(UR, t)
DerefCase(c) == [c EXCEPT !.ops = [i \in 1..Len(c.ops) |-> Deref(UR, c.ops[i])], !.x = MapX(c.x, DerefT)]

I16 == TInt(16)   I129 == TInt(129)
Half == TFloat("half")   Float == TFloat("float")   Double == TFloat("double")   FP80 == TFloat("x86_fp80")
\* ADDRESS SPACES are a dimension of every pointer-typed operand and of every kind whose result
\* type mentions a pointer or derives from one: 0 and 1 (thorough: also 5).
AS == {0, 1} \cup (IF Tier = "quick" THEN {} ELSE {5})
P0 == TPtr(I8, 0)   P1 == TPtr(I8, 1)
PtrsTo(t) == {TPtr(t, as) : as \in AS}
V2(t)  == TVec(FALSE, 2, t)
VS2(t) == TVec(TRUE, 2, t)
\* the thorough tier adds vectors of length 4
Lift(ts) == ts \cup {V2(t) : t \in ts} \cup {VS2(t) : t \in ts}
            \cup (IF Tier = "quick" THEN {} ELSE {TVec(FALSE, 4, t) : t \in ts} \cup {TVec(TRUE, 4, t) : t \in ts})

\* the thorough tier adds two more integer widths and the two remaining floating-point kinds
IntS == {I1, I8, I64, I129} \cup (IF Tier = "quick" THEN {} ELSE {I16, I32})
FPS  == {Half, Float, Double, FP80} \cup (IF Tier = "quick" THEN {} ELSE {TFloat("fp128"), TFloat("ppc_fp128")})
PtrS == PtrsTo(I8)
IntT == Lift(IntS)          \* integer or vector of integers
FPT  == Lift(FPS)
PtrT == Lift(PtrS)
VecT == (IntT \cup FPT \cup PtrT) \ (IntS \cup FPS \cup PtrS)

Lit    == TStruct(FALSE, <<I8, I64>>)
Packed == TStruct(TRUE, <<I8, I64>>)
Nest   == TStruct(FALSE, <<I8, TArr(2, TStruct(FALSE, <<I64, Half>>))>>)
PtrMembers == TStruct(FALSE, <<P1, V2(P1), TPtr(S, 1)>>)     \* pointer members in a non-zero address space
Aggs   == {TArr(2, I64), TArr(2, P1), Lit, Packed, S, Q, Nest, TArr(2, S), PtrMembers}
FnPtrs == {TPtr(TFunc(I32, <<I8>>, FALSE), 0), TPtr(TFunc(I32, <<I8>>, TRUE), 0), TPtr(TFunc(TVoid, <<>>, FALSE), 1)}
\* every first-class value shape
Shapes == IntT \cup FPT \cup PtrT \cup Aggs \cup FnPtrs \cup {V2(TPtr(TFunc(TVoid, <<>>, TRUE), 0))}

C(kind, form, ops, x) == [kind |-> kind, form |-> form, ops |-> ops, x |-> x]
None == [none |-> TRUE]
BothForms(kind, ops, x) == {C(kind, "inst", ops, x), C(kind, "cexpr", ops, x)}

CExprIntBin == {"add", "sub", "mul", "shl", "lshr", "ashr", "and", "or", "xor"}

\* all index paths (0-based) of length 1..n into aggregate t
RECURSIVE Paths(_, _)
Paths(t, n) ==
  IF n = 0 THEN {}
  ELSE LET r == Resolve(UR, t) IN
       CASE t.k = "named" /\ UR[t.nm].opaque -> {}
         [] r.k = "struct" -> UNION {{<<i>>} \cup {<<i>> \o p : p \in Paths(r.fs[i + 1], n - 1)} : i \in 0..(Len(r.fs) - 1)}
         [] r.k = "arr"    -> UNION {{<<i>>} \cup {<<i>> \o p : p \in Paths(r.e, n - 1)} : i \in 0..(r.n - 1)}
         [] OTHER          -> {}

\* cast pairs <<from, to>> on scalars; vectors are added by LiftPairs
LiftPairs(ps) == ps \cup {<<V2(p[1]), V2(p[2])>> : p \in ps} \cup {<<VS2(p[1]), VS2(p[2])>> : p \in ps}
CastPairs(kind) ==
  CASE kind = "trunc"    -> LiftPairs({<<I64, I8>>, <<I129, I64>>, <<I8, I1>>})
    [] kind \in {"zext", "sext"} -> LiftPairs({<<I1, I8>>, <<I8, I64>>, <<I64, I129>>})
    [] kind = "fptrunc"  -> LiftPairs({<<Double, Float>>, <<Double, Half>>, <<FP80, Double>>})
    [] kind = "fpext"    -> LiftPairs({<<Half, Float>>, <<Float, Double>>, <<Double, FP80>>})
    [] kind \in {"fptoui", "fptosi"} -> LiftPairs({<<Half, I8>>, <<Double, I64>>, <<FP80, I129>>, <<Float, I1>>})
    [] kind \in {"uitofp", "sitofp"} -> LiftPairs({<<I8, Half>>, <<I64, Double>>, <<I129, FP80>>, <<I1, Float>>})
    [] kind = "ptrtoint" -> LiftPairs({<<P0, I64>>, <<P1, I8>>, <<TPtr(S, 0), I129>>} \cup {<<p, I64>> : p \in PtrS})
    [] kind = "inttoptr" -> LiftPairs({<<I64, P0>>, <<I8, P1>>, <<I129, TPtr(S, 1)>>} \cup {<<I64, p>> : p \in PtrS})
    [] kind = "bitcast"  -> LiftPairs({<<I64, Double>>, <<Half, I16>>} \cup {<<TPtr(I8, as), TPtr(S, as)>> : as \in AS}
                                      \cup {<<TPtr(I8, as), TPtr(I64, as)>> : as \in AS})
                            \cup {<<V2(I32), I64>>, <<I64, V2(I32)>>, <<V2(I32), V2(Float)>>, <<VS2(I32), VS2(Float)>>,
                                  <<TPtr(TFunc(I32, <<I8>>, TRUE), 0), P0>>, <<V2(P0), V2(TPtr(TFunc(TVoid, <<>>, FALSE), 0))>>}
    [] kind = "addrspacecast" -> LiftPairs({<<TPtr(I8, a), TPtr(I8, b)>> : a, b \in AS} \cup {<<TPtr(S, 1), TPtr(S, 0)>>})
                                 \ {<<p, p>> : p \in Lift(PtrS)}

RetTypes == {TVoid, I8, Double, V2(I64), VS2(I64), Lit, S, TArr(2, I64), TPtr(TFunc(TVoid, <<>>, FALSE), 0),
             V2(P1), VS2(P1), TStruct(FALSE, <<P1, I8>>), TPtr(TFunc(TVoid, <<>>, FALSE), 1)} \cup PtrS
\* Call-like cases: the operand list (callee type = pointer to function, then the argument
\* types passed) and the SPELLING of the callee type in the instruction, x.sp:
\*    "short"  `call RET %f(args)`          -- only the return type; LLVM infers a non-variadic
\*                                            function type from the arguments
\*    "full"   `call RET (PARAMS) %f(args)`  -- the whole function type; mandatory for variadic
\*                                            callees, permitted for every callee
\* The result type is the callee's return type in either spelling.
CallOps(rets) ==
  UNION {{ [ops |-> <<TPtr(TFunc(r, <<>>, FALSE), 0)>>, va |-> FALSE],
           [ops |-> <<TPtr(TFunc(r, <<I8>>, FALSE), 0), I8>>, va |-> FALSE],
           [ops |-> <<TPtr(TFunc(r, <<I8>>, TRUE), 0), I8, I64>>, va |-> TRUE],      \* varargs, one extra argument
           [ops |-> <<TPtr(TFunc(r, <<>>, TRUE), 1)>>, va |-> TRUE],
           [ops |-> <<TPtr(TFunc(r, <<I8>>, FALSE), 1), I8>>, va |-> FALSE] } : r \in rets}
Spellings(co) == IF co.va THEN {"full"} ELSE {"short", "full"}
\* ... and the FORM of the callee operand, x.cf.  The result type is the return type of the
\* function type the callee EXPRESSION points to, whatever it is made from:
\*    "value"    a pointer-typed SSA value
\*    "func"     a declared function @d
\*    "bitcast"  bitcast (SRC* @d to DST*): a function of another signature x.src (other return
\*               type, variadic <-> non-variadic) cast to the callee type
\*    "inttoptr" inttoptr (i64 N to DST*)
\* (constant callees only in address space 0; callbr admits only inline assembly in LLVM 14)
SrcSig(ft) == TFunc(IF ft.ret = TVoid THEN I32 ELSE TVoid, ft.ps, ~ft.va)
CalleeForms(co) == IF co.ops[1].as = 0 THEN {"value", "func", "bitcast", "inttoptr"} ELSE {"value"}
CallCases(kind, form, rets) ==
  UNION {UNION {{C(kind, form, co.ops, [sp |-> sp, cf |-> cf, src |-> SrcSig(co.ops[1].e)]) : sp \in Spellings(co)}
                  : cf \in CalleeForms(co)} : co \in CallOps(rets)}

Masks(v) == IF v.sc THEN {TVec(TRUE, 2, I32), TVec(TRUE, 4, I32)} ELSE {TVec(FALSE, 2, I32), TVec(FALSE, 4, I32), TVec(FALSE, 1, I32)}

(***************************************************************************)
(* getelementptr in this table: the result type for the plain index forms  *)
(* (none, an SSA scalar, constants stepping into an aggregate, an SSA or    *)
(* zeroinitializer vector) over pointer / fixed / scalable vector bases in  *)
(* every address space.  The full analysis of index forms is C07's         *)
(* (TypesGep.tla); here getelementptr is one more row of "every            *)
(* instruction", with the address-space and vector dimensions of the base. *)
(***************************************************************************)
GepElems == {I8, TArr(2, I32), S, Lit}
GepBases(e) == UNION {{TPtr(e, as), V2(TPtr(e, as)), VS2(TPtr(e, as))} : as \in AS}
GepIdxLists == { <<>>,
                 <<Idx("ssa", 64, -1, 0, FALSE)>>,
                 <<Idx("int", 64, 0, 0, FALSE), Idx("int", 32, 1, 0, FALSE)>>,
                 <<Idx("ssa", 64, -1, 2, FALSE)>>,
                 <<Idx("ssa", 64, -1, 2, TRUE)>>,
                 <<Idx("zeroinit", 64, 0, 2, FALSE)>>,
                 <<Idx("int", 64, 0, 0, FALSE), Idx("ssa", 64, -1, 2, FALSE)>>,
                 <<Idx("int", 32, 0, 0, FALSE), Idx("int", 32, 1, 0, FALSE), Idx("int", 64, 1, 0, FALSE)>> }
IdxType(ix) == IF ix.vec = 0 THEN TInt(ix.w) ELSE TVec(ix.sc, ix.vec, TInt(ix.w))
GepCases ==
  UNION {UNION {UNION {
     IF GepOK(UR, e, b, l)
     THEN LET ops == <<b>> \o [i \in 1..Len(l) |-> IdxType(l[i])]
              x   == [ty |-> e, gidx |-> l]
          IN {C("getelementptr", "inst", ops, x)}
              \cup (IF \E i \in 1..Len(l) : l[i].f = "ssa" THEN {} ELSE {C("getelementptr", "cexpr", ops, x)})
     ELSE {} : l \in GepIdxLists} : b \in GepBases(e)} : e \in GepElems}

Kinds == UnaryKinds \cup IntBinKinds \cup FPBinKinds \cup CastKinds \cup CallKinds \cup TokenKinds
         \cup {"icmp", "fcmp", "extractelement", "insertelement", "shufflevector", "extractvalue", "insertvalue",
               "alloca", "load", "getelementptr", "cmpxchg", "atomicrmw", "phi", "select", "freeze", "va_arg", "landingpad"}

BaseCasesOf(kind) ==
  CASE kind = "fneg" -> UNION {BothForms(kind, <<t>>, None) : t \in FPT}
    [] kind \in IntBinKinds ->
         UNION {IF kind \in CExprIntBin THEN BothForms(kind, <<t, t>>, None) ELSE {C(kind, "inst", <<t, t>>, None)} : t \in IntT}
    [] kind \in FPBinKinds -> {C(kind, "inst", <<t, t>>, None) : t \in FPT}
    [] kind = "icmp" -> UNION {BothForms(kind, <<t, t>>, None) : t \in IntT \cup PtrT \cup {TPtr(S, 0), V2(TPtr(S, 1))}}
    [] kind = "fcmp" -> UNION {BothForms(kind, <<t, t>>, None) : t \in FPT}
    [] kind = "extractelement" -> UNION {BothForms(kind, <<v, I32>>, None) : v \in VecT} \cup {C(kind, "inst", <<V2(I8), I64>>, None)}
    [] kind = "insertelement"  -> UNION {BothForms(kind, <<v, v.e, I32>>, None) : v \in VecT}
    [] kind = "shufflevector"  -> UNION {UNION {BothForms(kind, <<v, v, m>>, None) : m \in Masks(v)}
                                           : v \in {V2(I8), VS2(I8), V2(Double), VS2(Double)} \cup {V2(p) : p \in PtrS} \cup {VS2(p) : p \in PtrS}}
    [] kind = "extractvalue"   -> UNION {{C(kind, "inst", <<a>>, [idx |-> p]) : p \in Paths(a, 3)} : a \in Aggs}
    [] kind = "insertvalue"    -> UNION {{C(kind, "inst", <<a, AggPath(UR, a, p)>>, [idx |-> p]) : p \in Paths(a, 3)} : a \in Aggs}
    [] kind = "alloca" -> {C(kind, "inst", <<>>, [ty |-> t, as |-> as]) : t \in {I8, I129, FP80, P1, V2(I64), VS2(Half), V2(P1), Lit, S, TArr(2, S)} \cup FnPtrs, as \in AS}
    [] kind = "load"   -> {C(kind, "inst", <<TPtr(t, as)>>, [ty |-> t]) : t \in {I1, I64, Half, V2(P1), VS2(P1), VS2(I8), TPtr(P1, 0), TPtr(S, 1), Lit, Packed, S, TArr(2, I64), PtrMembers} \cup PtrS \cup FnPtrs, as \in AS}
    [] kind = "getelementptr" -> GepCases
    [] kind = "cmpxchg" -> {C(kind, "inst", <<TPtr(t, as), t, t>>, None) : t \in {I8, I64, TPtr(S, 0), TPtr(S, 1)} \cup PtrS, as \in AS}
    [] kind = "atomicrmw" -> {C(kind, "inst", <<TPtr(t, as), t>>, [op |-> "xchg"]) : t \in {I8, I64, Float, Double}, as \in AS}
                             \cup {C(kind, "inst", <<TPtr(t, 0), t>>, [op |-> "add"]) : t \in {I8, I64}}
                             \cup {C(kind, "inst", <<TPtr(t, 1), t>>, [op |-> "fadd"]) : t \in {Float, Double}}
    [] kind \in CastKinds -> UNION {BothForms(kind, <<p[1]>>, [to |-> p[2]]) : p \in CastPairs(kind)}
    [] kind = "phi"    -> {C(kind, "inst", <<t>>, [ty |-> t]) : t \in Shapes}
    [] kind = "select" -> UNION {BothForms(kind, <<I1, t, t>>, None) : t \in Shapes}
                          \cup UNION {BothForms(kind, <<TVec(t.sc, t.n, I1), t, t>>, None) : t \in VecT}
    [] kind = "freeze" -> {C(kind, "inst", <<t>>, None) : t \in Shapes}
    [] kind = "call"   -> CallCases(kind, "inst", RetTypes)
    [] kind = "invoke" -> CallCases(kind, "term", {TVoid, I8, VS2(I64), Lit, S, V2(P1)} \cup PtrS)
       \* callbr: the callee is inline assembly (the only callee LLVM 14 allows), one output or none
    [] kind = "callbr" -> {C(kind, "term", <<TPtr(TFunc(r, <<P0>>, FALSE), 0), P0>>, [sp |-> sp, cf |-> "asm"])
                             : r \in {TVoid, I32, I64} \cup PtrS, sp \in {"short", "full"}}
    [] kind = "va_arg" -> {C(kind, "inst", <<p>>, [ty |-> t]) : p \in PtrS, t \in {I32, Double, V2(I64), V2(P1), Lit, TPtr(S, 1)} \cup PtrS}
    [] kind = "landingpad" -> {C(kind, "inst", <<>>, [ty |-> t]) : t \in {I32, Lit} \cup {TStruct(FALSE, <<p, I32>>) : p \in PtrS}}
    [] kind \in {"catchpad", "cleanuppad"} -> {C(kind, "inst", <<>>, None)}
    [] kind = "catchswitch" -> {C(kind, "term", <<>>, None)}

\* every case, and every case with its named types spelled by name
\* (functions of constants only: TLC evaluates them once)
BaseByKind == [k \in Kinds |-> BaseCasesOf(k)]
AllByKind  == [k \in Kinds |-> BaseByKind[k] \cup {NamedCase(c) : c \in BaseByKind[k]}]
CasesOf(kind) == AllByKind[kind]

----------------------------------------------------------------------------
VARIABLES kd, cs, stage
vars == <<kd, cs, stage>>

NoCase == C("none", "inst", <<>>, None)
Init == kd = "none" /\ cs = NoCase /\ stage = 0
Next == \/ stage = 0 /\ kd' \in Kinds /\ stage' = 1 /\ UNCHANGED cs
        \/ stage = 1 /\ cs' \in CasesOf(kd) /\ stage' = 2 /\ UNCHANGED kd
Spec == Init /\ [][Next]_vars

\* the rule sees what the names stand for; the required type is spelled without alias names
DC == DerefCase(cs)
Res == Deref(UR, ResultType(UR, DC.kind, DC.ops, DC.x))
At2 == stage = 2

\* the sentences of the property, on the required function
ResWellFormed == At2 => WellFormed(UR, Res) /\ \A i \in 1..Len(DC.ops) : WellFormed(UR, DC.ops[i])
CmpShape == At2 /\ cs.kind \in {"icmp", "fcmp"} =>
              LET o == DC.ops[1] IN
              IF o.k = "vec" THEN Res.k = "vec" /\ Res.e = I1 /\ Res.n = o.n /\ Res.sc = o.sc ELSE Res = I1
CmpXchgPair == At2 /\ cs.kind = "cmpxchg" => Res = TStruct(FALSE, <<DC.ops[3], I1>>) /\ DC.ops[1].e = DC.ops[3] /\ ~Res.pk
CallRet == At2 /\ cs.kind \in CallKinds =>
             /\ Res = DC.ops[1].e.ret
             /\ DC.x.sp \in {"short", "full"} /\ (DC.ops[1].e.va => DC.x.sp = "full")
             \* the spelling is not an input of the rule: both spellings of a callee are cases
             /\ ~DC.ops[1].e.va => \A sp \in {"short", "full"} : [cs EXCEPT !.x.sp = sp] \in CasesOf(cs.kind)
             \* a cast callee has another return type than its source function
             /\ DC.x.cf = "bitcast" => DC.x.src.ret # Res /\ DC.x.src.va # DC.ops[1].e.va
\* Sig() of a call-like instruction is the function type its callee operand points to -- whatever the callee is
\* made from -- and the instruction is consistent with it: the result is its return type, the arguments are its
\* parameters (a variadic signature admits more arguments than parameters)
CallSig == At2 /\ cs.kind \in CallKinds =>
             LET s == DC.ops[1].e IN
             /\ DC.ops[1].k = "ptr" /\ s.k = "func" /\ Res = s.ret
             /\ Len(s.ps) <= Len(DC.ops) - 1 /\ (~s.va => Len(s.ps) = Len(DC.ops) - 1)
             /\ \A i \in 1..Len(s.ps) : s.ps[i] = DC.ops[i + 1]
CastTarget == At2 /\ cs.kind \in CastKinds => Res = DC.x.to
AggPathFollowed == /\ At2 /\ cs.kind = "extractvalue" => AggPathOK(UR, DC.ops[1], DC.x.idx) /\ Res = AggPath(UR, DC.ops[1], DC.x.idx)
                   /\ At2 /\ cs.kind = "insertvalue" => Res = DC.ops[1] /\ DC.ops[2] = AggPath(UR, DC.ops[1], DC.x.idx)
ShuffleMask == At2 /\ cs.kind = "shufflevector" =>
                 Res.k = "vec" /\ Res.n = DC.ops[3].n /\ Res.sc = DC.ops[3].sc /\ Res.e = DC.ops[1].e /\ DC.ops[3].sc = DC.ops[1].sc
\* getelementptr: pointer (or vector of pointers, when the base or an index is a vector) to the
\* reached element, in the ADDRESS SPACE OF THE BASE, also inside a vector result
GepRow == At2 /\ cs.kind = "getelementptr" =>
            LET bp == IF DC.ops[1].k = "vec" THEN DC.ops[1].e ELSE DC.ops[1]
                rp == IF Res.k = "vec" THEN Res.e ELSE Res
                anyVec == \E i \in 1..Len(DC.ops) : DC.ops[i].k = "vec"
            IN rp.k = "ptr" /\ rp.as = bp.as /\ (Res.k = "vec" <=> anyVec)
\* vacuity guard: pointer results in a non-zero address space occur for every pointer-producing kind
PtrKinds == {"getelementptr", "alloca", "load", "inttoptr", "bitcast", "addrspacecast", "select", "phi", "freeze",
             "extractelement", "insertelement", "shufflevector", "extractvalue", "insertvalue", "call", "invoke",
             "callbr", "va_arg", "cmpxchg", "landingpad"}
RECURSIVE MentionsAS(_)
MentionsAS(t) == CASE t.k = "ptr" -> t.as # 0 \/ MentionsAS(t.e)
                   [] t.k \in {"vec", "arr"} -> MentionsAS(t.e)
                   [] t.k = "struct" -> \E i \in 1..Len(t.fs) : MentionsAS(t.fs[i])
                   [] OTHER -> FALSE
ASCovered == \A k \in PtrKinds : \E c \in BaseByKind[k] : MentionsAS(ResultType(UR, c.kind, c.ops, c.x))
ASSUME ASCovered
SameAsOperand == At2 /\ cs.kind \in UnaryKinds \cup IntBinKinds \cup FPBinKinds \cup {"freeze", "insertelement"} => Res = DC.ops[1]

\* deviation: comparisons and shuffles as implemented (result vector built without `scalable`)
ResAsImplemented ==
  CASE cs.kind \in {"icmp", "fcmp"} /\ DC.ops[1].k = "vec" -> TVec(FALSE, DC.ops[1].n, I1)
    [] cs.kind = "shufflevector" -> TVec(FALSE, DC.ops[3].n, DC.ops[1].e)
    [] OTHER -> Res
ImplAgrees == At2 => ResAsImplemented = Res

\* alias names are transparent: a case and its named spelling have the same required type
NamesTransparent == At2 => Res = Deref(UR, ResultType(UR, DC.kind, DC.ops, DC.x)) /\ Deref(UR, Res) = Res
                           /\ (cs \in BaseByKind[kd] => LET n == DerefCase(NamedCase(cs)) IN
                                  ResultType(UR, n.kind, n.ops, n.x) = ResultType(UR, cs.kind, cs.ops, cs.x))
Out(rec) == Serialize(ToJson(rec) \o "\n", "res_cases.ndjson",
                      [format |-> "TXT", charset |-> "UTF-8",
                       openOptions |-> <<"WRITE", "CREATE", "APPEND">>]).exitValue = 0
EmitOK == Emit =>
            /\ stage = 0 => Out([defs |-> UR])
            /\ At2 => Out([kind |-> cs.kind, form |-> cs.form, ops |-> cs.ops, x |-> cs.x, want |-> Res,
                            sig |-> IF cs.kind \in CallKinds THEN Deref(UR, DC.ops[1].e) ELSE TVoid])
=============================================================================
