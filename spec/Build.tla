------------------------------- MODULE Build -------------------------------
(***************************************************************************)
(* Construction programs over the public builder API of llir/llvm (C03).   *)
(*                                                                         *)
(* A *program* is the abstract state "module under construction": type     *)
(* definitions, declarations / globals (each one constructor call:         *)
(* Module.NewTypeDef, NewGlobal, NewGlobalDef, NewAlias, NewIFunc,         *)
(* NewFunc) and one function under construction with its blocks            *)
(* (Func.NewBlock) and, per block, the instruction constructor calls       *)
(* (Block.NewXxx) in call order and the terminator call.  An instruction   *)
(* call carries the Schema kind, the operand values per Schema slot (refs  *)
(* to parameters, earlier instructions, blocks, globals, or constants      *)
(* built by constant.NewXxx), flags and attributes.  A call is only ever   *)
(* generated when it is well-typed by the Schema typing (SlotTy / ResTy),  *)
(* so the real constructors must accept it.                                *)
(*                                                                         *)
(* Mode "cover": one state per Schema case (every kind x admissible        *)
(*   operand class x named/unnamed, every variant, flag, repetition        *)
(*   count) wrapped into the context the instruction needs to be valid     *)
(*   LLVM (Scaffold), plus every constant expression kind and every        *)
(*   constant form as a global initialiser, plus module-level programs.    *)
(* Mode "mix":  a state machine appending well-typed straight-line         *)
(*   instructions (AddMix) that consume parameters, constants and earlier  *)
(*   results; explored exhaustively to MaxSteps or with -simulate.         *)
(* Mode "hist": construct -> print -> edit -> print histories (see the     *)
(*   section "hist" below): the function is printed, rewritten through the *)
(*   public API (instruction replaced in place, values named / un-named,   *)
(*   instructions swapped, removed, inserted, terminator replaced, block   *)
(*   added) and printed again; the last print must denote the function as  *)
(*   it is now.  Invariant HistSound.                                      *)
(* Mode "exec": the same for integer code in  define i32 @main()  with a   *)
(*   reference evaluator (two's complement wrap-around on byte sequences,  *)
(*   widths 1/8/16/32/64): every state carries the value every instruction *)
(*   computes; division by zero, signed-division overflow: ub; shift        *)
(*   amounts >= width and violated nuw/nsw/exact: poison.  `want` is the   *)
(*   exit status (return value folded to 8 bits) if the program is         *)
(*   executable (no ub, no poison).                                        *)
(*                                                                         *)
(* Every program state is written to progs.ndjson (Emit); harness/props/   *)
(* c03 replays each through the real API and compares the printed module   *)
(* with the Schema-template rendering under LLVM's own reading, and lli's  *)
(* exit status with `want`.  TLC checks TypeOK-style invariants on the     *)
(* generated programs (ProgWellFormed) and, in exec mode, algebraic laws   *)
(* of the evaluator (EvalLaws) so that the reference is not vacuous.       *)
(***************************************************************************)
EXTENDS Schema, Json, IOUtils, Bitwise

CONSTANTS Mode,        \* "cover" | "mix" | "exec" | "hist"
          MaxSteps,    \* mix / exec: maximal number of appended instructions
          ExecWidths,  \* exec: integer widths used for fresh constants
          ExecExhaustive, \* exec: TRUE = all boundary constants (depth 1), FALSE = random picks
          BoundarySmall   \* exec: TRUE = 7 boundary constants per width, FALSE = 12

----------------------------------------------------------------------------
(* References and constants *)
RParam(i)   == [r |-> "param", i |-> i]
RInst(b, i) == [r |-> "inst", b |-> b, i |-> i]
RTerm(b)    == [r |-> "term", b |-> b]
RBlock(b)   == [r |-> "block", b |-> b]
RFunc(n)    == [r |-> "func", name |-> n]
RConst(c)   == [r |-> "const", c |-> c]
RAsm(ty, cons) == [r |-> "asm", ty |-> ty, cons |-> cons]

CInt(ty, v)  == [c |-> "int", ty |-> ty, v |-> v]
CBytes(ty, bs) == [c |-> "int", ty |-> ty, bytes |-> bs]     \* little-endian bytes (exec mode)
CGRef(name, ty) == [c |-> "gref", name |-> name, ty |-> ty]  \* ty: the pointer type
CSimple(form, ty) == [c |-> form, ty |-> ty]                 \* null undef poison zero none
CExpr(kind, cls, flags, attrs, ty, rty, ops) ==
  [c |-> "expr", kind |-> kind, cls |-> cls, flags |-> flags, attrs |-> attrs, ty |-> ty, rty |-> rty, ops |-> ops]

GI32 == CGRef("gi32", TyPtr(I32))
GI8  == CGRef("gi8", I8Ptr)
FpLits == <<"1.0", "2.5", "-0.5">>

RECURSIVE ConstOf(_, _)
ConstOf(ty, n) ==
  CASE ty.k = "int" -> CInt(ty, IF ty.w = 1 THEN n % 2 ELSE 40 + n)
    [] ty.k = "fp" -> [c |-> "fp", ty |-> ty, v |-> FpLits[(n % 3) + 1]]
    [] ty.k = "ptr" -> IF n % 2 = 1 /\ ty = I8Ptr THEN GI8
                       ELSE IF n % 2 = 1 /\ ty = TyPtr(I32) THEN GI32 ELSE CSimple("null", ty)
    [] ty.k = "vec" -> IF ty.sc THEN CSimple(IF n % 2 = 0 THEN "zero" ELSE "undef", ty)
                       ELSE [c |-> "vec", ty |-> ty, es |-> [i \in 1..ty.n |-> ConstOf(ty.e, n + i)]]
    [] ty.k = "arr" -> [c |-> "arr", ty |-> ty, es |-> [i \in 1..ty.n |-> ConstOf(ty.e, n + i)]]
    [] ty.k = "struct" -> [c |-> "struct", ty |-> ty, es |-> [i \in 1..Len(ty.fs) |-> ConstOf(ty.fs[i], n + i)]]
    [] ty.k = "named" -> [c |-> "struct", ty |-> ty, es |-> [i \in 1..Len(ty.body.fs) |-> ConstOf(ty.body.fs[i], n + i)]]
    [] OTHER -> CSimple("none", ty)

\* a constant LLVM cannot fold (it depends on the address of @gi32)
RECURSIVE Opaque(_)
Opaque(ty) ==
  CASE ty.k = "int" -> CExpr("ptrtoint", "ptr", <<>>, NoAttrs, ty, ty, <<GI32>>)
    [] ty.k = "fp" -> CExpr("bitcast", "i32", <<>>, NoAttrs, ty, ty, <<Opaque(IF ty.fp = "float" THEN I32 ELSE I64)>>)
    [] ty.k = "ptr" -> IF ty = TyPtr(I32) THEN GI32 ELSE CExpr("bitcast", "ptr", <<>>, NoAttrs, ty, ty, <<GI32>>)
    [] ty.k = "vec" /\ ~ty.sc -> [c |-> "vec", ty |-> ty, es |-> [i \in 1..ty.n |-> IF i = 1 THEN Opaque(ty.e) ELSE ConstOf(ty.e, i)]]
    [] OTHER -> ConstOf(ty, 1)

\* mask of a shufflevector whose operands have oplen elements; form: "" (element list), undef, poison, zero
MaskConst(ty, n, oplen, form) ==
  IF form # "" THEN CSimple(form, ty)
  ELSE IF ty.sc THEN CSimple(IF n % 2 = 0 THEN "zero" ELSE "undef", ty)
  ELSE [c |-> "vec", ty |-> ty, es |-> [i \in 1..ty.n |-> CInt(I32, (n + i) % (2 * oplen))]]

\* an index constant of scalar or vector type
IndexConst(ty, v) == IF ty.k = "vec" THEN [c |-> "vec", ty |-> ty, es |-> [i \in 1..ty.n |-> CInt(ty.e, v)]] ELSE CInt(ty, v)
\* a constant expression of type ty that LLVM cannot fold away
ExprOf(ty) ==
  CASE ty = TyPtr(I32) -> CExpr("getelementptr", "i32", <<>>, NoAttrs, I32, ty, <<GI32, CInt(I64, 1)>>)
    [] ty.k = "vec" /\ ty.e.k = "int" -> CExpr("add", "vec", <<>>, NoAttrs, TyVoid, ty, <<Opaque(ty), ConstOf(ty, 1)>>)
    [] ty.k = "vec" /\ ty.e.k = "fp" -> CExpr("fneg", "fvec", <<>>, NoAttrs, TyVoid, ty, <<Opaque(ty)>>)
    [] OTHER -> Opaque(ty)
\* the constant of value class vc (Schema.tla, VClasses) and type ty
ClassConst(ty, vc, n) ==
  CASE vc = "lit0" -> IndexConst(ty, 0)
    [] vc = "lit1" -> IndexConst(ty, 1)
    [] vc = "lit" -> ConstOf(ty, n)
    [] vc \in {"null", "undef", "poison", "zero"} -> CSimple(vc, ty)
    [] vc = "global" -> CGRef("gv", ty)
    [] vc = "expr" -> ExprOf(ty)
    [] vc = "blockaddr" -> [c |-> "blockaddress", f |-> "f", b |-> 2]

\* constant for operand k of case c (op: the operand record)
SlotConst(c, op, k) ==
  CASE op.vc # "" -> ClassConst(op.ty, op.vc, k)
    [] op.slot = "Mask" -> MaskConst(op.ty, k, IF Has(c, "T") /\ Has(c.T, "n") THEN c.T.n ELSE op.ty.n,
                                     IF Has(c, "attrs") /\ Has(c.attrs, "maskform") THEN c.attrs.maskform ELSE "")
    [] op.slot = "Indices" -> IndexConst(op.ty, IF op.cv >= 0 THEN op.cv ELSE 0)
    [] op.slot = "Index" -> CInt(op.ty, 1)
    [] OTHER -> ConstOf(op.ty, op.i)

----------------------------------------------------------------------------
(* Instruction calls *)
EntryOf(c) == IF c.cat = "cexpr" THEN CExprs[CHOOSE i \in 1..NCExprs : CExprs[i].kind = c.kind] ELSE KindOf(c.kind)

MkInst(c, name, vals) ==
  [kind |-> c.kind, cat |-> c.cat, cls |-> c.cls, cfg |-> c.cfg, name |-> name, flags |-> c.flags, attrs |-> c.attrs,
   ty |-> c.ty, idx |-> c.idx, wrap |-> c.wrap, res |-> c.res,
   ops |-> [i \in 1..Len(c.ops) |-> [v |-> vals[i]] @@ c.ops[i]]]

Simple(kind, cls, cnt, fl, name, vals) ==
  MkInst(MkCase(KindOf(kind), "scaffold", cls, [cnt |-> cnt, bund |-> <<>>], fl, DefAttrs(KindOf(kind)), TRUE, FALSE), name, vals)
RetVoid       == Simple("ret", "i32", <<0>>, <<>>, "", <<>>)
RetVal(ty, v) == LET i == Simple("ret", "i32", <<1>>, <<>>, "", <<v>>) IN [i EXCEPT !.ops = <<[i.ops[1] EXCEPT !.ty = ty]>>]
Unreachable   == Simple("unreachable", "none", <<>>, <<>>, "", <<>>)
Br(b)         == Simple("br", "none", <<1>>, <<>>, "", <<RBlock(b)>>)
CondBr(v, t, f) == Simple("condbr", "none", <<1, 1, 1>>, <<>>, "", <<v, RBlock(t), RBlock(f)>>)
InvokeH(n, u) == Simple("invoke", "void", <<1, 0, 0, 1, 1>>, <<>>, "", <<RFunc("h"), RBlock(n), RBlock(u)>>)
LPadCleanup(nm) == Simple("landingpad", "lp", <<0>>, <<"cleanup">>, nm, <<>>)
CatchSwitch1(nm, h) == Simple("catchswitch", "none", <<1, 1, 0>>, <<>>, nm, <<RConst(CSimple("none", TyToken)), RBlock(h)>>)
CatchPad0(nm, cs) == Simple("catchpad", "none", <<1, 0>>, <<>>, nm, <<RTerm(cs)>>)
CleanupPad0(nm) == Simple("cleanuppad", "none", <<1, 0>>, <<>>, nm, <<RConst(CSimple("none", TyToken))>>)
CatchRet(cp, b) == Simple("catchret", "none", <<1, 1>>, <<>>, "", <<cp, RBlock(b)>>)
CleanupRetCaller(cp) == Simple("cleanupret", "none", <<1, 0>>, <<>>, "", <<cp>>)

Blk(name, insts, term) == [name |-> name, insts |-> insts, term |-> term]
\* the same call with every operand and the result of (named) type ty
Retyped(i, ty) == [i EXCEPT !.ops = [k \in 1..Len(i.ops) |-> [i.ops[k] EXCEPT !.ty = ty]], !.res = ty]
MyInt   == TyNamed("myint", I64)
MyInt32 == TyNamed("myint32", I32)
MyPtr   == TyNamed("myptr", TyPtr(I32))
MyArr   == TyNamed("myarr", TyArr(2, I32))
MyVec   == TyNamed("myvec", TyVec(2, I32))
MyFn    == TyNamed("myfn", TyFunc(TyVoid, <<I32>>, FALSE))
\* a use of a result: freeze accepts every first-class type, so printing it shows the type the
\* library derived for the operand and LLVM checks it against the type of the definition
UseOf(ty, ref, name) ==
  LET i == Simple("freeze", "i32", <<1>>, <<>>, name, <<ref>>)
  IN [i EXCEPT !.ops = <<[i.ops[1] EXCEPT !.ty = ty]>>, !.res = ty]
Usable(ty) == ty.k \notin {"void", "token", "label"}

DeclFunc(name, ty) == [op |-> "NewFunc", name |-> name, ty |-> ty]       \* declaration; ty: pointer to function type
DeclGlobal(name, ty) == [op |-> "NewGlobal", name |-> name, ty |-> ty, as |-> 0]   \* external global of content type ty (as: address space)
DefGlobal(name, ty, init) == [op |-> "NewGlobalDef", name |-> name, ty |-> ty, init |-> init]
HTy == TyPtr(TyFunc(TyVoid, <<>>, FALSE))
PersTy == TyPtr(TyFunc(I32, <<>>, TRUE))
BaseDecls == <<DeclGlobal("gi32", I32), DeclGlobal("gi8", I8), DeclFunc("h", HTy), DeclFunc("pers", PersTy)>>

RECURSIVE CollectNamed(_)
\* named struct types occurring in a type
CollectNamed(t) ==
  CASE t.k = "named" -> {t}
    [] t.k \in {"ptr", "vec", "arr"} -> CollectNamed(t.e)
    [] t.k = "struct" -> UNION {CollectNamed(t.fs[i]) : i \in 1..Len(t.fs)}
    [] t.k = "func" -> CollectNamed(t.ret) \cup UNION {CollectNamed(t.ps[i]) : i \in 1..Len(t.ps)}
    [] OTHER -> {}

Prog(id, fam, decls, fn) == [id |-> id, fam |-> fam, decls |-> decls, fn |-> fn, exec |-> FALSE, ub |-> FALSE, want |-> 0]
Fn(name, ret, params, pers, blocks) == [name |-> name, ret |-> ret, params |-> params, pers |-> pers, blocks |-> blocks]
NoFn == Fn("", TyVoid, <<>>, FALSE, <<>>)

----------------------------------------------------------------------------
(* Mode "cover": scaffolds *)
CountTo(ops, k, src) == Cardinality({j \in 1..k : ops[j].src = src})
AnyOps(ops) == SelectSeq(ops, LAMBDA o : o.src = "any")

RECURSIVE VcId(_, _)
VcId(ops, k) == IF k > Len(ops) THEN "" ELSE (IF ops[k].vc # "" THEN "/" \o ops[k].slot \o ToString(ops[k].i) \o "=" \o ops[k].vc ELSE "") \o VcId(ops, k + 1)
CaseId(c) == c.cat \o ":" \o c.kind \o "/" \o c.fam \o "/" \o c.cls \o "/" \o ToString(c.cfg.cnt) \o ToString(c.cfg.bund) \o ToString(c.idx)
             \o "/" \o ToString(c.flags) \o "/" \o ToString(c.attrs) \o (IF c.named THEN "/n" ELSE "/u") \o (IF c.wrap THEN "/w" ELSE "")
             \o VcId(c.ops, 1)

\* callbr: the callee is inline asm and every indirect destination must be passed as a blockaddress argument
CallbrOK(c) == c.kind # "callbr" \/ c.cfg.cnt[2] = c.cfg.cnt[5]
CallbrFix(c) ==
  LET n == c.cfg.cnt[2]
      fty == TyPtr(TyFunc(Concrete[c.cls], [i \in 1..n |-> I8Ptr], FALSE))
  IN [c EXCEPT !.ops = [k \in 1..Len(c.ops) |->
        IF c.ops[k].role = "arg" THEN [c.ops[k] EXCEPT !.ty = I8Ptr, !.src = "const"]
        ELSE IF c.ops[k].role = "callee" THEN [c.ops[k] EXCEPT !.ty = fty] ELSE c.ops[k]]]
AsmCons(c) == LET n == c.cfg.cnt[2]
                  xs == IF n = 0 THEN "" ELSE IF n = 1 THEN "X" ELSE "X,X"
              IN IF c.cls = "void" THEN xs ELSE IF n = 0 THEN "=r" ELSE "=r," \o xs

\* pointer operands in address space 1 that are to come from an alloca / a global of that address space
PtrSrcFix(c) ==
  IF Has(c.attrs, "ptrsrc") /\ c.attrs.ptrsrc # "param"
  THEN [c EXCEPT !.ops = [k \in 1..Len(c.ops) |->
          IF c.ops[k].src = "any" /\ c.ops[k].ty.k = "ptr" /\ c.ops[k].ty.as = 1
          THEN [c.ops[k] EXCEPT !.src = c.attrs.ptrsrc] ELSE c.ops[k]]]
  ELSE c
AllocaAS1(cls, name) ==
  MkInst(MkCase(KindOf("alloca"), "scaffold", cls, [cnt |-> <<0>>, bund |-> <<>>], <<>>, [addrspace |-> "1"], TRUE, FALSE), name, <<>>)

\* the global an operand of value class "global" refers to
GvDecl(ops) == IF \E k \in 1..Len(ops) : ops[k].vc = "global"
               THEN <<DeclGlobal("gv", ops[CHOOSE k \in 1..Len(ops) : ops[k].vc = "global"].ty.e)>> ELSE <<>>

Scaffold(c0) ==
  LET c == IF c0.kind = "callbr" THEN CallbrFix(c0) ELSE PtrSrcFix(c0)
      e == EntryOf(c)
      ops == c.ops
      nm(s) == IF c.named THEN s ELSE ""
      rname == IF c.res = TyVoid THEN "" ELSE nm("r")
      anys == AnyOps(ops)
      extra == IF e.ctx = "phi" /\ c.cfg.cnt[1] = 2 THEN <<I1>> ELSE <<>>       \* phi with two predecessors: branch condition
      params == [i \in 1..Len(anys) |-> [name |-> nm("p" \o ToString(i)), ty |-> anys[i].ty]]
                \o [i \in 1..Len(extra) |-> [name |-> nm("c"), ty |-> extra[i]]]
      calleeTy == IF \E k \in 1..Len(ops) : ops[k].role = "callee"
                  THEN ops[CHOOSE k \in 1..Len(ops) : ops[k].role = "callee"].ty ELSE HTy
      \* first block index of the blocks that are branch targets, and pad operands, by context
      base == CASE e.ctx \in {"labels", "indirectbr", "invoke", "callbr"} -> 1
                [] e.ctx = "catchswitch" -> 3
                [] e.ctx = "cleanupret" -> 3
                [] OTHER -> 0
      padRef(op) == CASE op.src = "pad" -> RConst(CSimple("none", TyToken))
                      [] op.src = "catchswitch" -> RTerm(3)
                      [] op.src = "catchpad" -> RInst(4, 1)
                      [] op.src = "cleanuppad" -> RInst(3, 1)
      nblk == CountTo(ops, Len(ops), "block")
      nb0 == CASE e.ctx = "invoke" -> 3 [] e.ctx = "callbr" -> 1 + nblk [] OTHER -> 1      \* blocks of the context
      val(k) == LET op == ops[k] IN
                CASE op.src = "any" -> RParam(CountTo(ops, k, "any"))
                  [] op.src = "const" -> IF c.kind = "callbr" /\ op.role = "arg"
                                         THEN RConst([c |-> "blockaddress", f |-> "f", b |-> 2 + op.i])
                                         ELSE RConst(SlotConst(c, op, k))
                  [] op.src = "block" -> IF e.ctx = "phi" THEN RBlock(1 + op.i)
                                         ELSE IF e.ctx = "catchret" THEN RBlock(2)
                                         ELSE RBlock(base + CountTo(ops, k, "block"))
                  [] op.src = "func" -> IF c.kind = "callbr" THEN RAsm(op.ty, AsmCons(c)) ELSE RFunc("callee")
                  [] op.src = "alloca" -> RInst(1, 1)
                  [] op.src = "global" -> RConst(CGRef("gas", op.ty))
                  \* a block passed as a value: an extra block after those the context needs
                  [] op.src = "blockval" -> RBlock(nb0 + CountTo(ops, k, "blockval"))
                  [] OTHER -> padRef(op)
      xblocks == [j \in 1..CountTo(ops, Len(ops), "blockval") |-> Blk(nm("x" \o ToString(j)), <<>>, RetVoid)]
      I == MkInst(c, rname, [k \in 1..Len(ops) |-> val(k)])
      targets == [j \in 1..nblk |-> Blk(nm("t" \o ToString(j)), <<>>, RetVoid)]
      \* the instruction under test followed by a use of its result, in block b
      pre == IF \E k \in 1..Len(ops) : ops[k].src = "alloca" THEN <<AllocaAS1(c.cls, nm("al"))>> ELSE <<>>
      withUse(b) == pre \o (IF Usable(c.res) THEN <<I, UseOf(c.res, RInst(b, Len(pre) + 1), nm("u"))>> ELSE <<I>>)
      body == IF e.cat = "term" THEN <<>> ELSE withUse(1)
      term == IF e.cat = "term" THEN I ELSE RetVoid
      nh == IF e.ctx = "catchswitch" THEN c.cfg.cnt[2] ELSE 0
      blocks0 ==
        CASE e.ctx \in {"plain", "ret", "resume"} -> <<Blk(nm("entry"), body, term)>>
          [] e.ctx \in {"labels", "indirectbr", "callbr"} -> <<Blk(nm("entry"), <<>>, I)>> \o targets
          [] e.ctx = "phi" ->
               IF c.cfg.cnt[1] = 1
               THEN <<Blk(nm("entry"), <<>>, Br(2)), Blk(nm("q1"), <<>>, Br(3)), Blk(nm("m"), withUse(3), RetVoid)>>
               ELSE <<Blk(nm("entry"), <<>>, CondBr(RParam(Len(params)), 2, 3)), Blk(nm("q1"), <<>>, Br(4)),
                      Blk(nm("q2"), <<>>, Br(4)), Blk(nm("m"), withUse(4), RetVoid)>>
          [] e.ctx = "invoke" -> <<Blk(nm("entry"), <<>>, I), Blk(nm("t1"), <<>>, RetVoid),
                                   Blk(nm("t2"), <<LPadCleanup(nm("l"))>>, RetVoid)>>
          [] e.ctx = "landingpad" -> <<Blk(nm("entry"), <<>>, InvokeH(2, 3)), Blk(nm("t1"), <<>>, RetVoid), Blk(nm("t2"), withUse(3), RetVoid)>>
          [] e.ctx = "catchswitch" ->
               <<Blk(nm("entry"), <<>>, InvokeH(2, 3)), Blk(nm("t1"), <<>>, RetVoid), Blk(nm("cs"), <<>>, I)>>
               \o [j \in 1..nh |-> Blk(nm("h" \o ToString(j)), <<CatchPad0(nm("cp" \o ToString(j)), 3)>>, CatchRet(RInst(3 + j, 1), 2))]
               \o (IF c.cfg.cnt[3] = 1 THEN <<Blk(nm("uw"), <<CleanupPad0(nm("cl"))>>, CleanupRetCaller(RInst(4 + nh, 1)))>> ELSE <<>>)
          [] e.ctx = "catchpad" ->
               <<Blk(nm("entry"), <<>>, InvokeH(2, 3)), Blk(nm("t1"), <<>>, RetVoid), Blk(nm("cs"), <<>>, CatchSwitch1(nm("s"), 4)),
                 Blk(nm("h1"), <<I>>, CatchRet(RInst(4, 1), 2))>>
          [] e.ctx = "catchret" ->
               <<Blk(nm("entry"), <<>>, InvokeH(2, 3)), Blk(nm("t1"), <<>>, RetVoid), Blk(nm("cs"), <<>>, CatchSwitch1(nm("s"), 4)),
                 Blk(nm("h1"), <<CatchPad0(nm("cp"), 3)>>, I)>>
          [] e.ctx = "cleanuppad" ->
               <<Blk(nm("entry"), <<>>, InvokeH(2, 3)), Blk(nm("t1"), <<>>, RetVoid), Blk(nm("cl"), <<I>>, CleanupRetCaller(RInst(3, 1)))>>
          [] e.ctx = "cleanupret" ->
               <<Blk(nm("entry"), <<>>, InvokeH(2, 3)), Blk(nm("t1"), <<>>, RetVoid), Blk(nm("cl"), <<CleanupPad0(nm("cp"))>>, I)>>
               \o (IF c.cfg.cnt[2] = 1 THEN <<Blk(nm("uw"), <<CleanupPad0(nm("cq"))>>, CleanupRetCaller(RInst(4, 1)))>> ELSE <<>>)
      blocks == blocks0 \o xblocks
      ret == IF e.ctx = "ret" /\ c.cfg.cnt[1] = 1 THEN c.T ELSE TyVoid
      pers == e.ctx \in {"invoke", "landingpad", "resume", "catchswitch", "catchpad", "catchret", "cleanuppad", "cleanupret"}
      decls == BaseDecls \o (IF \E k \in 1..Len(ops) : ops[k].src = "func" /\ c.kind # "callbr"
                             THEN <<DeclFunc("callee", calleeTy)>> ELSE <<>>)
                         \o (IF \E k \in 1..Len(ops) : ops[k].src = "global"
                             THEN <<[DeclGlobal("gas", ops[CHOOSE k \in 1..Len(ops) : ops[k].src = "global"].ty.e) EXCEPT !.as = 1]>> ELSE <<>>)
                         \o GvDecl(ops)
  IN Prog(CaseId(c), "cover", decls, Fn("f", ret, params, pers, blocks))

\* constant expression case: @r = global <result type> <expr>, first operand unfoldable
CExprProg(c) ==
  LET e == EntryOf(c)
      inAS1 == Has(c.attrs, "ptras")          \* getelementptr from a global in address space 1
      vals == [k \in 1..Len(c.ops) |->
                 IF c.ops[k].vc # "" THEN SlotConst(c, c.ops[k], k)
                 ELSE IF k = 1 /\ inAS1 THEN CGRef("gas", c.ops[k].ty)
                 ELSE IF k = 1 /\ c.ops[k].slot # "Cond" THEN Opaque(c.ops[k].ty)
                 ELSE IF c.ops[k].slot = "Cond" THEN
                        (IF c.ops[k].ty = I1 THEN CExpr("icmp", "i32", <<>>, [pred |-> "eq"], TyVoid, I1, <<Opaque(I32), CInt(I32, 7)>>)
                         ELSE ConstOf(c.ops[k].ty, k))
                 ELSE IF c.kind = "select" THEN (IF k = 2 THEN Opaque(c.ops[k].ty) ELSE ConstOf(c.ops[k].ty, k))
                 ELSE SlotConst(c, c.ops[k], k)]
      x == CExpr(c.kind, c.cls, c.flags, c.attrs, c.ty, c.res, vals)
  IN Prog(CaseId(c), "cexpr",
          BaseDecls \o (IF inAS1 THEN <<[DeclGlobal("gas", c.ops[1].ty.e) EXCEPT !.as = 1]>> ELSE <<>>) \o GvDecl(c.ops) \o <<DefGlobal("r", c.res, x)>>, NoFn)

\* every constant form as a global initialiser; each entry: <<tag, constant>>
\* (floating-point values are exactly representable in their type: rounding of literals is C10's subject;
\*  LLVM does not allow scalable vectors in globals)
I128 == TyInt(128)
Z(n) == [i \in 1..n |-> 0]
FF(n) == [i \in 1..n |-> 255]
ConstForms == <<
  <<"i1-true", CInt(I1, 1)>>, <<"i1-false", CInt(I1, 0)>>, <<"i8-neg", CInt(I8, -1)>>, <<"i8-max", CInt(I8, 127)>>,
  <<"i32-min1", CInt(I32, -2147483647)>>, <<"i32-zero", CInt(I32, 0)>>, <<"i64-pos", CInt(I64, 2147483647)>>,
  <<"i64-max", CBytes(I64, <<255, 255, 255, 255, 255, 255, 255, 127>>)>>, <<"i64-min", CBytes(I64, <<0, 0, 0, 0, 0, 0, 0, 128>>)>>,
  <<"i32-min", CBytes(I32, <<0, 0, 0, 128>>)>>, <<"i16", CBytes(I16, <<52, 18>>)>>,
  \* wide integers around 2^64 (values a 64-bit machine word cannot hold), little-endian bytes
  <<"i128-2p64", CBytes(I128, Z(8) \o <<1>> \o Z(7))>>, <<"i128-5x2p64", CBytes(I128, Z(8) \o <<5>> \o Z(7))>>,
  <<"i128-2p64-1", CBytes(I128, FF(8) \o Z(8))>>, <<"i128-2p64+1", CBytes(I128, <<1>> \o Z(7) \o <<1>> \o Z(7))>>,
  <<"i128-2p100", CBytes(I128, Z(12) \o <<16>> \o Z(3))>>, <<"i128-max", CBytes(I128, FF(15) \o <<127>>)>>,
  <<"i128-min", CBytes(I128, Z(15) \o <<128>>)>>, <<"i128-pattern", CBytes(I128, Z(4) \o FF(4) \o Z(4) \o FF(3) \o <<127>>)>>,
  <<"i128-neg2p64", CBytes(I128, Z(8) \o FF(8))>>, <<"i128-neg2p64-1", CBytes(I128, FF(8) \o <<254>> \o FF(7))>>,
  <<"i128-2p63", CBytes(I128, Z(7) \o <<128>> \o Z(8))>>,
  <<"i65-min", CBytes(TyInt(65), Z(8) \o <<1>>)>>, <<"i65-2p63", CBytes(TyInt(65), Z(7) \o <<128, 0>>)>>,
  <<"i65-max", CBytes(TyInt(65), FF(8) \o <<0>>)>>, <<"i96-2p64", CBytes(TyInt(96), Z(8) \o <<1>> \o Z(3))>>,
  \* beyond 128 bits (no machine type holds them), widths that are no multiple of 8, negative values
  <<"i129-2p128-1", CBytes(TyInt(129), FF(16) \o <<0>>)>>, <<"i129-min", CBytes(TyInt(129), Z(16) \o <<1>>)>>,
  <<"i256-2p200", CBytes(TyInt(256), Z(25) \o <<1>> \o Z(6))>>, <<"i256-neg2p130", CBytes(TyInt(256), Z(16) \o <<252>> \o FF(15))>>,
  <<"i256-pattern", CBytes(TyInt(256), FF(8) \o Z(8) \o FF(8) \o Z(7) \o <<64>>)>>,
  <<"float-one", [c |-> "fp", ty |-> F32, v |-> "1.0"]>>, <<"double-neg", [c |-> "fp", ty |-> F64, v |-> "-0.5"]>>,
  <<"double-big", [c |-> "fp", ty |-> F64, v |-> "1e300"]>>, <<"float-frac", [c |-> "fp", ty |-> F32, v |-> "0.15625"]>>,
  <<"double-inexact-decimal", [c |-> "fp", ty |-> F64, v |-> "0.1"]>>, <<"double-zero", [c |-> "fp", ty |-> F64, v |-> "0.0"]>>,
  <<"null-i32p", CSimple("null", TyPtr(I32))>>, <<"null-i8p", CSimple("null", I8Ptr)>>, <<"undef-i32", CSimple("undef", I32)>>,
  <<"undef-vec", CSimple("undef", Concrete.vec)>>, <<"undef-struct", CSimple("undef", PairTy)>>,
  <<"poison-i32", CSimple("poison", I32)>>, <<"poison-fvec", CSimple("poison", Concrete.fvec)>>,
  <<"zero-arr", CSimple("zero", Concrete.arr)>>, <<"zero-struct", CSimple("zero", PairTy)>>,
  <<"zero-vec", CSimple("zero", Concrete.vec)>>, <<"zero-nstruct", CSimple("zero", Concrete.nstruct)>>,
  <<"arr", ConstOf(Concrete.arr, 1)>>, <<"vec", ConstOf(Concrete.vec, 1)>>, <<"fvec", ConstOf(Concrete.fvec, 1)>>,
  <<"struct", ConstOf(PairTy, 1)>>, <<"nstruct", ConstOf(Concrete.nstruct, 1)>>,
  <<"nested", ConstOf(Concrete.nested, 1)>>, <<"pvec", ConstOf(Concrete.pvec, 1)>>, <<"arr-of-struct", ConstOf(TyArr(2, PairTy), 1)>>,
  <<"arr-empty", ConstOf(TyArr(0, I32), 1)>>,
  <<"chars", [c |-> "chars", ty |-> TyArr(3, I8), v |-> "abc"]>>, <<"chars-escapes", [c |-> "chars", ty |-> TyArr(4, I8), v |-> "a\"b\\"]>>,
  <<"gref-global", GI32>>, <<"gref-i8", GI8>>, <<"gref-func", CGRef("h", HTy)>>, <<"no_cfi", [c |-> "no_cfi", name |-> "h", ty |-> HTy]>>
>>
ConstProg(i) == Prog("const:" \o ConstForms[i][1], "const", BaseDecls \o <<DefGlobal("c", ConstForms[i][2].ty, ConstForms[i][2])>>, NoFn)

\* module-level constructors: aliases, ifuncs, type definitions, unnamed globals, constants that need a function
ModuleProgs == <<
  Prog("mod:alias-global", "module", BaseDecls \o <<DefGlobal("g", I32, CInt(I32, 1)), [op |-> "NewAlias", name |-> "a", ty |-> I32, init |-> CGRef("g", TyPtr(I32))]>>, NoFn),
  Prog("mod:alias-func", "module", BaseDecls \o <<[op |-> "NewAlias", name |-> "a", ty |-> HTy.e, init |-> CGRef("f", HTy)]>>,
       Fn("f", TyVoid, <<>>, FALSE, <<Blk("", <<>>, RetVoid)>>)),
  Prog("mod:alias-expr", "module", BaseDecls \o <<DefGlobal("g", Concrete.arr, ConstOf(Concrete.arr, 1)),
        [op |-> "NewAlias", name |-> "a", ty |-> I32,
         init |-> CExpr("getelementptr", "arr", <<"inbounds">>, NoAttrs, Concrete.arr, TyPtr(I32), <<CGRef("g", TyPtr(Concrete.arr)), CInt(I64, 0), CInt(I64, 1)>>)]>>, NoFn),
  Prog("mod:ifunc", "module", BaseDecls \o <<[op |-> "NewIFunc", name |-> "i", ty |-> HTy.e, init |-> CGRef("f", TyPtr(TyFunc(HTy, <<>>, FALSE)))]>>,
       Fn("f", HTy, <<>>, FALSE, <<Blk("", <<>>, RetVal(HTy, RConst(CSimple("null", HTy))))>>)),
  Prog("mod:typedef", "module", BaseDecls \o <<DefGlobal("g", Concrete.nstruct, CSimple("zero", Concrete.nstruct)),
        DeclGlobal("e", TyPtr(Concrete.nstruct))>>, NoFn),
  \* type definitions over fresh non-struct types (Module.NewTypeDef names a type by mutating it: the
  \* harness builds the body with types.NewInt / NewPointer / NewArray / NewVector / NewFunc, as the
  \* documentation of NewTypeDef prescribes); LLVM 14 reads `%t = type i64` as an alias
  Prog("mod:typedef-int", "module", BaseDecls \o <<DefGlobal("g", MyInt, CInt(MyInt, 7))>>,
       Fn("f", MyInt, <<[name |-> "x", ty |-> MyInt]>>, FALSE,
          <<Blk("", <<Retyped(Simple("add", "i64", <<1, 1>>, <<>>, "r", <<RParam(1), RConst(CInt(MyInt, 1))>>), MyInt)>>, RetVal(MyInt, RInst(1, 1)))>>)),
  Prog("mod:typedef-int32", "module", BaseDecls \o <<DefGlobal("g", MyInt32, CInt(MyInt32, 7))>>,
       Fn("f", MyInt32, <<[name |-> "", ty |-> MyInt32]>>, FALSE,
          <<Blk("", <<Retyped(Simple("mul", "i32", <<1, 1>>, <<>>, "", <<RParam(1), RParam(1)>>), MyInt32)>>, RetVal(MyInt32, RInst(1, 1)))>>)),
  Prog("mod:typedef-ptr", "module", BaseDecls \o <<DefGlobal("g", MyPtr, CSimple("null", MyPtr))>>,
       Fn("f", I32, <<[name |-> "p", ty |-> MyPtr]>>, FALSE,
          <<Blk("", <<[Simple("store", "i32", <<1, 1>>, <<>>, "", <<RConst(CInt(I32, 5)), RParam(1)>>) EXCEPT !.ops[2].ty = MyPtr],
                      [Simple("load", "i32", <<1>>, <<>>, "r", <<RParam(1)>>) EXCEPT !.ops[1].ty = MyPtr]>>, RetVal(I32, RInst(1, 2)))>>)),
  Prog("mod:typedef-arr", "module", BaseDecls \o <<DefGlobal("g", MyArr, CSimple("zero", MyArr))>>,
       Fn("f", I32, <<[name |-> "a", ty |-> MyArr]>>, FALSE,
          <<Blk("", <<[Simple("extractvalue", "arr", <<1>>, <<>>, "r", <<RParam(1)>>) EXCEPT !.ops[1].ty = MyArr]>>, RetVal(I32, RInst(1, 1)))>>)),
  Prog("mod:typedef-vec", "module", BaseDecls \o <<DefGlobal("g", MyVec, CSimple("zero", MyVec))>>,
       Fn("f", MyVec, <<[name |-> "v", ty |-> MyVec]>>, FALSE,
          <<Blk("", <<Retyped(Simple("xor", "vec", <<1, 1>>, <<>>, "r", <<RParam(1), RParam(1)>>), MyVec)>>, RetVal(MyVec, RInst(1, 1)))>>)),
  Prog("mod:typedef-func", "module", BaseDecls \o <<DefGlobal("g", TyPtr(MyFn), CSimple("null", TyPtr(MyFn)))>>,
       Fn("f", TyVoid, <<[name |-> "fp", ty |-> TyPtr(MyFn)]>>, FALSE, <<Blk("", <<>>, RetVoid)>>)),
  \* every predeclared type of the types package in one module (the canary of the isolation law)
  Prog("mod:singletons", "module", BaseDecls,
       Fn("f", I64, <<[name |-> "a", ty |-> I1], [name |-> "b", ty |-> I8], [name |-> "c", ty |-> I16], [name |-> "d", ty |-> I32],
                      [name |-> "e", ty |-> I64], [name |-> "g", ty |-> TyInt(128)], [name |-> "h", ty |-> F32], [name |-> "i", ty |-> F64],
                      [name |-> "j", ty |-> I8Ptr], [name |-> "k", ty |-> TyFP("half")]>>, FALSE,
          <<Blk("", <<>>, RetVal(I64, RParam(5)))>>)),
  \* wide constants as instruction operands
  Prog("mod:wide-operands", "module", BaseDecls,
       Fn("f", I128, <<[name |-> "x", ty |-> I128]>>, FALSE,
          <<Blk("", <<Simple("add", "i128", <<1, 1>>, <<>>, "a", <<RParam(1), RConst(CBytes(I128, Z(8) \o <<5>> \o Z(7)))>>),
                      Simple("xor", "i128", <<1, 1>>, <<>>, "b", <<RInst(1, 1), RConst(CBytes(I128, Z(12) \o <<16>> \o Z(3)))>>),
                      Simple("lshr", "i128", <<1, 1>>, <<>>, "c", <<RInst(1, 2), RConst(CInt(I128, 64))>>)>>, RetVal(I128, RInst(1, 3)))>>)),
  Prog("mod:unnamed-globals", "module", <<DefGlobal("", I32, CInt(I32, 1)), DefGlobal("", I8, CInt(I8, 2)), DefGlobal("x", TyPtr(I32), CGRef("0", TyPtr(I32)))>>, NoFn),
  Prog("mod:blockaddress", "module", BaseDecls \o <<DefGlobal("ba", I8Ptr, [c |-> "blockaddress", f |-> "f", b |-> 2])>>,
       Fn("f", TyVoid, <<>>, FALSE, <<Blk("entry", <<>>, Br(2)), Blk("t", <<>>, RetVoid)>>)),
  \* the target of a blockaddress is an unnamed block (numbered after an unnamed parameter): the block
  \* numbers must be assigned before the global initialiser is printed
  Prog("mod:blockaddress-unnamed", "module", BaseDecls \o <<DefGlobal("ba", I8Ptr, [c |-> "blockaddress", f |-> "f", b |-> 2]),
                                                              DefGlobal("bb", I8Ptr, [c |-> "blockaddress", f |-> "f", b |-> 3])>>,
       Fn("f", TyVoid, <<[name |-> "", ty |-> I32]>>, FALSE, <<Blk("", <<>>, Br(2)), Blk("", <<>>, Br(3)), Blk("", <<>>, RetVoid)>>)),
  Prog("mod:dso_local_equivalent", "module", BaseDecls,
       Fn("f", HTy, <<>>, FALSE, <<Blk("", <<>>, RetVal(HTy, RConst([c |-> "dso_local_equivalent", name |-> "h", ty |-> HTy])))>>)),
  Prog("mod:unnamed-func-params", "module", BaseDecls,
       Fn("f", I32, <<[name |-> "", ty |-> I32], [name |-> "x", ty |-> I32], [name |-> "", ty |-> I32]>>, FALSE,
          <<Blk("", <<MkInst(MkCase(KindOf("add"), "scaffold", "i32", DefaultCfg(KindOf("add"), "i32"), <<>>, NoAttrs, TRUE, FALSE), "", <<RParam(1), RParam(3)>>)>>,
                RetVal(I32, RInst(1, 1)))>>))
>>

\* Unnamed globals of all four kinds.  LLVM numbers unnamed global values in the order they are printed
\* (variables, aliases, ifuncs, functions); the API lets them be attached in any order.  The core
\* entities g1 (variable), g2 (variable pointing to g1), a (alias of g1), d (declared function), f (the
\* defined function, returning d; resolver of i), i (ifunc) are created in every order that respects
\* "referenced object first" (40 orders), followed by a second entity of each kind that refers back
\* into the core.  A reference is the index of the creating call (CGRefIdx), never a number: the
\* harness numbers the entities itself, in print order.
CGRefIdx(k, ty) == [c |-> "gref", name |-> "", idx |-> k, ty |-> ty]
UEnts == {"g1", "g2", "a", "d", "f", "i"}
UOrders == {o \in [1..6 -> UEnts] :
              /\ \A x, y \in 1..6 : x # y => o[x] # o[y]
              /\ \A x, y \in 1..6 : (o[x] = "g1" /\ o[y] \in {"g2", "a"}) \/ (o[x] = "d" /\ o[y] = "f") \/ (o[x] = "f" /\ o[y] = "i") => x < y}
ResolverTy == TyPtr(TyFunc(HTy, <<>>, FALSE))
UnnamedProg(o) ==
  LET pos(en) == CHOOSE x \in 1..6 : o[x] = en
      decl(en) ==
        CASE en = "g1" -> DefGlobal("", I32, CInt(I32, 1))
          [] en = "g2" -> DefGlobal("", TyPtr(I32), CGRefIdx(pos("g1"), TyPtr(I32)))
          [] en = "a"  -> [op |-> "NewAlias", name |-> "", ty |-> I32, init |-> CGRefIdx(pos("g1"), TyPtr(I32))]
          [] en = "d"  -> DeclFunc("", HTy)
          [] en = "f"  -> [op |-> "DefFunc", name |-> "", ty |-> TyVoid]
          [] en = "i"  -> [op |-> "NewIFunc", name |-> "", ty |-> HTy.e, init |-> CGRefIdx(pos("f"), ResolverTy)]
      tail == <<DefGlobal("", TyPtr(I32), CGRefIdx(pos("a"), TyPtr(I32))),                                   \* 7: variable -> alias
                [op |-> "NewAlias", name |-> "", ty |-> TyPtr(I32), init |-> CGRefIdx(pos("g2"), TyPtr(TyPtr(I32)))],  \* 8: alias of g2
                DeclFunc("", TyPtr(TyFunc(I32, <<I32>>, FALSE))),                                              \* 9: declared function
                [op |-> "NewIFunc", name |-> "", ty |-> HTy.e, init |-> CGRefIdx(pos("f"), ResolverTy)],      \* 10: second ifunc
                DefGlobal("", TyPtr(TyFunc(I32, <<I32>>, FALSE)), CGRefIdx(9, TyPtr(TyFunc(I32, <<I32>>, FALSE))))>>  \* 11: variable -> 9
  IN Prog("mod:unnamed/" \o ToString(o), "module", [x \in 1..6 |-> decl(o[x])] \o tail,
          Fn("", HTy, <<>>, FALSE, <<Blk("", <<>>, RetVal(HTy, RConst(CGRefIdx(pos("d"), HTy))))>>))

CoverKinds == Kinds \o CExprs
\* the config family is exercised by C15; C03 replays it as well (every repetition count prints validly)
\* (the arguments of a callbr are the blockaddresses of its destinations: no value classes there)
CoverCases(e) == {c \in Cases(e) : c.fam \notin {"wrap", "alias"} /\ CallbrOK(c) /\ ~(c.kind = "callbr" /\ c.cfg.bund # <<>> /\ Len(c.cfg.bund) > 1)
                                   /\ ~(c.kind = "callbr" /\ \E j \in 1..Len(c.ops) : c.ops[j].role = "arg" /\ c.ops[j].vc # "")}
CoverProg(c) == IF c.cat = "cexpr" THEN CExprProg(c) ELSE Scaffold(c)

----------------------------------------------------------------------------
(* Reference evaluator: integers as little-endian byte sequences *)
NBytes(w) == IF w = 1 THEN 1 ELSE w \div 8
TopMask(w) == IF w = 1 THEN 1 ELSE 255
BZero(w) == [i \in 1..NBytes(w) |-> 0]
BOnes(w) == [i \in 1..NBytes(w) |-> TopMask(w)]
BOne(w) == [i \in 1..NBytes(w) |-> IF i = 1 THEN 1 ELSE 0]
BOfNat(w, n) == [i \in 1..NBytes(w) |-> IF w = 1 THEN n % 2 ELSE IF i > 4 THEN 0 ELSE (n \div (256 ^ (i - 1))) % 256]   \* 0 <= n < 2^31
Pow2(n) == 2 ^ n

RECURSIVE AddC(_, _, _, _, _)
AddC(a, b, i, carry, w) == IF i > Len(a) THEN <<>>
                           ELSE LET t == a[i] + b[i] + carry IN <<t % (TopMask(w) + 1)>> \o AddC(a, b, i + 1, t \div (TopMask(w) + 1), w)
RECURSIVE CarryOut(_, _, _, _, _)
CarryOut(a, b, i, carry, w) == IF i > Len(a) THEN carry ELSE CarryOut(a, b, i + 1, (a[i] + b[i] + carry) \div (TopMask(w) + 1), w)
BAdd(a, b, w) == AddC(a, b, 1, 0, w)
BNot(a, w) == [i \in 1..Len(a) |-> TopMask(w) - a[i]]
BNeg(a, w) == BAdd(BNot(a, w), BOne(w), w)
BSub(a, b, w) == BAdd(a, BNeg(b, w), w)
RECURSIVE ColSum(_, _, _, _)
ColSum(a, b, k, i) == IF i > k THEN 0 ELSE a[i] * b[k + 1 - i] + ColSum(a, b, k, i + 1)
RECURSIVE MulC(_, _, _, _)
MulC(a, b, k, carry) == IF k > Len(a) THEN <<>>
                        ELSE LET t == ColSum(a, b, k, 1) + carry IN <<t % 256>> \o MulC(a, b, k + 1, t \div 256)
BMul(a, b, w) == IF w = 1 THEN <<a[1] * b[1]>> ELSE MulC(a, b, 1, 0)
BAnd(a, b) == [i \in 1..Len(a) |-> a[i] & b[i]]
BOr(a, b)  == [i \in 1..Len(a) |-> a[i] | b[i]]
BXor(a, b) == [i \in 1..Len(a) |-> a[i] ^^ b[i]]
SignBit(a, w) == IF w = 1 THEN a[1] ELSE a[Len(a)] \div 128
\* extension / truncation between widths
ZExt(a, w, w2) == [i \in 1..NBytes(w2) |-> IF i <= Len(a) THEN a[i] ELSE 0]
SExt(a, w, w2) == IF w = 1 THEN (IF a[1] = 1 THEN BOnes(w2) ELSE BZero(w2))
                  ELSE [i \in 1..NBytes(w2) |-> IF i <= Len(a) THEN a[i] ELSE IF SignBit(a, w) = 1 THEN 255 ELSE 0]
Trunc(a, w2) == IF w2 = 1 THEN <<a[1] % 2>> ELSE [i \in 1..NBytes(w2) |-> a[i]]
\* bits (least significant first)
ToBits(a, w) == [i \in 1..w |-> (a[((i - 1) \div 8) + 1] \div Pow2((i - 1) % 8)) % 2]
RECURSIVE BitsByte(_, _, _, _)
BitsByte(bits, j, t, w) == IF t > 7 \/ 8 * (j - 1) + t + 1 > w THEN 0 ELSE bits[8 * (j - 1) + t + 1] * Pow2(t) + BitsByte(bits, j, t + 1, w)
FromBits(bits, w) == [j \in 1..NBytes(w) |-> BitsByte(bits, j, 0, w)]
\* small naturals: only when the value fits 31 bits
RECURSIVE ToNatFrom(_, _)
ToNatFrom(a, i) == IF i > Len(a) THEN 0 ELSE a[i] + 256 * ToNatFrom(a, i + 1)
FitsNat(a) == Len(a) <= 3 \/ ((\A i \in 5..Len(a) : a[i] = 0) /\ a[4] < 128)
ToNat(a) == ToNatFrom(a, 1)
\* shift amount: value if < w, else -1
ShAmt(b, w) == IF FitsNat(b) /\ ToNat(b) < w THEN ToNat(b) ELSE -1
BShl(a, s, w)  == LET bits == ToBits(a, w) IN FromBits([i \in 1..w |-> IF i - s >= 1 THEN bits[i - s] ELSE 0], w)
BLShr(a, s, w) == LET bits == ToBits(a, w) IN FromBits([i \in 1..w |-> IF i + s <= w THEN bits[i + s] ELSE 0], w)
BAShr(a, s, w) == LET bits == ToBits(a, w) IN FromBits([i \in 1..w |-> IF i + s <= w THEN bits[i + s] ELSE bits[w]], w)
\* comparisons
RECURSIVE ULessFrom(_, _, _)
ULessFrom(a, b, i) == IF i = 0 THEN FALSE ELSE IF a[i] # b[i] THEN a[i] < b[i] ELSE ULessFrom(a, b, i - 1)
ULess(a, b) == ULessFrom(a, b, Len(a))
FlipSign(a, w) == IF w = 1 THEN <<1 - a[1]>> ELSE [a EXCEPT ![Len(a)] = (a[Len(a)] + 128) % 256]
SLess(a, b, w) == ULess(FlipSign(a, w), FlipSign(b, w))
ICmp(p, a, b, w) ==
  CASE p = "eq" -> a = b      [] p = "ne" -> a # b
    [] p = "ult" -> ULess(a, b)  [] p = "ule" -> ~ULess(b, a)  [] p = "ugt" -> ULess(b, a)  [] p = "uge" -> ~ULess(a, b)
    [] p = "slt" -> SLess(a, b, w) [] p = "sle" -> ~SLess(b, a, w) [] p = "sgt" -> SLess(b, a, w) [] p = "sge" -> ~SLess(a, b, w)
BBool(x) == IF x THEN <<1>> ELSE <<0>>
\* division for widths <= 16 on naturals / integers
ToInt(a, w) == IF SignBit(a, w) = 1 THEN ToNat(a) - Pow2(w) ELSE ToNat(a)
OfInt(w, n) == BOfNat(w, IF n < 0 THEN n + Pow2(w) ELSE n)
Abs(n) == IF n < 0 THEN -n ELSE n
SDivT(x, y) == LET q == Abs(x) \div Abs(y) IN IF (x < 0) # (y < 0) THEN -q ELSE q     \* truncating division
SRemT(x, y) == x - y * SDivT(x, y)
\* wide multiplication for the overflow flags
MulWide(a, b, w, signed) == LET a2 == IF signed THEN SExt(a, w, 2 * w) ELSE ZExt(a, w, 2 * w)
                                b2 == IF signed THEN SExt(b, w, 2 * w) ELSE ZExt(b, w, 2 * w) IN MulC(a2, b2, 1, 0)

\* Eval: [v: bytes, p: poison, ub: undefined behaviour] for a binary kind
BinEval(kind, fl, a, b, w) ==
  LET has(f) == \E i \in 1..Len(fl) : fl[i] = f
      R(v, p) == [v |-> v, p |-> p, ub |-> FALSE]
      UB == [v |-> BZero(w), p |-> FALSE, ub |-> TRUE]
  IN
  CASE kind = "add" -> LET r == BAdd(a, b, w) IN
         R(r, (has("nuw") /\ CarryOut(a, b, 1, 0, w) = 1)
              \/ (has("nsw") /\ SignBit(a, w) = SignBit(b, w) /\ SignBit(r, w) # SignBit(a, w)))
    [] kind = "sub" -> LET r == BSub(a, b, w) IN
         R(r, (has("nuw") /\ ULess(a, b)) \/ (has("nsw") /\ SignBit(a, w) # SignBit(b, w) /\ SignBit(r, w) # SignBit(a, w)))
    [] kind = "mul" -> LET r == BMul(a, b, w) IN
         R(r, (has("nuw") /\ MulWide(a, b, w, FALSE) # ZExt(r, w, 2 * w)) \/ (has("nsw") /\ MulWide(a, b, w, TRUE) # SExt(r, w, 2 * w)))
    [] kind = "and" -> R(BAnd(a, b), FALSE)
    [] kind = "or"  -> R(BOr(a, b), FALSE)
    [] kind = "xor" -> R(BXor(a, b), FALSE)
    [] kind = "shl" -> LET s == ShAmt(b, w) IN IF s < 0 THEN R(BZero(w), TRUE) ELSE
         LET r == BShl(a, s, w) IN R(r, (has("nuw") /\ BLShr(r, s, w) # a) \/ (has("nsw") /\ BAShr(r, s, w) # a))
    [] kind = "lshr" -> LET s == ShAmt(b, w) IN IF s < 0 THEN R(BZero(w), TRUE) ELSE
         LET r == BLShr(a, s, w) IN R(r, has("exact") /\ BShl(r, s, w) # a)
    [] kind = "ashr" -> LET s == ShAmt(b, w) IN IF s < 0 THEN R(BZero(w), TRUE) ELSE
         LET r == BAShr(a, s, w) IN R(r, has("exact") /\ BShl(r, s, w) # a)
    [] kind = "udiv" -> IF b = BZero(w) THEN UB ELSE R(BOfNat(w, ToNat(a) \div ToNat(b)), has("exact") /\ ToNat(a) % ToNat(b) # 0)
    [] kind = "urem" -> IF b = BZero(w) THEN UB ELSE R(BOfNat(w, ToNat(a) % ToNat(b)), FALSE)
    [] kind = "sdiv" -> IF b = BZero(w) \/ (ToInt(a, w) = -Pow2(w - 1) /\ ToInt(b, w) = -1) THEN UB
                        ELSE R(OfInt(w, SDivT(ToInt(a, w), ToInt(b, w))), has("exact") /\ SRemT(ToInt(a, w), ToInt(b, w)) # 0)
    [] kind = "srem" -> IF b = BZero(w) \/ (ToInt(a, w) = -Pow2(w - 1) /\ ToInt(b, w) = -1) THEN UB
                        ELSE R(OfInt(w, SRemT(ToInt(a, w), ToInt(b, w))), FALSE)

ExecBin == <<"add", "sub", "mul", "and", "or", "xor", "shl", "lshr", "ashr", "udiv", "urem", "sdiv", "srem">>
DivKinds == {"udiv", "urem", "sdiv", "srem"}

\* boundary constants of width w
Boundary(w) ==
  IF w = 1 THEN {<<0>>, <<1>>}
  ELSE {BZero(w), BOne(w), BOnes(w), BOfNat(w, w - 1), BOfNat(w, w),
        [BOnes(w) EXCEPT ![NBytes(w)] = 127], [BZero(w) EXCEPT ![NBytes(w)] = 128]}
       \cup (IF BoundarySmall THEN {} ELSE
             {BOfNat(w, 2), BOfNat(w, 3), BOfNat(w, 85), [BOnes(w) EXCEPT ![1] = 254],
              [i \in 1..NBytes(w) |-> IF i % 2 = 1 THEN 170 ELSE 85]})

----------------------------------------------------------------------------
(* Modes "mix" and "exec": the state machine *)
VARIABLES stage,  \* "init" | "kind" | "case" (cover) | "run" (mix/exec)
          k,      \* cover: index of the chosen kind
          prog,   \* cover: the program of the chosen case; mix/exec: the program built so far (epilogue included)
          env,    \* mix/exec: results of the instructions so far: [ty, w, v, p] (v/p only meaningful in exec)
          hist    \* hist: [base, init, steps]: the function as first constructed and the steps performed since
vars == <<stage, k, prog, env, hist>>

\* --- exec -----------------------------------------------------------------
\* operand choice: an earlier result of width w or a constant
EConst(w, v) == [ref |-> RConst(CBytes(TyInt(w), v)), v |-> v, p |-> FALSE]
EPrev(i) == [ref |-> RInst(1, i), v |-> env[i].v, p |-> env[i].p]
PrevOf(w) == {i \in 1..Len(env) : env[i].w = w}
Pick(ss) == IF ExecExhaustive THEN ss ELSE {RandomElement(ss)}
Operands(w) == {EPrev(i) : i \in PrevOf(w)} \cup {EConst(w, v) : v \in Pick(Boundary(w))}
ClsOfW(w) == "i" \o ToString(w)
InstOf(kind, cls, cnt, fl, attrs, vals, nm) ==
  MkInst(MkCase(KindOf(kind), "exec", cls, [cnt |-> cnt, bund |-> <<>>], fl, attrs, TRUE, FALSE), nm, vals)
\* name of the next instruction: every third one unnamed
NextName(n) == IF n % 3 = 0 THEN "" ELSE "v" \o ToString(n)

\* In exhaustive mode every alternative is a successor; in random mode (-simulate) one alternative of
\* every choice is drawn, so that a step has one successor.
PickO(w) == Pick(Operands(w))
ExecSteps ==   \* set of [inst, w, v, p, ub]
  LET n == Len(env) + 1
      BinSteps(kind, w) ==
        {LET r == BinEval(kind, fl, a.v, b.v, w)
             ub == r.ub \/ (kind \in DivKinds /\ (a.p \/ b.p))
         IN [inst |-> InstOf(kind, ClsOfW(w), <<1, 1>>, fl, NoAttrs, <<a.ref, b.ref>>, NextName(n)),
             w |-> w, v |-> r.v, p |-> r.p \/ a.p \/ b.p, ub |-> ub]
         : fl \in Pick({<<>>} \cup FlagSets(KindOf(kind))), a \in PickO(w), b \in PickO(w)}
      CmpSteps(w) ==
        {[inst |-> InstOf("icmp", ClsOfW(w), <<1, 1>>, <<>>, [pred |-> pr], <<a.ref, b.ref>>, NextName(n)),
          w |-> 1, v |-> BBool(ICmp(pr, a.v, b.v, w)), p |-> a.p \/ b.p, ub |-> FALSE]
          : pr \in Pick(SeqToSet(IPreds)), a \in PickO(w), b \in PickO(w)}
      SelSteps(w) ==
        {[inst |-> InstOf("select", ClsOfW(w), <<1, 1, 1>>, <<>>, NoAttrs, <<c.ref, a.ref, b.ref>>, NextName(n)),
          w |-> w, v |-> IF c.v = <<1>> THEN a.v ELSE b.v, p |-> c.p \/ (IF c.v = <<1>> THEN a.p ELSE b.p), ub |-> FALSE]
          : c \in PickO(1), a \in PickO(w), b \in Pick(Operands(w))}
      ConvSteps(kd, w, w2) ==
        {[inst |-> InstOf(kd, ClsOfW(w), <<1>>, <<>>, NoAttrs, <<a.ref>>, NextName(n)),
          w |-> w2, v |-> (CASE kd = "zext" -> ZExt(a.v, w, w2) [] kd = "sext" -> SExt(a.v, w, w2) [] kd = "trunc" -> Trunc(a.v, w2)),
          p |-> a.p, ub |-> FALSE]
          : a \in PickO(w)}
      BinW(kind) == IF kind \in DivKinds THEN ExecWidths \cap {8, 16} ELSE ExecWidths \ {1}
      Up == {x \in ExecWidths \X ExecWidths : x[1] < x[2]}
      Down == {x \in ExecWidths \X ExecWidths : x[1] > x[2]}
      Cat(cat) ==
        CASE cat = "bin" -> UNION {UNION {BinSteps(ExecBin[ki], w) : w \in Pick(BinW(ExecBin[ki]))} : ki \in Pick(1..Len(ExecBin))}
          [] cat = "cmp" -> UNION {CmpSteps(w) : w \in Pick(ExecWidths \ {1})}
          [] cat = "sel" -> UNION {SelSteps(w) : w \in Pick(ExecWidths \ {1})}
          [] cat = "ext" -> IF Up = {} THEN {} ELSE UNION {ConvSteps(kd, ww[1], ww[2]) : kd \in Pick({"zext", "sext"}), ww \in Pick(Up)}
          [] cat = "trunc" -> IF Down = {} THEN {} ELSE UNION {ConvSteps("trunc", ww[1], ww[2]) : ww \in Pick(Down)}
  IN UNION {Cat(cat) : cat \in Pick({"bin", "cmp", "sel", "ext", "trunc"})}
\* conversions keep only the well-typed width pairs and carry the target type
ConvOK(s) == s.inst.kind \notin {"zext", "sext", "trunc"}
             \/ LET w == s.inst.ops[1].ty.w IN IF s.inst.kind = "trunc" THEN s.w < w ELSE s.w > w
FixConv(s) == IF s.inst.kind \in {"zext", "sext", "trunc"} THEN [s EXCEPT !.inst.ty = TyInt(s.w), !.inst.res = TyInt(s.w)] ELSE s

\* epilogue: fold the last value to 8 bits of an i32 and return it
Epilogue(envs, n0) ==
  LET last == envs[Len(envs)]
      i0 == Len(envs)
      toI32 == IF last.w = 32 THEN <<>>
               ELSE IF last.w < 32 THEN <<InstOf("zext", ClsOfW(last.w), <<1>>, <<>>, NoAttrs, <<RInst(1, i0)>>, "e0")>>
               ELSE <<InstOf("trunc", "i64", <<1>>, <<>>, NoAttrs, <<RInst(1, i0)>>, "e0")>>
      fixed == [j \in 1..Len(toI32) |-> [toI32[j] EXCEPT !.ty = I32, !.res = I32]]
      r == i0 + Len(fixed)                       \* index of the i32 value
      c(n) == RConst(CBytes(I32, BOfNat(32, n)))
      e1 == InstOf("lshr", "i32", <<1, 1>>, <<>>, NoAttrs, <<RInst(1, r), c(16)>>, "e1")
      e2 == InstOf("xor", "i32", <<1, 1>>, <<>>, NoAttrs, <<RInst(1, r), RInst(1, r + 1)>>, "e2")
      e3 == InstOf("lshr", "i32", <<1, 1>>, <<>>, NoAttrs, <<RInst(1, r + 2), c(8)>>, "e3")
      e4 == InstOf("xor", "i32", <<1, 1>>, <<>>, NoAttrs, <<RInst(1, r + 2), RInst(1, r + 3)>>, "e4")
      e5 == InstOf("and", "i32", <<1, 1>>, <<>>, NoAttrs, <<RInst(1, r + 4), c(255)>>, "e5")
  IN [insts |-> fixed \o <<e1, e2, e3, e4, e5>>, ret |-> RInst(1, r + 5)]
FoldWant(last) ==
  LET v32 == IF last.w = 32 THEN last.v ELSE IF last.w < 32 THEN ZExt(last.v, last.w, 32) ELSE Trunc(last.v, 32)
  IN (v32[1] ^^ v32[2]) ^^ (v32[3] ^^ v32[4])

ExecProg(insts, envs, ub) ==
  LET ep == Epilogue(envs, Len(insts))
      last == envs[Len(envs)]
  IN [Prog("exec", "exec", <<>>, Fn("main", I32, <<>>, FALSE, <<Blk("", insts \o ep.insts, RetVal(I32, ep.ret))>>))
      EXCEPT !.exec = ~ub /\ ~last.p, !.ub = ub, !.want = FoldWant(last)]

\* --- mix --------------------------------------------------------------------
MixKinds == {i \in 1..NKinds : Kinds[i].ctx = "plain" /\ Kinds[i].cat = "inst" /\ Kinds[i].kind \notin {"va_arg"}}
MixParams == <<I32, I64, I8, I1, F32, F64, TyPtr(I32), Concrete.vec, Concrete.fvec, Concrete.svec, PairTy, Concrete.arr, I8Ptr,
               TyPtrAS(I32, 1), TyPtrAS(Concrete.nstruct, 1)>>
\* sources of an operand of type ty: a parameter, up to two earlier results, a constant
MixSources(cc, op, pos) ==
  IF op.src = "const" THEN {RConst(SlotConst(cc, op, pos))}
  ELSE IF op.src = "func" THEN {RFunc("callee" \o ToString(Len(env) + 1))}
  ELSE LET ps == {RParam(i) : i \in {j \in 1..Len(MixParams) : MixParams[j] = op.ty}}
           rs == {RInst(1, i) : i \in {j \in 1..Len(env) : env[j].ty = op.ty}}
           all == ps \cup rs \cup {RConst(ConstOf(op.ty, pos))}
       IN {RandomElement(all), RandomElement(all)}
RECURSIVE MixVals(_, _, _)
MixVals(cc, ops, pos) == IF pos > Len(ops) THEN {<<>>}
                         ELSE {<<v>> \o rest : v \in MixSources(cc, ops[pos], pos), rest \in MixVals(cc, ops, pos + 1)}
MixCases(e) == {c \in Cases(e) : c.fam \in {"class", "variant", "flags", "path", "as", "args"} /\ c.cfg.bund = <<>>}
MixSteps ==
  LET n == Len(env) + 1
      ki == RandomElement(MixKinds)
      c0 == RandomElement(MixCases(Kinds[ki]))
      c == [c0 EXCEPT !.named = TRUE]
  IN {[inst |-> MkInst(c, IF c.res = TyVoid THEN "" ELSE NextName(n), vals), ty |-> c.res, w |-> 0, v |-> <<>>, p |-> FALSE, ub |-> FALSE,
       callee |-> IF \E j \in 1..Len(c.ops) : c.ops[j].role = "callee" THEN c.ops[CHOOSE j \in 1..Len(c.ops) : c.ops[j].role = "callee"].ty ELSE TyVoid]
      : vals \in MixVals(c, c.ops, 1)}
\* every call in a mix program has its own callee declaration (the signatures differ)
MixProg(insts, callees) ==
  Prog("mix", "mix", BaseDecls \o callees,
       Fn("f", TyVoid, [i \in 1..Len(MixParams) |-> [name |-> IF i % 2 = 0 THEN "" ELSE "p" \o ToString(i), ty |-> MixParams[i]]], FALSE,
          <<Blk("", insts, RetVoid)>>))

\* --- hist -------------------------------------------------------------------
(* Mode "hist": construct -> print -> edit -> print.  A module is not built once and printed once:
   passes print it (debugging, a first emission), then rewrite it through the same public API --
   replace an instruction in place by a new one (Block.Insts[i] = ir.NewShl(..) and its uses
   redirected through Operands(), the peephole pattern), name or un-name a value (SetName), reorder, remove, insert or append instructions,
   replace a terminator, add a block -- and print again.  Printing WRITES into the objects (local
   IDs, cached types), so "the text denotes exactly what was constructed" is also a statement
   about the second print: it must denote the function as it is NOW.
     state    prog = the module as it is now (the abstract result of all steps),
              hist = [base, init (the function as first constructed), steps]
     Print    an observer: Module.String(), Func.LLString() or Func.AssignIDs()   (no abstract effect)
     Edit     one of HistEdits(fn), each a call sequence of the public API; Apply gives the new
              abstract function (positions of later instructions shift: references are re-mapped)
   Every state reached by an edit is emitted; the harness builds `init` through the constructors,
   performs the steps on the real objects (printing where the history prints) and judges the FINAL
   print against the template rendering of `prog`, exactly like a program built in one go.
   Exhaustive to MaxSteps edits (each preceded by a print), or -simulate. *)
HX == RParam(1)
\* base 3: TYPE-LEVEL histories.  The types of the library are mutable objects too: a struct type is
\* created without a name (types.NewStruct), values whose types point to it are built, compared by the
\* constructors' own type checks (NewStore, NewLoad) and printed, and only THEN the struct is given a
\* name (Module.NewTypeDef / SetName on the one shared object) -- the edit "nametype".  From then on the
\* struct IS the identified type: every type built over it (the global's pointer type, the alloca'd
\* pointer, operand types) denotes %name, in the next print and in the next constructor check.
\* HistBaseT(PT) is the base over the struct type PT; base 3 starts with the literal struct.
LateStruct == PairTy
LateName == "pair"
HistBaseT(PT) ==
  LET P == TyPtr(PT)  PP == TyPtr(TyPtr(PT))
      origin == RConst(CGRef("origin", P)) IN
  Fn("f", I32, <<[name |-> "x", ty |-> I32], [name |-> "p", ty |-> P]>>, FALSE,
     <<Blk("", <<[Simple("alloca", "i32", <<0>>, <<>>, "slot", <<>>) EXCEPT !.ty = P, !.res = PP],
                 [Simple("store", "i32", <<1, 1>>, <<>>, "", <<origin, RInst(1, 1)>>) EXCEPT !.ops[1].ty = P, !.ops[2].ty = PP],
                 [Simple("load", "i32", <<1>>, <<>>, "l", <<RInst(1, 1)>>) EXCEPT !.ty = P, !.res = P, !.ops[1].ty = PP],
                 [Simple("store", "i32", <<1, 1>>, <<>>, "", <<RParam(2), RInst(1, 1)>>) EXCEPT !.ops[1].ty = P, !.ops[2].ty = PP],
                 Simple("add", "i32", <<1, 1>>, <<>>, "", <<HX, HX>>)>>,
           RetVal(I32, RInst(1, 5)))>>)
HistDeclsT(PT) == BaseDecls \o <<DefGlobal("origin", PT, CSimple("zero", PT))>>
HistDecls0(bn) == IF bn = 3 THEN HistDeclsT(LateStruct) ELSE BaseDecls
\* the type term t with every occurrence of the struct `from` replaced by `to`
RECURSIVE SubTy(_, _, _)
SubTy(t, from, to) ==
  IF t = from THEN to ELSE
  CASE t.k \in {"ptr", "vec", "arr"} -> [t EXCEPT !.e = SubTy(@, from, to)]
    [] t.k = "struct" -> [t EXCEPT !.fs = [i \in 1..Len(@) |-> SubTy(@[i], from, to)]]
    [] t.k = "func"   -> [t EXCEPT !.ret = SubTy(@, from, to), !.ps = [i \in 1..Len(@) |-> SubTy(@[i], from, to)]]
    [] OTHER -> t
SubOp(o, from, to) ==
  [o EXCEPT !.ty = SubTy(@, from, to),
            !.v = IF @.r = "const" /\ @.c.c \in {"gref", "null", "undef", "zero", "int"}
                  THEN RConst([@.c EXCEPT !.ty = SubTy(@, from, to)]) ELSE @]
SubInst(I, from, to) ==
  [I EXCEPT !.ty = SubTy(@, from, to), !.res = SubTy(@, from, to), !.ops = [j \in 1..Len(@) |-> SubOp(@[j], from, to)]]
SubFn(fn, from, to) ==
  [fn EXCEPT !.ret = SubTy(@, from, to),
             !.params = [i \in 1..Len(@) |-> [@[i] EXCEPT !.ty = SubTy(@, from, to)]],
             !.blocks = [b \in 1..Len(@) |-> [@[b] EXCEPT !.insts = [i \in 1..Len(@) |-> SubInst(@[i], from, to)],
                                                          !.term = SubInst(@, from, to)]]]
SubDecls(ds, from, to) ==
  [i \in 1..Len(ds) |-> IF ds[i].op = "NewGlobalDef"
                        THEN [ds[i] EXCEPT !.ty = SubTy(@, from, to), !.init = [@ EXCEPT !.ty = SubTy(@, from, to)]]
                        ELSE ds[i]]
\* the struct is still unnamed in fn (the parameter p points to the literal struct)
LateUnnamed(fn) == \E i \in 1..Len(fn.params) : fn.params[i].ty = TyPtr(LateStruct)
HistBase(bn) ==
  IF bn = 3 THEN HistBaseT(LateStruct) ELSE
  LET u(s) == IF bn = 1 THEN "" ELSE s         \* base 1: mostly unnamed values; base 2: mostly named
      n(s) == IF bn = 1 THEN s ELSE ""
      bin(kd, nm, a, b) == Simple(kd, "i32", <<1, 1>>, <<>>, nm, <<a, b>>)
  IN Fn("f", I32, <<[name |-> "x", ty |-> I32], [name |-> u("y"), ty |-> I32]>>, FALSE,
        <<Blk(u("entry"),
              <<bin("add", u("a"), HX, RParam(2)),
                bin("mul", "m", HX, RConst(CInt(I32, 3))),
                Simple("store", "i32", <<1, 1>>, <<>>, "", <<HX, RConst(GI32)>>),
                bin("sub", n("d"), RInst(1, 1), RInst(1, 2)),
                bin("xor", u("e"), RInst(1, 4), HX)>>,
              Br(2)),
          Blk(u("tail"), <<bin("shl", u("s"), RInst(1, 5), RConst(CInt(I32, 1)))>>, RetVal(I32, RInst(2, 1)))>>)
HistBases == {1, 2, 3}
Observers == {"String", "FuncLLString", "AssignIDs"}

AllInsts(fn) == UNION {{<<b, i>> : i \in 1..Len(fn.blocks[b].insts)} : b \in 1..Len(fn.blocks)}
RefsOf(I) == {I.ops[j].v : j \in 1..Len(I.ops)}
UsedIn(fn, b, i) == \E bb \in 1..Len(fn.blocks) :
                      \/ \E ii \in 1..Len(fn.blocks[bb].insts) : RInst(b, i) \in RefsOf(fn.blocks[bb].insts[ii])
                      \/ RInst(b, i) \in RefsOf(fn.blocks[bb].term)
\* re-map the instruction references of a function
MapInst(I, F(_)) == [I EXCEPT !.ops = [j \in 1..Len(I.ops) |-> IF I.ops[j].v.r = "inst" THEN [I.ops[j] EXCEPT !.v = F(I.ops[j].v)] ELSE I.ops[j]]]
MapFn(fn, F(_)) == [fn EXCEPT !.blocks = [b \in 1..Len(fn.blocks) |->
                      [fn.blocks[b] EXCEPT !.insts = [i \in 1..Len(fn.blocks[b].insts) |-> MapInst(fn.blocks[b].insts[i], F)],
                                           !.term = MapInst(fn.blocks[b].term, F)]]]
SeqInsert(s, i, x) == SubSeq(s, 1, i - 1) \o <<x>> \o SubSeq(s, i, Len(s))
SeqRemove(s, i) == SubSeq(s, 1, i - 1) \o SubSeq(s, i + 1, Len(s))

HEdit(op, b, i, nm, inst) == [op |-> op, b |-> b, i |-> i, name |-> nm, inst |-> inst]
NoInst == Unreachable
HistEdits(fn) ==
  LET vals == {p \in AllInsts(fn) : fn.blocks[p[1]].insts[p[2]].res # TyVoid}
      voids == AllInsts(fn) \ vals
      at(p) == fn.blocks[p[1]].insts[p[2]]
      other(nm, s) == IF nm = "" THEN s ELSE ""
      fresh(nm) == Simple("add", "i32", <<1, 1>>, <<>>, nm, <<HX, RConst(CInt(I32, 5))>>)
  IN \* an instruction replaced in place by a new one of the same type (first operand kept), name kept or dropped
     {HEdit("replace", p[1], p[2], "", Simple(kd, "i32", <<1, 1>>, <<>>, IF keep THEN at(p).name ELSE "", <<at(p).ops[1].v, RConst(CInt(I32, 1))>>))
        : p \in {q \in vals : Len(at(q).ops) = 2 /\ at(q).ops[1].ty = I32 /\ at(q).res = I32}, kd \in {"shl", "or"}, keep \in BOOLEAN}
     \* a void instruction replaced by a value-producing one (nothing uses it): the numbering shifts, the counts do not
     \cup {HEdit("replace", p[1], p[2], "", Simple("load", "i32", <<1>>, <<>>, nm, <<RConst(GI32)>>)) : p \in voids, nm \in {"", "l"}}
     \* a value named or un-named
     \cup {HEdit("setname-inst", p[1], p[2], other(at(p).name, "n"), NoInst) : p \in vals}
     \cup {HEdit("setname-param", 0, i, other(fn.params[i].name, "q"), NoInst) : i \in 1..Len(fn.params)}
     \cup {HEdit("setname-block", b, 0, other(fn.blocks[b].name, "bb"), NoInst) : b \in 1..Len(fn.blocks)}
     \* two neighbours exchanged (the second does not use the first)
     \cup {HEdit("swap", p[1], p[2], "", NoInst) : p \in {q \in AllInsts(fn) : q[2] < Len(fn.blocks[q[1]].insts)
                                                                   /\ RInst(q[1], q[2]) \notin RefsOf(fn.blocks[q[1]].insts[q[2] + 1])}}
     \* an unused instruction removed
     \cup {HEdit("remove", p[1], p[2], "", NoInst) : p \in {q \in AllInsts(fn) : ~UsedIn(fn, q[1], q[2])}}
     \* a new instruction inserted before position i (i = length + 1: appended by Block.NewAdd)
     \cup UNION {{HEdit("insert", b, i, "", fresh(nm)) : i \in 1..(Len(fn.blocks[b].insts) + 1), nm \in {"", "k"}} : b \in 1..Len(fn.blocks)}
     \* the terminator of the last block replaced (Block.NewRet overwrites Term)
     \cup {HEdit("setterm", Len(fn.blocks), 0, "", RetVal(I32, HX))}
     \* a block added (unreachable, which is valid LLVM)
     \cup {HEdit("newblock", 0, 0, nm, NoInst) : nm \in {"", "nb"}}
     \* the (so far literal) struct type given a name: Module.NewTypeDef on the shared type object
     \cup (IF LateUnnamed(fn) THEN {HEdit("nametype", 0, 0, LateName, NoInst) @@ [ty |-> LateStruct]} ELSE {})
     \* after the naming: a load of the slot through a pointer type built NOW (the constructor's own type
     \* check compares the type of an old value with a new type over the named struct)
     \cup (IF \E i \in 1..Len(fn.params) : fn.params[i].ty = TyPtr(TyNamed(LateName, LateStruct))
          THEN LET NT == TyNamed(LateName, LateStruct)  P == TyPtr(NT)  PP == TyPtr(P)
                   ai == CHOOSE i \in 1..Len(fn.blocks[1].insts) : fn.blocks[1].insts[i].kind = "alloca" IN
               {HEdit("insert", 1, Len(fn.blocks[1].insts) + 1, "",
                      [Simple("load", "i32", <<1>>, <<>>, "l2", <<RInst(1, ai)>>) EXCEPT !.ty = P, !.res = P, !.ops[1].ty = PP])}
          ELSE {})

Apply(fn, e) ==
  CASE e.op = "replace" -> [fn EXCEPT !.blocks[e.b].insts[e.i] = e.inst]
    [] e.op = "setname-inst"  -> [fn EXCEPT !.blocks[e.b].insts[e.i].name = e.name]
    [] e.op = "setname-param" -> [fn EXCEPT !.params[e.i].name = e.name]
    [] e.op = "setname-block" -> [fn EXCEPT !.blocks[e.b].name = e.name]
    [] e.op = "swap" ->
         LET F(r) == IF r.b = e.b /\ r.i = e.i THEN RInst(e.b, e.i + 1) ELSE IF r.b = e.b /\ r.i = e.i + 1 THEN RInst(e.b, e.i) ELSE r
             g == MapFn(fn, F)
         IN [g EXCEPT !.blocks[e.b].insts = [@ EXCEPT ![e.i] = g.blocks[e.b].insts[e.i + 1], ![e.i + 1] = g.blocks[e.b].insts[e.i]]]
    [] e.op = "remove" ->
         LET F(r) == IF r.b = e.b /\ r.i > e.i THEN RInst(e.b, r.i - 1) ELSE r
             g == MapFn(fn, F)
         IN [g EXCEPT !.blocks[e.b].insts = SeqRemove(@, e.i)]
    [] e.op = "insert" ->
         LET F(r) == IF r.b = e.b /\ r.i >= e.i THEN RInst(e.b, r.i + 1) ELSE r
             g == MapFn(fn, F)
         IN [g EXCEPT !.blocks[e.b].insts = SeqInsert(@, e.i, e.inst)]
    [] e.op = "setterm" -> [fn EXCEPT !.blocks[e.b].term = e.inst]
    [] e.op = "newblock" -> [fn EXCEPT !.blocks = Append(@, Blk(e.name, <<>>, Unreachable))]
    [] e.op = "nametype" -> SubFn(fn, e.ty, TyNamed(e.name, e.ty))

HTag(e) == IF e.op = "print" THEN "print:" \o e.name
           ELSE e.op \o "(" \o ToString(e.b) \o "," \o ToString(e.i) \o "," \o e.name
                \o (IF e.op \in {"replace", "insert"} THEN "," \o e.inst.kind \o "," \o e.inst.name ELSE "") \o ")"
RECURSIVE HTags(_, _)
HTags(steps, j) == IF j > Len(steps) THEN "" ELSE "/" \o HTag(steps[j]) \o HTags(steps, j + 1)
\* the module-level declarations follow the naming: the global of the struct type is of the named type
\* once the struct has been named
HistDeclsNow(bn, steps) ==
  IF bn = 3 /\ \E j \in 1..Len(steps) : steps[j].op = "nametype"
  THEN SubDecls(HistDecls0(bn), LateStruct, TyNamed(LateName, LateStruct)) ELSE HistDecls0(bn)
HistProg(bn, fn, steps) == Prog("hist:base" \o ToString(bn) \o HTags(steps, 1), "hist", HistDeclsNow(bn, steps), fn)
NEdits(steps) == Cardinality({j \in 1..Len(steps) : steps[j].op # "print"})

\* --- Init / Next ------------------------------------------------------------
AllModuleProgs == ModuleProgs \o SetToSeq({UnnamedProg(o) : o \in UOrders})
NCover == Len(CoverKinds) + Len(ConstForms) + Len(AllModuleProgs)
NoHist == [base |-> 0, init |-> NoFn, steps |-> <<>>, decls |-> <<>>]
Init == /\ stage = "init" /\ k = 0 /\ env = <<>> /\ hist = NoHist
        /\ prog = Prog("empty", Mode, <<>>, NoFn)

CoverNext ==
  \/ /\ stage = "init" /\ k' \in 1..NCover /\ stage' = "kind" /\ UNCHANGED <<prog, env>>
  \/ /\ stage = "kind" /\ k <= Len(CoverKinds) /\ \E c \in CoverCases(CoverKinds[k]) : prog' = CoverProg(c)
     /\ stage' = "case" /\ UNCHANGED <<k, env>>
  \/ /\ stage = "kind" /\ k > Len(CoverKinds) /\ k <= Len(CoverKinds) + Len(ConstForms)
     /\ prog' = ConstProg(k - Len(CoverKinds)) /\ stage' = "case" /\ UNCHANGED <<k, env>>
  \/ /\ stage = "kind" /\ k > Len(CoverKinds) + Len(ConstForms)
     /\ prog' = AllModuleProgs[k - Len(CoverKinds) - Len(ConstForms)] /\ stage' = "case" /\ UNCHANGED <<k, env>>
HistNext ==
  \/ /\ stage = "init" /\ \E bn \in HistBases :
          /\ hist' = [base |-> bn, init |-> HistBase(bn), steps |-> <<>>, decls |-> HistDecls0(bn)]
          /\ prog' = HistProg(bn, HistBase(bn), <<>>)
       /\ stage' = "built" /\ UNCHANGED <<k, env>>
  \* an edit is preceded by a print (the first one by every kind of observer); -simulate draws one of each
  \/ /\ stage \in {"built", "run"} /\ NEdits(hist.steps) < MaxSteps
     \* (Func.AssignIDs is the VALIDATING entry point: it reports IDs a previous numbering left behind as
     \*  errors, so it is an observer of freshly constructed functions only)
     /\ \E how \in (IF hist.steps = <<>> THEN (IF ExecExhaustive THEN Observers ELSE {RandomElement(Observers)})
                    ELSE IF ExecExhaustive THEN {"String"} ELSE {RandomElement(Observers \ {"AssignIDs"})}) :
        \E e \in (IF ExecExhaustive THEN HistEdits(prog.fn) ELSE {RandomElement(HistEdits(prog.fn))}) :
          LET steps == hist.steps \o <<HEdit("print", 0, 0, how, NoInst), e>> IN
          /\ hist' = [hist EXCEPT !.steps = steps]
          /\ prog' = HistProg(hist.base, Apply(prog.fn, e), steps)
     /\ stage' = "run" /\ UNCHANGED <<k, env>>

BodyInsts == IF prog.fn.blocks = <<>> THEN <<>> ELSE SubSeq(prog.fn.blocks[1].insts, 1, Len(env))
ExecNext ==
  /\ Len(env) < MaxSteps /\ ~prog.ub
  /\ \E s0 \in ExecSteps :
       LET s == FixConv(s0)
           envs == Append(env, [ty |-> TyInt(s.w), w |-> s.w, v |-> s.v, p |-> s.p])
       IN /\ env' = envs
          /\ prog' = ExecProg(Append(BodyInsts, s.inst), envs, s.ub)
  /\ stage' = "run" /\ UNCHANGED k
MixNext ==
  /\ Len(env) < MaxSteps
  /\ \E s \in MixSteps :
       /\ env' = Append(env, [ty |-> s.ty, w |-> 0, v |-> <<>>, p |-> FALSE])
       /\ prog' = MixProg(Append(BodyInsts, s.inst),
                          SubSeq(prog.decls, Len(BaseDecls) + 1, Len(prog.decls))
                          \o (IF s.callee = TyVoid THEN <<>> ELSE <<DeclFunc("callee" \o ToString(Len(env) + 1), s.callee)>>))
  /\ stage' = "run" /\ UNCHANGED k

Next == \/ Mode = "cover" /\ CoverNext /\ UNCHANGED hist
        \/ Mode = "exec" /\ ExecNext /\ UNCHANGED hist
        \/ Mode = "mix" /\ MixNext /\ UNCHANGED hist
        \/ Mode = "hist" /\ HistNext
Spec == Init /\ [][Next]_vars

----------------------------------------------------------------------------
(* Properties *)
IsProgState == stage \in {"case", "run"}

\* structural sanity of every generated program: references point backwards / to existing objects,
\* operand types equal the slot types the Schema requires (this is "enabled only when well-typed")
RefOK(fn, b, pos, ref, ty) ==
  CASE ref.r = "param" -> ref.i \in 1..Len(fn.params) /\ fn.params[ref.i].ty = ty
    [] ref.r = "inst" -> /\ ref.b \in 1..Len(fn.blocks) /\ ref.i \in 1..Len(fn.blocks[ref.b].insts)
                         /\ (ref.b = b => ref.i < pos)
                         /\ fn.blocks[ref.b].insts[ref.i].res = ty
    [] ref.r = "term" -> ref.b \in 1..Len(fn.blocks) /\ ty = TyToken
    [] ref.r = "block" -> ref.b \in 1..Len(fn.blocks) /\ ty = TyLabel
    [] ref.r = "const" -> ref.c.c \in {"blockaddress", "none"} \/ ref.c.ty = ty \/ (ref.c.c = "expr" /\ ref.c.rty = ty)
    [] OTHER -> TRUE
InstOK(fn, b, pos, I) == \A j \in 1..Len(I.ops) : RefOK(fn, b, pos, I.ops[j].v, I.ops[j].ty)
ProgWellFormed ==
  IsProgState =>
    \A b \in 1..Len(prog.fn.blocks) :
      /\ \A i \in 1..Len(prog.fn.blocks[b].insts) : InstOK(prog.fn, b, i, prog.fn.blocks[b].insts[i])
      /\ InstOK(prog.fn, b, Len(prog.fn.blocks[b].insts) + 1, prog.fn.blocks[b].term)

\* evaluator laws on the values of the state (exec): results have the width's byte length and range;
\* a - b + b = a; a xor a = 0; zext then trunc is the identity
EvalLaws ==
  (Mode = "exec" /\ stage = "run") =>
    \A i \in 1..Len(env) :
      LET x == env[i] IN
      /\ Len(x.v) = NBytes(x.w) /\ \A j \in 1..Len(x.v) : x.v[j] \in 0..TopMask(x.w)
      /\ x.w > 1 => /\ BAdd(BSub(x.v, BOne(x.w), x.w), BOne(x.w), x.w) = x.v
                    /\ BXor(x.v, x.v) = BZero(x.w)
                    /\ BMul(x.v, BOne(x.w), x.w) = x.v
                    /\ BAdd(x.v, BNeg(x.v, x.w), x.w) = BZero(x.w)
                    /\ BLShr(BShl(x.v, 1, x.w), 1, x.w) = BAnd(x.v, [BOnes(x.w) EXCEPT ![NBytes(x.w)] = 127])
      /\ x.w < 64 => Trunc(ZExt(x.v, x.w, 64), x.w) = x.v /\ Trunc(SExt(x.v, x.w, 64), x.w) = x.v

\* hist: every edit is one of the edits enabled in the function it is applied to, and the emitted function
\* is the result of applying the edits in order to the function first constructed
RECURSIVE Replay(_, _, _)
Replay(fn, steps, j) == IF j > Len(steps) THEN fn
                        ELSE Replay(IF steps[j].op = "print" THEN fn ELSE Apply(fn, steps[j]), steps, j + 1)
HistSound == (Mode = "hist" /\ stage = "run") =>
               /\ prog.fn = Replay(hist.init, hist.steps, 1)
               /\ hist.steps[Len(hist.steps) - 1].op = "print"
Emit == IsProgState =>
  Serialize(ToJson(IF Mode = "hist" THEN prog @@ [hist |-> hist] ELSE prog) \o "\n", "progs.ndjson",
            [format |-> "TXT", charset |-> "UTF-8", openOptions |-> <<"WRITE", "CREATE", "APPEND">>]).exitValue = 0
=============================================================================
