------------------------------ MODULE NatSort ------------------------------
(***************************************************************************)
(* Natural order of byte strings (C20, first half).                        *)
(*                                                                         *)
(* Byte strings are sequences over 0..255 (TLC cannot index TLA+ strings). *)
(* RefLess is the reference natural order: the strings are cut into        *)
(* tokens, a maximal run of ASCII digits being one token and every other   *)
(* byte a token of its own; tokens are compared left to right, digit runs  *)
(* by numeric value and then by their number of leading zeros, other bytes *)
(* by byte value, a digit against a non-digit by byte value as well; a     *)
(* proper prefix sorts first.                                              *)
(*                                                                         *)
(* The state machine enumerates all triples of strings over Alphabet of    *)
(* length <= MaxLen (enumeration in Next, not in Init) and the invariants  *)
(* state the order axioms and the numeric-run law on each triple.          *)
(* Alphabet classes: NatSort.cfg digits and a letter; NatSortCtl.cfg the   *)
(* control bytes 0x00 (NUL, the least byte) and 0x01 next to a digit and a *)
(* letter: names may hold any bytes, and the end of a name is no byte.     *)
(***************************************************************************)
EXTENDS Integers, Sequences, FiniteSets, TLC

CONSTANTS Alphabet,   \* set of byte values
          MaxLen      \* maximal string length

IsDigit(b) == b >= 48 /\ b <= 57

RECURSIVE LexLess(_, _)
LexLess(a, b) ==
  IF a = <<>> THEN b # <<>>
  ELSE IF b = <<>> THEN FALSE
  ELSE IF Head(a) # Head(b) THEN Head(a) < Head(b)
  ELSE LexLess(Tail(a), Tail(b))

RECURSIVE RunLen(_)      \* length of the digit run at the start of s
RunLen(s) == IF s = <<>> \/ ~IsDigit(Head(s)) THEN 0 ELSE 1 + RunLen(Tail(s))
RECURSIVE ZeroLen(_)     \* number of leading '0' bytes of s
ZeroLen(s) == IF s = <<>> \/ Head(s) # 48 THEN 0 ELSE 1 + ZeroLen(Tail(s))

Drop(s, n) == SubSeq(s, n + 1, Len(s))
Take(s, n) == SubSeq(s, 1, n)

\* significant digits of a digit run (leading zeros removed)
Sig(run) == Drop(run, ZeroLen(run))
\* numeric comparison of two digit runs of any length
NumLess(r1, r2) == LET s1 == Sig(r1)  s2 == Sig(r2) IN
                   Len(s1) < Len(s2) \/ (Len(s1) = Len(s2) /\ LexLess(s1, s2))
NumEq(r1, r2) == Sig(r1) = Sig(r2)

RECURSIVE RefLess(_, _)
RefLess(a, b) ==
  IF a = <<>> \/ b = <<>> THEN Len(a) < Len(b)
  ELSE IF IsDigit(Head(a)) /\ IsDigit(Head(b))
       THEN LET ra == RunLen(a)  rb == RunLen(b)
                da == Take(a, ra)  db == Take(b, rb)
            IN IF ~NumEq(da, db) THEN NumLess(da, db)
               ELSE IF ZeroLen(da) # ZeroLen(db) THEN ZeroLen(da) < ZeroLen(db)
               ELSE RefLess(Drop(a, ra), Drop(b, rb))
       ELSE IF Head(a) # Head(b) THEN Head(a) < Head(b)
       ELSE RefLess(Tail(a), Tail(b))

(***************************************************************************)
(* The numeric-run law for an arbitrary relation R on strings: cut the     *)
(* common prefix of a and b back to the start of the digit run it ends in; *)
(* if both remainders start with a digit run and the runs differ in value, *)
(* R must order a and b by that value.                                     *)
(***************************************************************************)
RECURSIVE CommonPrefixLen(_, _)
CommonPrefixLen(a, b) ==
  IF a = <<>> \/ b = <<>> \/ Head(a) # Head(b) THEN 0 ELSE 1 + CommonPrefixLen(Tail(a), Tail(b))
RECURSIVE TrailingDigits(_)
TrailingDigits(s) == IF s = <<>> \/ ~IsDigit(s[Len(s)]) THEN 0 ELSE 1 + TrailingDigits(Take(s, Len(s) - 1))

NumericRunsApplies(a, b) ==
  LET p  == CommonPrefixLen(a, b)
      q  == p - TrailingDigits(Take(a, p))
      a1 == Drop(a, q)  b1 == Drop(b, q)
  IN /\ a1 # <<>> /\ b1 # <<>> /\ IsDigit(Head(a1)) /\ IsDigit(Head(b1))
     /\ ~NumEq(Take(a1, RunLen(a1)), Take(b1, RunLen(b1)))
NumericRunsWant(a, b) ==
  LET p  == CommonPrefixLen(a, b)
      q  == p - TrailingDigits(Take(a, p))
      a1 == Drop(a, q)  b1 == Drop(b, q)
  IN NumLess(Take(a1, RunLen(a1)), Take(b1, RunLen(b1)))

----------------------------------------------------------------------------
\* all strings over Alphabet of length <= MaxLen
RECURSIVE StringsOfLen(_)
StringsOfLen(n) == IF n = 0 THEN {<<>>}
                   ELSE {<<c>> \o s : c \in Alphabet, s \in StringsOfLen(n - 1)}
Strings == UNION {StringsOfLen(n) : n \in 0..MaxLen}

VARIABLES a, b, c, stage
vars == <<a, b, c, stage>>

\* one string is chosen per step, so that the successors are computed by all workers
Init == a = <<>> /\ b = <<>> /\ c = <<>> /\ stage = 0
Next == \/ stage = 0 /\ a' \in Strings /\ stage' = 1 /\ UNCHANGED <<b, c>>
        \/ stage = 1 /\ b' \in Strings /\ stage' = 2 /\ UNCHANGED <<a, c>>
        \/ stage = 2 /\ c' \in Strings /\ stage' = 3 /\ UNCHANGED <<a, b>>
Spec == Init /\ [][Next]_vars

Irreflexive == stage >= 1 => ~RefLess(a, a)
Asymmetric  == stage >= 2 => ~(RefLess(a, b) /\ RefLess(b, a))
Transitive  == stage = 3 /\ RefLess(a, b) /\ RefLess(b, c) => RefLess(a, c)
Total       == stage >= 2 /\ a # b => RefLess(a, b) \/ RefLess(b, a)
NumericRuns == stage >= 2 /\ NumericRunsApplies(a, b) => (RefLess(a, b) <=> NumericRunsWant(a, b))
\* The end of a string is not a byte: a name and the same name followed by any bytes -- NUL bytes included -- are two
\* names, ordered one way (NatSortCtl.cfg puts 0 and 1 into the alphabet; the recorded relation of the real code is
\* judged on such pairs by NatSortTrace!RowOK, totality).
EndIsNotAByte == stage >= 2 /\ Len(a) < Len(b) /\ Take(b, Len(a)) = a => (RefLess(a, b) \/ RefLess(b, a)) /\ ~(RefLess(a, b) /\ RefLess(b, a))
\* vacuity guard, used by NatSortVacuity.cfg: TLC must find this "invariant" violated
NumericRunsNeverApplies == ~(stage >= 2 /\ NumericRunsApplies(a, b))
=============================================================================
