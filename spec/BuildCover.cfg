SPECIFICATION Spec
CONSTANTS
  Mode = "cover"
  MaxSteps = 0
  ExecWidths = {8}
  ExecExhaustive = TRUE
  BoundarySmall = TRUE
INVARIANTS ProgWellFormed Emit
CHECK_DEADLOCK FALSE
