\* generator: Given = chunks.ndjson (one JSON array of Write sizes per real module, recorded by the harness);
\* one VEC line per (module, writer behaviour) with the required outcome
SPECIFICATION Spec
CONSTANTS
  MaxChunks = 0
  UnitSizes = {0}
  UnitKinds = {"fmt"}
  IfaceSets = {{}}
  Route = "fmt"
  MaxWrite = 0
  PieceCount = "piece"
  LatchBy = "test"
  CachedViews = FALSE
  LatchError = TRUE
  CountAccepted = TRUE
  KeepFirstError = FALSE
  LatchOn = "err"
  Modes = {"never", "whole", "prefix", "edge"}
  Pieces = {0, 1, 2, 7, 64}
  GivenFile = "chunks.ndjson"
  MaxCalls = 2
  LaterModes = {"never"}
  FreshPerCall = TRUE
  ShareChoices = {FALSE}
  PerWriterWrapper = FALSE
  FlushKinds = {"none"}
  ErrKinds = {"plain"}
  FlushAtEnd = FALSE
  RetryKinds = {}
  MaxRetry = 0
INVARIANTS TypeOK CountExact NoWriteAfterFailure PrefixDelivered FirstError NoFailEqualsString FailsAtCapacity StringNeverPanics CallStartsFresh HealthyAfterFailure EmitVector
CHECK_DEADLOCK FALSE
