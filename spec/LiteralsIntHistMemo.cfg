SPECIFICATION Spec
CONSTANTS
  Widths = {64}
  DeepWidths = {}
  MaxChanges = 1
  Memoise = TRUE
  EmitFile = ""
INVARIANTS TypeOK PrintCurrent
CHECK_DEADLOCK FALSE
