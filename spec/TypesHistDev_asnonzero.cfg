SPECIFICATION HSpec
CONSTANTS
  Emit = FALSE
  Tier = "quick"
  HistDev = "asnonzero"
  MaxSets = 3
INVARIANTS NoHiddenState
CHECK_DEADLOCK FALSE
