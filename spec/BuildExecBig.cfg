SPECIFICATION Spec
CONSTANTS
  Mode = "exec"
  MaxSteps = 1
  ExecWidths = {1, 8, 16, 32, 64}
  ExecExhaustive = TRUE
  BoundarySmall = FALSE
INVARIANTS ProgWellFormed EvalLaws Emit
CHECK_DEADLOCK FALSE
