---------------------------- MODULE TypesTrace ----------------------------
(***************************************************************************)
(* Judges recordings of the real types.Equal (C16).                        *)
(*                                                                         *)
(* types_rec.ndjson has one row per type term i (1-based, file order):     *)
(*   { "u":  name of the universe the term lives in,                       *)
(*     "t":  the term (format of Types.tla),                               *)
(*     "views": a record; every field is one recorded relation given as    *)
(*              the list of all j with Equal(x_i, y_j) = true, where x, y  *)
(*              are the Go objects of that view:                           *)
(*        ss  both built sharing one StructType object per name            *)
(*        sd  x shared, y built with separate objects per name             *)
(*        ds  x separate, y shared                                         *)
(*        ps  x = the type printed in a module and parsed back, y shared   *)
(*        sp  x shared, y parsed back                                      *)
(*   }                                                                     *)
(* Nothing is assumed about the recorded relations.  For every row l and   *)
(* every j of the same universe RowOK states                               *)
(*       j \in view[l]  <=>  TypeEq(t_l, t_j)                              *)
(* for every view, i.e. the recorded matrix IS the specification's         *)
(* identity matrix; since TypeEq is an equivalence (TypesEq.cfg) this      *)
(* implies reflexivity, symmetry and transitivity of the recorded          *)
(* relations, "one attribute differs => unequal" (the generated term set   *)
(* is closed under one-attribute variants of its seeds) and preservation   *)
(* by print + parse (views ps, sp).  Rows of different universes are not   *)
(* compared (type names are unique only within one universe).  Every       *)
(* failing pair is printed as a BADPAIR line so that all of them can be    *)
(* classified.                                                             *)
(***************************************************************************)
EXTENDS Types, Json

Trace == ndJsonDeserialize("types_rec.ndjson")
N == Len(Trace)

Same(i)  == {j \in 1..N : Trace[j].u = Trace[i].u}
\* the universe is not consulted by TypeEq (identity never unfolds a name)
Want(i)  == {j \in Same(i) : TypeEq(<<>>, Trace[i].t, Trace[j].t)}
Views    == DOMAIN Trace[1].views
Got(i, v) == SeqRange(Trace[i].views[v])

VARIABLE l
Init == l = 0
Next == l < N /\ l' = l + 1
Spec == Init /\ [][Next]_l

\* all disagreements of row i: <<view, j, what the specification says>>
BadSet(i) == LET w == Want(i) IN
             UNION {{<<v, j, TRUE>>  : j \in w \ Got(i, v)}         \* spec: same type, code: unequal
                    \cup {<<v, j, FALSE>> : j \in Got(i, v) \ w}    \* spec: different types, code: equal
                      : v \in Views}

RowOK == l >= 1 =>
           LET b == BadSet(l) IN
           /\ \A x \in b : PrintT(<<"BADPAIR", x[1], l, x[2], x[3]>>)
           /\ b = {}
=============================================================================
