----------------------------- MODULE LiteralsInt -----------------------------
(***************************************************************************)
(* C09, spec -> code.  Enumerates (width, value, notation) and             *)
(*   (S) checks the reference denotation IntDenote of module Literals on   *)
(*       every enumerated case (invariants below), and                     *)
(*   (G) writes one NDJSON vector per case (EmitFile # ""): the literal    *)
(*       and the value it must denote, as integer (neg, mag) and as the    *)
(*       two's-complement pattern at the width.  The Go harness            *)
(*       (harness/props/c09) feeds every literal to the real parser        *)
(*       (asm.ParseString of "@g = global iW LIT" and                      *)
(*       constant.NewIntFromString), compares, prints the parsed constant  *)
(*       and parses the printed literal again.                             *)
(*                                                                         *)
(* Variables: stage 0 -> choose width w; 1 -> choose value val from the    *)
(* value set of w; 2 -> choose a notation (tag, lit) of val; 3 = done.     *)
(* (Enumeration is in Next so that all workers share it.)                  *)
(*                                                                         *)
(* Value sets.  SmallWidths and HexWidths: every value of                  *)
(* -2^(w-1) .. 2^w-1 (HexWidths: u0x / s0x notations only, all digit       *)
(* lengths: shortest, exactly the width's digits, one redundant leading    *)
(* zero -- widths that are not a multiple of 4 are where a sign test on    *)
(* the leading hex digit goes wrong).                                      *)
(* BigWidths: 0, +-1, +-2^k, 2^k+-1, -(2^k+-1) for k in Exps, min, max,    *)
(* max signed.  PatWidth (one width): numbers whose hexadecimal spelling   *)
(* has length 4..16 and at most two distinct digits (HexA x HexB), in the  *)
(* shapes a b..b, a..a b, abab.., a..ab..b: these drive the branches of    *)
(* the printer's readability heuristic.                                    *)
(*                                                                         *)
(* Notations of a value: decimal (plain, with leading zeros, "-0" for 0),  *)
(* u0x (upper case, lower case, one leading zero, padded beyond the        *)
(* width) for v >= 0, s0x for the signed range (exactly the digits of the  *)
(* width, one more leading zero, shortest form), true/false for i1.        *)
(*                                                                         *)
(* BoolPanics = TRUE models Int.Ident as written (panic for i1 -1):        *)
(* PrintParse is then violated at (w = 1, val = -1) and holds with FALSE.  *)
(***************************************************************************)
EXTENDS Literals, Json, IOUtils

CONSTANTS SmallWidths,   \* widths enumerated exhaustively in every notation (each <= 14)
          HexWidths,     \* widths enumerated exhaustively in the hexadecimal notations only (<= 14)
          BigWidths,     \* widths with boundary value sets
          Exps,          \* exponents k for the boundary sets
          PatWidth,      \* width for the hex-pattern values (0 = none)
          HexA, HexB,    \* leading / other digit of the hex patterns
          BoolPanics,    \* TRUE: the printer as implemented
          EmitFile       \* "" = do not write vectors

VARIABLES w, val, tag, lit, stage
vars == <<w, val, tag, lit, stage>>

Zero == IntVal(FALSE, <<>>)
Neg(v) == IntVal(~v.neg, v.mag)

SmallValues(ww) == {IntFromInt(n) : n \in (0 - Pow2Tab[ww - 1]) .. (Pow2Tab[ww] - 1)}

BigValues(ww) ==
  LET ks == {k \in Exps : k < ww} \cup {ww - 2, ww - 1}
      pw(k) == IntVal(FALSE, Pow2Nat(k))
      pm(k) == IntVal(FALSE, NatSub(Pow2Nat(k), <<1>>))
      pp(k) == IntVal(FALSE, NatAdd1(Pow2Nat(k)))
      cand == {Zero, IntVal(FALSE, <<1>>), IntVal(TRUE, <<1>>)}
              \cup {pw(k) : k \in ks} \cup {pm(k) : k \in ks} \cup {pp(k) : k \in ks}
              \cup {Neg(pw(k)) : k \in ks} \cup {Neg(pm(k)) : k \in ks} \cup {Neg(pp(k)) : k \in ks}
              \cup {IntVal(FALSE, NatSub(Pow2Nat(ww), <<1>>)),          \* max
                    IntVal(TRUE, Pow2Nat(ww - 1)),                      \* min
                    IntVal(FALSE, NatSub(Pow2Nat(ww - 1), <<1>>))}      \* max signed
  IN {v \in cand : Representable(ww, v)}

\* hex digit sequences of length n with digits a (leading) and b
PatShapes(n, a, b) ==
  {[i \in 1..n |-> IF i = 1 THEN a ELSE b],
   [i \in 1..n |-> IF i = n THEN b ELSE a],
   [i \in 1..n |-> IF i % 2 = 1 THEN a ELSE b],
   [i \in 1..n |-> IF i <= n \div 2 THEN a ELSE b]}
PatValues == IF PatWidth = 0 THEN {}
             ELSE {IntVal(FALSE, HexToNat(hs)) :
                     hs \in UNION {PatShapes(n, a, b) : n \in 4..Min(16, PatWidth \div 4), a \in HexA, b \in HexB}}

Widths == SmallWidths \cup HexWidths \cup BigWidths \cup (IF PatWidth = 0 THEN {} ELSE {PatWidth})
Values(ww) == (IF ww \in SmallWidths \cup HexWidths THEN SmallValues(ww) ELSE {})
              \cup (IF ww \in BigWidths THEN BigValues(ww) ELSE {})
              \cup (IF ww = PatWidth THEN PatValues ELSE {})

\* Literals!Notations: every spelling of v at width ww; hex-only widths keep the hexadecimal ones
NotationsOf(ww, v) ==
  IF ww \in HexWidths \ SmallWidths
  THEN {n \in Notations(ww, v) : n.tag \in {"u0x", "u0x-leading-zero", "s0x", "s0x-long", "s0x-short"}}
  ELSE Notations(ww, v)

Init == w = 0 /\ val = Zero /\ tag = "" /\ lit = <<>> /\ stage = 0
Next == \/ stage = 0 /\ w' \in Widths /\ stage' = 1 /\ UNCHANGED <<val, tag, lit>>
        \/ stage = 1 /\ val' \in Values(w) /\ stage' = 2 /\ UNCHANGED <<w, tag, lit>>
        \/ stage = 2 /\ (\E n \in NotationsOf(w, val) : tag' = n.tag /\ lit' = n.lit)
                     /\ stage' = 3 /\ UNCHANGED <<w, val>>
Spec == Init /\ [][Next]_vars

----------------------------------------------------------------------------
(* Properties of the reference semantics *)
TypeOK == stage = 2 => IsIntVal(val) /\ Representable(w, val)

\* every notation of a representable value denotes exactly that value
DenoteExact == stage = 3 => IntDenote(w, lit) = OkInt(val)

\* the pattern is the value modulo 2^w, checked against TLC's own integers
NativeOK == stage = 2 /\ w <= 14 =>
  LET n == IF val.neg THEN 0 - NatToInt(val.mag) ELSE NatToInt(val.mag)
  IN /\ NatToInt(NatNorm(Pattern(w, val))) = (n + Pow2Tab[w]) % Pow2Tab[w]
     /\ n >= 0 - Pow2Tab[w - 1] /\ n < Pow2Tab[w]

\* v and v + 2^w are the same value of the type; signed reading inverts the pattern
PatternOK == stage = 2 =>
  LET p == NatNorm(Pattern(w, val)) IN
  /\ BitLen(p) <= w
  /\ val.neg => Pattern(w, IntVal(FALSE, p)) = Pattern(w, val)
  /\ SignedRange(w, val) => SignedOfPattern(w, p) = val

\* decimal conversion both ways
DecRoundTrip == stage = 2 => DecToNat(NatToDec(val.mag)) = val.mag
HexRoundTrip == stage = 2 => HexToNat(NatToHex(val.mag)) = val.mag

\* C09's law for the modelled printer
PrintParse == stage = 2 =>
  LET p == CodePrint(w, val, BoolPanics) IN p.ok /\ PrintedDenotes(w, val, p.lit)

\* literals outside the range do not denote (outside the quantifier)
OutOfRange == stage = 2 /\ w <= 14 =>
  /\ ~IntDenote(w, RefDec(IntFromInt(Pow2Tab[w]))).ok
  /\ ~IntDenote(w, RefDec(IntFromInt(0 - Pow2Tab[w - 1] - 1))).ok
  /\ ~IntDenote(w, RefU0x(IntFromInt(Pow2Tab[w]))).ok
  /\ ~IntDenote(w, <<115, 48, 120>> \o Map(HexByteU, NatToHex(NatFromInt(Pow2Tab[w])))).ok

----------------------------------------------------------------------------
(* Vector emission (cfg: INVARIANT Emit).  EmitFile = "stdout" prints one    *)
(* JSON document per vector with PrintT (any number of workers; the harness  *)
(* reads TLC's output); any other non-empty value appends to that file       *)
(* (-workers 1).                                                             *)
Vector == ToJson([w |-> w, tag |-> tag, lit |-> lit, neg |-> val.neg, mag |-> val.mag,
                  pat |-> Pattern(w, val)])
Emit == (stage = 3 /\ EmitFile # "") =>
  IF EmitFile = "stdout" THEN PrintT(Vector)
  ELSE Serialize(Vector \o "\n", EmitFile,
                 [format |-> "TXT", charset |-> "UTF-8",
                  openOptions |-> <<"WRITE", "CREATE", "APPEND">>]).exitValue = 0
=============================================================================
