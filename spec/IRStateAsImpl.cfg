\* IRState with ValidateOnPrint = TRUE (the code as implemented), run with -continue on a small
\* model: TLC must report ObserverTransparent / ObserverTransparentStep (C14: print, edit, print
\* panics) and PrintTotalOnParsed (C08: unnamed func textually before an unnamed global).
SPECIFICATION Spec
CONSTANTS
  ValidateOnPrint = TRUE
  EagerType = TRUE
  MdVariant = "code"
  AssignAllFirst = TRUE
  OperandsMemo = FALSE
  RenameTaken = FALSE
  HeaderBeforeAssign = FALSE
  GlobalRefresh = "fields"
  AllocaRefresh = "fields"
  MaxCalls = 5
  Groups = {"globals", "aliases", "ifuncs"}
  MaxPerGroup = 1
  MaxFuncs = 1
  MaxParams = 1
  MaxBlocks = 1
  MaxInsts = 2
  NewNames = {""}
  SetNames = {"y"}
  InstRes = {"value"}
  InstOps = {}
  RefTargets = {}
  RefGlobals = FALSE
  FieldEdits = {}
  TermKinds = {"ret"}
  MaxMd = 0
  MdExplicit = {}
  MdAttach = FALSE
  MaxSrc = 2
  TrackQueries = FALSE
  StickyQueries = FALSE
  Preset = ""
  IndirectRefresh = "never"
  UnlockOnPanic = TRUE
  CountMemo = FALSE
  EmptyType = "panic"
  LitRetype = FALSE
  DepKinds = {}
  Edits = {}
  TrustCachedID = FALSE
  PrintReadsTyp = FALSE
  Observers = {"PrintModule"}
  EmitFile = "transitions.ndjson"
VIEW View
INVARIANTS TypeOK NumberingCorrect PrintTotalOnParsed AssignIdempotent ObserverTransparent PrintTwiceSame PrintFuncTwiceSame PrintBlockTwiceSame PrintFuncIsPart
PROPERTIES ObserverTransparentStep
CHECK_DEADLOCK FALSE
