SPECIFICATION Spec
CONSTANTS
  Emit = TRUE
  Tier = "quick"
INVARIANTS ResWellFormed CmpShape CmpXchgPair CallRet CastTarget AggPathFollowed ShuffleMask SameAsOperand EmitOK
CHECK_DEADLOCK FALSE
