SPECIFICATION Spec
CONSTANTS
  Emit = TRUE
  Tier = "quick"
INVARIANTS ResWellFormed NamesTransparent GepRow CmpShape CmpXchgPair CallRet CallSig CastTarget AggPathFollowed ShuffleMask SameAsOperand EmitOK
CHECK_DEADLOCK FALSE
