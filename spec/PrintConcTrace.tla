--------------------------- MODULE PrintConcTrace ---------------------------
(***************************************************************************)
(* Judges recordings of the hook events of the real ID assignment (C13).   *)
(*                                                                         *)
(* harness/props/c13 installs ir.VerifHook while N goroutines print one    *)
(* module.  The hook runs inside the critical section ("lock" right after  *)
(* mu.Lock(), "unlock" right before mu.Unlock(), "setid" before each       *)
(* SetID) and stamps every event with a per-mutex sequence number taken    *)
(* while the lock is held and with the goroutine.  The hook itself uses no *)
(* synchronisation (per-goroutine buffers, per-mutex counters), so it adds *)
(* no happens-before edges to the run the race detector watches.           *)
(*                                                                         *)
(* printconc_trace.ndjson: one row per (scenario, round, mutex):           *)
(*   {"sc": scenario, "mu": "m" | "f<i>" | "none", "numbered": b,          *)
(*    "evs": [[g, ev, old, new, seq], ...]}   in order of seq              *)
(*      ev: 0 lock, 1 setid, 2 unlock;   g: goroutine number               *)
(*      numbered: every ID already had its final value when the goroutines *)
(*                were released (parsed or already-printed module)         *)
(*   row "none" holds the setid events of goroutines that held no mutex.   *)
(*                                                                         *)
(* Each row is replayed against the lock protocol of PrintConc.tla         *)
(* (LockFree / HolderIs / WriteNeeded, with WriteOnlyIfChanged = TRUE, the *)
(* required behaviour).  Laws, each failing event printed as               *)
(* <<"BADEV", law, row, index, count>>:                                           *)
(*   seq-consecutive      seq = 0, 1, 2, ...: no two goroutines drew the   *)
(*                        same number, i.e. critical sections of one mutex *)
(*                        never overlap                                    *)
(*   lock-while-held      "lock" only when the mutex is free               *)
(*   setid-outside-lock   "setid" only by the holder                       *)
(*   unlock-by-non-holder "unlock" only by the holder                      *)
(*   left-locked          the row ends with the mutex free                 *)
(*   redundant-setid      on a numbered module no SetID is needed; each    *)
(*                        one is a write under the lock that races with    *)
(*                        the unlocked reads of a concurrent printer       *)
(*                        (PrintConc.cfg with WriteOnlyIfChanged = FALSE   *)
(*                        shows the interleaving)                          *)
(***************************************************************************)
EXTENDS Integers, Sequences, FiniteSets, TLC, Json

PC == INSTANCE PrintConc WITH
        ModulePrinters <- {}, FuncPrinters <- {}, BlockPrinters <- {}, NG <- 0, NF <- 0, NL <- 0, MdCase <- 0,
        WriteOnlyIfChanged <- TRUE, StartPrinted <- TRUE, CachePrefilled <- TRUE,
        LockGlobals <- TRUE, LockLocals <- TRUE, GCachePrefilled <- TRUE, FillGlobalCachesUnderLock <- FALSE, SharedScratch <- FALSE, StaleLocals <- FALSE, Orphans <- {}, LockViaParent <- FALSE, NumberUpFront <- TRUE,
        gid <- <<>>, mid <- <<>>, lid <- <<>>, typ <- <<>>, gtyp <- <<>>, scratch <- 0, mmu <- 0, fmu <- <<>>, bad <- <<>>,
        pc <- <<>>, c <- <<>>, f <- <<>>, last <- <<>>, tmp <- <<>>, pre <- <<>>

Trace == ndJsonDeserialize("printconc_trace.ndjson")
N == Len(Trace)

\* 0 if the law holds on event i of row r, else 1 (and the event is printed): every
\* failing event of every row is reported, not only the first
Chk(cond, law, r, i) == IF cond THEN 0 ELSE IF PrintT(<<"BADEV", law, r, i, 1>>) THEN 1 ELSE 1

G(e) == e[1] + 1       \* goroutine numbers start at 0; 0 is "free" in the protocol
\* holder after event e, given the holder before it (a violated law does not change it)
Step(holder, e) ==
  CASE e[2] = 0 -> IF PC!LockFree(holder) THEN G(e) ELSE holder
    [] e[2] = 2 -> IF PC!HolderIs(holder, G(e)) THEN 0 ELSE holder
    [] OTHER    -> holder

EvBad(r, i, holder, e) ==
    Chk(Trace[r].mu # "none" => e[5] = i - 1,                       "seq-consecutive", r, i)
  + Chk(e[2] = 0 => PC!LockFree(holder),                            "lock-while-held", r, i)
  + Chk(e[2] = 1 => PC!HolderIs(holder, G(e)),                      "setid-outside-lock", r, i)
  + Chk(e[2] = 2 => PC!HolderIs(holder, G(e)),                      "unlock-by-non-holder", r, i)

RECURSIVE Replay(_, _, _)
Replay(r, i, holder) ==
  IF i > Len(Trace[r].evs) THEN Chk(holder = 0, "left-locked", r, i)
  ELSE LET e == Trace[r].evs[i] IN EvBad(r, i, holder, e) + Replay(r, i + 1, Step(holder, e))

\* redundant SetIDs are reported once per row (first index and how many): on the tree as
\* implemented every SetID of a numbered module is one
Redundant(r) == {i \in 1..Len(Trace[r].evs) :
                   LET e == Trace[r].evs[i] IN e[2] = 1 /\ Trace[r].numbered /\ ~PC!WriteNeeded(e[3], e[4])}
RedundantBad(r) == LET idx == Redundant(r) IN
  IF idx = {} THEN 0
  ELSE IF PrintT(<<"BADEV", "redundant-setid", r, CHOOSE i \in idx : \A j \in idx : i <= j, Cardinality(idx)>>)
       THEN 1 ELSE 1

\* Rows with mu = "order" carry lock-order pairs [g, held, acquired, 0, 0]: goroutine g acquired mutex
\* `acquired` while it held mutex `held` (0 = module mutex, i+1 = mutex of function i).  Law lock-order-cycle:
\* the union of these pairs over the goroutines of one round is acyclic.  PrintLocks.tla shows by exhaustion
\* that printers whose nested acquisitions form a cycle (module printer: m then f; function printer: f then m)
\* reach a state in which none can move, and that an acyclic order cannot deadlock.
Pairs(r) == {<<Trace[r].evs[i][2], Trace[r].evs[i][3]>> : i \in 1..Len(Trace[r].evs)}
RECURSIVE Closure(_)
Closure(R) == LET R2 == R \cup {<<pq[1][1], pq[2][2]>> : pq \in {x \in R \X R : x[1][2] = x[2][1]}}
              IN IF R2 = R THEN R ELSE Closure(R2)
OrderBad(r) == IF \E p \in Closure(Pairs(r)) : p[1] = p[2]
               THEN (IF PrintT(<<"BADEV", "lock-order-cycle", r, 1, Cardinality(Pairs(r))>>) THEN 1 ELSE 1)
               ELSE 0

VARIABLE l
Init == l = 0
Next == l < N /\ l' = l + 1
Spec == Init /\ [][Next]_l

\* Always true: the verdict is the list of BADEV lines (an invariant violation per row would
\* make TLC print one error trace per failing row, quadratic in the number of rows).
RowOK == l >= 1 => (IF Trace[l].mu = "order" THEN OrderBad(l) ELSE Replay(l, 1, 0) + RedundantBad(l)) >= 0
=============================================================================
