------------------------------ MODULE FloatLit ------------------------------
(***************************************************************************)
(* Floating-point literals of LLVM IR and their bit patterns (C10).        *)
(*                                                                         *)
(* What is modelled.  A literal is a record [form, digs]: form is the      *)
(* letter after "0x" ("H" half, "K" x86_fp80, "L" fp128, "M" ppc_fp128,    *)
(* "D" for the plain 0x... double-format form), digs the hexadecimal       *)
(* digits as a sequence over 0..15.  Bit patterns are sequences over       *)
(* {0,1}, most significant bit first (TLC integers have 32 bits; only      *)
(* exponents and half patterns are handled as integers).                   *)
(*                                                                         *)
(*   FloatRawHex(kind, lit)    the bits the digits spell, following LLVM's *)
(*                             lexer: 0xL gives the LOW 64 bits first,     *)
(*                             0xK the sign/exponent word first, 0xM the   *)
(*                             first (high-order) double first, short      *)
(*                             spellings are completed the way LLVM's      *)
(*                             HexToIntPair / FP80HexToIntPair do; the     *)
(*                             plain form is a double that must convert    *)
(*                             to half/float WITHOUT loss (low mantissa    *)
(*                             bits zero, exponent in range, subnormals of *)
(*                             the narrow type included), else Invalid.    *)
(*   FloatDenoteHex(kind, lit) LLVM's reading = raw bits, except that for  *)
(*                             x86_fp80 APFloat stores pseudo-denormals    *)
(*                             with exponent 1 and unnormals as NaN        *)
(*                             (X87Read).                                  *)
(*   HexSpelling(kind, bits)   the spelling llvm-dis prints for the bits.  *)
(*   Widen / Narrow            half|float <-> double-format bits.          *)
(*   ImplPrintBits(kind, lit, asImpl)                                      *)
(*                             the bits LLVM reads from what the library   *)
(*                             prints for lit: the bits of lit as REQUIRED *)
(*                             by the property; with asImpl = TRUE the     *)
(*                             observed deviations of llir/llvm (Float     *)
(*                             keeps only a NaN flag and a sign; 0xL words *)
(*                             are read in the wrong order; x86 unnormals  *)
(*                             are taken as finite values; ppc_fp128 NaNs  *)
(*                             and -inf lose their sign).  The ppc_fp128   *)
(*                             detour through a 106-bit sum is not         *)
(*                             modelled.                                   *)
(*                                                                         *)
(* State machine.  stage 0 -> a job (kind, p) is chosen -> stage 1 -> one   *)
(* pattern of the job is chosen -> stage 2.  Jobs: chunks of ChunkSize     *)
(* consecutive half patterns (all 65 536 with ChunkStride = 1); for        *)
(* float, double, fp128, x86_fp80 the boundary set sign x                  *)
(* exponent in {0,1,bias-1,bias,bias+1,max-1,max} x mantissa in {0, 1,     *)
(* msb, msb|1, all ones, alternating} (x86: x explicit integer bit 0/1,    *)
(* which yields pseudo-denormals, unnormals, pseudo-infinities and         *)
(* pseudo-NaNs; with Walk also every single-bit mantissa); for ppc_fp128   *)
(* all pairs of the 84 double boundary patterns.  Enumeration is in Next   *)
(* (not Init) so that all workers share it.                                *)
(* PowerOfTwoNeighbours (Pow2 = TRUE): for the kinds that are printed in   *)
(* decimal (half, float, double) EVERY power of two of the kind's range -  *)
(* normal (every exponent field 1..max-1, mantissa 0) and subnormal (one   *)
(* mantissa bit) -, the value one ulp below it and one ulp above it, and   *)
(* their negatives.  The values that round to 2^e form an ASYMMETRIC       *)
(* interval (the ulp below a power of two is half the ulp above it): the   *)
(* class on which a shortest-digits decimal printer that assumes a         *)
(* symmetric interval emits the digits of the neighbour below.  The spec   *)
(* emits the hexadecimal spelling (tag "pow2") with the required bits;     *)
(* the harness derives from each vector the exact decimal spelling and the *)
(* constant.NewFloat call of the same value, all judged by the one law of  *)
(* FloatLitTrace.tla (LLVM reads the printed literal as the same bits).    *)
(*                                                                         *)
(* Properties (invariants over the pattern states):                        *)
(*   RoundTrip     FloatDenoteHex(kind, HexSpelling(kind, b)) = Read(b)    *)
(*   DoubleForm    half/float: the 16-digit double-format spelling of b    *)
(*                 denotes b, and widening keeps the class                 *)
(*   Inexact       half/float: setting the last double mantissa bit, or    *)
(*                 the first bit below the narrow mantissa, makes the      *)
(*                 spelling invalid                                        *)
(*   ReadIdem      LLVM's reading is idempotent                            *)
(*   ShortRule     spellings with fewer digits than the full form denote   *)
(*                 what LLVM's lexer makes of them (rules above            *)
(*                 ShortForms); 4 digit strings of every length 1..full-1  *)
(*                 of every form are emitted as vectors as well            *)
(*   Preserved     THE PROPERTY C10 on the model: the literal printed for  *)
(*                 the canonical spelling of b denotes b.  Holds with      *)
(*                 AsImplemented = FALSE, violated with TRUE               *)
(*                 (FloatLitImpl.cfg) exactly on the modelled defects.     *)
(*                                                                         *)
(* Binding to the code.  (G) With Emit = TRUE the expansion of every job   *)
(* state writes the vectors of its patterns (literal text, required bits,  *)
(* class, the as-implemented expectation) to vec_<job>.ndjson; the harness *)
(* (harness/props/c10) feeds each literal to asm.ParseString and           *)
(* constant.NewFloatFromString, prints it and compares.  The same vectors  *)
(* are given to llvm-as, so that an error of this module shows up as a     *)
(* spec/LLVM disagreement and never as an alarm about the code.  (T) see   *)
(* FloatLitTrace.tla.                                                      *)
(***************************************************************************)
EXTENDS Integers, Sequences, FiniteSets, TLC, Json

CONSTANTS AsImplemented,  \* BOOLEAN: model the known deviations of the library
          Emit,           \* BOOLEAN: job states write their vectors
          ChunkSize,      \* half patterns per job; divides 65536
          ChunkStride,    \* every ChunkStride-th chunk is enumerated (1 = all 65 536 patterns)
          Walk,           \* BOOLEAN: boundary mantissas also include every single-bit pattern
          Kinds,          \* subset of the six kinds to enumerate
          Pow2,           \* BOOLEAN: also the dimension PowerOfTwoNeighbours (below, above JobSet)
          Pos             \* BOOLEAN: also the dimension Positions (below, above JobSet)

HalfChunks == {c \in 0..(65536 \div ChunkSize - 1) : c % ChunkStride = 0}

----------------------------------------------------------------------------
\* bit and digit sequences

Zeros(n) == [i \in 1..n |-> 0]
Ones(n)  == [i \in 1..n |-> 1]
Alt(n)   == [i \in 1..n |-> i % 2]                          \* 1010...
Bits(n, len) == [i \in 1..len |-> (n \div 2^(len - i)) % 2]  \* n < 2^30
RECURSIVE NatOf(_, _)
NatOf(s, k) == IF k = 0 THEN 0 ELSE 2 * NatOf(s, k - 1) + s[k]
ToNat(s) == NatOf(s, Len(s))                                   \* Len(s) <= 30
AllZero(s) == \A i \in 1..Len(s) : s[i] = 0
SetBit(s, p) == [s EXCEPT ![p] = 1]

HexToBits(d) == [i \in 1..4 * Len(d) |-> (d[(i + 3) \div 4] \div 2^(3 - ((i - 1) % 4))) % 2]
BitsToHex(b) == [j \in 1..Len(b) \div 4 |-> 8 * b[4*j - 3] + 4 * b[4*j - 2] + 2 * b[4*j - 1] + b[4*j]]
PadLeft(d, n) == Zeros(n - Len(d)) \o d
RECURSIVE StripZeros(_)
StripZeros(d) == IF Len(d) > 1 /\ d[1] = 0 THEN StripZeros(Tail(d)) ELSE d

HexChar == <<"0", "1", "2", "3", "4", "5", "6", "7", "8", "9", "A", "B", "C", "D", "E", "F">>
LowChar == <<"0", "1", "2", "3", "4", "5", "6", "7", "8", "9", "a", "b", "c", "d", "e", "f">>
RECURSIVE HexStrOf(_, _, _)
HexStrOf(d, k, tab) == IF k = 0 THEN "" ELSE HexStrOf(d, k - 1, tab) \o tab[d[k] + 1]
HexStr(d) == HexStrOf(d, Len(d), HexChar)
HexStrLower(d) == HexStrOf(d, Len(d), LowChar)

----------------------------------------------------------------------------
\* formats

AllKinds == {"half", "float", "double", "x86_fp80", "fp128", "ppc_fp128"}
ExpW(k) == CASE k = "half" -> 5 [] k = "float" -> 8 [] k = "double" -> 11
             [] k = "fp128" -> 15 [] k = "x86_fp80" -> 15
\* mantissa field; for x86_fp80 it includes the explicit integer bit
ManW(k) == CASE k = "half" -> 10 [] k = "float" -> 23 [] k = "double" -> 52
             [] k = "fp128" -> 112 [] k = "x86_fp80" -> 64
Width(k) == IF k = "ppc_fp128" THEN 128 ELSE 1 + ExpW(k) + ManW(k)
Bias(k) == 2^(ExpW(k) - 1) - 1
MaxExp(k) == 2^ExpW(k) - 1
ExpOf(k, b) == ToNat(SubSeq(b, 2, 1 + ExpW(k)))
ManOf(k, b) == SubSeq(b, 2 + ExpW(k), Width(k))
Mk(k, s, e, m) == <<s>> \o Bits(e, ExpW(k)) \o m

\* class of an IEEE pattern (half, float, double, fp128)
ClassIEEE(k, b) ==
  LET e == ExpOf(k, b)  m == ManOf(k, b) IN
  IF e = 0 THEN (IF AllZero(m) THEN "zero" ELSE "subnormal")
  ELSE IF e = MaxExp(k) THEN (IF AllZero(m) THEN "inf" ELSE IF m[1] = 1 THEN "qnan" ELSE "snan")
  ELSE "normal"

\* class of a raw x86_fp80 pattern (j = explicit integer bit, f = fraction)
ClassX87(b) ==
  LET e == ExpOf("x86_fp80", b)  m == ManOf("x86_fp80", b)  j == m[1]  f == Tail(m) IN
  IF e = 0 THEN (IF AllZero(m) THEN "zero" ELSE IF j = 1 THEN "pseudo-denormal" ELSE "subnormal")
  ELSE IF e = 32767
       THEN (IF j = 1 THEN (IF AllZero(f) THEN "inf" ELSE IF f[1] = 1 THEN "qnan" ELSE "snan")
                      ELSE (IF AllZero(f) THEN "pseudo-inf" ELSE "pseudo-nan"))
  ELSE (IF j = 1 THEN "normal" ELSE "unnormal")

\* LLVM (APFloat) stores a pseudo-denormal with exponent 1 and every unnormal as a NaN with the
\* significand kept; pseudo-infinities and pseudo-NaNs are NaNs already (exponent all ones)
X87Read(b) ==
  LET c == ClassX87(b) IN
  IF c = "pseudo-denormal" THEN Mk("x86_fp80", b[1], 1, ManOf("x86_fp80", b))
  ELSE IF c = "unnormal" THEN Mk("x86_fp80", b[1], 32767, ManOf("x86_fp80", b))
  ELSE b

Read(k, b) == IF k = "x86_fp80" THEN X87Read(b) ELSE b

Class(k, b) == IF k = "x86_fp80" THEN ClassX87(b)
               ELSE IF k = "ppc_fp128" THEN ClassIEEE("double", SubSeq(b, 1, 64)) \o "+" \o ClassIEEE("double", SubSeq(b, 65, 128))
               ELSE ClassIEEE(k, b)

IsNaNClass(c) == c \in {"qnan", "snan", "pseudo-nan", "pseudo-inf"}

----------------------------------------------------------------------------
\* half / float  <->  double-format bits

Valid(b) == [ok |-> TRUE, bits |-> b]
Invalid  == [ok |-> FALSE, bits |-> <<>>]

\* position of the leading 1 of a non-zero mantissa
Lead(m) == CHOOSE i \in 1..Len(m) : m[i] = 1 /\ \A j \in 1..(i - 1) : m[j] = 0

Widen(k, b) ==
  LET s == b[1]  e == ExpOf(k, b)  m == ManOf(k, b)  mw == ManW(k) IN
  IF e = 0
  THEN IF AllZero(m) THEN <<s>> \o Zeros(63)
       ELSE LET i == Lead(m) IN   \* a subnormal of the narrow type is a normal double
            <<s>> \o Bits(1 - Bias(k) - i + 1023, 11) \o SubSeq(m, i + 1, mw) \o Zeros(52 - (mw - i))
  ELSE IF e = MaxExp(k) THEN <<s>> \o Ones(11) \o m \o Zeros(52 - mw)      \* inf, NaN (payload kept)
  ELSE <<s>> \o Bits(e - Bias(k) + 1023, 11) \o m \o Zeros(52 - mw)

\* LLVM accepts a double-format constant for half/float iff APFloat::convert loses no information
Narrow(k, d) ==
  LET s == d[1]  e == ToNat(SubSeq(d, 2, 12))  m == SubSeq(d, 13, 64)
      mw == ManW(k)  bias == Bias(k)  E == e - 1023
      LowZero(from) == AllZero(SubSeq(m, from, 52))
  IN IF e = 0 THEN (IF AllZero(m) THEN Valid(Mk(k, s, 0, Zeros(mw))) ELSE Invalid)   \* double subnormals are too small
     ELSE IF e = 2047 THEN (IF LowZero(mw + 1) THEN Valid(Mk(k, s, MaxExp(k), SubSeq(m, 1, mw))) ELSE Invalid)
     ELSE IF E > bias THEN Invalid                                                  \* overflow
     ELSE IF E >= 1 - bias THEN (IF LowZero(mw + 1) THEN Valid(Mk(k, s, E + bias, SubSeq(m, 1, mw))) ELSE Invalid)
     ELSE LET sh == (1 - bias) - E IN                                               \* subnormal of the narrow type
          IF sh <= mw /\ LowZero(mw - sh + 1)
          THEN Valid(Mk(k, s, 0, Zeros(sh - 1) \o <<1>> \o SubSeq(m, 1, mw - sh)))
          ELSE Invalid

\* index (in the 64-bit double pattern) of the first mantissa bit that the narrow type cannot hold
FirstDropped(k, b) ==
  LET e == ExpOf(k, b)  m == ManOf(k, b) IN
  12 + (IF e = 0 /\ ~AllZero(m) THEN ManW(k) - Lead(m) ELSE ManW(k)) + 1

----------------------------------------------------------------------------
\* literals

Lit(form, digs) == [form |-> form, digs |-> digs]

\* LLVM's HexToIntPair: <<Pair[0], Pair[1]>>; fewer than 16 digits go to Pair[1]
PairLM(d) == IF Len(d) < 16 THEN <<Zeros(16), PadLeft(d, 16)>>
             ELSE <<SubSeq(d, 1, 16), PadLeft(SubSeq(d, 17, Len(d)), 16)>>
\* LLVM's FP80HexToIntPair: <<sign/exponent word (first 4 digits), significand>>
PairK(d) == LET n == Len(d)  k == IF n < 4 THEN n ELSE 4 IN
            <<PadLeft(SubSeq(d, 1, k), 4), PadLeft(SubSeq(d, k + 1, n), 16)>>

FloatRawHex(kind, lit) ==
  LET d == lit.digs  n == Len(d)  f == lit.form IN
  IF f = "H" /\ kind = "half" /\ n \in 1..4 THEN Valid(HexToBits(PadLeft(d, 4)))
  ELSE IF f = "K" /\ kind = "x86_fp80" /\ n \in 1..20 THEN Valid(HexToBits(PairK(d)[1] \o PairK(d)[2]))
  ELSE IF f = "L" /\ kind = "fp128" /\ n \in 1..32 THEN Valid(HexToBits(PairLM(d)[2] \o PairLM(d)[1]))  \* low word first
  ELSE IF f = "M" /\ kind = "ppc_fp128" /\ n \in 1..32 THEN Valid(HexToBits(PairLM(d)[1] \o PairLM(d)[2]))
  ELSE IF f = "D" /\ kind \in {"half", "float", "double"} /\ n \in 1..16
       THEN LET d64 == HexToBits(PadLeft(d, 16)) IN IF kind = "double" THEN Valid(d64) ELSE Narrow(kind, d64)
  ELSE Invalid

FloatDenoteHex(kind, lit) ==
  LET r == FloatRawHex(kind, lit) IN IF r.ok THEN Valid(Read(kind, r.bits)) ELSE r

\* the spelling llvm-dis prints for a pattern when it prints hexadecimal
HexSpelling(kind, b) ==
  CASE kind = "half"      -> Lit("H", BitsToHex(b))
    [] kind = "float"     -> Lit("D", StripZeros(BitsToHex(Widen("float", b))))
    [] kind = "double"    -> Lit("D", StripZeros(BitsToHex(b)))
    [] kind = "x86_fp80"  -> Lit("K", BitsToHex(b))
    [] kind = "fp128"     -> Lit("L", BitsToHex(SubSeq(b, 65, 128) \o SubSeq(b, 1, 64)))
    [] kind = "ppc_fp128" -> Lit("M", BitsToHex(b))

\* the 16-digit double-format spelling of a half or float pattern
DoubleForm(kind, b) == Lit("D", BitsToHex(Widen(kind, b)))

LitText(lit) == "0x" \o (IF lit.form = "D" THEN "" ELSE lit.form) \o HexStr(lit.digs)
LitTextLower(lit) == "0x" \o (IF lit.form = "D" THEN "" ELSE lit.form) \o HexStrLower(lit.digs)

----------------------------------------------------------------------------
\* the library: parse, keep, print.  As REQUIRED the kept value determines all bits.  As
\* IMPLEMENTED: the constant keeps a big.Float, a NaN flag and the sign.

\* the NaN the library prints, as the bits LLVM reads from its literal
LibNaN(kind, s) ==
  CASE kind \in {"half", "float", "double"} -> Mk(kind, s, MaxExp(kind), <<1>> \o Zeros(ManW(kind) - 1))
    [] kind = "x86_fp80"  -> Mk(kind, s, 32767, <<1, 0>> \o Ones(62))                \* 0xK7FFFBFFFFFFFFFFFFFFF
    [] kind = "ppc_fp128" -> Mk("double", s, 2047, <<1>> \o Zeros(50) \o <<1>>) \o Zeros(64)  \* Go's math.NaN()
    [] kind = "fp128"     -> Zeros(64) \o <<s>> \o Ones(15) \o <<1>> \o Zeros(47)      \* 0xL7FFF8000..0 0..0 as LLVM reads it: low word first

\* x86: the library takes an unnormal as the finite value 0.f * 2^(e-bias) and prints it normalised
X87Normalise(b) ==
  LET s == b[1]  e == ExpOf("x86_fp80", b)  m == ManOf("x86_fp80", b) IN
  IF AllZero(m) THEN Mk("x86_fp80", s, 0, Zeros(64))
  ELSE LET i == Lead(m) - 1 IN    \* shift needed to bring the leading 1 to the integer bit
       IF e - i >= 1 THEN Mk("x86_fp80", s, e - i, SubSeq(m, i + 1, 64) \o Zeros(i))
       ELSE Mk("x86_fp80", s, 0, SubSeq(m, e, 64) \o Zeros(e - 1))

\* the bits LLVM reads from what the library prints for the literal lit (lit valid for kind)
ImplPrintBits(kind, lit, asImpl) ==
  LET raw == FloatRawHex(kind, lit).bits
      req == Read(kind, raw)
  IN IF ~asImpl THEN req
     ELSE CASE kind \in {"half", "float", "double"} ->
                 IF ClassIEEE(kind, raw) \in {"qnan", "snan"} THEN LibNaN(kind, raw[1]) ELSE raw
            [] kind = "x86_fp80" ->
                 LET c == ClassX87(raw) IN
                 IF c \in {"qnan", "snan", "pseudo-nan", "pseudo-inf"} THEN LibNaN(kind, raw[1])
                 ELSE IF c = "unnormal" THEN X87Normalise(raw)
                 ELSE req
            [] kind = "fp128" ->
                 \* the library takes the FIRST 16 digits (LLVM's low word) as sign/exponent word
                 LET lib == SubSeq(raw, 65, 128) \o SubSeq(raw, 1, 64) IN
                 IF ClassIEEE("fp128", lib) \in {"qnan", "snan"} THEN LibNaN(kind, lib[1]) ELSE raw
            [] kind = "ppc_fp128" ->
                 \* only the NaN flag is modelled; the renormalisation of the pair through a
                 \* 106-bit sum is not (the harness classifies it)
                 IF ClassIEEE("double", SubSeq(raw, 1, 64)) \in {"qnan", "snan"}
                    \/ ClassIEEE("double", SubSeq(raw, 65, 128)) \in {"qnan", "snan"}
                 THEN LibNaN(kind, 0)
                 \* float128ppc.NegInf is +Inf
                 ELSE IF ClassIEEE("double", SubSeq(raw, 1, 64)) = "inf" /\ AllZero(SubSeq(raw, 65, 128))
                      THEN <<0>> \o Tail(raw)
                 ELSE raw

----------------------------------------------------------------------------
\* boundary sets

Exps(k) == <<0, 1, Bias(k) - 1, Bias(k), Bias(k) + 1, MaxExp(k) - 1, MaxExp(k)>>
Mants(w) == <<Zeros(w), Zeros(w - 1) \o <<1>>, <<1>> \o Zeros(w - 1),
              <<1>> \o Zeros(w - 2) \o <<1>>, Ones(w), Alt(w)>>

\* with Walk the mantissa set also has every single-bit pattern ("walking one")
FracW(k) == IF k = "x86_fp80" THEN 63 ELSE ManW(k)
MantCount(k) == 6 + (IF Walk THEN FracW(k) ELSE 0)
MantAt(k, mi) == IF mi <= 6 THEN Mants(FracW(k))[mi] ELSE [j \in 1..FracW(k) |-> IF j = mi - 6 THEN 1 ELSE 0]

\* the i-th boundary pattern of an IEEE kind, i in 1..BoundaryCount(k): sign, exponent, mantissa
BoundaryCount(k) == 2 * 7 * MantCount(k) * (IF k = "x86_fp80" THEN 2 ELSE 1)
Boundary(k, i) == LET per == MantCount(k)
                      s == (i - 1) \div (7 * per)  ei == ((i - 1) % (7 * per)) \div per + 1  mi == ((i - 1) % per) + 1 IN
                  Mk(k, s, Exps(k)[ei], MantAt(k, mi))
\* x86_fp80: the explicit integer bit is varied as well
BoundaryX87(i) == LET per == MantCount("x86_fp80")
                      s == (i - 1) \div (14 * per)  ei == ((i - 1) % (14 * per)) \div (2 * per) + 1
                      j == ((i - 1) % (2 * per)) \div per  mi == ((i - 1) % per) + 1 IN
                  Mk("x86_fp80", s, Exps("x86_fp80")[ei], <<j>> \o MantAt("x86_fp80", mi))
\* the 84 double patterns used for both halves of ppc_fp128 (never with the walking ones)
Boundary84(i) == LET s == (i - 1) \div 42  ei == ((i - 1) % 42) \div 6 + 1  mi == ((i - 1) % 6) + 1 IN
                 Mk("double", s, Exps("double")[ei], Mants(52)[mi])

\* PowerOfTwoNeighbours.  The exponents of kind k: 1..MaxExp-1 (normal, 2^(e-bias)) and, after them,
\* j in 1..ManW (subnormal, the single mantissa bit j).  Six patterns per exponent: sign x (one ulp
\* below, the power of two, one ulp above).  Below a normal power of two lies the all-ones mantissa of
\* the exponent before it (for exponent field 1: the largest subnormal).
Pow2Kinds == IF Pow2 THEN Kinds \cap {"half", "float", "double"} ELSE {}
Pow2Exps(k) == MaxExp(k) - 1 + ManW(k)
Pow2PerJob == 384        \* 64 exponents per job
Pow2Jobs(k) == (6 * Pow2Exps(k) + Pow2PerJob - 1) \div Pow2PerJob
Unit(w, j) == [i \in 1..w |-> IF i = j THEN 1 ELSE 0]
Pow2Pattern(k, g) ==
  LET x == g - 1  ei == x \div 6 + 1  s == (x % 6) \div 3  d == x % 3  w == ManW(k) IN
  IF ei <= MaxExp(k) - 1
  THEN CASE d = 1 -> Mk(k, s, ei, Zeros(w))
         [] d = 2 -> Mk(k, s, ei, Zeros(w - 1) \o <<1>>)
         [] OTHER -> Mk(k, s, ei - 1, Ones(w))
  ELSE LET j == ei - (MaxExp(k) - 1) IN
       CASE d = 1 -> Mk(k, s, 0, Unit(w, j))
         [] d = 2 -> Mk(k, s, 0, IF j = w THEN Unit(w, w - 1) ELSE [i \in 1..w |-> IF i = j \/ i = w THEN 1 ELSE 0])
         [] OTHER -> Mk(k, s, 0, [i \in 1..w |-> IF i > j THEN 1 ELSE 0])
IsPow2Job(job) == job.p < 0           \* p = -(number of the job)

\* Positions (Pos = TRUE).  The property speaks of every literal of the text, wherever it stands: a
\* literal is not only the initialiser of a scalar global but also an element of a vector / array /
\* struct constant (possibly nested), an operand of an instruction, an argument of a call, a
\* returned value, an operand of a metadata node.  Parsers and printers treat these places
\* differently (aggregate constants are built, folded and printed by other code than scalars), so
\* the place is a dimension of its own: one job per kind (p = PosP) whose patterns are the class
\* representatives  sign x {zero, smallest subnormal, 1.0, infinity, canonical quiet NaN}  and whose
\* vectors place the canonical spelling of each pattern at every position of Positions, with the
\* other leaves of the enclosing aggregate (Siblings) holding the same literal, +0 or 1.0 of the
\* kind.  The required outcome is the one law of the property: the literal printed AT THAT PLACE
\* denotes the bits of the literal written there (FloatLitTrace.tla judges the recording).
PosP == 100000
IsPosJob(job) == job.p = PosP
Positions == <<"scalar", "vector", "array", "struct", "nested", "operand", "vector-operand",
               "call-argument", "return", "metadata">>
Siblings == <<"same", "zero", "one">>
PosPattern(k, i) ==      \* i in 1..10
  LET s == (i - 1) \div 5  c == ((i - 1) % 5) + 1
      ieee(kk) == LET w == ManW(kk) IN
                  CASE c = 1 -> Mk(kk, s, 0, Zeros(w))
                    [] c = 2 -> Mk(kk, s, 0, Zeros(w - 1) \o <<1>>)
                    [] c = 3 -> Mk(kk, s, Bias(kk), Zeros(w))
                    [] c = 4 -> Mk(kk, s, MaxExp(kk), Zeros(w))
                    [] c = 5 -> Mk(kk, s, MaxExp(kk), <<1>> \o Zeros(w - 1))
  IN CASE k = "x86_fp80"  -> (CASE c = 1 -> Mk(k, s, 0, Zeros(64))
                                [] c = 2 -> Mk(k, s, 0, Zeros(63) \o <<1>>)
                                [] c = 3 -> Mk(k, s, Bias(k), <<1>> \o Zeros(63))
                                [] c = 4 -> Mk(k, s, MaxExp(k), <<1>> \o Zeros(63))
                                [] c = 5 -> Mk(k, s, MaxExp(k), <<1, 1>> \o Zeros(62)))
       [] k = "ppc_fp128" -> ieee("double") \o Zeros(64)
       [] OTHER           -> ieee(k)
PosJobs == IF Pos THEN {[kind |-> k, p |-> PosP] : k \in Kinds} ELSE {}

\* jobs: [kind, p]; half: p = chunk number; ppc_fp128: p = index of the first double; others p = 0;
\* PowerOfTwoNeighbours: p = -1, -2, ...
JobSet == PosJobs \cup UNION {{[kind |-> k, p |-> 0 - c] : c \in 1..Pow2Jobs(k)} : k \in Pow2Kinds} \cup {[kind |-> "half", p |-> c] : c \in (IF "half" \in Kinds THEN HalfChunks ELSE {})}
          \cup {[kind |-> k, p |-> 0] : k \in Kinds \cap {"float", "double", "fp128", "x86_fp80"}}
          \cup {[kind |-> "ppc_fp128", p |-> i] : i \in (IF "ppc_fp128" \in Kinds THEN 1..84 ELSE {})}

JobLen(job) == IF IsPosJob(job) THEN 10 ELSE
               IF IsPow2Job(job)
               THEN LET left == 6 * Pow2Exps(job.kind) - (0 - job.p - 1) * Pow2PerJob IN
                    IF left < Pow2PerJob THEN left ELSE Pow2PerJob
               ELSE CASE job.kind = "half" -> ChunkSize [] job.kind = "ppc_fp128" -> 84 [] OTHER -> BoundaryCount(job.kind)
PatternAt(job, i) ==
  IF IsPosJob(job) THEN PosPattern(job.kind, i) ELSE
  IF IsPow2Job(job) THEN Pow2Pattern(job.kind, (0 - job.p - 1) * Pow2PerJob + i) ELSE
  CASE job.kind = "half"      -> Bits(job.p * ChunkSize + i - 1, 16)
    [] job.kind = "x86_fp80"  -> BoundaryX87(i)
    [] job.kind = "ppc_fp128" -> Boundary84(job.p) \o Boundary84(i)
    [] OTHER                  -> Boundary(job.kind, i)

----------------------------------------------------------------------------
\* vectors (spec -> code)

Vec(kind, tag, text, den, b, implbits) ==
  [kind |-> kind, tag |-> tag, lit |-> text, valid |-> den.ok,
   want |-> IF den.ok THEN HexStr(BitsToHex(den.bits)) ELSE "",
   cls |-> IF den.ok THEN Class(kind, b) ELSE "",
   impl |-> IF den.ok THEN HexStr(BitsToHex(implbits)) ELSE ""]

VecOf(kind, tag, lit, b) ==
  LET den == FloatDenoteHex(kind, lit) IN
  Vec(kind, tag, LitText(lit), den, b, IF den.ok THEN ImplPrintBits(kind, lit, TRUE) ELSE <<>>)
VecLower(kind, lit, b) ==
  LET den == FloatDenoteHex(kind, lit) IN
  Vec(kind, "lower", LitTextLower(lit), den, b, IF den.ok THEN ImplPrintBits(kind, lit, TRUE) ELSE <<>>)

HasLetter(lit) == \E i \in 1..Len(lit.digs) : lit.digs[i] >= 10

\* all vectors of one pattern
VectorsOf(kind, b) ==
  LET canon == HexSpelling(kind, b)
      full  == IF canon.form = "D" THEN Lit("D", PadLeft(canon.digs, 16)) ELSE canon
  IN  <<VecOf(kind, "canon", full, b)>>
      \o (IF canon # full THEN <<VecOf(kind, "short", canon, b)>> ELSE <<>>)
      \o (IF kind # "half" /\ HasLetter(full) THEN <<VecLower(kind, full, b)>> ELSE <<>>)
      \o (IF kind = "half" THEN <<VecOf(kind, "dform", DoubleForm(kind, b), b)>> ELSE <<>>)
      \o (IF kind \in {"half", "float"}
          THEN LET w == Widen(kind, b) IN
               <<VecOf(kind, "inexact-lsb", Lit("D", BitsToHex(SetBit(w, 64))), b),
                 VecOf(kind, "inexact-first", Lit("D", BitsToHex(SetBit(w, FirstDropped(kind, b)))), b)>>
          ELSE <<>>)

\* PowerOfTwoNeighbours: the canonical hexadecimal spelling only (the decimal spelling and the API call
\* of the same value are derived from it by the harness)
Pow2VectorsOf(kind, b) ==
  LET canon == HexSpelling(kind, b)
      full  == IF canon.form = "D" THEN Lit("D", PadLeft(canon.digs, 16)) ELSE canon
  IN <<VecOf(kind, "pow2", full, b)>>

\* Positions: the canonical spelling at every place, with every choice of the sibling leaves; the
\* harness writes the module text of the place (harness/props/c10/pos.go) and reads the literal
\* printed at the same place
FullSpelling(kind, b) == LET canon == HexSpelling(kind, b) IN
                         IF canon.form = "D" THEN Lit("D", PadLeft(canon.digs, 16)) ELSE canon
PosVectorsOf(kind, b) ==
  LET full == FullSpelling(kind, b)
      sibl(sb) == CASE sb = "same" -> LitText(full)
                    [] sb = "zero" -> LitText(FullSpelling(kind, PosPattern(kind, 1)))
                    [] sb = "one"  -> LitText(FullSpelling(kind, PosPattern(kind, 3)))
  IN [j \in 1..(Len(Positions) * Len(Siblings)) |->
        LET po == Positions[((j - 1) \div Len(Siblings)) + 1]  sb == Siblings[((j - 1) % Len(Siblings)) + 1] IN
        VecOf(kind, "pos", full, b) @@ [pos |-> po, sib |-> sb, sibl |-> sibl(sb)]]

RECURSIVE Flatten(_, _)
Flatten(ss, k) == IF k = 0 THEN <<>> ELSE Flatten(ss, k - 1) \o ss[k]

\* for half only every InexactStride-th pattern carries the two inexact vectors (they are
\* checked by TLC on every pattern; LLVM only needs a sample to confirm the rule)
InexactStride == 256
VectorsOfJob(job) ==
  LET vs == [i \in 1..JobLen(job) |->
               LET all == IF IsPosJob(job) THEN PosVectorsOf(job.kind, PatternAt(job, i)) ELSE
                          IF IsPow2Job(job) THEN Pow2VectorsOf(job.kind, PatternAt(job, i))
                          ELSE VectorsOf(job.kind, PatternAt(job, i)) IN
               IF ~IsPosJob(job) /\ ~IsPow2Job(job) /\ job.kind = "half" /\ i % InexactStride # 1 THEN SubSeq(all, 1, Len(all) - 2) ELSE all]
  IN Flatten(vs, Len(vs))

JobName(job) == job.kind \o "_" \o ToString(job.p)

\* Short spellings: fewer digits than the full form (16 for the double format, 4 for 0xH, 20 for
\* 0xK, 32 for 0xL and 0xM).  LLVM 14 accepts them; its lexer completes them as follows (observed
\* through llvm-as | llvm-dis, encoded in FloatRawHex through PairLM / PairK):
\*   0x..., 0xH   the digits are a number: equal to the spelling left-padded with zeros;
\*   0xL, 0xM     HexToIntPair: fewer than 16 digits -> first word 0, second word = the digits (equal
\*                to left-padding to 32 digits); 16..31 digits -> first word = the first 16 digits,
\*                second word = the REST left-padded (NOT equal to left-padding the whole spelling);
\*   0xK          FP80HexToIntPair: the first min(4, n) digits are the sign/exponent word (left-
\*                padded), the rest is the significand (left-padded): 0xK01 = 0001|0000000000000000,
\*                an unnormal, which LLVM reads as NaN; 0xK3FFF8 = 3FFF|0000000000000008.
FullDigits(form) == CASE form = "D" -> 16 [] form = "H" -> 4 [] form = "K" -> 20 [] OTHER -> 32
ShortForms == <<<<"half", "H">>, <<"half", "D">>, <<"float", "D">>, <<"double", "D">>,
                <<"x86_fp80", "K">>, <<"fp128", "L">>, <<"ppc_fp128", "M">>>>
\* four digit strings of every length: 1000.., FFFF.., mixed non-zero digits, 0..01
ShortDigits(n, v) == CASE v = 1 -> <<1>> \o Zeros(n - 1)
                       [] v = 2 -> [i \in 1..n |-> 15]
                       [] v = 3 -> [i \in 1..n |-> ((i * 7 + 3) % 15) + 1]
                       [] v = 4 -> Zeros(n - 1) \o <<1>>
ShortLitsOf(kf) == LET full == FullDigits(kf[2]) IN
                   [i \in 1..(4 * (full - 1)) |-> Lit(kf[2], ShortDigits(((i - 1) \div 4) + 1, ((i - 1) % 4) + 1))]
ShortVectorsOf(kf) == LET ls == ShortLitsOf(kf) IN
                      [i \in 1..Len(ls) |->
                         LET den == FloatDenoteHex(kf[1], ls[i]) IN
                         Vec(kf[1], "short-spelling", LitText(ls[i]), den, IF den.ok THEN den.bits ELSE <<>>,
                             IF den.ok THEN den.bits ELSE <<>>)]
ShortVectors == Flatten([j \in 1..Len(ShortForms) |-> ShortVectorsOf(ShortForms[j])], Len(ShortForms))

\* the completion rules stated above, as laws of FloatRawHex
ShortRuleOf(kf) ==
  LET k == kf[1]  f == kf[2]  ls == ShortLitsOf(kf) IN
  \A i \in 1..Len(ls) :
    LET d == ls[i].digs  n == Len(d) IN
    FloatRawHex(k, ls[i]) =
      FloatRawHex(k, Lit(f, IF f \in {"D", "H"} \/ (f \in {"L", "M"} /\ n < 16) THEN PadLeft(d, FullDigits(f))
                            ELSE IF f = "K" THEN PadLeft(SubSeq(d, 1, IF n < 4 THEN n ELSE 4), 4)
                                                 \o PadLeft(SubSeq(d, 5, n), 16)
                            ELSE SubSeq(d, 1, 16) \o PadLeft(SubSeq(d, 17, n), 16)))

\* mismatched spellings (wrong letter for the kind): invalid, LLVM must reject them
ExtraLits ==
  <<<<"double", Lit("H", <<3, 12, 0, 0>>)>>, <<"half", Lit("K", <<3, 15, 15, 15, 8>> \o Zeros(15))>>,
    <<"x86_fp80", Lit("D", <<3, 15, 15>> \o Zeros(13))>>, <<"fp128", Lit("M", Zeros(32))>>,
    <<"ppc_fp128", Lit("L", Zeros(32))>>, <<"float", Lit("H", <<3, 12, 0, 0>>)>>>>
ExtraVectors == [i \in 1..Len(ExtraLits) |->
                   LET k == ExtraLits[i][1]  l == ExtraLits[i][2]  den == FloatDenoteHex(k, l) IN
                   Vec(k, "extra", LitText(l), den, IF den.ok THEN den.bits ELSE <<>>,
                       IF den.ok THEN den.bits ELSE <<>>)]

----------------------------------------------------------------------------
VARIABLES stage, job, pat
vars == <<stage, job, pat>>

\* job states write their vectors (one file per job, so any number of workers)
EmitJob(j) == Emit => ndJsonSerialize("vec_" \o JobName(j) \o ".ndjson", VectorsOfJob(j))

NoJob == [kind |-> "none", p |-> 0]
Init == stage = 0 /\ job = NoJob /\ pat = <<>>
Next == \/ stage = 0 /\ job' \in JobSet /\ stage' = 1 /\ UNCHANGED pat
        \/ stage = 1 /\ EmitJob(job)   \* evaluated by the worker that expands the job state
                     /\ \E i \in 1..JobLen(job) : pat' = PatternAt(job, i)
                     /\ stage' = 2 /\ UNCHANGED job
Spec == Init /\ [][Next]_vars

K == job.kind

RoundTrip == stage = 2 => FloatDenoteHex(K, HexSpelling(K, pat)) = Valid(Read(K, pat))

DoubleFormOK == stage = 2 /\ K \in {"half", "float"} =>
  /\ FloatDenoteHex(K, DoubleForm(K, pat)) = Valid(pat)
  /\ LET c == ClassIEEE(K, pat) IN
     ClassIEEE("double", Widen(K, pat)) = (IF c = "subnormal" THEN "normal" ELSE c)

Inexact == stage = 2 /\ K \in {"half", "float"} =>
  LET w == Widen(K, pat) IN
  /\ ~Narrow(K, SetBit(w, 64)).ok
  /\ ~Narrow(K, SetBit(w, FirstDropped(K, pat))).ok

ReadIdem == stage = 2 => Read(K, Read(K, pat)) = Read(K, pat)

\* the property on the model
Preserved == stage = 2 =>
  LET lit == HexSpelling(K, pat) IN ImplPrintBits(K, lit, AsImplemented) = FloatDenoteHex(K, lit).bits

EmittedExtra == (stage = 0 /\ Emit) => /\ ndJsonSerialize("vec_extra.ndjson", ExtraVectors)
                                       /\ ndJsonSerialize("vec_short.ndjson", ShortVectors)

\* short spellings are completed as stated above ShortForms
ShortRule == stage = 0 => \A j \in 1..Len(ShortForms) : ShortRuleOf(ShortForms[j])
=============================================================================
