SPECIFICATION Spec
CONSTANTS
  Dev = {}
  MaxCalls = 3
  Classes = TRUE
  MaxOps = 5
INVARIANTS Complete NoUseLeft SuccsLive WriteLive
PROPERTIES WriteExact
VIEW View
CHECK_DEADLOCK FALSE
