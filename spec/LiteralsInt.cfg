SPECIFICATION Spec
CONSTANTS
  SmallWidths = {1, 2, 3, 4, 5, 6, 7, 8}
  HexWidths = {9, 10, 11, 12}
  BigWidths = {13, 15, 16, 17, 31, 32, 33, 63, 64, 65, 127, 128, 129, 1024}
  Exps = {0, 1, 2, 3, 4, 7, 8, 12, 15, 16, 17, 31, 32, 33, 62, 63, 64, 65, 127, 128, 512}
  PatWidth = 64
  HexA = {1, 7, 8, 15}
  HexB = {0, 1, 8, 15}
  BoolPanics = FALSE
  EmitFile = "stdout"
INVARIANTS TypeOK DenoteExact NativeOK PatternOK DecRoundTrip HexRoundTrip PrintParse OutOfRange Emit
CHECK_DEADLOCK FALSE
