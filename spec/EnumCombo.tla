----------------------------- MODULE EnumCombo -----------------------------
(***************************************************************************)
(* Combinations of enumerated fields of one entity (C18, direction G).     *)
(*                                                                         *)
(* A global variable, a function declaration, a function definition, an    *)
(* alias and an ifunc each carry several enumerated fields that are        *)
(* printed next to each other as OPTIONAL keywords (linkage, preemption,   *)
(* visibility, DLL storage class): the zero value of a family (`...None`)  *)
(* is printed as no keyword.  The property requires every defined value to *)
(* print to a keyword the parser maps back to the same value - in every    *)
(* context, i.e. whatever the values of the neighbouring fields are.  A    *)
(* printer that drops a keyword because another field implies it (LLVM's   *)
(* writer does that for dso_local; LLVM's parser re-infers it) breaks the  *)
(* law unless the parser re-infers it as well.                             *)
(*                                                                         *)
(* combos.ndjson (recorded by the harness from the working tree, nothing   *)
(* is transcribed): one row per entity                                     *)
(*   [site, fams, vals, kws]   fams[k] the k-th family in printing order,  *)
(*   vals[k] the values of that family which round-trip ALONE on that      *)
(*   entity (the others zero), kws[k][i] the keyword of vals[k][i] ("" for *)
(*   the zero value, which is always vals[k][1]).                          *)
(* State machine site/pick/stage (enumeration in Next): choose an entity,  *)
(* then one value per family: the full product.  Every reached (site,      *)
(* pick) is printed as a COMBO tuple; the harness sets the values together *)
(* on the entity through the ir API, prints, parses, reads the fields back *)
(* and records a combo row, which EnumTrace.tla judges (ComboRoundTrip).   *)
(*                                                                         *)
(* Design-level laws checked here on every combination, for the REFERENCE  *)
(* printer/parser of optional keyword positions (RefPrint drops exactly    *)
(* the zero values; RefParse gives each keyword to the family that owns it *)
(* and zero to the families without a keyword):                            *)
(*   RefRoundTrip      RefParse(RefPrint(pick)) = pick                     *)
(*   DisjointKeywords  adjacent optional positions never share a keyword   *)
(*                     (otherwise an omitted keyword would make the next   *)
(*                     one be read in the wrong slot)                      *)
(* With ImpliedDropped = TRUE the reference printer also drops the keyword *)
(* of family DropFam when another family has a non-zero value (the shape   *)
(* of "implied by linkage/visibility") and the parser does not re-infer    *)
(* it: TLC then shows RefRoundTrip violated (EnumComboImplied.cfg), i.e.   *)
(* the law is not vacuous.                                                 *)
(***************************************************************************)
EXTENDS Integers, Sequences, FiniteSets, TLC, Json

CONSTANTS CombosFile,      \* NDJSON file of entity rows
          ImpliedDropped,  \* TRUE: wrong reference printer (see above)
          DropFam          \* index of the family whose keyword it drops

Rows == ndJsonDeserialize(CombosFile)
SeqToSet(s) == {s[i] : i \in 1..Len(s)}

RECURSIVE Prod(_)
Prod(vs) == IF vs = <<>> THEN {<<>>} ELSE {<<h>> \o t : h \in SeqToSet(Head(vs)), t \in Prod(Tail(vs))}

\* keyword of value v of the k-th family of entity row r
Kw(r, k, v) == LET i == CHOOSE i \in 1..Len(r.vals[k]) : r.vals[k][i] = v IN r.kws[k][i]
Zero(r, k)  == r.vals[k][1]

\* reference printer: the sequence of [k, kw] for the non-zero values, in family order
RefPrint(r, p) ==
  LET keep(k) == /\ p[k] # Zero(r, k)
                 /\ ~(ImpliedDropped /\ k = DropFam /\ \E j \in 1..Len(p) : j # k /\ p[j] # Zero(r, j))
      RECURSIVE go(_)
      go(k) == IF k > Len(p) THEN <<>> ELSE (IF keep(k) THEN <<Kw(r, k, p[k])>> ELSE <<>>) \o go(k + 1)
  IN go(1)
\* reference parser: a keyword belongs to the family that has it
RefParse(r, toks) ==
  [k \in 1..Len(r.vals) |->
     LET mine == {i \in 1..Len(r.vals[k]) : r.kws[k][i] # "" /\ r.kws[k][i] \in SeqToSet(toks)}
     IN IF mine = {} THEN Zero(r, k) ELSE r.vals[k][CHOOSE i \in mine : TRUE]]

VARIABLES site, pick, stage
vars == <<site, pick, stage>>
Init == site = 0 /\ pick = <<>> /\ stage = 0
Next == \/ stage = 0 /\ site' \in 1..Len(Rows) /\ stage' = 1 /\ UNCHANGED pick
        \/ stage = 1 /\ pick' \in Prod(Rows[site].vals) /\ stage' = 2 /\ UNCHANGED site
Spec == Init /\ [][Next]_vars

RefRoundTrip == stage = 2 => RefParse(Rows[site], RefPrint(Rows[site], pick)) = pick
DisjointKeywords == stage = 1 =>
  \A j, k \in 1..Len(Rows[site].kws) : j # k => (SeqToSet(Rows[site].kws[j]) \cap SeqToSet(Rows[site].kws[k])) \subseteq {""}
Emit == stage = 2 => PrintT(<<"COMBO", Rows[site].site, pick>>)
=============================================================================
