--------------------------- MODULE LiteralsNameHist ---------------------------
(***************************************************************************)
(* C11: histories of encoder calls whose results are HELD.                 *)
(*                                                                         *)
(* The escape law of C11 (LiteralsName.tla) is stated per call:            *)
(* Decode(kind, Encode(kind, s)) = s.  A printer, however, rarely uses a   *)
(* token the moment it has it: `fmt.Sprintf("%s=%s", quote(k), quote(v))`, *)
(* `fmt.Fprintf(buf, " %s, %s", quote(asm), quote(constraint))` and every  *)
(* node printer that collects its fields first obtain SEVERAL tokens and   *)
(* write them afterwards.  The token that reaches the output is the one    *)
(* the caller still holds after the later calls.  A result is a value: no  *)
(* later call of any encoder may change it.  This module is the API        *)
(* history model of that:                                                  *)
(*                                                                         *)
(*   calls   the calls made so far: sequence of [kind, bytes]              *)
(*   held    per call, the token as the caller sees it NOW                 *)
(*   view    per call, whether the result is a view on the shared buffer   *)
(*           (only with Pooled = TRUE)                                     *)
(*   buf     the shared buffer of a pooling encoder                        *)
(*                                                                         *)
(* Call(k, s): the encoder of kind k is applied to s (Literals!RefEncode,  *)
(* LLVM's own printer rules); the result is appended to held.  With        *)
(* Pooled = TRUE the string encoder builds every literal that needs an     *)
(* escape in one buffer that it reuses and returns a view on it (the       *)
(* "save the allocation" optimisation): a later call that takes the same   *)
(* path overwrites the buffer and thereby every earlier view.              *)
(*                                                                         *)
(* Laws, on every reachable history:                                       *)
(*   HeldStable    every held token still decodes to the bytes it was made *)
(*                 for: DecodeToken(kind_i, held_i) = name bytes_i         *)
(*   HeldDistinct  two held tokens of one kind made for different bytes    *)
(*                 differ                                                  *)
(* Pooled = FALSE (LiteralsNameHist.cfg): both hold.  Pooled = TRUE        *)
(* (LiteralsNameHistPooled.cfg): TLC shows Quote(q"); Quote(\) -- the      *)
(* first token now reads "\\" + rest; the harness requires that run to be  *)
(* violated (guard against a vacuous law).                                 *)
(*                                                                         *)
(* Histories: every sequence of two calls over Kinds x Pool, and of        *)
(* MaxCalls calls over DeepKinds x Pool.  Pool has one string per class    *)
(* that matters to an encoder with more than one path: plain, a digit      *)
(* (numeric-name path), short and long strings that need an escape (a      *)
(* later literal shorter / longer than the earlier one), a high byte.      *)
(*                                                                         *)
(* Binding (harness/props/c11/hist.go): each emitted history is replayed   *)
(* (a) into the real encoders of internal/enc in that order, the returned  *)
(* strings are kept WITHOUT copying and read only after the last call;     *)
(* (b) for two string calls, into the printers that format two literals    *)
(* in one statement (key and value of a string attribute at every          *)
(* attribute site, template and constraints of inline asm), printed        *)
(* through Module.String and parsed back; (c) for three string calls, into *)
(* every specialised metadata node kind with all its string fields set at  *)
(* once (a node printer collects the literals of all fields before it       *)
(* writes any), printed, parsed back.  LiteralsNameTrace judges every       *)
(* token so obtained with DecodeToken.                                     *)
(***************************************************************************)
EXTENDS Literals, Json

CONSTANTS Pool,        \* byte strings the calls are made with
          Kinds,       \* token kinds of the two-call histories
          DeepKinds,   \* token kinds of the histories of MaxCalls calls
          MaxCalls,
          Pooled,      \* TRUE: the string encoder returns views on a reused buffer
          EmitFile     \* "" or "stdout"

\* a   5   q"   \   a b<01>"cc\   <FF>
DefaultPool == {<<97>>, <<53>>, <<113, 34>>, <<92>>, <<97, 32, 98, 1, 34, 99, 99, 92>>, <<255>>}

VARIABLES calls, held, view, buf
vars == <<calls, held, view, buf>>

Init == calls = <<>> /\ held = <<>> /\ view = <<>> /\ buf = <<>>

Call(k, s) ==
  LET tok  == RefEncode(k, s)
      slow == Pooled /\ k = "string" /\ RefEscape(s) # s
      nbuf == IF slow THEN tok \o SubSeq(buf, Len(tok) + 1, Len(buf)) ELSE buf
  IN /\ calls' = Append(calls, [kind |-> k, bytes |-> s])
     /\ held' = Append([i \in 1..Len(held) |-> IF view[i] THEN SubSeq(nbuf, 1, Len(held[i])) ELSE held[i]], tok)
     /\ view' = Append(view, slow)
     /\ buf' = nbuf

Deep == calls # <<>> /\ \A i \in 1..Len(calls) : calls[i].kind \in DeepKinds
Next == \/ Len(calls) < 2 /\ \E k \in Kinds : \E s \in {x \in Pool : Permitted(k, x)} : Call(k, s)
        \/ Len(calls) >= 2 /\ Len(calls) < MaxCalls /\ Deep
             /\ \E k \in DeepKinds : \E s \in {x \in Pool : Permitted(k, x)} : Call(k, s)
Spec == Init /\ [][Next]_vars

HeldStable   == \A i \in 1..Len(calls) : DecodeToken(calls[i].kind, held[i]) = NameTok(calls[i].bytes)
HeldDistinct == \A i, j \in 1..Len(calls) :
                  (calls[i].kind = calls[j].kind /\ calls[i].bytes # calls[j].bytes) => held[i] # held[j]

\* one vector per history of at least two calls; ref = the tokens LLVM's printer would hold
Emit == (EmitFile = "stdout" /\ Len(calls) >= 2) => PrintT(ToJson([calls |-> calls, ref |-> held]))
=============================================================================
