SPECIFICATION Spec
CONSTANTS
  ModulePrinters = {1, 2}
  FuncPrinters = {}
  BlockPrinters = {}
  NG = 2
  NF = 1
  NL = 2
  MdCase = 3
  WriteOnlyIfChanged = TRUE
  StartPrinted = TRUE
  CachePrefilled = TRUE
  LockGlobals = TRUE
  LockLocals = TRUE
  GCachePrefilled = TRUE
  FillGlobalCachesUnderLock = TRUE
  SharedScratch = FALSE
  StaleLocals = FALSE
  Orphans = {}
  LockViaParent = FALSE
  NumberUpFront = TRUE
PROPERTIES Terminates
CHECK_DEADLOCK FALSE
