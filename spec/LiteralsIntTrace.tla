--------------------------- MODULE LiteralsIntTrace ---------------------------
(***************************************************************************)
(* C09, code -> spec.  Judges a recording of the real parser and printer   *)
(* of integer constants.  c09_rec.ndjson has one row per observed fact:    *)
(*                                                                         *)
(*  {"k":"parse","w":W,"lit":[bytes],"neg":B,"mag":[limbs]}                *)
(*      the real parser read the literal lit at type iW as the integer     *)
(*      (neg, mag)  (limbs of 16 bits, least significant first; math/big   *)
(*      is used only to transport the magnitude);                          *)
(*  {"k":"print","w":W,"neg":B,"mag":[limbs],"lit":[bytes]}                *)
(*      the real printer (constant.Int.Ident / module String) spelled the  *)
(*      constant (neg, mag) of type iW as lit.                             *)
(*                                                                         *)
(* Laws (module Literals):                                                 *)
(*  parse row: IntDenote(w, lit) is defined (the generator stays inside    *)
(*      the representable range), the parsed integer is a value of iW      *)
(*      ("in-range") with the same two's-complement pattern at width w     *)
(*      ("parse-value"), and it is exactly the integer the notation        *)
(*      denotes ("parse-exact": i5 s0x1F is -1, not 31; i8 255 is 255, not *)
(*      -1 -- the property's "mathematically correct value", and the       *)
(*      signed reading is the whole point of the s0x notation).            *)
(*  print row: the printed literal is an integer literal of the grammar    *)
(*      that denotes, at width w, a value with the pattern of the constant *)
(*      printed -- whatever notation the printer chose ("print-value").    *)
(*      "print-choice" (informational) reports where the notation differs  *)
(*      from the modelled heuristic Literals!CodePrint (values of at most  *)
(*      3 * MaxDecDigits bits).                                            *)
(* Decimal literals longer than MaxDecDigits are not converted by TLC      *)
(* (cost); the harness checks them by consistency with the hexadecimal     *)
(* spelling, which is judged here.  Such rows are reported as "skipped".   *)
(*                                                                         *)
(* The rows are cut into Chunks groups; the machine first picks a group,   *)
(* so that the groups are judged by different workers.  Every failing row  *)
(* is printed (BADROW law index), the invariant RowsOK is violated once.   *)
(***************************************************************************)
EXTENDS Literals, Json

CONSTANTS MaxDecDigits,   \* longest decimal literal converted by TLC
          Chunks          \* number of row groups

Trace == ndJsonDeserialize("c09_rec.ndjson")
N == Len(Trace)

Bad(law, i) == PrintT(<<"BADROW", law, i>>) /\ FALSE
Info(law, i) == PrintT(<<"INFOROW", law, i>>)

RowVal(r) == IntVal(r.neg, r.mag)
TooLong(r) == LitForm(r.lit) = "dec" /\ Len(r.lit) > MaxDecDigits

ParseRowOK(i) ==
  LET r == Trace[i]   v == RowVal(r)   d == IntDenote(r.w, r.lit) IN
  IF TooLong(r) THEN Info("skipped", i)
  ELSE /\ (IsIntVal(v) /\ Representable(r.w, v))                    \/ Bad("in-range", i)
       /\ d.ok                                                      \/ Bad("literal-outside-quantifier", i)
       /\ (d.ok /\ Representable(r.w, v) => Pattern(r.w, ValOf(d)) = Pattern(r.w, v))
                                                                    \/ Bad("parse-value", i)
       /\ (d.ok => ValOf(d) = v)                                      \/ Bad("parse-exact", i)

PrintRowOK(i) ==
  LET r == Trace[i]   v == RowVal(r) IN
  IF TooLong(r) THEN Info("skipped", i)
  ELSE /\ LitForm(r.lit) # "bad"                                    \/ Bad("print-not-a-literal", i)
       /\ (LitForm(r.lit) # "bad" /\ Representable(r.w, v) => PrintedDenotes(r.w, v, r.lit))
                                                                    \/ Bad("print-value", i)
       /\ (BitLen(v.mag) <= 3 * MaxDecDigits /\ CodePrint(r.w, v, FALSE).lit # r.lit
             => Info("print-choice", i))

RowOK(i) == IF Trace[i].k = "parse" THEN ParseRowOK(i) ELSE PrintRowOK(i)

VARIABLE c
Init == c = 0
Next == c = 0 /\ c' \in 1..Chunks
Spec == Init /\ [][Next]_c

\* the set filter evaluates every row of the group (a \A would stop at the first bad one)
RowsOK == c >= 1 => {i \in {j \in 1..N : j % Chunks = c - 1} : ~RowOK(i)} = {}
=============================================================================
