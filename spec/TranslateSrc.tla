---------------------------- MODULE TranslateSrc ----------------------------
(***************************************************************************)
(* Abstract sources for Translate.tla: a source is a sequence of top-level *)
(* entities in textual order.  The Go harness renders an entity to LLVM    *)
(* assembly with a fixed template per kind (harness/props/trsrc).          *)
(*                                                                         *)
(* Entity  [k, n, body, refs, locals]                                      *)
(*   k     "type" "comdat" "global" "alias" "ifunc" "func" "attr" "nmd"    *)
(*         "md" "ulo" "ulobb"                                              *)
(*   n     name without sigil ("" = unnamed global/function; attribute     *)
(*         groups and metadata nodes are named by their decimal ID)        *)
(*   body  type: "struct" | "opaque" | "alias"; func: "decl" | "def" |     *)
(*         "resolver"; md: "tuple" | "distinct" | "di"; global: "" | "as1" *)
(*         (address space 1); attr: the function                           *)
(*         attributes of the group, space separated; otherwise ""          *)
(*   refs  references made by the entity outside function bodies           *)
(*   locals (func def) parameters, blocks and instructions in layout order *)
(*         [n, lk, refs], lk in "param" "block" "inst" "void" "invoke"     *)
(*         "lpad" (invoke: a value-producing terminator; lpad: landingpad) *)
(* Reference [rk, to, aux]: rk names the reference site (its prefix the    *)
(* index it is looked up in), `to` the target name, aux the block name of  *)
(* a blockaddress / uselistorder_bb reference or the incoming value of a   *)
(* phi predecessor ("" = a constant); for a comdat reference aux =         *)
(* "implicit" is the bare `comdat` spelling (the comdat named after the    *)
(* global).  Local kinds (lk): param, block (its l.target references are   *)
(* the br that ends it), inst, void (a call), invoke, lpad, and the funclet *)
(* forms catchswitch (l.target = handlers, l.unwind), catchpad / cleanuppad *)
(* (l.within = parent pad or none), catchret (l.within, l.target),         *)
(* cleanupret (l.within, l.unwind or "to caller").                         *)
(***************************************************************************)
EXTENDS Integers, Sequences, FiniteSets, TLC

Ref(rk, to)        == [rk |-> rk, to |-> to, aux |-> ""]
RefX(rk, to, aux)  == [rk |-> rk, to |-> to, aux |-> aux]
Ent(k, n, body, refs, locals) == [k |-> k, n |-> n, body |-> body, refs |-> refs, locals |-> locals]
Loc(n, lk, refs)   == [n |-> n, lk |-> lk, refs |-> refs]

TStruct(n, refs) == Ent("type", n, "struct", refs, <<>>)
TOpaque(n)       == Ent("type", n, "opaque", <<>>, <<>>)
TAlias(n, to)    == Ent("type", n, "alias", <<Ref("ty.alias", to)>>, <<>>)
Comdat(n)        == Ent("comdat", n, "", <<>>, <<>>)
Global(n, refs)  == Ent("global", n, "", refs, <<>>)
Alias(n, refs)   == Ent("alias", n, "", refs, <<>>)
IFunc(n, to)     == Ent("ifunc", n, "", <<Ref("g.resolver", to)>>, <<>>)
Decl(n, refs)    == Ent("func", n, "decl", refs, <<>>)
Def(n, refs, ls) == Ent("func", n, "def", refs, ls)
DeclP(n, refs, ls) == Ent("func", n, "decl", refs, ls)         \* a declaration with (named or unnamed) parameters
Resolver(n)      == Ent("func", n, "resolver", <<>>, <<>>)
Attr(n)          == Ent("attr", n, "nounwind", <<>>, <<>>)
AttrB(n, body)   == Ent("attr", n, body, <<>>, <<>>)      \* body: the attributes of the group, e.g. "noinline cold"
NamedMd(n, refs) == Ent("nmd", n, "", refs, <<>>)
Md(n, refs)      == Ent("md", n, "tuple", refs, <<>>)
MdDistinct(n, refs) == Ent("md", n, "distinct", refs, <<>>)
MdDI(n, refs)    == Ent("md", n, "di", refs, <<>>)          \* a specialised node: !DIDerivedType(baseType: .., scope: ..)
MdExpr(n)        == Ent("md", n, "diexpr", <<>>, <<>>)      \* a NUMBERED !DIExpression (LLVM prints them inline, accepts them numbered)
MdArr(n, refs)   == Ent("md", n, "diarr", refs, <<>>)       \* !DICompositeType(tag: DW_TAG_array_type, dataLocation: .., associated: ..)
Ulo(to)          == Ent("ulo", "", "", <<Ref("g.ulo", to)>>, <<>>)
UloBA(f, b)      == Ent("ulo", "", "", <<RefX("l.baddr", f, b)>>, <<>>)   \* uselistorder i8* blockaddress(@f, %b), ...
GlobalAS(n, refs) == Ent("global", n, "as1", refs, <<>>)                 \* a global in address space 1
UloBB(f, b)      == Ent("ulobb", "", "", <<RefX("l.ulobb", f, b)>>, <<>>)
FUlo(v)          == Loc("", "ulo", <<Ref("l.fulo", v)>>)                 \* uselistorder i32 %v, { .. } inside a function body
ModAsm(str)      == Ent("asm", "", str, <<>>, <<>>)                      \* module asm "<str>"
SrcFile(str)     == Ent("srcfile", "", str, <<>>, <<>>)                  \* source_filename = "<str>"
Triple(str)      == Ent("triple", "", str, <<>>, <<>>)                   \* target triple = "<str>"
DataLayout(str)  == Ent("datalayout", "", str, <<>>, <<>>)               \* target datalayout = "<str>"
GlobalStr(n)     == Ent("global", n, "cstr", <<>>, <<>>)                 \* @n = constant [N x i8] c"<the string ml>"
MdStr(n)         == Ent("md", n, "mdstr", <<>>, <<>>)                    \* !n = !{!"<the string ml>"}
StrKinds == {"asm", "srcfile", "triple", "datalayout"}
TargetKinds == {"srcfile", "triple", "datalayout"}     \* LLVM wants them before every other entity; the last one wins

\* index a reference site is looked up in
RefClass(rk) ==
  CASE rk \in {"ty.alias", "ty.field", "ty.global", "ty.sig", "ty.inst", "ty.const", "ty.fattr", "ty.pattr"} -> "type"
    [] rk \in {"g.init", "g.aliasee", "g.resolver", "g.operand", "g.callee", "g.personality",
               "g.mdvalue", "g.ulo", "g.cmp"} -> "glob"
    [] rk \in {"c.global", "c.func"} -> "comdat"
    [] rk \in {"a.func", "a.call"} -> "attr"
    [] rk \in {"m.attach", "m.tuple", "m.named", "m.difield"} -> "md"
    [] rk \in {"l.operand", "l.target", "l.phipred", "l.unwind", "l.within", "l.fulo", "l.mdlocal", "l.ulolocal"} -> "local"
    [] rk \in {"l.baddr", "l.ulobb"} -> "block"      \* to = function, aux = block
\* references that are part of the scaffold (resolved when the global entity is created)
IsSigRef(rk) == rk \in {"ty.global", "ty.sig", "ty.pattr"}     \* ty.pattr: the parameter `%T* byval(%T)` carries the type in the signature too

----------------------------------------------------------------------------
\* All names used by the patterns, in natural order; bytes given for the cross-check
\* against NatSort!RefLess (ASSUME NamesSorted in Translate.tla).
\* "$t", "-t", ".t" sort below every digit; "t$x" extends "t" with the one unquoted character below ')';
\* "z z" must be written quoted (%"z z", $"z z"); "a\\00" is the name a followed by a NUL byte, spelled with the escape of
\* the assembly (a backslash and two hex digits: the model name IS the spelling); LLVM takes any byte in metadata names
\* only: the end of a name is not a byte, "a" < "a\\00" < "a2"
NameOrder == <<"$t", "-t", ".t", "0", "1", "2", "7", "10", "a", "a\\00", "a2", "a9", "a10", "a18446744073709551616", "a018446744073709551616", "a18446744073709551617", "b", "bb", "c", "entry", "f", "g", "h", "m", "p", "r", "t", "t$x", "x", "y", "z z">>
\* digit runs that do not fit 64 bits (2^64, 2^64 with a leading zero, 2^64 + 1): compared by value like any other
W19 == <<49, 56, 52, 52, 54, 55, 52, 52, 48, 55, 51, 55, 48, 57, 53, 53, 49, 54, 49>>     \* "1844674407370955161"
NameBytes == [i \in 1..Len(NameOrder) |->
  CASE NameOrder[i] = "a18446744073709551616" -> <<97>> \o W19 \o <<54>>
    [] NameOrder[i] = "a018446744073709551616" -> <<97, 48>> \o W19 \o <<54>>
    [] NameOrder[i] = "a18446744073709551617" -> <<97>> \o W19 \o <<55>>
    [] NameOrder[i] = "$t" -> <<36, 116>> [] NameOrder[i] = "-t" -> <<45, 116>> [] NameOrder[i] = ".t" -> <<46, 116>>
    [] NameOrder[i] = "t" -> <<116>> [] NameOrder[i] = "t$x" -> <<116, 36, 120>> [] NameOrder[i] = "z z" -> <<122, 32, 122>>
    [] NameOrder[i] = "0" -> <<48>> [] NameOrder[i] = "1" -> <<49>> [] NameOrder[i] = "2" -> <<50>>
    [] NameOrder[i] = "7" -> <<55>> [] NameOrder[i] = "10" -> <<49, 48>>
    [] NameOrder[i] = "a\\00" -> <<97, 0>>
    [] NameOrder[i] = "a" -> <<97>> [] NameOrder[i] = "a2" -> <<97, 50>> [] NameOrder[i] = "a9" -> <<97, 57>>
    [] NameOrder[i] = "a10" -> <<97, 49, 48>> [] NameOrder[i] = "b" -> <<98>> [] NameOrder[i] = "bb" -> <<98, 98>>
    [] NameOrder[i] = "c" -> <<99>> [] NameOrder[i] = "entry" -> <<101, 110, 116, 114, 121>>
    [] NameOrder[i] = "f" -> <<102>> [] NameOrder[i] = "g" -> <<103>> [] NameOrder[i] = "h" -> <<104>>
    [] NameOrder[i] = "m" -> <<109>> [] NameOrder[i] = "p" -> <<112>> [] NameOrder[i] = "r" -> <<114>>
    [] NameOrder[i] = "x" -> <<120>> [] NameOrder[i] = "y" -> <<121>>]
Undef == "zz"                                   \* the name faults are redirected to; never defined
UndefQ == "q0"                                  \* rendered as the QUOTED numeral "0" (%"0", @"0"): a name, never an ID, never defined
UndefN == "n0"                                  \* rendered as the BARE numeral %0: an ID that no value of an all-named function has
UndefW == "zw"                                  \* rendered as the ID 99999999999999999999 (!.., #..): it does not fit 64 bits, nothing has it
UndefE == "qe"                                  \* rendered as the EMPTY quoted name (%"", @""): a name nothing can have, never an ID
IdNames == <<"@0", "@1", "@2", "@3">>           \* identifiers given to unnamed globals, by textual position
Names == {NameOrder[i] : i \in 1..Len(NameOrder)} \cup {IdNames[i] : i \in 1..Len(IdNames)} \cup {Undef, UndefQ, UndefN, UndefE, UndefW}
Rank(n) == CHOOSE i \in 1..Len(NameOrder) : NameOrder[i] = n

----------------------------------------------------------------------------
\* Reference patterns (C04): forward, mutual, self and cyclic references of every index.
Patterns == <<
  \* 1: mutually recursive and self-referential types, natural order of type names
  << TStruct("a10", <<Ref("ty.field", "a2")>>), TStruct("a2", <<Ref("ty.field", "a10"), Ref("ty.field", "a2")>>),
     TOpaque("a9"), Global("g", <<Ref("ty.global", "a9")>>) >>,
  \* 2: globals initialised with each other's addresses, alias, comdats out of order
  << Comdat("c"), Comdat("a10"), Comdat("a2"),
     Global("g", <<Ref("g.init", "h"), Ref("c.global", "a2")>>), Global("h", <<Ref("g.init", "g"), Ref("g.init", "f")>>),
     Alias("a", <<Ref("g.aliasee", "g")>>), Decl("f", <<>>) >>,
  \* 3: phi and branch cycle, use before definition in layout order
  << Def("f", <<>>, << Loc("p", "param", <<>>),
        Loc("entry", "block", <<Ref("l.target", "bb")>>),
        Loc("bb", "block", <<Ref("l.target", "bb")>>),
        Loc("x", "inst", <<Ref("l.phipred", "entry"), RefX("l.phipred", "bb", "y")>>),
        Loc("y", "inst", <<Ref("l.operand", "x")>>) >>) >>,
  \* 4: same local names in two functions, calls in both directions, unnamed function
  << Def("f", <<>>, << Loc("entry", "block", <<>>), Loc("x", "inst", <<Ref("g.operand", "g")>>), Loc("", "void", <<Ref("g.callee", "g")>>) >>),
     Def("g", <<>>, << Loc("entry", "block", <<>>), Loc("x", "inst", <<Ref("g.operand", "f")>>), Loc("", "void", <<Ref("g.callee", "f")>>) >>),
     Def("", <<>>, << Loc("entry", "block", <<>>), Loc("", "inst", <<>>), Loc("x", "inst", <<>>), Loc("y", "inst", <<Ref("l.operand", "x")>>),
                      Loc("", "void", <<Ref("g.callee", "@0")>>) >>) >>,
  \* 5: blockaddress of a block in another, later function; and from a global initialiser
  << Global("g", <<RefX("l.baddr", "h", "bb")>>),
     Def("f", <<>>, << Loc("entry", "block", <<>>), Loc("x", "inst", <<RefX("l.baddr", "h", "bb")>>) >>),
     Def("h", <<>>, << Loc("entry", "block", <<Ref("l.target", "bb")>>), Loc("bb", "block", <<>>) >>) >>,
  \* 6: metadata cycle through a distinct node, forward reference, named metadata defined twice, attachments
  << NamedMd("m", <<Ref("m.named", "1")>>), Md("1", <<Ref("m.tuple", "0")>>), MdDistinct("0", <<Ref("m.tuple", "1"), Ref("m.tuple", "7")>>),
     Md("7", <<Ref("g.mdvalue", "g")>>), NamedMd("m", <<Ref("m.named", "0")>>), NamedMd("a", <<Ref("m.named", "7")>>),
     Global("g", <<Ref("m.attach", "7")>>), Decl("f", <<Ref("m.attach", "0")>>) >>,
  \* 7: attribute groups out of order, one defined twice, function attributes, comdat on a function, personality
  << AttrB("10", "nounwind cold"), Attr("2"), AttrB("10", "noinline nounwind readnone"),
     Def("f", <<Ref("a.func", "10"), Ref("c.func", "c"), Ref("g.personality", "p")>>, << Loc("entry", "block", <<>>), Loc("", "void", <<Ref("g.callee", "p"), Ref("a.call", "2")>>) >>),
     Decl("p", <<Ref("a.func", "2")>>), Comdat("c") >>,
  \* 8: ifunc, resolver, unnamed globals between named ones, alias of an unnamed global
  << Global("", <<>>), IFunc("a", "r"), Resolver("r"), Global("g", <<Ref("g.init", "@0")>>), Global("", <<Ref("g.init", "g")>>),
     Alias("b", <<Ref("g.aliasee", "@1")>>) >>,
  \* 9: type uses in signatures, instructions and struct fields; opaque type completed by nothing
  << Decl("f", <<Ref("ty.sig", "b")>>), TStruct("b", <<Ref("ty.field", "a")>>), TStruct("a", <<>>),
     Def("g", <<Ref("ty.sig", "a")>>, << Loc("entry", "block", <<>>), Loc("x", "inst", <<Ref("ty.inst", "b")>>) >>),
     Global("h", <<Ref("ty.const", "b")>>) >>,
  \* 10: use-list orders (global and basic-block specific)
  << Global("a", <<Ref("g.init", "h")>>), Global("b", <<Ref("g.init", "h")>>), Global("h", <<>>),
     Def("f", <<>>, << Loc("entry", "block", <<Ref("l.target", "bb"), Ref("l.target", "x")>>), Loc("bb", "block", <<Ref("l.target", "x")>>), Loc("x", "block", <<>>) >>),
     UloBB("f", "x"), Ulo("h") >>,
  \* 11: metadata attachments on instructions and functions, metadata referring to a function
  << Def("f", <<Ref("m.attach", "1")>>, << Loc("entry", "block", <<>>), Loc("x", "inst", <<Ref("m.attach", "2")>>) >>),
     Md("2", <<Ref("m.tuple", "1")>>), Md("1", <<Ref("g.mdvalue", "f")>>) >>,
  \* 12: reference to an attribute group that has no definition (documented exception: materialised)
  << Decl("f", <<Ref("a.func", "7")>>), Attr("0") >>,
  \* 13: one entity of every index (every phase of the translator has work)
  << TStruct("a", <<>>), Comdat("c"), Attr("1"), NamedMd("m", <<Ref("m.named", "0")>>), Md("0", <<>>),
     Global("g", <<Ref("ty.global", "a"), Ref("c.global", "c"), Ref("m.attach", "0")>>), Decl("f", <<Ref("a.func", "1")>>) >>,
  \* 14: specialised debug-info nodes referring to each other (forward reference, cycle through a distinct node)
  << NamedMd("m", <<Ref("m.named", "2")>>), MdDI("2", <<Ref("m.difield", "7"), Ref("m.difield", "1")>>),
     MdDI("1", <<Ref("m.difield", "7")>>), MdDI("7", <<>>), Md("0", <<Ref("m.tuple", "2")>>) >>,
  \* 15: named metadata whose natural order differs from the bytewise order
  << NamedMd("a10", <<Ref("m.named", "0")>>), NamedMd("a2", <<Ref("m.named", "0")>>), NamedMd("a9", <<>>), Md("0", <<>>) >>,
  \* 16: blockaddress of equally named blocks of two functions
  << Global("g", <<RefX("l.baddr", "f", "bb")>>), Global("a", <<RefX("l.baddr", "h", "bb")>>),
     Def("f", <<>>, << Loc("entry", "block", <<Ref("l.target", "bb")>>), Loc("bb", "block", <<>>) >>),
     Def("h", <<>>, << Loc("entry", "block", <<Ref("l.target", "bb")>>), Loc("bb", "block", <<>>) >>) >>,
  \* 17: use-list order of a blockaddress constant (the constant is created while the directive is translated)
  << Global("a", <<RefX("l.baddr", "f", "bb")>>), Global("b", <<RefX("l.baddr", "f", "bb")>>),
     Def("f", <<>>, << Loc("entry", "block", <<Ref("l.target", "bb")>>), Loc("bb", "block", <<>>) >>), UloBA("f", "bb") >>,
  \* 19: a value-producing terminator (invoke) whose result is used, with its landing pad
  << Decl("h", <<Ref("ty.sig", "a")>>), TStruct("a", <<>>), Decl("p", <<>>),
     Def("f", <<Ref("g.personality", "p")>>, << Loc("c", "param", <<>>), Loc("b", "param", <<>>), Loc("entry", "block", <<>>), Loc("g", "inst", <<Ref("l.operand", "c")>>),
        Loc("x", "invoke", <<Ref("g.callee", "h"), Ref("l.target", "bb"), Ref("l.target", "r")>>),
        Loc("bb", "block", <<>>), Loc("y", "inst", <<Ref("l.operand", "x")>>),
        Loc("r", "block", <<>>), Loc("m", "lpad", <<>>) >>) >>,
  \* 20: five attribute groups out of order, each used
  << Attr("7"), Attr("0"), Attr("10"), Attr("2"), Attr("1"), Decl("f", <<Ref("a.func", "10"), Ref("a.func", "0")>>),
     Decl("g", <<Ref("a.func", "7"), Ref("a.func", "2"), Ref("a.func", "1")>>) >>,
  \* 21: numbered types next to type names that sort below '0', a prefix pair continuing with '$', a quoted name
  << TStruct("t", <<>>), TStruct("10", <<>>), TStruct(".t", <<Ref("ty.field", "0")>>), TStruct("0", <<>>), TStruct("z z", <<>>), TStruct("$t", <<>>),
     TStruct("t$x", <<Ref("ty.field", "z z")>>), TStruct("1", <<>>), TStruct("-t", <<>>), Global("g", <<Ref("ty.global", "t$x")>>) >>,
  \* 22: comdats with such names, each used; the implicit spelling `comdat` (comdat named after the global)
  << Comdat("t"), Comdat("z z"), Comdat("t$x"), Comdat("$t"), Comdat("10"), Comdat(".t"), Comdat("f"), Comdat("g"),
     Global("g", <<RefX("c.global", "g", "implicit")>>), Global("h", <<Ref("c.global", "t$x")>>), Global("a", <<Ref("c.global", "z z")>>),
     Global("b", <<Ref("c.global", "$t")>>), Global("x", <<Ref("c.global", "t")>>),
     Def("f", <<RefX("c.func", "f", "implicit")>>, << Loc("entry", "block", <<>>) >>), Global("p", <<Ref("c.global", ".t")>>), Global("r", <<Ref("c.global", "10")>>),
     Global("10", <<RefX("c.global", "10", "implicit")>>),          \* @"10": a NAME made of digits, in the comdat of the same name
     Global("m", <<Ref("c.global", "f")>>) >>,                       \* one comdat used by a function and by a variable
  \* 23: funclet exception handling: every label and pad reference of catchswitch / catchpad / catchret / cleanuppad / cleanupret
  << Decl("h", <<>>), Decl("p", <<>>),
     Def("f", <<Ref("g.personality", "p")>>, << Loc("entry", "block", <<>>),
        Loc("", "invoke", <<Ref("g.callee", "h"), Ref("l.target", "r"), Ref("l.target", "c")>>),
        Loc("c", "block", <<>>), Loc("a", "catchswitch", <<Ref("l.target", "b"), Ref("l.unwind", "x")>>),
        Loc("b", "block", <<>>), Loc("g", "catchpad", <<Ref("l.within", "a")>>), Loc("", "catchret", <<Ref("l.within", "g"), Ref("l.target", "r")>>),
        Loc("x", "block", <<>>), Loc("m", "cleanuppad", <<>>), Loc("", "cleanupret", <<Ref("l.within", "m"), Ref("l.unwind", "y")>>),
        Loc("y", "block", <<>>), Loc("bb", "cleanuppad", <<>>), Loc("", "cleanupret", <<Ref("l.within", "bb")>>),
        Loc("r", "block", <<>>) >>) >>,
  \* 24: blockaddress of the equally named block of ANOTHER UNNAMED function, as an instruction operand (one direction only:
  \*     the use counts of the two functions must differ)
  << Def("", <<>>, << Loc("entry", "block", <<Ref("l.target", "bb")>>), Loc("bb", "block", <<>>), Loc("x", "inst", <<RefX("l.baddr", "@1", "bb")>>) >>),
     Def("", <<>>, << Loc("entry", "block", <<Ref("l.target", "bb")>>), Loc("bb", "block", <<>>), Loc("x", "inst", <<>>) >>),
     Global("g", <<RefX("l.baddr", "@1", "bb")>>) >>,
  \* 25: a numbered !DIExpression referenced from a debug-info field, a tuple and named metadata
  << NamedMd("m", <<Ref("m.named", "2"), Ref("m.named", "1")>>), MdArr("1", <<Ref("m.difield", "2"), Ref("m.difield", "7")>>), MdExpr("2"), MdExpr("7"),
     Md("0", <<Ref("m.tuple", "2"), Ref("m.tuple", "1")>>), Global("g", <<Ref("m.attach", "7")>>) >>,
  \* 26: unnamed globals and functions AFTER attribute-group and metadata definitions with other IDs (the counters are separate)
  << Attr("7"), Md("2", <<>>), Global("", <<Ref("m.attach", "2")>>), Def("", <<Ref("a.func", "7")>>, << Loc("entry", "block", <<>>) >>),
     Md("10", <<Ref("g.mdvalue", "@1")>>), Global("g", <<Ref("g.init", "@1")>>), Global("", <<Ref("g.init", "@0")>>), Attr("1"),
     Global("", <<Ref("g.init", "@2")>>), NamedMd("m", <<Ref("m.named", "10")>>) >>,
  \* 28: the entities of 26 with every attribute-group and metadata definition last (the compiler's order): the
  \*     two are permutations of each other beyond what Perms generates (unnamed entities keep their places)
  << Global("", <<Ref("m.attach", "2")>>), Def("", <<Ref("a.func", "7")>>, << Loc("entry", "block", <<>>) >>),
     Global("g", <<Ref("g.init", "@1")>>), Global("", <<Ref("g.init", "@0")>>), Global("", <<Ref("g.init", "@2")>>),
     Attr("7"), Attr("1"), NamedMd("m", <<Ref("m.named", "10")>>), Md("2", <<>>), Md("10", <<Ref("g.mdvalue", "@1")>>) >>,
  \* 29: declarations and a definition with named and unnamed parameters (parameter names are locals of their function only)
  << DeclP("f", <<>>, << Loc("x", "param", <<>>), Loc("", "param", <<>>), Loc("y", "param", <<>>) >>),
     DeclP("g", <<>>, << Loc("x", "param", <<>>), Loc("y", "param", <<>>) >>),
     Def("h", <<>>, << Loc("x", "param", <<>>), Loc("y", "param", <<>>), Loc("entry", "block", <<>>), Loc("a", "inst", <<Ref("l.operand", "x"), Ref("l.operand", "y")>>) >>) >>,
  \* 30: an UNNAMED block after a named entry block (it is %0: no parameter or instruction is unnamed), referenced by a
  \*     branch and by blockaddress from a global initialiser and from an earlier function (LLVM: the address of a numeric
  \*     label cannot be taken after the function is defined)
  << Global("g", <<RefX("l.baddr", "f", "n0")>>),
     Def("h", <<>>, << Loc("entry", "block", <<>>), Loc("x", "inst", <<RefX("l.baddr", "f", "n0")>>), Loc("y", "inst", <<RefX("l.baddr", "f", "entry")>>) >>),
     Def("f", <<>>, << Loc("entry", "block", <<Ref("l.target", "n0"), Ref("l.target", "bb")>>), Loc("", "block", <<Ref("l.target", "bb")>>), Loc("bb", "block", <<>>) >>) >>,
  \* 27: blockaddress constants inside metadata nodes, next to ones in a global and in a function (all join the same fix-up list)
  << Md("1", <<RefX("l.baddr", "f", "bb")>>), Global("g", <<RefX("l.baddr", "f", "bb")>>), Md("0", <<RefX("l.baddr", "h", "bb"), Ref("m.tuple", "1")>>),
     Def("f", <<>>, << Loc("entry", "block", <<Ref("l.target", "bb")>>), Loc("bb", "block", <<>>), Loc("x", "inst", <<RefX("l.baddr", "h", "bb")>>) >>),
     Def("h", <<Ref("m.attach", "0")>>, << Loc("entry", "block", <<Ref("l.target", "bb")>>), Loc("bb", "block", <<>>) >>),
     NamedMd("m", <<Ref("m.named", "0"), Ref("m.named", "1")>>) >>,
  \* 18: the type of a global (address space) read through a use in another global's initialiser
  << GlobalAS("g", <<>>), Global("h", <<Ref("g.cmp", "g")>>), Global("a", <<Ref("g.cmp", "g")>>), Alias("b", <<Ref("g.aliasee", "g")>>) >>,
  \* 31: function-level use-list orders in functions that use the same local names (a parameter, an instruction result);
  \*     a function with none of them and one whose %x is an instruction
  << Def("f", <<>>, << Loc("x", "param", <<>>), Loc("entry", "block", <<>>), Loc("y", "inst", <<Ref("l.operand", "x")>>),
        Loc("z", "inst", <<Ref("l.operand", "x"), Ref("l.operand", "y")>>), FUlo("x") >>),
     Def("g", <<>>, << Loc("x", "param", <<>>), Loc("entry", "block", <<>>), Loc("y", "inst", <<Ref("l.operand", "x")>>),
        Loc("z", "inst", <<Ref("l.operand", "y"), Ref("l.operand", "y")>>), FUlo("y") >>),
     Def("h", <<>>, << Loc("entry", "block", <<>>), Loc("x", "inst", <<>>), Loc("z", "inst", <<Ref("l.operand", "x"), Ref("l.operand", "x")>>), FUlo("x") >>),
     Def("", <<>>, << Loc("entry", "block", <<>>), Loc("a", "inst", <<>>) >>) >>,
  \* 32: blockaddress constants of equally named blocks of several UNNAMED functions in one initialiser, and of a block
  \*     only one of them has
  << Def("", <<>>, << Loc("entry", "block", <<Ref("l.target", "bb")>>), Loc("bb", "block", <<Ref("l.target", "r")>>), Loc("r", "block", <<>>) >>),
     Def("", <<>>, << Loc("entry", "block", <<Ref("l.target", "bb")>>), Loc("bb", "block", <<>>) >>),
     Global("g", <<RefX("l.baddr", "@0", "bb"), RefX("l.baddr", "@0", "r"), RefX("l.baddr", "@1", "bb")>>) >>,
  \* 33-35: names that differ in a digit run wider than 64 bits (and in its leading zeros), in every naturally sorted list
  << TStruct("a18446744073709551617", <<Ref("ty.field", "a018446744073709551616")>>), TStruct("a18446744073709551616", <<>>),
     TStruct("a018446744073709551616", <<>>), TStruct("a10", <<>>), Global("g", <<Ref("ty.global", "a18446744073709551617")>>) >>,
  << Comdat("a18446744073709551617"), Comdat("a018446744073709551616"), Comdat("a18446744073709551616"), Comdat("a9"),
     Global("g", <<Ref("c.global", "a18446744073709551616")>>), Global("h", <<Ref("c.global", "a18446744073709551617")>>) >>,
  << NamedMd("a18446744073709551617", <<Ref("m.named", "0")>>), NamedMd("a18446744073709551616", <<>>),
     NamedMd("a018446744073709551616", <<Ref("m.named", "0")>>), NamedMd("a10", <<>>), Md("0", <<>>) >>,
  \* 37: named types in type-carrying attributes: a function attribute (declaration and definition), a parameter attribute
  << TStruct("a", <<>>), Decl("f", <<Ref("ty.fattr", "a")>>), Decl("g", <<Ref("ty.pattr", "b")>>), TStruct("b", <<>>),
     Def("h", <<Ref("ty.fattr", "b")>>, << Loc("entry", "block", <<>>) >>) >>,
  \* 36: module-level strings: target definitions first (the last of a kind wins), module asm lines among the other entities
  \*     (kept in textual order), strings with a raw line break, an escaped quote and a semicolon
  << SrcFile("s"), Triple("ml"), DataLayout("s"), SrcFile("esc"), ModAsm("s"), Global("g", <<>>), ModAsm("ml"), Decl("f", <<>>), ModAsm("esc"),
     GlobalStr("h"), MdStr("0"), NamedMd("m", <<Ref("m.named", "0")>>) >>,
  \* 38: an alias CHAIN of depth 3 (the aliasee of an alias is an alias), outer alias first: forward references; whether
  \*     the text is accepted must not depend on which alias the translator visits first
  << Alias("c", <<Ref("g.aliasee", "a")>>), Alias("a", <<Ref("g.aliasee", "b")>>), Alias("b", <<Ref("g.aliasee", "x")>>), Global("x", <<>>) >>,
  \* 39: alias chains through constant expressions (aux of g.aliasee: "gep" = getelementptr, "bitcast", "asc" = addrspacecast
  \*     of the aliasee), inner alias first, ending in a function; an alias of the chain used by an initialiser
  << Def("f", <<>>, << Loc("entry", "block", <<>>) >>), Alias("h", <<Ref("g.aliasee", "f")>>), Alias("b", <<RefX("g.aliasee", "h", "bitcast")>>),
     Alias("a", <<RefX("g.aliasee", "b", "gep")>>), Alias("g", <<RefX("g.aliasee", "a", "asc")>>), Global("x", <<Ref("g.init", "b")>>) >>,
  \* 40: named metadata whose names differ by a trailing NUL byte only, next to a digit continuation
  << NamedMd("a2", <<Ref("m.named", "0")>>), NamedMd("a\\00", <<Ref("m.named", "0")>>), NamedMd("a", <<>>), Md("0", <<>>) >>
>>

\* Abstract strings: "s" one word; "ml" two lines separated by a RAW line break (its bytes are the line ending of the
\* text); "esc" escapes: \22 (quote), a semicolon, \0D\0A written as escapes.  The value a string has in the module:
StrIds == {"s", "ml", "esc"}
StrVal(str, lay) == IF str = "ml" THEN <<"ml", lay.eol>> ELSE <<str, "">>

\* Layouts: eol "lf" | "crlf"; join "line" (one entity per line) | "pair" (two per line) | "same" (the whole module on
\* one line: LLVM assembly has no line structure outside comments and strings); indent "none" | "dec" (entity e of n is
\* indented by n - e columns) | "alt" (every other entity by a tab and a space); comments (a comment line before every
\* line, a comment at the end of every line; only with line structure); final (the text ends with a line ending)
Lay(id, eol, join, indent, comments, final) == [id |-> id, eol |-> eol, join |-> join, indent |-> indent, comments |-> comments, final |-> final]
PlainLayout == Lay("plain", "lf", "line", "none", FALSE, TRUE)
Layouts == << PlainLayout,
              Lay("crlf", "crlf", "line", "none", FALSE, TRUE),
              Lay("dec", "lf", "line", "dec", FALSE, TRUE),
              Lay("same", "lf", "same", "none", FALSE, FALSE),
              Lay("pair-dec-crlf", "crlf", "pair", "dec", FALSE, TRUE),
              Lay("alt-comments", "lf", "line", "alt", TRUE, FALSE),
              Lay("crlf-comments-dec", "crlf", "line", "dec", TRUE, FALSE) >>
\* position (line, column) of the first byte of entity e of n under a layout; columns on a shared line are abstract
\* (strictly increasing with e)
Indent(lay, e, n) == CASE lay.indent = "none" -> 0 [] lay.indent = "dec" -> n - e [] lay.indent = "alt" -> IF e % 2 = 0 THEN 2 ELSE 0
Pos(lay, e, n) ==
  LET per == IF lay.comments THEN 2 ELSE 1 IN
  CASE lay.join = "line" -> <<per * e, 1 + Indent(lay, e, n)>>
    [] lay.join = "pair" -> <<per * ((e + 1) \div 2), IF e % 2 = 1 THEN 1 + Indent(lay, e, n) ELSE 1000 + Indent(lay, e, n)>>
    [] lay.join = "same" -> <<1, 1000 * e>>
PosLess(p, q) == p[1] < q[1] \/ (p[1] = q[1] /\ p[2] < q[2])

\* Patterns outside LLVM's own grammar that the parser accepts (type aliases); kept apart because
\* LLVM cannot arbitrate them
AliasPatterns == <<
  << TStruct("b", <<>>), TAlias("a", "b"), Global("g", <<Ref("ty.global", "a")>>) >>,
  << TAlias("a", "b"), TAlias("b", "a") >>,
  \* an alias whose identifier sorts BEFORE and one whose identifier sorts AFTER the aliased type, an unrelated type in
  \* between: whatever order the definitions are listed in, it is one order for every permutation and every run
  << TAlias("a", "x"), TStruct("m", <<>>), TStruct("x", <<Ref("ty.field", "m")>>), TAlias("y", "x"), Global("g", <<Ref("ty.global", "a")>>) >>
>>
=============================================================================
