------------------------------ MODULE Metadata ------------------------------
(***************************************************************************)
(* Metadata IDs and node identity (property C17).                          *)
(*                                                                         *)
(* PART 1 -- ID assignment, written as ir.Module.AssignMetadataIDs is      *)
(* (ir/module.go):                                                         *)
(*                                                                         *)
(*   used := {}                                                            *)
(*   for md in MetadataDefs: id := md.ID()                                 *)
(*       if id # -1: if id in used: ERROR("already in use") (=> WriteTo    *)
(*                   panics, nothing is printed); used += id               *)
(*   curID := -1                                                           *)
(*   for md in MetadataDefs: if md.ID() = -1:                              *)
(*       repeat curID++ until curID \notin used;  md.SetID(curID)          *)
(*                                                                         *)
(* A definition list is a sequence of IDs over -1 .. MaxId (-1 =           *)
(* unassigned).  MdAssign(ids) = [ok, ids] is the outcome; Variant selects *)
(* the code as written ("code") or one of the plausible wrong variants     *)
(* that the laws must reject (vacuity guards, MetadataVacuity*.cfg).       *)
(*                                                                         *)
(* Laws (invariants, checked by TLC for every list of length <= MaxDefs):  *)
(*   MdErrorIffDuplicate  ok  <=>  the explicit IDs are pairwise distinct  *)
(*   MdUnique             the resulting IDs are pairwise distinct, none -1 *)
(*   MdExplicitKept       an explicit ID is never changed                  *)
(*   MdSmallestUnused     the k unassigned definitions receive, in         *)
(*                        definition order, the k smallest naturals that   *)
(*                        are not explicit IDs of the list                 *)
(*   MdIdempotent         assigning again changes nothing                  *)
(* They are stated on the *result* and do not mention how it was computed, *)
(* so MetadataTrace.tla applies the same operators (LawsHold) to what the  *)
(* real code printed.                                                      *)
(*                                                                         *)
(* PART 2 -- what a printed module shows: definition i is printed as       *)
(* "!id[i] = ..." and every operand that refers to definition j is printed *)
(* as "!id[j]" (the *target's* ID).  A graph shape Shapes[s] gives, for a  *)
(* list of n definitions, the operand targets of each definition.          *)
(*                                                                         *)
(* The state machine enumerates all pairs (ID list, shape) -- enumeration  *)
(* in Next, guarded by `stage` -- and, in the generator configuration,     *)
(* writes one vector per pair to md_vectors.ndjson:                        *)
(*    {"ids":[..], "shape":s, "refs":[[..],..],                            *)
(*     "want":{"ok":b, "ids":[..], "tokens":[[def-id, ref-ids..],..]}}     *)
(* harness/props/c17 builds each through the ir API (metadata.Tuple with   *)
(* SetID), prints it, reads the !N tokens back and compares (direction G). *)
(***************************************************************************)
EXTENDS Integers, Sequences, FiniteSets, TLC, Json, IOUtils

CONSTANTS MaxDefs,    \* longest definition list
          MaxId,      \* largest explicit ID
          Variant,    \* "code" | "from-zero" | "count-up" | "no-dup-check"
          Emit        \* TRUE: write vectors (use -workers 1)

VARIABLES ids,        \* the definition list under construction / complete
          shape,      \* index into Shapes (0 while the list is being built)
          stage       \* "build" | "shape" | "done"

vars == <<ids, shape, stage>>

---------------------------------------------------------------------------
\* PART 1: ID assignment

Explicit(s)  == {s[i] : i \in {j \in 1..Len(s) : s[j] # -1}}
HasDup(s)    == \E i, j \in 1..Len(s) : i < j /\ s[i] # -1 /\ s[i] = s[j]

\* nextID of the code: the smallest ID greater than cur that is not in used
RECURSIVE NextFree(_, _)
NextFree(cur, used) == IF (cur + 1) \in used THEN NextFree(cur + 1, used) ELSE cur + 1

\* second loop of the code: walk the list, carrying curID
RECURSIVE Fill(_, _, _)
Fill(s, cur, used) ==
  IF s = <<>> THEN <<>>
  ELSE IF Head(s) # -1 THEN <<Head(s)>> \o Fill(Tail(s), cur, used)
  ELSE LET n == CASE Variant = "from-zero" -> cur + 1                \* ignores `used`
                  [] OTHER                 -> NextFree(cur, used)
       IN <<n>> \o Fill(Tail(s), n, used)

\* "count-up": numbers every definition by its position (forgets explicit IDs)
Positional(s) == [i \in 1..Len(s) |-> i - 1]

MdAssign(s) ==
  IF Variant # "no-dup-check" /\ HasDup(s) THEN [ok |-> FALSE, ids |-> s]
  ELSE IF Variant = "count-up" THEN [ok |-> TRUE, ids |-> Positional(s)]
  ELSE [ok |-> TRUE, ids |-> Fill(s, -1, Explicit(s))]

\* --- laws on an (input, outcome) pair; r = [ok, ids]
Unassigned(s) == {i \in 1..Len(s) : s[i] = -1}

\* the k smallest naturals outside `used`, as a sequence in increasing order
RECURSIVE SmallestFree(_, _, _)
SmallestFree(k, from, used) ==
  IF k = 0 THEN <<>>
  ELSE IF from \in used THEN SmallestFree(k, from + 1, used)
  ELSE <<from>> \o SmallestFree(k - 1, from + 1, used)

\* the subsequence of r at the unassigned positions of s
RECURSIVE AtUnassigned(_, _)
AtUnassigned(s, r) ==
  IF s = <<>> THEN <<>>
  ELSE IF Head(s) = -1 THEN <<Head(r)>> \o AtUnassigned(Tail(s), Tail(r))
  ELSE AtUnassigned(Tail(s), Tail(r))

LawErrorIffDuplicate(s, r) == r.ok <=> ~HasDup(s)
LawUnique(s, r)       == r.ok => /\ Len(r.ids) = Len(s)
                                 /\ \A i \in 1..Len(s) : r.ids[i] >= 0
                                 /\ \A i, j \in 1..Len(s) : i # j => r.ids[i] # r.ids[j]
LawExplicitKept(s, r) == r.ok => /\ Len(r.ids) = Len(s)
                                 /\ \A i \in 1..Len(s) : s[i] # -1 => r.ids[i] = s[i]
LawSmallestUnused(s, r) == r.ok => /\ Len(r.ids) = Len(s)
                                   /\ AtUnassigned(s, r.ids)
                                        = SmallestFree(Cardinality(Unassigned(s)), 0, Explicit(s))
LawsHold(s, r) == /\ LawErrorIffDuplicate(s, r) /\ LawUnique(s, r)
                  /\ LawExplicitKept(s, r) /\ LawSmallestUnused(s, r)

---------------------------------------------------------------------------
\* PART 2: graph shapes and printed tokens

\* Refs(s, n)[i] = sequence of definition indexes that definition i refers to
NShapes == 6
Refs(s, n) ==
  [i \in 1..n |->
     CASE s = 1 -> <<>>                                          \* no references
       [] s = 2 -> IF i < n THEN <<i + 1>> ELSE <<>>             \* chain, every reference a forward reference
       [] s = 3 -> <<(i % n) + 1>>                               \* one cycle through all (self loop for n = 1)
       [] s = 4 -> IF i > 1 THEN <<1, 1>> ELSE <<>>              \* shared node reached twice from every other
       [] s = 5 -> IF i > 1 THEN <<i - 1, i>> ELSE <<i>>         \* backward reference + self reference
       [] OTHER -> [k \in 1..n |-> n + 1 - k]                    \* everything refers to everything, reversed
  ]

\* print -> insert an unnumbered definition -> print again: the list and the operand
\* structure after inserting a new (operand-free) definition after position p (0 = in front)
InsAt(s, p, v) == SubSeq(s, 1, p) \o <<v>> \o SubSeq(s, p + 1, Len(s))
InsRefs(refs, p) ==
  InsAt([i \in 1..Len(refs) |-> [k \in 1..Len(refs[i]) |-> IF refs[i][k] > p THEN refs[i][k] + 1 ELSE refs[i][k]]],
        p, <<>>)
\* definition d removed from the list (MetadataDefs is an exported slice): d = 0 removes nothing
DelAt(s, d) == IF d = 0 THEN s ELSE SubSeq(s, 1, d - 1) \o SubSeq(s, d + 1, Len(s))
DelRefs(refs, d) ==
  DelAt([i \in 1..Len(refs) |-> [k \in 1..Len(refs[i]) |-> IF d > 0 /\ refs[i][k] > d THEN refs[i][k] - 1 ELSE refs[i][k]]], d)
\* definitions no OTHER definition refers to (removing one leaves no dangling reference)
Deletable(refs) == {d \in 1..Len(refs) : \A i \in 1..Len(refs) : i # d => \A k \in 1..Len(refs[i]) : refs[i][k] # d}

\* tokens of the printed module: per definition <<own id, id of each target>>
Tokens(r, refs) == [i \in 1..Len(r) |-> <<r[i]>> \o [k \in 1..Len(refs[i]) |-> r[refs[i][k]]]]

---------------------------------------------------------------------------
\* PART 3: the ID scale -- large and boundary IDs
\*
\* A metadata ID is any 32-bit unsigned number for LLVM (an int64 for the library).  The laws
\* above depend only on the order of the IDs and on which naturals are small: they are
\* invariant under every strictly increasing map that is the identity on the small numbers.
\* TLC's integers end at 2^31 - 1, so the specification works with MODEL IDs:
\*   m < WideBase          stands for the concrete ID m itself;
\*   m = WideBase + i      stands for the concrete ID whose decimal digits are WideIds[i + 1]
\*                         (2^31 - 2 .. 2^32 - 1: around the end of int32 and of uint32).
\* Concrete(m) is the decimal text of the ID that is printed / written; the generators emit the
\* table (WideTable) with their vectors, the harness builds modules and texts with the concrete
\* IDs and maps every ID it reads back into model IDs before a row is judged (a concrete ID
\* that no model ID stands for is recorded as Unmapped and fails `unique`).
\* Landmarks: where a table, a cast or a cache of an ID printer / parser may end -- the powers
\* of two and of ten with their neighbours.
WideBase  == 1610612736      \* 2^30 + 2^29: above every native landmark
WideIds   == <<"2147483646", "2147483647", "2147483648", "2147483649", "4294967294", "4294967295">>
WideTable == [i \in 1..Len(WideIds) |-> [m |-> WideBase + i - 1, txt |-> WideIds[i]]]
Unmapped  == -9
Concrete(m) == IF m < WideBase THEN ToString(m) ELSE WideIds[m - WideBase + 1]

NativeLandmarks == {2^k + d : k \in 1..30, d \in -1..1} \cup {10^k + d : k \in 1..9, d \in -1..1}
WideLandmarks   == {WideBase + i - 1 : i \in 1..Len(WideIds)}
Landmarks       == NativeLandmarks \cup WideLandmarks
\* the landmarks around 2^k (k = 31, 32: the wide ones), increasing; used for sparse module texts
AroundPow(k) == CASE k <= 30 -> <<2^k - 1, 2^k, 2^k + 1, 2^k + 2>>
                  [] k = 31  -> <<WideBase, WideBase + 1, WideBase + 2, WideBase + 3>>
                  [] OTHER   -> <<WideBase + 1, WideBase + 3, WideBase + 4, WideBase + 5>>

---------------------------------------------------------------------------
\* the enumerating state machine

Init == ids = <<>> /\ shape = 0 /\ stage = "build"

Extend == /\ stage = "build" /\ Len(ids) < MaxDefs
          /\ \E v \in -1..MaxId : ids' = Append(ids, v)
          /\ UNCHANGED <<shape, stage>>
Close  == /\ stage = "build" /\ Len(ids) >= 1
          /\ stage' = "shape" /\ UNCHANGED <<ids, shape>>
Pick   == /\ stage = "shape"
          /\ \E s \in 1..NShapes : shape' = s
          /\ stage' = "done" /\ UNCHANGED ids
Next == Extend \/ Close \/ Pick
Spec == Init /\ [][Next]_vars

Out == MdAssign(ids)

MdErrorIffDuplicate == stage = "shape" => LawErrorIffDuplicate(ids, Out)
MdUnique            == stage = "shape" => LawUnique(ids, Out)
MdExplicitKept      == stage = "shape" => LawExplicitKept(ids, Out)
MdSmallestUnused    == stage = "shape" => LawSmallestUnused(ids, Out)
MdIdempotent        == stage = "shape" /\ Out.ok => MdAssign(Out.ids) = Out
\* every reference token is the ID of the node referred to, and a definition token
\* occurs once: so reading the tokens back identifies the graph
RefsPrintTargetID   == stage = "done" /\ Out.ok =>
                         LET t == Tokens(Out.ids, Refs(shape, Len(ids))) IN
                         \A i \in 1..Len(ids) : \A k \in 1..Len(Refs(shape, Len(ids))[i]) :
                            \E j \in 1..Len(ids) : /\ t[j][1] = t[i][k + 1]
                                                   /\ j = Refs(shape, Len(ids))[i][k]
                                                   /\ \A j2 \in 1..Len(ids) : t[j2][1] = t[i][k + 1] => j2 = j

Vector == [ids   |-> ids, shape |-> shape, refs |-> Refs(shape, Len(ids)),
           want  |-> [ok |-> Out.ok, ids |-> Out.ids,
                      tokens |-> IF Out.ok THEN Tokens(Out.ids, Refs(shape, Len(ids))) ELSE <<>>]]

EmitVector == (Emit /\ stage = "done") =>
   Serialize(ToJson(Vector) \o "\n", "md_vectors.ndjson",
             [format |-> "TXT", charset |-> "UTF-8",
              openOptions |-> <<"WRITE", "CREATE", "APPEND">>]).exitValue = 0
=============================================================================
