SPECIFICATION Spec
INVARIANTS RowOK RefAgree
CHECK_DEADLOCK FALSE
