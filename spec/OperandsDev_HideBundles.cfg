SPECIFICATION Spec
CONSTANTS
  Dev = {"hide-bundles"}
  MaxCalls = 3
  Classes = FALSE
  MaxOps = 5
INVARIANTS NoUseLeft
VIEW View
CHECK_DEADLOCK FALSE
