SPECIFICATION Spec
CONSTANTS
  Dev = {"hide-bundles"}
  MaxCalls = 3
  MaxOps = 5
INVARIANTS NoUseLeft
VIEW View
CHECK_DEADLOCK FALSE
