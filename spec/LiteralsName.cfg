SPECIFICATION Spec
CONSTANTS
  Alphabet = {97, 67, 122, 48, 53, 50, 36, 45, 46, 95, 32, 37, 34, 92, 1, 127, 128, 255, 0}
  MaxLen = 2
  ExtraStrings <- DefaultExtras
  PairLen = 1
  Kinds = {"global", "local", "type", "label", "comdat", "mdname", "string"}
  AsImplemented = FALSE
  EmitFile = "stdout"
INVARIANTS NoCrash RoundTrip NotAnID OneToken IDRoundTrip Injective UnescapeLaw AltDecodes Emit
CHECK_DEADLOCK FALSE
