------------------------------ MODULE TypesEq ------------------------------
(***************************************************************************)
(* C16: type equality is LLVM type identity.                               *)
(*                                                                         *)
(* The state machine enumerates, per type universe, pairs and triples of   *)
(* type terms (enumeration in Next, one choice per step):                  *)
(*    stage 0 -> 1   choose a universe uu                                  *)
(*    stage 1 -> 2   choose ta \in Gen(uu)                                  *)
(*    stage 2 -> 3   choose tb \in Gen(uu)                                  *)
(*    stage 3 -> 4   choose tc \in Gen(uu)  (only when ta ~ tb: transitiv. *)
(*                                           is vacuous otherwise)         *)
(* and the invariants state the laws the property lists for the relation   *)
(*    Eq == TypeEq                       (NamedByFields = FALSE, required) *)
(*    Eq == TypeEqUnfold(.., Depth)      (NamedByFields = TRUE: identified *)
(*          structs compared by their fields -- the deviation a careless   *)
(*          implementation makes; TLC then reports OneAttribute violated   *)
(*          by two names with the same body)                               *)
(* Termination on recursive types is part of the run: the universes        *)
(* contain self- and mutually recursive structs and TLC evaluates Eq on    *)
(* every pair.                                                             *)
(*                                                                         *)
(* Binding to the code.  With Emit = TRUE (TypesEqGen.cfg, one worker,     *)
(* search stopped after stage 2) every universe and every generated term   *)
(* is written to types_terms.ndjson; the harness (harness/props/c16)       *)
(* builds each term as a types.Type (once sharing one Go object per type   *)
(* name, once with separate objects), records types.Equal on all ordered   *)
(* pairs, prints and re-parses each type, and TypesTrace.tla judges the    *)
(* recorded matrices against TypeEq.                                       *)
(***************************************************************************)
EXTENDS Types, Json, IOUtils

CONSTANTS NamedByFields,   \* FALSE = LLVM identity (required)
          Emit,            \* TRUE = write the generated terms
          Big,             \* TRUE = thorough tier: variants of the one-level terms as well
          MaxStage         \* search depth: 2 = generator only, 4 = all laws

Depth == 2

----------------------------------------------------------------------------
(* Universes *)
A == TNamed("a")   B == TNamed("b")   C == TNamed("c")   P == TNamed("p")
\* u1: self-recursive struct; a second name with the same body; a packed name with the same
\*     fields; an opaque struct
U1 == [a |-> Body(FALSE, <<I32, TPtr(A, 0)>>),
       b |-> Body(FALSE, <<I32, TPtr(A, 0)>>),
       p |-> Body(TRUE,  <<I32, TPtr(A, 0)>>),
       c |-> Opaque]
\* u2: mutually recursive structs, recursion through function types and address spaces, an
\*     empty struct, two opaque structs
U2 == [a |-> Body(FALSE, <<TPtr(B, 0), I32>>),
       b |-> Body(FALSE, <<TPtr(A, 0), TArr(2, TPtr(B, 1))>>),
       p |-> Body(FALSE, <<TPtr(TFunc(TVoid, <<TPtr(P, 0)>>, TRUE), 0), TPtr(P, 1)>>),
       c |-> Body(FALSE, <<>>),
       d |-> Opaque,
       e |-> Opaque]
\* u3: a struct that contains itself without a pointer (LLVM accepts the type), a name that
\*     needs quoting, a struct holding vectors and another name by value
U3 == ("a" :> Body(FALSE, <<TArr(0, A), TPtr(A, 0)>>)) @@
      ("x y" :> Body(TRUE, <<I8, TVec(FALSE, 2, TPtr(A, 0))>>)) @@
      ("b" :> Body(FALSE, <<A, TNamed("x y"), TFloat("x86_fp80")>>))

\* u4: names that the printer has to escape, in PAIRS that a lossy escaper conflates: a name
\*     holding a literal backslash followed by two hexadecimal digits next to the name holding
\*     the byte those digits denote (tab, the 0x01 "do not mangle" prefix, the backslash itself),
\*     a quote, a name starting with a digit.  Type names are arbitrary byte strings in LLVM
\*     (`%"a\5C09b"` is the first of them); identity is by name, so every two of these are
\*     different types and so are the pointers / functions / structs built over them
\*     (D1, Variants "name"), in memory and after print + parse.
U4 == ("a\\09b" :> Body(FALSE, <<I32, TPtr(TNamed("a\tb"), 0)>>)) @@
      ("a\tb" :> Body(FALSE, <<I32, TPtr(TNamed("a\\09b"), 0)>>)) @@
      ("x\\y" :> Body(FALSE, <<I8>>)) @@
      ("x\\5Cy" :> Body(FALSE, <<I8>>)) @@
      ("\\01_node" :> Body(FALSE, <<I32, TPtr(TNamed("\\01_node"), 0)>>)) @@
      ("q\"r" :> Opaque) @@
      ("0a" :> Body(TRUE, <<>>))

Universes == [u1 |-> U1, u2 |-> U2, u3 |-> U3, u4 |-> U4]

----------------------------------------------------------------------------
(* Generated terms *)
Names(U) == {TNamed(nm) : nm \in DOMAIN U}
Leaves(U) == {TInt(1), TInt(32), TInt(33), TInt(129)} \cup {TFloat(f) : f \in FloatKinds}
             \cup {TAtom(a) : a \in Atoms} \cup Names(U)
\* children used for the one-level constructions
Kids(U) == {I32, TFloat("double"), TPtr(I8, 0)} \cup Names(U)
SomeName(U) == CHOOSE n \in Names(U) : TRUE
D1(U) ==
  {TPtr(e, as) : e \in Kids(U) \cup {TFunc(TVoid, <<>>, FALSE)}, as \in {0, 1}}
  \cup {TVec(sc, n, e) : sc \in BOOLEAN, n \in {1, 2}, e \in {I32, TFloat("double"), TPtr(I8, 0), TPtr(SomeName(U), 0)}}
  \cup {TArr(n, e) : n \in {0, 2}, e \in Kids(U)}
  \cup {TStruct(pk, fs) : pk \in BOOLEAN,
          fs \in {<<>>} \cup {<<x>> : x \in {I32, SomeName(U)}} \cup {<<x, y>> : x, y \in {I32, SomeName(U)}}}
  \cup {TFunc(ret, ps, va) : ret \in {TVoid, I32, SomeName(U)},
          ps \in {<<>>, <<I32>>, <<I32, TPtr(I8, 0)>>}, va \in BOOLEAN}
\* deep terms: every constructor nested in every other at least once
Seeds(U) ==
  LET n == SomeName(U) IN
  { TPtr(TPtr(TPtr(n, 1), 0), 1),
    TPtr(TFunc(TPtr(n, 0), <<TVec(TRUE, 2, TPtr(n, 1)), TStruct(TRUE, <<I32, TArr(0, n)>>)>>, TRUE), 0),
    TStruct(FALSE, <<TStruct(TRUE, <<I8>>), TArr(2, TStruct(FALSE, <<TVec(FALSE, 2, TFloat("half")), n>>)), TPtr(n, 0)>>),
    TArr(2, TArr(0, TVec(FALSE, 4, TPtr(TFunc(I32, <<I32>>, FALSE), 1)))),
    TFunc(TStruct(FALSE, <<n, I1>>), <<TPtr(TFunc(TVoid, <<TMeta>>, FALSE), 0), TLabel, TToken, TMMX>>, FALSE),
    TVec(TRUE, 4, TPtr(TArr(2, TStruct(FALSE, <<TFloat("ppc_fp128"), TPtr(n, 0)>>)), 1)),
    TFunc(TVoid, <<TPtr(TFunc(TVoid, <<TPtr(TFunc(TVoid, <<>>, TRUE), 0)>>, FALSE), 0)>>, TRUE),
    TStruct(TRUE, <<n, n, TPtr(n, 0)>>) }

Gen(U) == {g \in Leaves(U) \cup D1(U) \cup Seeds(U)
                 \cup UNION {Variants(U, x) : x \in Seeds(U) \cup Names(U)}
                 \cup (IF Big THEN UNION {Variants(U, x) : x \in D1(U)} ELSE {})
             : WellFormed(U, g)}

\* evaluated once (TLC caches constant-level definitions without parameters)
GenOf == [un \in DOMAIN Universes |-> Gen(Universes[un])]

ASSUME \A un \in DOMAIN Universes : UniverseOK(Universes[un])
ASSUME PrintT(<<"GENSIZE", [un \in DOMAIN Universes |-> Cardinality(GenOf[un])]>>)

----------------------------------------------------------------------------
VARIABLES uu, ta, tb, tc, stage
vars == <<uu, ta, tb, tc, stage>>

Nil == TVoid
CU == Universes[uu]
Init == uu = "u1" /\ ta = Nil /\ tb = Nil /\ tc = Nil /\ stage = 0

Eq(x, y) == IF NamedByFields THEN TypeEqUnfold(CU, x, y, Depth) ELSE TypeEq(CU, x, y)

Next == /\ stage < MaxStage
        /\ \/ stage = 0 /\ uu' \in DOMAIN Universes /\ stage' = 1 /\ UNCHANGED <<ta, tb, tc>>
           \/ stage = 1 /\ ta' \in GenOf[uu] /\ stage' = 2 /\ UNCHANGED <<uu, tb, tc>>
           \/ stage = 2 /\ tb' \in GenOf[uu] /\ stage' = 3 /\ UNCHANGED <<uu, ta, tc>>
           \/ stage = 3 /\ Eq(ta, tb) /\ tc' \in GenOf[uu] /\ stage' = 4 /\ UNCHANGED <<uu, ta, tb>>
Spec == Init /\ [][Next]_vars

Reflexive    == stage = 2 => Eq(ta, ta)
Symmetric    == stage = 3 => (Eq(ta, tb) <=> Eq(tb, ta))
Transitive   == stage = 4 /\ Eq(ta, tb) /\ Eq(tb, tc) => Eq(ta, tc)
\* a term that differs in one attribute at one position is a different type
OneAttribute == stage = 2 => \A v \in Variants(CU, ta) : ~Eq(ta, v)
\* the terms are canonical names of LLVM types: identity is equality of terms
TermIdentity == stage = 3 => (Eq(ta, tb) <=> ta = tb)
\* LLVM identity is finer than equality of the unfolded bodies
FinerThanUnfolding == stage = 3 => (TypeEq(CU, ta, tb) => TypeEqUnfold(CU, ta, tb, Depth))
GenWellFormed == stage = 2 => WellFormed(CU, ta)
\* vacuity guards (must be reported violated, TypesEqVacuity.cfg)
NeverEqualDistinctObjects == ~(stage = 3 /\ ta.k = "named" /\ TypeEq(CU, ta, tb))
UnfoldingNeverCoarser == stage = 3 => (TypeEqUnfold(CU, ta, tb, Depth) => TypeEq(CU, ta, tb))

----------------------------------------------------------------------------
(* Generator output *)
Out(rec) == Serialize(ToJson(rec) \o "\n", "types_terms.ndjson",
                      [format |-> "TXT", charset |-> "UTF-8",
                       openOptions |-> <<"WRITE", "CREATE", "APPEND">>]).exitValue = 0
EmitOK == Emit =>
            /\ stage = 1 => Out([u |-> uu, defs |-> CU])
            /\ stage = 2 => Out([u |-> uu, t |-> ta])
=============================================================================
