SPECIFICATION Spec
CONSTANTS
  Emit = FALSE
  Tier = "quick"
INVARIANTS ImplAgreesBlind ImplAgreesSeeing
CHECK_DEADLOCK FALSE
