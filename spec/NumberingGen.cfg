\* C08 design-level check over all function shapes and module shapes of the bounds below.
\* ValidateOnPrint = FALSE (as required): everything holds.  The harness overrides it with TRUE
\* (as implemented) and expects ModParsedTotal to be violated (the C08 counterexample).
SPECIFICATION Spec
CONSTANTS
  ValidateOnPrint = FALSE
  Kinds = {"func", "mod"}
  MaxParams = 2
  MaxBlocks = 2
  MaxInsts = 1
  InstRes = {"value", "void", "none"}
  TermKinds = {"ret", "br", "invoke", "callbr", "catchswitch"}
  Forms = {"short"}
  NameStyles = {"alpha"}
  MaxSrc = 4
  EmitFile = "vectors.ndjson"
INVARIANTS FnWalkIsLLVM FnIdempotent FnInsertShifts ModBuiltCorrect ModParsedTotal ModParsedCorrect ModIdempotent ModPrintedAgree
CHECK_DEADLOCK FALSE
