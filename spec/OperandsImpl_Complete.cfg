SPECIFICATION Spec
CONSTANTS
  AsImplemented = TRUE
INVARIANTS Complete
VIEW View
CHECK_DEADLOCK FALSE
