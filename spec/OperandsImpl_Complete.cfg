SPECIFICATION Spec
CONSTANTS
  MaxCalls = 3
  AsImplemented = TRUE
INVARIANTS Complete
VIEW View
CHECK_DEADLOCK FALSE
