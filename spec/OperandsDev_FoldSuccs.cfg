SPECIFICATION Spec
CONSTANTS
  Dev = {"fold-succs"}
  MaxCalls = 2
  Classes = TRUE
  MaxOps = 5
INVARIANTS SuccsLive
VIEW View
CHECK_DEADLOCK FALSE
