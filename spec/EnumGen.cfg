\* generator of flag sets, reference printer as required (prints every single-bit member)
SPECIFICATION Spec
CONSTANTS
  MembersFile = "members.ndjson"
  ExhaustiveFams = {"AllocKind", "DISPFlag", "FastMathFlag", "OverflowFlag"}
  Arity = 2
  RangeLimited = FALSE
INVARIANTS ExactCover Decomposable Emit
CHECK_DEADLOCK FALSE
