SPECIFICATION Spec
CONSTANTS
  AsImplemented = TRUE
INVARIANTS NoUseLeft
VIEW View
CHECK_DEADLOCK FALSE
