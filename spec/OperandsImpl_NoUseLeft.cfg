SPECIFICATION Spec
CONSTANTS
  MaxCalls = 3
  AsImplemented = TRUE
INVARIANTS NoUseLeft
VIEW View
CHECK_DEADLOCK FALSE
