\* The order axioms over an alphabet with the CONTROL-byte classes: NUL (the least byte: a string and the string
\* followed by NUL bytes are different names), 0x01, a digit boundary and a letter.
SPECIFICATION Spec
CONSTANTS
  Alphabet = {0, 1, 48, 97}
  MaxLen = 3
INVARIANTS Irreflexive Asymmetric Transitive Total NumericRuns EndIsNotAByte
CHECK_DEADLOCK FALSE
