------------------------------ MODULE TypesHist ------------------------------
(***************************************************************************)
(* C06, histories: the reported result type has no hidden state.           *)
(*                                                                         *)
(* The instructions and constant expressions of the library are MUTABLE Go *)
(* objects with a lazily filled cache (the exported field Typ), and        *)
(* programs build them in steps: the parser and many front ends make a     *)
(* zero value (`&ir.InstPhi{}`), look at it (Type(), String(), a pass, a    *)
(* debugger), fill in the operands later (a phi gets its incoming values   *)
(* once the predecessors exist), and some properties have no constructor   *)
(* parameter at all (the address space of an alloca is set through the     *)
(* exported field AFTER NewAlloca and may be set again by a pass).  The    *)
(* property's "type reported for every instruction" is a function of the   *)
(* CURRENT operands: whatever was observed or written before, Type() of a  *)
(* complete instruction equals Types!ResultType of what it holds now.      *)
(*                                                                         *)
(* State machine over ONE value, for every case cs of TypesRes.tla         *)
(* (stages 0 -> 1 -> 2 of TypesRes choose the case; then):                 *)
(*    Literal    a zero value of the Go type exists, no operand yet        *)
(*    Peek       Type() on the incomplete value (may panic or say          *)
(*               anything: it is not an instruction yet) -- this is when   *)
(*               an implementation may cache                               *)
(*    Fill       every operand / explicit type is written (field writes)   *)
(*    New        the value is made by its constructor (complete)           *)
(*    SetAS(a)   alloca: AddrSpace := a   (the only way the API offers)    *)
(*    SetElem(t) alloca: ElemType := t                                     *)
(*    Observe    Type() on the complete value                              *)
(* hs.cur is the case the value holds NOW, hs.steps the history, hs.cache  *)
(* the Typ field as the modelled implementation holds it, hs.seen /        *)
(* hs.want what each Observe reported / must report.                       *)
(*                                                                         *)
(* Properties.  NoHiddenState: every Observe reports ResultType of the     *)
(* current case.  With HistDev = "none" the observer computes from the     *)
(* fields (required).  Deviations (each cfg TypesHistDev_*.cfg must        *)
(* violate NoHiddenState; the harness aborts with exit 2 if one does not): *)
(*    "sticky"      Type() fills the cache once and never looks again      *)
(*    "peekvoid"    Peek on an incomplete value caches `void`              *)
(*    "asnonzero"   alloca refreshes on a new element type but applies     *)
(*                  the address space only when it is non-zero             *)
(* AllocaFollowsFields: the required type of an alloca is a pointer to the *)
(* current ElemType in the current AddrSpace.  FillRestores: a filled      *)
(* literal holds exactly the case of the constructor.                      *)
(*                                                                         *)
(* Binding to the code: with Emit = TRUE every state that ends in an       *)
(* Observe after at least one write is written to hist_cases.ndjson as     *)
(*   {kind, form, ops, x, steps: [{op, as, ty}..], wants: [type | null..]} *)
(* harness/props/c06 (hist.go) makes the value (constructor, or a zero     *)
(* value of the same Go type filled field by field from a constructed      *)
(* twin), performs the steps through the real API (Type() under recover    *)
(* for Peek) and compares every Observe with `wants`.                      *)
(***************************************************************************)
EXTENDS TypesRes

CONSTANTS HistDev,   \* "none" | "sticky" | "peekvoid" | "asnonzero"
          MaxSets    \* alloca: number of field writes in a history

VARIABLE hs
hvars == <<kd, cs, stage, hs>>

NoT == [k |-> "none"]
HStep(op, as, ty) == [op |-> op, as |-> as, ty |-> ty]
Idle == [ph |-> "idle", cur |-> NoCase, steps |-> <<>>, cache |-> NoT, seen |-> <<>>, want |-> <<>>, sets |-> 0]

\* the required type of the value as it is now
WantOf(c) == LET d == DerefCase(c) IN Deref(UR, ResultType(UR, d.kind, d.ops, d.x))

\* address spaces and element types an alloca is moved between
HistAS == {0, 1, 3}
HistElems == {I8, TVec(FALSE, 2, I64)}
\* the alloca cases whose histories are explored (the other kinds take the literal route only)
AllocaHist(c) == c.kind = "alloca" /\ c.x.ty \in {I8, TStruct(FALSE, <<I8, I64>>)} /\ c \in BaseByKind["alloca"]

\* what Type() reports and caches, as the modelled implementation computes it
Reported(h) ==
  LET w == WantOf(h.cur) IN
  CASE HistDev = "sticky"   -> IF h.cache # NoT THEN h.cache ELSE w
    [] HistDev = "peekvoid" -> IF h.cache # NoT THEN h.cache ELSE w
    [] HistDev = "asnonzero" /\ h.cur.kind = "alloca" ->
         LET fresh == h.cache = NoT \/ h.cache.e # w.e
             base  == IF fresh THEN TPtr(w.e, 0) ELSE h.cache
         IN IF h.cur.x.as # 0 THEN [base EXCEPT !.as = h.cur.x.as] ELSE base
    [] OTHER -> w

LastOp(h) == IF h.steps = <<>> THEN "" ELSE h.steps[Len(h.steps)].op

HistNext ==
  /\ stage = 2 /\ UNCHANGED <<kd, cs, stage>>
  /\ \/ /\ hs.ph = "idle"
        /\ hs' = [hs EXCEPT !.ph = "lit", !.cur = cs, !.steps = <<HStep("literal", 0, TVoid)>>]
     \/ /\ hs.ph = "idle" /\ AllocaHist(cs)
        /\ hs' = [hs EXCEPT !.ph = "live", !.cur = cs, !.steps = <<HStep("new", 0, TVoid)>>]
     \/ /\ hs.ph = "lit" /\ LastOp(hs) = "literal"
        /\ hs' = [hs EXCEPT !.steps = Append(@, HStep("peek", 0, TVoid)),
                            !.cache = IF HistDev = "peekvoid" THEN TVoid ELSE @]
     \/ /\ hs.ph = "lit"
        /\ hs' = [hs EXCEPT !.ph = "live", !.steps = Append(@, HStep("fill", 0, TVoid))]
     \/ /\ hs.ph = "live" /\ LastOp(hs) # "observe"
        /\ LET r == Reported(hs) IN
           hs' = [hs EXCEPT !.steps = Append(@, HStep("observe", 0, TVoid)), !.cache = r,
                            !.seen = Append(@, r), !.want = Append(@, WantOf(hs.cur))]
     \/ /\ hs.ph = "live" /\ AllocaHist(cs) /\ hs.sets < MaxSets /\ LastOp(hs) # "fill"
        /\ \E a \in HistAS \ {hs.cur.x.as} :
             hs' = [hs EXCEPT !.cur.x.as = a, !.steps = Append(@, HStep("setas", a, TVoid)), !.sets = @ + 1]
     \/ /\ hs.ph = "live" /\ AllocaHist(cs) /\ hs.sets < MaxSets /\ LastOp(hs) # "fill"
        /\ \E t \in HistElems \ {hs.cur.x.ty} :
             hs' = [hs EXCEPT !.cur.x.ty = t, !.steps = Append(@, HStep("setelem", 0, t)), !.sets = @ + 1]

HInit == Init /\ hs = Idle
HNext == \/ (stage < 2 /\ Next /\ UNCHANGED hs)
         \/ HistNext
HSpec == HInit /\ [][HNext]_hvars

----------------------------------------------------------------------------
NoHiddenState == hs.seen = hs.want
AllocaFollowsFields ==
  hs.ph = "live" /\ hs.cur.kind = "alloca" =>
    LET w == WantOf(hs.cur) IN w.k = "ptr" /\ w.as = hs.cur.x.as /\ w.e = Deref(UR, hs.cur.x.ty)
FillRestores == hs.ph = "live" /\ hs.sets = 0 => hs.cur = cs
\* the writes of a history are real changes (no step writes the value a field already has)
RECURSIVE WritesChange(_, _, _, _)
WritesChange(steps, i, as, ty) ==
  i > Len(steps) \/
    LET s == steps[i] IN
    CASE s.op = "setas"   -> s.as # as /\ WritesChange(steps, i + 1, s.as, ty)
      [] s.op = "setelem" -> s.ty # ty /\ WritesChange(steps, i + 1, as, s.ty)
      [] OTHER            -> WritesChange(steps, i + 1, as, ty)
StepsSound == hs.ph = "live" /\ cs.kind = "alloca" => WritesChange(hs.steps, 1, cs.x.as, cs.x.ty)

HOut(rec) == Serialize(ToJson(rec) \o "\n", "hist_cases.ndjson",
                       [format |-> "TXT", charset |-> "UTF-8",
                        openOptions |-> <<"WRITE", "CREATE", "APPEND">>]).exitValue = 0
HEmitOK == Emit =>
             /\ stage = 0 => HOut([defs |-> UR])
             /\ (hs.ph = "live" /\ LastOp(hs) = "observe" /\ (hs.sets > 0 \/ hs.steps[1].op = "literal")) =>
                  HOut([kind |-> cs.kind, form |-> cs.form, ops |-> cs.ops, x |-> cs.x, steps |-> hs.steps, wants |-> hs.want])
=============================================================================
