--------------------------- MODULE OperandsTrace ---------------------------
(***************************************************************************)
(* Judges recorded replace-all-uses experiments on the real code (C15).    *)
(*                                                                         *)
(* rauw_rec.ndjson has one row per experiment:                             *)
(*   {"id": ..., "old": <identifier of the replaced value>,                *)
(*    "new": <identifier of the replacement>,                              *)
(*    "users": [{"kind": ..., "before": [identifier tokens of the printed  *)
(*               user before], "after": [... after the substitution]}]}    *)
(* The harness substituted `new` for `old` through every slot returned by  *)
(* Operands() of every user (the ReplaceAllUses action of Operands.tla)    *)
(* and printed each user before and after.  The law (NoUseLeft plus        *)
(* exactness): the token list after is the token list before with every    *)
(* occurrence of old replaced by new, and nothing else changed.            *)
(* Every failing (row, user) is printed (BADUSE ...) so that all can be    *)
(* classified.                                                             *)
(***************************************************************************)
EXTENDS Integers, Sequences, TLC, Json

Trace == ndJsonDeserialize("rauw_rec.ndjson")
N == Len(Trace)

Bad(law, r, u) == PrintT(<<"BADUSE", law, r, u>>) /\ FALSE

UserOK(r, u) ==
  LET b == Trace[r].users[u].before
      a == Trace[r].users[u].after
      old == Trace[r].old
      new == Trace[r].new
  IN /\ (Len(a) = Len(b)) \/ Bad("shape", r, u)
     /\ (Len(a) # Len(b) \/ \A i \in 1..Len(b) : a[i] # old) \/ Bad("use-left", r, u)
     /\ (Len(a) # Len(b) \/ \A i \in 1..Len(b) : (b[i] # old => a[i] = b[i]))
          \/ Bad("collateral", r, u)
     /\ (Len(a) # Len(b) \/ \A i \in 1..Len(b) : (b[i] = old /\ a[i] # old) => a[i] = new) \/ Bad("wrong-replacement", r, u)

VARIABLE l
Init == l = 0
Next == l < N /\ l' = l + 1
Spec == Init /\ [][Next]_l

RowOK == l >= 1 => \A u \in 1..Len(Trace[l].users) : UserOK(l, u)
=============================================================================
