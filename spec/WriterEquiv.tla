----------------------------- MODULE WriterEquiv -----------------------------
(***************************************************************************)
(* The re-chunking writer of Writer.tla is defined by the recursion        *)
(* Rechunk (hand the buffer to the sink piece by piece, stop at the first  *)
(* refusal); Writer!Resp uses the closed form RechunkClosed because TLC    *)
(* evaluates it much faster on real Write sizes.  TLC checks here that the *)
(* two agree on every argument up to the bounds (C19 support lemma, same   *)
(* role as RankEquiv.tla for C20).                                         *)
(***************************************************************************)
EXTENDS Integers
CONSTANTS MaxP, MaxCap, MaxRest
VARIABLES a, chosen
W == INSTANCE Writer WITH MaxChunks <- 0, UnitSizes <- {0}, UnitKinds <- {"fmt"}, IfaceSets <- {{}}, Route <- "fmt", MaxWrite <- 0,
       PieceCount <- "piece", LatchBy <- "test", CachedViews <- FALSE, LatchError <- TRUE, CountAccepted <- TRUE,
       KeepFirstError <- FALSE, LatchOn <- "err", Modes <- {}, Pieces <- {}, GivenFile <- "", MaxCalls <- 1, LaterModes <- {}, FreshPerCall <- TRUE,
       ShareChoices <- {FALSE}, PerWriterWrapper <- FALSE,
       FlushKinds <- {"none"}, ErrKinds <- {"plain"}, FlushAtEnd <- FALSE, RetryKinds <- {}, MaxRetry <- 0,
       stage <- "cfg", w <- 0, chunks <- <<>>, kinds <- <<>>, fw <- 0, obs <- 0, delivered <- <<>>, sess <- 0
Init == chosen = FALSE /\ a = <<>>
Next == /\ ~chosen /\ chosen' = TRUE
        /\ a' \in {"never", "whole", "prefix", "edge"} \X BOOLEAN \X (1..MaxP) \X (0..MaxCap) \X BOOLEAN \X (0..MaxRest)
Spec == Init /\ [][Next]_<<a, chosen>>
Equivalent == chosen => W!RechunkClosed(a[1], a[2], a[3], a[4], a[5], a[6]) = W!Rechunk(a[1], a[2], a[3], a[4], a[5], a[6], 0, 0)
=============================================================================
