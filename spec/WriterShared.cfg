\* Histories of up to three WriteTo calls in which a later call may go to the SAME writer (two modules into
\* one stream, a retry on the same file).  The writer keeps its remaining capacity and its failed flag; all
\* laws are per call.  Also the writer mode "edge" (the Write that reaches the capacity reports the error,
\* with a full count when it fits exactly).  As written (a fresh fmtWriter per call) every law holds.
SPECIFICATION Spec
CONSTANTS
  MaxChunks = 3
  UnitSizes = {0, 1, 2}
  UnitKinds = {"fmt"}
  IfaceSets = {{}}
  Route = "fmt"
  MaxWrite = 0
  PieceCount = "piece"
  LatchBy = "test"
  CachedViews = FALSE
  LatchError = TRUE
  CountAccepted = TRUE
  KeepFirstError = FALSE
  LatchOn = "err"
  Modes = {"never", "whole", "prefix", "edge"}
  Pieces = {0, 1}
  GivenFile = ""
  MaxCalls = 3
  LaterModes = {"never", "whole"}
  FreshPerCall = TRUE
  ShareChoices = {FALSE, TRUE}
  PerWriterWrapper = FALSE
  FlushKinds = {"none"}
  ErrKinds = {"plain"}
  FlushAtEnd = FALSE
  RetryKinds = {}
  MaxRetry = 0
INVARIANTS TypeOK CountExact NoWriteAfterFailure PrefixDelivered FirstError NoFailEqualsString FailsAtCapacity StringNeverPanics CallStartsFresh HealthyAfterFailure
CHECK_DEADLOCK FALSE
