----------------------------- MODULE SchemaEnum -----------------------------
(***************************************************************************)
(* Enumerates the instruction configurations of Schema.tla (C15).          *)
(*                                                                         *)
(* State machine: stage 0 --pick a kind--> stage 1 --pick one of its       *)
(* cases--> stage 2.  Every stage-2 state is one instruction               *)
(* *configuration*: kind, type class, repetition count of every operand    *)
(* group (optional operands present/absent, lists of length 0..2, operand  *)
(* bundle shapes), flags, attribute variant, *ir.Arg wrapping.  The state  *)
(* carries what the property requires of the real instruction: the         *)
(* operand slot list (slot, role, type, admissible source, in textual      *)
(* order) and the successor list (positions of the branch targets).        *)
(*                                                                         *)
(* TLC checks CaseOK on every configuration (table consistency: every      *)
(* branch target of a terminator is a successor exactly once, successors   *)
(* are labels, only terminators have successors, all slot types resolve)   *)
(* and writes: schema.json (the tables, once) and cases.ndjson (one line   *)
(* per configuration).  harness/props/c15 builds the real instruction for  *)
(* each line and compares Operands()/Succs() with it.                      *)
(***************************************************************************)
EXTENDS Schema, Json, IOUtils

CONSTANT WithCExprs       \* TRUE: also enumerate the constant-expression kinds (used by C03)

All == IF WithCExprs THEN Kinds \o CExprs ELSE Kinds

VARIABLES stage, k, cur
vars == <<stage, k, cur>>

Tables == [kinds |-> Kinds, cexprs |-> CExprs, concrete |-> Concrete,
           argtys |-> ArgTys, bundletys |-> BundleTys, clausetys |-> ClauseTys,
           vclasses |-> [int |-> VClasses(I32), fp |-> VClasses(F32), ptr |-> VClasses(TyPtr(I32)), ptras |-> VClasses(TyPtrAS(I32, 1)),
                         vec |-> VClasses(TyVec(2, I32)), svec |-> VClasses(TySVec(2, I32)), agg |-> VClasses(PairTy)]]

Init == /\ stage = 0 /\ k = 0 /\ cur = <<>>
        /\ JsonSerialize("schema.json", Tables)
Next == \/ /\ stage = 0 /\ k' \in 1..Len(All) /\ stage' = 1 /\ cur' = <<>>
        \/ /\ stage = 1 /\ cur' \in Cases(All[k]) /\ stage' = 2 /\ k' = k
Spec == Init /\ [][Next]_vars

CaseOK == stage = 2 => CaseWellFormed(All[k], cur)

Emit == stage = 2 =>
  Serialize(ToJson(cur) \o "\n", "cases.ndjson",
            [format |-> "TXT", charset |-> "UTF-8", openOptions |-> <<"WRITE", "CREATE", "APPEND">>]).exitValue = 0
=============================================================================
