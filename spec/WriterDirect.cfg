\* A legitimate alternative wrapper: ready strings reach the writer through WriteString / ReadFrom if it has
\* them, else through Write in pieces of <= MaxWrite bytes; separator bytes through WriteByte.  Prints of
\* 0..5 bytes (5 = three pieces), every interface set, every capacity: all laws hold - they are laws over
\* every method through which bytes reach the writer, not over how the wrapper routes a print.
SPECIFICATION Spec
CONSTANTS
  MaxChunks = 3
  UnitSizes = {1, 2, 5}
  UnitKinds = {"fmt", "str", "byte"}
  IfaceSets = {{}, {"StringWriter"}, {"ReaderFrom"}, {"StringWriter", "ByteWriter", "ReaderFrom"}}
  Route = "direct"
  MaxWrite = 2
  PieceCount = "piece"
  LatchBy = "test"
  CachedViews = FALSE
  LatchError = TRUE
  CountAccepted = TRUE
  KeepFirstError = FALSE
  LatchOn = "err"
  Modes = {"never", "whole", "prefix"}
  Pieces = {0, 1}
  GivenFile = ""
  MaxCalls = 1
  LaterModes = {"never", "whole", "prefix"}
  FreshPerCall = TRUE
  ShareChoices = {FALSE}
  PerWriterWrapper = FALSE
  FlushKinds = {"none"}
  ErrKinds = {"plain"}
  FlushAtEnd = FALSE
  RetryKinds = {}
  MaxRetry = 0
INVARIANTS TypeOK CountExact NoWriteAfterFailure PrefixDelivered FirstError NoFailEqualsString FailsAtCapacity StringNeverPanics CallStartsFresh HealthyAfterFailure
CHECK_DEADLOCK FALSE
