SPECIFICATION Spec
CONSTANTS
  NChunks = 1
INVARIANT AllPreserved
CHECK_DEADLOCK FALSE
