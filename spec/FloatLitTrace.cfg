SPECIFICATION Spec
CONSTANTS
  NChunks = 1
CHECK_DEADLOCK FALSE
