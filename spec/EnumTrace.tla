----------------------------- MODULE EnumTrace -----------------------------
(***************************************************************************)
(* Judges the recorded keyword table of the working tree (C18, direction   *)
(* T).  enum_table.ndjson holds keyword rows, member rows and flag-set     *)
(* rows (see Enum.tla); every row is judged with the laws of Enum.tla:     *)
(*   kw row i  : RoundTrip, and SameKeyword against every other kw row     *)
(*   set row i : AbsentOnlyZero, TokensDefined, ExactSet, NoDuplicate,     *)
(*               ParsesBack, with the members taken from the member rows   *)
(* Every failing row is printed as BADROW {laws} i [j] (TLC runs with      *)
(* -continue) so that all failures can be classified.  Rows are handed out *)
(* in blocks so that all workers judge.                                    *)
(***************************************************************************)
EXTENDS Integers, Sequences, FiniteSets, TLC, Json

E == INSTANCE Enum WITH MembersFile <- "", ExhaustiveFams <- {}, Arity <- 2, RangeLimited <- FALSE,
       fam <- "", val <- {}, stage <- 0

Table == ndJsonDeserialize("enum_table.ndjson")
N == Len(Table)
BlockSize == 64
NB == (N + BlockSize - 1) \div BlockSize

KwRows == {i \in 1..N : Table[i].kind = "kw"}
MemRows == {i \in 1..N : Table[i].kind = "member"}
FamKw == [f \in {Table[i].fam : i \in KwRows} |-> {i \in KwRows : Table[i].fam = f}]
FamMembers == [f \in {Table[i].fam : i \in MemRows} |-> {E!SeqToSet(Table[i].bits) : i \in {j \in MemRows : Table[j].fam = f}}]

Bad(laws, i, j) == PrintT(<<"BADROW", laws, i, j>>) /\ FALSE

KwOK(i) ==
  LET r == Table[i]
      clash == {j \in FamKw[r.fam] : E!SameKeyword(r, Table[j])}
      broken == (IF E!RoundTrip(r) THEN {} ELSE {"RoundTrip"}) \cup (IF clash = {} THEN {} ELSE {"Injective"})
  IN broken = {} \/ Bad(broken, i, IF clash = {} THEN 0 ELSE CHOOSE j \in clash : TRUE)      \* both, not only the first

SetOK(i) ==
  LET r == Table[i]
      members == IF r.fam \in DOMAIN FamMembers THEN FamMembers[r.fam] ELSE {}
      laws == IF r.absent THEN << <<"AbsentOnlyZero", E!AbsentOnlyZero(r)>> >>
              ELSE << <<"TokensDefined", E!TokensDefined(r, members)>>,
                      <<"ExactSet", E!ExactSet(r)>>,
                      <<"NoDuplicate", E!NoDuplicate(r)>>,
                      <<"ParsesBack", E!ParsesBack(r)>> >>
      broken == {laws[k][1] : k \in {k \in 1..Len(laws) : ~laws[k][2]}}
  IN broken = {} \/ Bad(broken, i, 0)

\* a field row and its mate (the same node, field and value at the other place)
FieldOK(i) ==
  LET r == Table[i]
      s == Table[r.mate]
      paired == s.kind = "field" /\ s.node = r.node /\ s.field = r.field /\ s.v = r.v /\ s.place # r.place
      broken == (IF E!FieldRoundTrip(r) THEN {} ELSE {"FieldRoundTrip"})
                \cup (IF paired /\ E!PlaceAgnostic(r, s) THEN {} ELSE {"PlaceAgnostic"})
  IN broken = {} \/ Bad(broken, i, r.mate)

RowOK(i) == CASE Table[i].kind = "kw" -> KwOK(i)
              [] Table[i].kind = "set" -> SetOK(i)
              [] Table[i].kind = "field" -> FieldOK(i)
              [] OTHER -> TRUE

VARIABLES b, l
Init == b = 0 /\ l = 0
Next == \/ b = 0 /\ l = 0 /\ b' \in 1..NB /\ l' = 0
        \/ b > 0 /\ l = 0 /\ l' \in ((b - 1) * BlockSize + 1)..(IF b * BlockSize < N THEN b * BlockSize ELSE N) /\ b' = b
Spec == Init /\ [][Next]_<<b, l>>

Judged == l >= 1 => RowOK(l)
=============================================================================
