SPECIFICATION HSpec
CONSTANTS
  Emit = FALSE
  Tier = "quick"
  HistDev = "peekvoid"
  MaxSets = 3
INVARIANTS NoHiddenState
CHECK_DEADLOCK FALSE
