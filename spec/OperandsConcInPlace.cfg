SPECIFICATION Spec
CONSTANTS
  Readers = {1, 2}
  NT = 3
  Calls = 2
  InPlace = TRUE
INVARIANTS RetIsTargets
CHECK_DEADLOCK FALSE
