SPECIFICATION TraceSpec
CONSTANTS
  AsImplemented = FALSE
  SourceSet = "patterns"
  PermAllUpTo = 3
INVARIANTS TraceDeterministic ErrorOnFault NeverCrash NoDummyLeft ScaffoldBeforeUse CanonOrder TextualIsPositional
CHECK_DEADLOCK TRUE
