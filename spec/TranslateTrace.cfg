SPECIFICATION TraceSpec
CONSTANTS
  AsImplemented = FALSE
  SourceSet = "patterns"
  PermAllUpTo = 3
INVARIANTS TraceDeterministic ErrorOnFault NeverCrash NoDummyLeft ScaffoldBeforeUse CanonOrder
CHECK_DEADLOCK TRUE
