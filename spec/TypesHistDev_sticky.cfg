SPECIFICATION HSpec
CONSTANTS
  Emit = FALSE
  Tier = "quick"
  HistDev = "sticky"
  MaxSets = 3
INVARIANTS NoHiddenState
CHECK_DEADLOCK FALSE
