SPECIFICATION Spec
CONSTANTS
  ModulePrinters = {"M1", "M2"}
  FuncPrinters = {"F1", "F2"}
  NF = 2
  Nest = "both"
INVARIANTS Mutex OrderAcyclic
PROPERTY EveryCallReturns
