-------------------------- MODULE LiteralsNameTrace --------------------------
(***************************************************************************)
(* C11, code -> spec.  Judges recorded tokens.  c11_rec.ndjson has one row *)
(* per observation:                                                        *)
(*                                                                         *)
(*  {"k":"tok","kind":K,"bytes":[..],"tok":[..],"pos":P,"src":S}          *)
(*      the byte string bytes, put into grammar position P (token kind K   *)
(*      of Literals.tla Part 2) was spelled tok by S: the library's        *)
(*      printer (src = "printed", through the public ir API, or            *)
(*      "enc", the encoder of internal/enc called directly) or LLVM's      *)
(*      llvm-as | llvm-dis reading of the library's output (src = "llvm"). *)
(*      Law: DecodeToken(K, tok) = name bytes.  Failing rows are printed   *)
(*      as BADROW <class> <index> with class                               *)
(*        not-one-token   LLVM's lexer does not read tok as one token of   *)
(*                        that kind                                        *)
(*        read-as-id      tok is an unnamed numeric ID, not a name         *)
(*        other-bytes     tok is a name / string with different bytes      *)
(*  {"k":"id","kind":K,"bytes":[digits],"tok":[..]}                        *)
(*      the numeric ID was spelled tok: must decode to that ID.            *)
(*  {"k":"unescape","bytes":[input],"tok":[output]}                        *)
(*      enc.Unescape(input) = output: must equal Literals!UnEscape(input)  *)
(*      (class unescape).                                                  *)
(* Whether a failing "printed" row is a violation is decided by the        *)
(* harness together with LLVM's verdict on the same text (a row on which   *)
(* the spec and LLVM disagree is discarded and counted, never a verdict).  *)
(*                                                                         *)
(* The rows are cut into Chunks groups judged by different workers.        *)
(***************************************************************************)
EXTENDS Literals, Json

CONSTANTS Chunks

Trace == ndJsonDeserialize("c11_rec.ndjson")
N == Len(Trace)

Bad(class, i) == PrintT(<<"BADROW", class, i>>) /\ FALSE

RowOK(i) ==
  LET r == Trace[i] IN
  CASE r.k = "tok" ->
         LET d == DecodeToken(r.kind, r.tok) IN
         /\ d.k # "bad"                      \/ Bad("not-one-token", i)
         /\ d.k # "id"                       \/ Bad("read-as-id", i)
         /\ d = NameTok(r.bytes)             \/ Bad("other-bytes", i)
    [] r.k = "id" ->
         DecodeToken(r.kind, r.tok) = IdTok(r.bytes) \/ Bad("id-not-read-as-id", i)
    [] r.k = "unescape" ->
         UnEscape(r.bytes) = r.tok           \/ Bad("unescape", i)
    [] OTHER -> Bad("unknown-row", i)

VARIABLE c
Init == c = 0
Next == c = 0 /\ c' \in 1..Chunks
Spec == Init /\ [][Next]_c

\* the set filter evaluates every row of the group (a \A would stop at the first bad one)
RowsOK == c >= 1 => {i \in {j \in 1..N : j % Chunks = c - 1} : ~RowOK(i)} = {}
=============================================================================
