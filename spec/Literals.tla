------------------------------ MODULE Literals ------------------------------
(***************************************************************************)
(* Reference semantics of LLVM's literal and identifier spellings          *)
(* (properties C09 and C11).  Pure operators only: no variables, no        *)
(* constants; the state machines that enumerate cases and the trace specs  *)
(* that judge recordings of the real code EXTEND this module               *)
(* (LiteralsInt, LiteralsIntTrace, LiteralsName, LiteralsNameTrace).       *)
(*                                                                         *)
(* Data representation (TLC cannot index TLA+ strings and has 32-bit       *)
(* integers):                                                              *)
(*   - a byte string (a literal, a token, a name) is a sequence over       *)
(*     0..255;                                                             *)
(*   - a natural number of any size is a bit sequence packed into limbs of *)
(*     16 bits, least significant limb first, without high zero limbs      *)
(*     (zero is <<>>);                                                     *)
(*   - an integer is [neg |-> BOOLEAN, mag |-> natural] with neg = FALSE   *)
(*     for zero;                                                           *)
(*   - the two's-complement pattern of an integer at width w is the        *)
(*     natural below 2^w, padded to exactly (w+15) \div 16 limbs.          *)
(*                                                                         *)
(* PART 1 (C09)  IntDenote(w, lit): the value the literal lit denotes at   *)
(*   type iw, for the four notations of the LLVM grammar                   *)
(*        true | false | [-]?[0-9]+ | u0x[0-9A-Fa-f]+ | s0x[0-9A-Fa-f]+    *)
(*   decimal by schoolbook positional conversion, u0x digit-wise, s0x as   *)
(*   "two's complement at the type width" (the property's definition, not  *)
(*   LLVM 14's reading, which truncates to the active bits first).  A      *)
(*   literal denotes only inside the representable range                   *)
(*   -2^(w-1) .. 2^w-1 (Representable); outside of it IntDenote is not ok  *)
(*   and the case is outside the property's quantifier.                    *)
(*                                                                         *)
(* PART 2 (C11)  DecodeToken(pos, token) and the reference encoders        *)
(*   follow LLVM 14's lexer (LLLexer.cpp: LexAt/LexPercent/LexDollar/      *)
(*   LexExclaim/LexQuote/UnEscapeLexed) and printer                        *)
(*   (printLLVMNameWithoutPrefix, printEscapedString,                      *)
(*   printMetadataIdentifier).                                             *)
(***************************************************************************)
EXTENDS Integers, Sequences, FiniteSets, TLC

----------------------------------------------------------------------------
(* Small integers *)
RECURSIVE P2(_)
P2(k) == IF k = 0 THEN 1 ELSE 2 * P2(k - 1)              \* k <= 30
Pow2Tab == [k \in 0..16 |-> P2(k)]
Base == 65536                                            \* limb base 2^16
Min(a, b) == IF a < b THEN a ELSE b
Max(a, b) == IF a < b THEN b ELSE a
\* number of bits of a limb value 1..65535
SmallBitLen(n) == CHOOSE k \in 1..16 : Pow2Tab[k - 1] <= n /\ n < Pow2Tab[k]

----------------------------------------------------------------------------
(* Naturals as limb sequences *)
RECURSIVE NatNorm(_)
NatNorm(x) == IF x # <<>> /\ x[Len(x)] = 0 THEN NatNorm(SubSeq(x, 1, Len(x) - 1)) ELSE x

IsNat(x) == /\ \A i \in 1..Len(x) : x[i] \in 0..(Base - 1)
            /\ (x # <<>> => x[Len(x)] # 0)

Pad(x, L) == [j \in 1..L |-> IF j <= Len(x) THEN x[j] ELSE 0]

\* x * m + a   (m <= 10000, a < 65536: every intermediate stays below 2^31)
RECURSIVE MulAddAcc(_, _, _, _, _)
MulAddAcc(x, m, c, i, acc) ==
  IF i > Len(x) THEN (IF c = 0 THEN acc ELSE Append(acc, c))
  ELSE LET t == x[i] * m + c IN MulAddAcc(x, m, t \div Base, i + 1, Append(acc, t % Base))
MulAdd(x, m, a) == MulAddAcc(x, m, a, 1, <<>>)

\* quotient and remainder of x by a small d (d <= 10000)
RECURSIVE DivAcc(_, _, _, _, _)
DivAcc(x, d, i, r, acc) ==
  IF i = 0 THEN [q |-> NatNorm(acc), r |-> r]
  ELSE LET t == r * Base + x[i] IN DivAcc(x, d, i - 1, t % d, <<t \div d>> \o acc)
DivSmall(x, d) == DivAcc(x, d, Len(x), 0, <<>>)

\* a - b for a >= b
RECURSIVE SubAcc(_, _, _, _, _)
SubAcc(a, b, i, borrow, acc) ==
  IF i > Len(a) THEN NatNorm(acc)
  ELSE LET bi == IF i <= Len(b) THEN b[i] ELSE 0
           t  == a[i] - bi - borrow
       IN IF t < 0 THEN SubAcc(a, b, i + 1, 1, Append(acc, t + Base))
                   ELSE SubAcc(a, b, i + 1, 0, Append(acc, t))
NatSub(a, b) == SubAcc(a, b, 1, 0, <<>>)
NatAdd1(x) == MulAdd(x, 1, 1)

Pow2Nat(k) == [j \in 1..(k \div 16 + 1) |-> IF j = k \div 16 + 1 THEN Pow2Tab[k % 16] ELSE 0]
BitLen(x) == IF x = <<>> THEN 0 ELSE 16 * (Len(x) - 1) + SmallBitLen(x[Len(x)])
NatBit(x, i) == LET j == i \div 16 + 1 IN
                IF j > Len(x) THEN 0 ELSE (x[j] \div Pow2Tab[i % 16]) % 2
IsPow2Nat(x) == /\ x # <<>>
                /\ \A j \in 1..(Len(x) - 1) : x[j] = 0
                /\ \E k \in 0..15 : x[Len(x)] = Pow2Tab[k]

\* small naturals <-> TLC integers (below 2^30), used for native cross-checks
NatFromInt(n) == NatNorm(<<n % Base, n \div Base>>)
NatToInt(x) == IF x = <<>> THEN 0 ELSE IF Len(x) = 1 THEN x[1] ELSE x[1] + Base * x[2]

----------------------------------------------------------------------------
(* Digit sequences (most significant digit first) <-> naturals *)
Pow16Tab == <<1, 16, 256, 4096>>
Pow10Tab == <<1, 10, 100, 1000, 10000>>

HexToNat(hs) ==
  LET n == Len(hs)
      L == (n + 3) \div 4
      dig(k) == IF k >= 1 THEN hs[k] ELSE 0
  IN NatNorm([j \in 1..L |-> dig(n - 4*j + 4) + 16 * dig(n - 4*j + 3)
                             + 256 * dig(n - 4*j + 2) + 4096 * dig(n - 4*j + 1)])

RECURSIVE StripZeros(_)                       \* at least one digit is kept
StripZeros(ds) == IF Len(ds) > 1 /\ ds[1] = 0 THEN StripZeros(Tail(ds)) ELSE ds

\* all 4*Len(x) hex digits of x
HexAll(x) == [k \in 1..(4 * Len(x)) |->
                LET j == Len(x) - (k - 1) \div 4
                    p == 3 - ((k - 1) % 4)
                IN (x[j] \div Pow16Tab[p + 1]) % 16]
NatToHex(x) == IF x = <<>> THEN <<0>> ELSE StripZeros(HexAll(x))
\* exactly n hex digits (x < 16^n)
NatToHexN(x, n) == LET h == HexAll(Pad(x, (n + 3) \div 4)) IN SubSeq(h, Len(h) - n + 1, Len(h))

\* value of the decimal digits ds[from..to] (at most 4 of them) as a TLC integer
RECURSIVE ChunkVal(_, _, _, _)
ChunkVal(ds, from, to, acc) == IF from > to THEN acc ELSE ChunkVal(ds, from + 1, to, acc * 10 + ds[from])

\* schoolbook decimal -> binary, four digits per pass: acc := acc * 10^k + chunk
RECURSIVE DecAcc(_, _, _)
DecAcc(ds, i, acc) ==
  IF i > Len(ds) THEN acc
  ELSE LET k == IF (Len(ds) - i + 1) % 4 = 0 THEN 4 ELSE (Len(ds) - i + 1) % 4
       IN DecAcc(ds, i + k, MulAdd(acc, Pow10Tab[k + 1], ChunkVal(ds, i, i + k - 1, 0)))
DecToNat(ds) == DecAcc(ds, 1, <<>>)

\* binary -> decimal by repeated division by 10^4 (four digits per pass)
RECURSIVE ToDecAcc(_, _)
ToDecAcc(x, acc) ==
  IF x = <<>> THEN acc
  ELSE LET qr == DivSmall(x, 10000)   r == qr.r
       IN ToDecAcc(qr.q, <<r \div 1000, (r \div 100) % 10, (r \div 10) % 10, r % 10>> \o acc)
NatToDec(x) == IF x = <<>> THEN <<0>> ELSE StripZeros(ToDecAcc(x, <<>>))

----------------------------------------------------------------------------
(* Integers, representability, two's complement *)
IntVal(neg, mag) == [neg |-> neg /\ mag # <<>>, mag |-> mag]
IntFromInt(n) == IF n < 0 THEN IntVal(TRUE, NatFromInt(-n)) ELSE IntVal(FALSE, NatFromInt(n))
IsIntVal(v) == IsNat(v.mag) /\ (v.neg => v.mag # <<>>)

\* v is a value of type iw:  -2^(w-1) <= v <= 2^w - 1
Representable(w, v) ==
  IF v.neg THEN BitLen(v.mag) <= w - 1 \/ (BitLen(v.mag) = w /\ IsPow2Nat(v.mag))
           ELSE BitLen(v.mag) <= w
\* v is in the signed range -2^(w-1) <= v <= 2^(w-1) - 1
SignedRange(w, v) ==
  IF v.neg THEN Representable(w, v) ELSE BitLen(v.mag) <= w - 1

PatLen(w) == (w + 15) \div 16
\* the w-bit two's-complement pattern of a representable v (v mod 2^w)
Pattern(w, v) == IF v.neg THEN Pad(NatSub(Pow2Nat(w), v.mag), PatLen(w)) ELSE Pad(v.mag, PatLen(w))
\* the signed reading of a pattern p < 2^w
SignedOfPattern(w, p) == IF NatBit(p, w - 1) = 1 THEN IntVal(TRUE, NatSub(Pow2Nat(w), p))
                                                ELSE IntVal(FALSE, p)

----------------------------------------------------------------------------
(* Literals: bytes -> value *)
IsDecDigit(b) == b >= 48 /\ b <= 57
HexVal(b) == IF b >= 48 /\ b <= 57 THEN b - 48
             ELSE IF b >= 65 /\ b <= 70 THEN b - 55
             ELSE IF b >= 97 /\ b <= 102 THEN b - 87 ELSE -1
IsHexDigit(b) == HexVal(b) >= 0
LitTrue  == <<116, 114, 117, 101>>
LitFalse == <<102, 97, 108, 115, 101>>

\* notation of a literal; "bad" = not an integer literal of the grammar
LitForm(lit) ==
  IF lit = LitTrue THEN "true"
  ELSE IF lit = LitFalse THEN "false"
  ELSE IF /\ Len(lit) >= 4 /\ lit[1] \in {117, 115} /\ lit[2] = 48 /\ lit[3] = 120
          /\ \A i \in 4..Len(lit) : IsHexDigit(lit[i])
       THEN (IF lit[1] = 117 THEN "u0x" ELSE "s0x")
  ELSE IF /\ lit # <<>>
          /\ LET d == IF lit[1] = 45 THEN Tail(lit) ELSE lit
             IN d # <<>> /\ \A i \in 1..Len(d) : IsDecDigit(d[i])
       THEN "dec"
  ELSE "bad"

NoInt == [ok |-> FALSE, neg |-> FALSE, mag |-> <<>>]
OkInt(v) == [ok |-> TRUE, neg |-> v.neg, mag |-> v.mag]
ValOf(d) == IntVal(d.neg, d.mag)

IntDenote(w, lit) ==
  LET form == LitForm(lit) IN
  CASE form = "true"  -> IF w = 1 THEN OkInt(IntVal(FALSE, <<1>>)) ELSE NoInt
    [] form = "false" -> IF w = 1 THEN OkInt(IntVal(FALSE, <<>>)) ELSE NoInt
    [] form = "dec"   -> LET neg == lit[1] = 45
                             d   == IF neg THEN Tail(lit) ELSE lit
                             v   == IntVal(neg, DecToNat([i \in 1..Len(d) |-> d[i] - 48]))
                         IN IF Representable(w, v) THEN OkInt(v) ELSE NoInt
    [] form = "u0x"   -> LET h == HexToNat([i \in 1..(Len(lit) - 3) |-> HexVal(lit[i + 3])])
                         IN IF BitLen(h) <= w THEN OkInt(IntVal(FALSE, h)) ELSE NoInt
    [] form = "s0x"   -> LET h == HexToNat([i \in 1..(Len(lit) - 3) |-> HexVal(lit[i + 3])])
                         IN IF BitLen(h) <= w THEN OkInt(SignedOfPattern(w, h)) ELSE NoInt
    [] OTHER          -> NoInt

----------------------------------------------------------------------------
(* Reference spellings: value -> bytes *)
DecByte(d) == 48 + d
HexByteU(d) == IF d < 10 THEN 48 + d ELSE 55 + d        \* upper case
HexByteL(d) == IF d < 10 THEN 48 + d ELSE 87 + d        \* lower case
Map(f(_), s) == [i \in 1..Len(s) |-> f(s[i])]

RefDec(v)    == (IF v.neg THEN <<45>> ELSE <<>>) \o Map(DecByte, NatToDec(v.mag))
RefU0x(v)    == <<117, 48, 120>> \o Map(HexByteU, NatToHex(v.mag))             \* v >= 0
\* s0x spelling of a value of the signed range with exactly n hex digits (n >= (w+3) \div 4)
RefS0xN(w, v, n) == <<115, 48, 120>> \o Map(HexByteU, NatToHexN(NatNorm(Pattern(w, v)), n))

(***************************************************************************)
(* Every spelling of the value v at width ww that the enumerating specs    *)
(* use, as a set of [tag, lit]: decimal (plain, leading zeros, -0), u0x    *)
(* (upper, lower, one leading zero, padded beyond the width) for v >= 0,   *)
(* s0x for the signed range (exactly the width's digits, lower case, one   *)
(* redundant leading zero, shortest), true/false for i1.                   *)
(***************************************************************************)
Lower(bs) == [i \in 1..Len(bs) |-> IF bs[i] >= 65 /\ bs[i] <= 70 THEN bs[i] + 32 ELSE bs[i]]
Notations(ww, v) ==
  LET nd == (ww + 3) \div 4
      decs == {[tag |-> "dec", lit |-> RefDec(v)],
               [tag |-> "dec-leading-zeros",
                lit |-> (IF v.neg THEN <<45>> ELSE <<>>) \o <<48, 48>> \o Map(DecByte, NatToDec(v.mag))]}
              \cup (IF v.mag = <<>> THEN {[tag |-> "dec-minus-zero", lit |-> <<45, 48>>]} ELSE {})
      u0xs == IF v.neg THEN {}
              ELSE {[tag |-> "u0x", lit |-> RefU0x(v)],
                    [tag |-> "u0x-lower", lit |-> Lower(RefU0x(v))],
                    [tag |-> "u0x-leading-zero", lit |-> <<117, 48, 120, 48>> \o Map(HexByteU, NatToHex(v.mag))],
                    [tag |-> "u0x-long", lit |-> <<117, 48, 120>> \o Map(HexByteU, NatToHexN(v.mag, nd + 2))]}
      s0xs == IF ~SignedRange(ww, v) THEN {}
              ELSE {[tag |-> "s0x", lit |-> RefS0xN(ww, v, nd)],
                    [tag |-> "s0x-lower", lit |-> Lower(RefS0xN(ww, v, nd))],
                    [tag |-> "s0x-long", lit |-> RefS0xN(ww, v, nd + 1)],
                    [tag |-> "s0x-short",
                     lit |-> <<115, 48, 120>> \o Map(HexByteU, NatToHex(NatNorm(Pattern(ww, v))))]}
      bools == IF ww # 1 \/ v.neg THEN {}
               ELSE {[tag |-> "bool", lit |-> IF v.mag = <<>> THEN LitFalse ELSE LitTrue]}
  IN decs \cup u0xs \cup s0xs \cup bools


(***************************************************************************)
(* The printer of ir/constant/const_int.go (Int.Ident), modelled: i1       *)
(* prints true/false; other widths print decimal unless the value is at    *)
(* least 0x1000 and hexadecimal is judged more readable by the digit-      *)
(* entropy heuristic (unique digits / length, capped at the base),         *)
(* evaluated here in exact rational arithmetic (the code uses float64, so  *)
(* the choice may differ at exact ties; the choice is never part of a      *)
(* verdict, only the value is).  BoolPanics = TRUE is the code as it was at *)
(* the pinned commit (repaired since): Ident panics for an i1 whose X is   *)
(* neither 0 nor 1, although -1 is a representable i1 value that the       *)
(* parser produces for "i1 -1".  FALSE: -1 is printed "true".              *)
(***************************************************************************)
Distinct(ds) == Cardinality({ds[i] : i \in 1..Len(ds)})
UseHex(mag) ==
  LET hs == NatToHex(mag)   ds == NatToDec(mag)
      hl == Len(hs)         Lh == Min(hl, 16)      Ld == Min(Len(ds), 10)
      k  == IF hl < 4 THEN 0 ELSE IF hl <= 6 THEN 2 ELSE IF hl <= 10 THEN 3 ELSE 4
      uh == Distinct(hs)    ud == Distinct(ds)
  IN /\ hl >= 4                                           \* x >= 0x1000
     /\ 100 * uh <= 100 * k + Lh                           \* uh/Lh <= k/Lh + 0.01
     /\ 5 * ud * Lh >= 5 * uh * Ld + Ld * Lh               \* ud/Ld >= uh/Lh + 0.2
NoLit == [ok |-> FALSE, lit |-> <<>>]
CodePrint(w, v, BoolPanics) ==
  IF w = 1 THEN (IF v.mag = <<>> THEN [ok |-> TRUE, lit |-> LitFalse]
                 ELSE IF ~v.neg \/ ~BoolPanics THEN [ok |-> TRUE, lit |-> LitTrue]
                 ELSE NoLit)
  ELSE IF ~v.neg /\ UseHex(v.mag) THEN [ok |-> TRUE, lit |-> RefU0x(v)]
  ELSE [ok |-> TRUE, lit |-> RefDec(v)]

\* The law of C09 for a printed literal: it denotes a value with the pattern of v at width w.
PrintedDenotes(w, v, lit) ==
  LET d == IntDenote(w, lit) IN d.ok /\ Pattern(w, ValOf(d)) = Pattern(w, v)

----------------------------------------------------------------------------
(***************************************************************************)
(* PART 2 (C11): identifier and string tokens.                             *)
(*                                                                         *)
(* Token kinds (the identifier and string positions of the grammar fall    *)
(* into seven lexical kinds):                                              *)
(*   "global"  @name  @"quoted"  @N      (N = unnamed numeric ID)          *)
(*   "local"   %name  %"quoted"  %N      (parameters, instructions, block  *)
(*                                        references)                      *)
(*   "type"    %name  %"quoted"  %N      (N = numbered type)               *)
(*   "label"   name:  "quoted":  N:      (bare labels may start with a     *)
(*                                        digit; all digits = label ID)    *)
(*   "comdat"  $name  $"quoted"                                            *)
(*   "mdname"  !name with \XX escapes outside quotes;  !N = metadata ID    *)
(*   "string"  "..."  (section, partition, gc, attribute key and value,    *)
(*                     inline asm, module asm, source_filename; with a     *)
(*                     leading ! metadata strings, with a leading c        *)
(*                     character arrays -- the harness strips ! and c)     *)
(* DecodeToken(kind, tok) is what LLVM 14's lexer makes of the byte string *)
(* tok when it stands in a position of that kind:                          *)
(*   [k |-> "name", bytes |-> decoded bytes]   one token, a name / string  *)
(*   [k |-> "id",   bytes |-> the digits]      one token, a numeric ID     *)
(*   [k |-> "bad",  bytes |-> <<>>]            not exactly one such token  *)
(* (for instance @1a: the lexer takes @1 as an ID and stops before a).     *)
(***************************************************************************)
IsLetter(b) == (b >= 65 /\ b <= 90) \/ (b >= 97 /\ b <= 122)
IsAlnum(b) == IsLetter(b) \/ IsDecDigit(b)
IsHeadChar(b) == IsLetter(b) \/ b \in {36, 45, 46, 95}          \* [-a-zA-Z$._]
IsTailChar(b) == IsHeadChar(b) \/ IsDecDigit(b)                  \* [-a-zA-Z$._0-9]
IsPrintable(b) == b >= 32 /\ b <= 126
AllOf(P(_), s) == \A i \in 1..Len(s) : P(s[i])
Quote == 34
Backslash == 92

\* LLLexer UnEscapeLexed: \\ -> \ ; \XX -> the byte ; any other backslash stays
RECURSIVE UnescAcc(_, _, _)
UnescAcc(s, i, acc) ==
  IF i > Len(s) THEN acc
  ELSE IF s[i] = Backslash /\ i + 1 <= Len(s) /\ s[i + 1] = Backslash
       THEN UnescAcc(s, i + 2, Append(acc, Backslash))
  ELSE IF s[i] = Backslash /\ i + 2 <= Len(s) /\ IsHexDigit(s[i + 1]) /\ IsHexDigit(s[i + 2])
       THEN UnescAcc(s, i + 3, Append(acc, 16 * HexVal(s[i + 1]) + HexVal(s[i + 2])))
  ELSE UnescAcc(s, i + 1, Append(acc, s[i]))
UnEscape(s) == UnescAcc(s, 1, <<>>)

BadTok == [k |-> "bad", bytes |-> <<>>]
NameTok(bs) == [k |-> "name", bytes |-> bs]
IdTok(ds) == [k |-> "id", bytes |-> ds]

\* "..." with no quote inside
IsQuoted(t) == /\ Len(t) >= 2 /\ t[1] = Quote /\ t[Len(t)] = Quote
               /\ \A i \in 2..(Len(t) - 1) : t[i] # Quote
Interior(t) == SubSeq(t, 2, Len(t) - 1)
HasNul(bs) == \E i \in 1..Len(bs) : bs[i] = 0
IsBareName(t) == t # <<>> /\ IsHeadChar(t[1]) /\ AllOf(IsTailChar, t)
IsDigits(t) == t # <<>> /\ AllOf(IsDecDigit, t)
\* LLVM 14 reads every digit run as an ID: values beyond 32 bits are truncated (the lexer records
\* "invalid value number (too large)" but llvm-as still accepts @4294967296 as @0), so size is no criterion
IdFits(t) == TRUE

\* the part after the sigil for @ % $
DecodeVar(rest, hasIDs) ==
  IF IsQuoted(rest) THEN (LET bs == UnEscape(Interior(rest)) IN IF HasNul(bs) THEN BadTok ELSE NameTok(bs))
  ELSE IF IsBareName(rest) THEN NameTok(rest)
  ELSE IF hasIDs /\ IsDigits(rest) /\ IdFits(rest) THEN IdTok(rest)
  ELSE BadTok

DecodeToken(kind, tok) ==
  CASE kind \in {"global", "local", "type", "comdat"} ->
         LET sigil == CASE kind = "global" -> 64 [] kind = "comdat" -> 36 [] OTHER -> 37 IN
         IF Len(tok) < 2 \/ tok[1] # sigil THEN BadTok
         ELSE DecodeVar(Tail(tok), kind # "comdat")
    [] kind = "label" ->
         IF Len(tok) < 2 \/ tok[Len(tok)] # 58 THEN BadTok
         ELSE LET body == SubSeq(tok, 1, Len(tok) - 1) IN
              IF IsQuoted(body) THEN (LET bs == UnEscape(Interior(body)) IN IF HasNul(bs) THEN BadTok ELSE NameTok(bs))
              ELSE IF IsDigits(body) THEN (IF IdFits(body) THEN IdTok(body) ELSE BadTok)
              ELSE IF AllOf(IsTailChar, body) THEN NameTok(body)
              ELSE BadTok
    [] kind = "mdname" ->
         IF Len(tok) < 2 \/ tok[1] # 33 THEN BadTok
         ELSE LET rest == Tail(tok)
                  c(b) == IsTailChar(b) \/ b = Backslash
              IN IF (IsHeadChar(rest[1]) \/ rest[1] = Backslash) /\ AllOf(c, rest) THEN NameTok(UnEscape(rest))
                 ELSE IF IsDigits(rest) /\ IdFits(rest) THEN IdTok(rest)
                 ELSE BadTok
    [] kind = "string" ->
         IF IsQuoted(tok) THEN NameTok(UnEscape(Interior(tok))) ELSE BadTok
    [] OTHER -> BadTok

\* whether the byte string s may stand in a position of the kind at all (LLVM: no NUL in names,
\* no empty names; strings may hold any byte -- positions that forbid NUL are the harness's concern)
Permitted(kind, s) == IF kind = "string" THEN TRUE ELSE s # <<>> /\ ~HasNul(s)

(***************************************************************************)
(* Reference encoders: LLVM's own printer (AsmWriter.cpp).                 *)
(***************************************************************************)
HexDigitU(d) == IF d < 10 THEN 48 + d ELSE 55 + d
EscByte(b) == <<Backslash, HexDigitU(b \div 16), HexDigitU(b % 16)>>
RECURSIVE Concat(_)
Concat(ss) == IF ss = <<>> THEN <<>> ELSE Head(ss) \o Concat(Tail(ss))
\* printEscapedString
RefEscape(s) == Concat([i \in 1..Len(s) |->
                  IF s[i] = Backslash THEN <<Backslash, Backslash>>
                  ELSE IF IsPrintable(s[i]) /\ s[i] # Quote THEN <<s[i]>>
                  ELSE EscByte(s[i])])
RefQuote(s) == <<Quote>> \o RefEscape(s) \o <<Quote>>
\* printLLVMNameWithoutPrefix
IsPlain(b) == IsAlnum(b) \/ b \in {45, 46, 95}
NeedsQuotes(s) == IsDecDigit(s[1]) \/ ~AllOf(IsPlain, s)
RefBody(s) == IF NeedsQuotes(s) THEN RefQuote(s) ELSE s
\* printMetadataIdentifier
RefMDBody(s) == Concat([i \in 1..Len(s) |->
                  IF (i = 1 /\ (IsLetter(s[i]) \/ s[i] \in {36, 45, 46, 95}))
                     \/ (i > 1 /\ (IsAlnum(s[i]) \/ s[i] \in {36, 45, 46, 95}))
                  THEN <<s[i]>> ELSE EscByte(s[i])])
RefEncode(kind, s) ==
  CASE kind = "global" -> <<64>> \o RefBody(s)
    [] kind \in {"local", "type"} -> <<37>> \o RefBody(s)
    [] kind = "comdat" -> <<36>> \o RefBody(s)
    [] kind = "label" -> RefBody(s) \o <<58>>
    [] kind = "mdname" -> <<33>> \o RefMDBody(s)
    [] kind = "string" -> RefQuote(s)
\* Other spellings LLVM's lexer reads as the same name: every byte as a lower-case \xx escape inside
\* quotes; the backslash as \5C (the library's own choice); needless quotes; a bare label with a
\* leading digit.  Each is a set of [tag, tok].
EscByteL(b) == <<Backslash, HexByteL(b \div 16), HexByteL(b % 16)>>
AllEscaped(s) == <<Quote>> \o Concat([i \in 1..Len(s) |-> EscByteL(s[i])]) \o <<Quote>>
Esc5C(s) == <<Quote>> \o Concat([i \in 1..Len(s) |->
               IF IsPrintable(s[i]) /\ s[i] # Quote /\ s[i] # Backslash THEN <<s[i]>> ELSE EscByte(s[i])]) \o <<Quote>>
Wrap(kind, body) ==
  CASE kind = "global" -> <<64>> \o body
    [] kind \in {"local", "type"} -> <<37>> \o body
    [] kind = "comdat" -> <<36>> \o body
    [] kind = "label" -> body \o <<58>>
    [] kind = "string" -> body
\* the backslash written raw: legal where it is not followed by a backslash or two hex digits
RawBackslash(s) == Concat([i \in 1..Len(s) |->
               IF IsPrintable(s[i]) /\ s[i] # Quote THEN <<s[i]>> ELSE EscByte(s[i])])
AltEncodings(kind, s) ==
  IF kind = "mdname"
  THEN {[tag |-> "all-escaped", tok |-> <<33>> \o Concat([i \in 1..Len(s) |-> EscByteL(s[i])])]}
  ELSE {[tag |-> "all-escaped", tok |-> Wrap(kind, AllEscaped(s))],
        [tag |-> "backslash-as-5C", tok |-> Wrap(kind, Esc5C(s))]}
       \cup (IF UnEscape(RawBackslash(s)) = s
             THEN {[tag |-> "raw-backslash", tok |-> Wrap(kind, <<Quote>> \o RawBackslash(s) \o <<Quote>>)]} ELSE {})
       \cup (IF kind = "label" /\ AllOf(IsTailChar, s) /\ ~IsDigits(s)
             THEN {[tag |-> "bare-label", tok |-> s \o <<58>>]} ELSE {})
RefEncodeID(kind, ds) ==
  CASE kind = "global" -> <<64>> \o ds
    [] kind \in {"local", "type"} -> <<37>> \o ds
    [] kind = "label" -> ds \o <<58>>
    [] kind = "mdname" -> <<33>> \o ds

(***************************************************************************)
(* The encoders of internal/enc/enc.go as written at the pinned commit,    *)
(* before the repair of the leading-digit rule (the AsImplemented model    *)
(* of LiteralsName.tla).  EscapeIdent quotes iff some byte is outside      *)
(* [-a-zA-Z$._0-9] and has no rule for the first character;                *)
(* GlobalName/LocalName/LabelName quote names that strconv.ParseUint       *)
(* accepts (all digits, below 2^64: here at most 19 digits); TypeName and  *)
(* ComdatName do not; MetadataName escapes a leading digit and indexes     *)
(* name[0] (run-time panic for the empty name: ok = FALSE).  The backslash *)
(* is written \5C.                                                         *)
(***************************************************************************)
CodeEscBytes(s, valid(_)) == Concat([i \in 1..Len(s) |-> IF valid(s[i]) THEN <<s[i]>> ELSE EscByte(s[i])])
QuotedIdentChar(b) == IsPrintable(b) /\ b # Quote /\ b # Backslash
CodeEscapeIdent(s) == IF AllOf(IsTailChar, s) THEN s
                      ELSE <<Quote>> \o CodeEscBytes(s, QuotedIdentChar) \o <<Quote>>
CodeNumeric(s) == IsDigits(s) /\ Len(s) <= 19
CodeNameBody(s) == IF CodeNumeric(s) THEN <<Quote>> \o s \o <<Quote>> ELSE CodeEscapeIdent(s)
CodeEncode(kind, s) ==
  CASE kind = "global" -> [ok |-> TRUE, tok |-> <<64>> \o CodeNameBody(s)]
    [] kind = "local"  -> [ok |-> TRUE, tok |-> <<37>> \o CodeNameBody(s)]
    [] kind = "label"  -> [ok |-> TRUE, tok |-> CodeNameBody(s) \o <<58>>]
    [] kind = "type"   -> [ok |-> TRUE, tok |-> <<37>> \o CodeEscapeIdent(s)]
    [] kind = "comdat" -> [ok |-> TRUE, tok |-> <<36>> \o CodeEscapeIdent(s)]
    [] kind = "mdname" -> IF s = <<>> THEN [ok |-> FALSE, tok |-> <<>>]
                          ELSE IF IsDecDigit(s[1])
                               THEN [ok |-> TRUE, tok |-> <<33, Backslash, 51, s[1]>> \o CodeEscBytes(Tail(s), IsTailChar)]
                               ELSE [ok |-> TRUE, tok |-> <<33>> \o CodeEscBytes(s, IsTailChar)]
    [] kind = "string" -> [ok |-> TRUE, tok |-> <<Quote>> \o CodeEscBytes(s, QuotedIdentChar) \o <<Quote>>]

=============================================================================
