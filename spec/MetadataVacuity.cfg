SPECIFICATION Spec
CONSTANTS
  MaxDefs = 3
  MaxId = 3
  Variant = "from-zero"
  Emit = FALSE
INVARIANTS MdErrorIffDuplicate MdUnique MdExplicitKept MdSmallestUnused MdIdempotent RefsPrintTargetID
CHECK_DEADLOCK FALSE
