SPECIFICATION Spec
CONSTANTS
  Alphabet = {97}
  MaxLen = 0
  ExtraStrings <- EveryBytePositions
  PairLen = 0
  Kinds = {"global", "local", "type", "label", "comdat", "mdname", "string"}
  AsImplemented = FALSE
  EmitFile = "stdout"
INVARIANTS NoCrash RoundTrip NotAnID OneToken UnescapeLaw AltDecodes Emit
CHECK_DEADLOCK FALSE
