SPECIFICATION Spec
INVARIANTS Judged
CHECK_DEADLOCK FALSE
