SPECIFICATION Spec
CONSTANTS
  Mode = "hist"
  MaxSteps = 3
  ExecWidths = {8}
  ExecExhaustive = FALSE
  BoundarySmall = TRUE
INVARIANTS ProgWellFormed HistSound Emit
CHECK_DEADLOCK FALSE
