\* vacuity guards: all three "invariants" must be VIOLATED (failures, successes and skipped prints occur)
SPECIFICATION Spec
CONSTANTS
  MaxChunks = 3
  UnitSizes = {0, 1, 2}
  UnitKinds = {"fmt"}
  IfaceSets = {{}}
  Route = "fmt"
  MaxWrite = 0
  PieceCount = "piece"
  LatchBy = "test"
  CachedViews = FALSE
  LatchError = TRUE
  CountAccepted = TRUE
  KeepFirstError = FALSE
  LatchOn = "err"
  Modes = {"never", "whole", "prefix", "edge"}
  Pieces = {0, 1}
  GivenFile = ""
  MaxCalls = 2
  LaterModes = {"never", "whole", "prefix"}
  FreshPerCall = TRUE
  ShareChoices = {FALSE}
  PerWriterWrapper = FALSE
  FlushKinds = {"none"}
  ErrKinds = {"plain"}
  FlushAtEnd = FALSE
  RetryKinds = {}
  MaxRetry = 0
INVARIANTS NeverFails AlwaysFails NeverSkips NoHistory
CHECK_DEADLOCK FALSE
