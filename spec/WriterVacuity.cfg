\* vacuity guards: all three "invariants" must be VIOLATED (failures, successes and skipped prints occur)
SPECIFICATION Spec
CONSTANTS
  MaxChunks = 3
  MaxSize = 2
  LatchError = TRUE
  CountAccepted = TRUE
  KeepFirstError = FALSE
  Modes = {"never", "whole", "prefix"}
  Pieces = {0, 1}
  GivenFile = ""
INVARIANTS NeverFails AlwaysFails NeverSkips
CHECK_DEADLOCK FALSE
