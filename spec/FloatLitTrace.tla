--------------------------- MODULE FloatLitTrace ---------------------------
(***************************************************************************)
(* Judges a recording of the real parser and printer of floating-point     *)
(* literals (C10, direction code -> spec).                                 *)
(*                                                                         *)
(* The recording (floatlit_rec_<c>.ndjson, c = 1..NChunks) has one row per *)
(* literal that LLVM accepts and that the library parsed and printed:      *)
(*   {"id": n, "kind": k,                                                  *)
(*    "in":  {"form": "H"|"K"|"L"|"M"|"D"|"dec", "digs": [hex digits]},    *)
(*    "inl": [hex digits of the bits llvm-as reads from the input],        *)
(*    "out": {"form": ..., "digs": [...]}   the literal the library prints *)
(*    "outok": llvm-as accepts the printed literal,                        *)
(*    "outl": [hex digits of the bits llvm-as reads from it]}              *)
(* ("dec" = decimal or scientific notation: digs is empty, the spec does   *)
(* not read decimals, LLVM does.)                                          *)
(*                                                                         *)
(* Law of the property, per row:                                           *)
(*      Den(in) = Den(out),                                                *)
(* Den(l) = FloatDenoteHex(kind, l) of module FloatLit for hexadecimal     *)
(* forms and LLVM's reading for decimal forms; a printed literal that LLVM *)
(* rejects denotes nothing ("printed-rejected").  For every hexadecimal    *)
(* literal the row also carries LLVM's reading: a difference between it    *)
(* and FloatDenoteHex is an error of the SPECIFICATION (SPECDIFF line,     *)
(* exit 2 in the harness), never a verdict about the code.                 *)
(*                                                                         *)
(* Rows are judged chunk by chunk: stage 0 -> a chunk is chosen -> its     *)
(* rows are read -> they are judged: one line is printed per failing row   *)
(*   "BAD|id|law|class of input|class of output|fields changed|"           *)
(* and one line "CHUNK|chunk|rows judged|rows failing|" per chunk.         *)
(* All failing rows are listed, so that each can be classified.            *)
(***************************************************************************)
EXTENDS Integers, Sequences, FiniteSets, TLC, Json

CONSTANT NChunks   \* the recording is split into floatlit_rec_1.ndjson .. floatlit_rec_<NChunks>.ndjson

FL == INSTANCE FloatLit WITH AsImplemented <- FALSE, Emit <- FALSE, ChunkSize <- 256, ChunkStride <- 1, Walk <- FALSE, Pow2 <- FALSE, Pos <- FALSE,
                             Kinds <- {}, stage <- 0, job <- [kind |-> "none", p |-> 0], pat <- <<>>

\* read once per chunk (TLC does not cache the value of an operator that reads a file)
RowsOf(c) == ndJsonDeserialize("floatlit_rec_" \o ToString(c) \o ".ndjson")

IsHex(l) == l.form # "dec"
Lit(l) == [form |-> l.form, digs |-> l.digs]

FieldDiff(k, a, b) ==
  (IF a[1] # b[1] THEN "s" ELSE "") \o (IF FL!ExpOf(k, a) # FL!ExpOf(k, b) THEN "e" ELSE "")
  \o (IF FL!ManOf(k, a) # FL!ManOf(k, b) THEN "m" ELSE "")
Diff(k, a, b) ==
  IF k = "ppc_fp128"
  THEN "hi:" \o FieldDiff("double", SubSeq(a, 1, 64), SubSeq(b, 1, 64))
       \o ",lo:" \o FieldDiff("double", SubSeq(a, 65, 128), SubSeq(b, 65, 128))
  ELSE FieldDiff(k, a, b)

\* one line per failing row (a single string: TLC wraps long tuples over several lines)
Bad(id, law, cin, cout, diff) ==
  PrintT("BAD|" \o ToString(id) \o "|" \o law \o "|" \o cin \o "|" \o cout \o "|" \o diff \o "|")

\* number of failures of row r (0 or 1); prints the failure
Judge(r) ==
  LET k == r.kind
      inL  == FL!Valid(FL!HexToBits(r.inl))
      outL == IF r.outok THEN FL!Valid(FL!HexToBits(r.outl)) ELSE FL!Invalid
      inS  == IF IsHex(r.in) THEN FL!FloatDenoteHex(k, Lit(r.in)) ELSE inL
      outS == IF IsHex(r.out) THEN FL!FloatDenoteHex(k, Lit(r.out)) ELSE outL
      \* class of the input as spelled (x86_fp80: before LLVM's canonicalisation)
      inRaw == IF IsHex(r.in) /\ inS.ok THEN FL!FloatRawHex(k, Lit(r.in)).bits ELSE inL.bits
  IN IF IsHex(r.in) /\ inS # inL THEN (IF PrintT("SPECDIFF|" \o ToString(r.id) \o "|in|") THEN 0 ELSE 0)
     ELSE IF IsHex(r.out) /\ outS # outL THEN (IF PrintT("SPECDIFF|" \o ToString(r.id) \o "|out|") THEN 0 ELSE 0)
     ELSE IF ~outS.ok THEN (IF Bad(r.id, "printed-rejected", FL!Class(k, inRaw), "", "") THEN 1 ELSE 1)
     ELSE IF inS.bits # outS.bits
          THEN (IF Bad(r.id, "bits-changed", FL!Class(k, inRaw), FL!Class(k, outS.bits),
                       Diff(k, inS.bits, outS.bits)) THEN 1 ELSE 1)
     ELSE 0

VARIABLES stg, chunk, rows, bad
vars == <<stg, chunk, rows, bad>>

\* The rows are held in a variable while they are judged, so that the file is read once (TLC
\* re-evaluates a LET or an operator that reads a file at every use).
Init == stg = 0 /\ chunk = 0 /\ rows = <<>> /\ bad = 0
Next == \/ stg = 0 /\ chunk' \in 1..NChunks /\ stg' = 1 /\ UNCHANGED <<rows, bad>>
        \/ stg = 1 /\ rows' = RowsOf(chunk) /\ stg' = 2 /\ UNCHANGED <<chunk, bad>>
        \/ stg = 2 /\ bad' = Cardinality({i \in 1..Len(rows) : Judge(rows[i]) = 1})
                   /\ PrintT("CHUNK|" \o ToString(chunk) \o "|" \o ToString(Len(rows)) \o "|" \o ToString(bad') \o "|")
                   /\ rows' = <<>> /\ stg' = 3 /\ UNCHANGED chunk
Spec == Init /\ [][Next]_vars

\* The property on the recording: no row changes its bits.  It is deliberately NOT listed as
\* an INVARIANT in FloatLitTrace.cfg: with -continue TLC would print, for every failing chunk,
\* a trace holding all rows of the chunk (tens of megabytes).  The verdict is the list of BAD
\* lines; the CHUNK lines let the harness check that every row was judged.
AllPreserved == bad = 0
=============================================================================
