---------------------------- MODULE NumberingGen ----------------------------
(***************************************************************************)
(* Generator and design-level check for C08: enumerates function shapes    *)
(* and module shapes, checks the numbering laws of module Numbering on     *)
(* every one of them, and (NumberingEmit*.cfg) writes one vector per shape *)
(* with the numbering LLVM gives it.                                       *)
(*                                                                         *)
(* VARIABLES  kind ("func" | "mod"), stage, f (function body under         *)
(* construction: stage 0 chooses the parameters, each later step appends   *)
(* one block -- label, instructions, terminator --, so the enumeration is  *)
(* in Next and every state with >= 1 block is a complete shape), src       *)
(* (module shape: textual sequence of [kind, name], one entry per step).   *)
(*                                                                         *)
(* Shapes stay inside what llvm-as verifies as correct once the harness    *)
(* has added its named scaffolding: a catchswitch is the first non-PHI     *)
(* instruction of its block and never sits in the entry block (LLVM        *)
(* verifier rules), so such a block has no instructions and is not first.  *)
(*                                                                         *)
(* INVARIANTS (all shapes)                                                 *)
(*   FnWalkIsLLVM      the walk of AssignIDs over a fresh function gives   *)
(*                     LLVM's numbering (the two formulations agree)       *)
(*   FnIdempotent      numbering a numbered function again changes nothing *)
(*   ModBuiltCorrect   a module built through the API prints with LLVM's   *)
(*                     numbering (print-group order)                       *)
(*   ModParsedTotal    printing a parsed module never fails  -- violated   *)
(*                     with ValidateOnPrint = TRUE: the C08 counterexample *)
(*                     <<unnamed func, unnamed global>>                    *)
(*   ModParsedCorrect  ... and, when it succeeds, carries LLVM's numbers   *)
(*   ModIdempotent     numbering a printed module again changes nothing    *)
(*   ModPrintedAgree   the per-definition formulation PrintedNumber used   *)
(*                     in the vectors agrees with LLVMGlobalNumbering      *)
(*                                                                         *)
(* VECTORS (ACTION_CONSTRAINT Emit, -workers 1), one JSON object per line: *)
(*   {"kind":"func","f":{"params":[nm..],"blocks":[{"name":..,"insts":     *)
(*      [{"name":..,"res":..}],"term":{"k":..,"name":..,"res":..}}]},      *)
(*    "form":..,"ids":[..]}                                                *)
(*                    ids = LLVMLocalNumbering in flat order, -1 = none;   *)
(*                    form = spelling of the call-like values (below)      *)
(*   {"kind":"mod","src":[{"kind":..,"name":..}],"textual":[..],           *)
(*    "printed":[..]} per definition: the number LLVM reads in the input   *)
(*                    text and the number it has in printed output         *)
(***************************************************************************)
EXTENDS Numbering, TLC, Json, IOUtils

CONSTANTS ValidateOnPrint,
          Kinds,             \* subset of {"func", "mod"}
          MaxParams, MaxBlocks, MaxInsts,
          InstRes, TermKinds,
          Forms,             \* syntactic forms of the call-like values (see below)
          NameStyles,        \* how named definitions are called: subset of {"alpha", "numeral"}
          MaxSrc,
          EmitFile

VARIABLES kind, stage, f, src, form, names
vars == <<kind, stage, f, src, form, names>>

(***************************************************************************)
(* `names` selects what the *named* definitions of a vector are called:    *)
(* "alpha" (p3, b4, g1, ..) or "numeral": quoted all-digit names "0", "1", *)
(* "00", "42", .. -- names, never numbers (LLVM: %"0" and %0 are different  *)
(* values), interleaved with the unnamed ones.  The numbering does not     *)
(* mention names either; the harness requires every reference to be bound  *)
(* to the right definition and the print to keep the quotes.               *)
(***************************************************************************)

(***************************************************************************)
(* Whether a call-like value takes a number depends on its *result type*   *)
(* only (res), never on how the callee is written.  LLVM's grammar allows  *)
(* many spellings, and the translator has to find the result type in each  *)
(* of them before it numbers the function (asm/inst_other.go newCallInst,  *)
(* asm/term.go newInvokeTerm, newCallBrTerm).  `form` selects the spelling *)
(* used for every call, invoke and callbr of a vector (the harness falls   *)
(* back to "short" where a form does not exist for a kind):                *)
(*   "short"     call void @f()            result type only                *)
(*   "long"      call void (i32) @f(i32 7) full function type, non-variadic*)
(*   "longva"    call void (...) @f()      full function type, variadic    *)
(*   "bitcast"   call void bitcast (<variadic @f> to <pointer to void()>)() *)
(*   "asm"       call void asm "", ""()    inline assembler callee         *)
(*   "tail"      tail call / notail call                                   *)
(*   "addrspace" call addrspace(1) void @f()                               *)
(* The numbering in the vector does not mention form: that is the law.     *)
(***************************************************************************)
AllForms == {"short", "long", "longva", "bitcast", "asm", "tail", "addrspace"}
ASSUME Forms \subseteq AllForms

ParamSeqs == UNION {[1..n -> {Ent(""), Ent("p")}] : n \in 0..MaxParams}
NewInsts  == {Inst("", "value"), Inst("v", "value")} \cup {Inst("", r) : r \in InstRes \ {"value"}}
InstSeqs  == UNION {[1..n -> NewInsts] : n \in 0..MaxInsts}
AllTerms ==
  {Term("ret", "", "none"), Term("br", "", "none")}
  \cup {Term(k, nm, "value") : k \in {"invoke", "callbr", "catchswitch"}, nm \in {"", "t"}}
  \cup {Term(k, "", "void") : k \in {"invoke", "callbr"}}
Terms == {t \in AllTerms : t.k \in TermKinds}
SrcEntries == {[kind |-> k, name |-> nm] : k \in {"global", "alias", "ifunc", "func"}, nm \in {"", "g"}}

\* LLVM verifier: catchswitch heads its block and is not in the entry block
ValidBlock(pos, is, t) == t.k = "catchswitch" => (is = <<>> /\ pos > 1)

Init == /\ kind \in Kinds /\ stage = 0 /\ form = "short" /\ names \in NameStyles
        /\ f = [params |-> <<>>, blocks |-> <<>>] /\ src = <<>>

NextFunc ==
  /\ kind = "func" /\ UNCHANGED <<kind, src, names>>
  /\ \/ /\ stage = 0
        /\ \E ps \in ParamSeqs : f' = [f EXCEPT !.params = ps]
        /\ form' \in Forms
        /\ stage' = 1
     \/ /\ stage \in 1..MaxBlocks
        /\ \E nm \in {"", "b"}, is \in InstSeqs, t \in Terms :
             /\ ValidBlock(stage, is, t)
             /\ f' = [f EXCEPT !.blocks = Append(@, Block(nm, is, t))]
        /\ stage' = stage + 1 /\ UNCHANGED form

NextMod ==
  /\ kind = "mod" /\ UNCHANGED <<kind, f, form, names>>
  /\ Len(src) < MaxSrc
  /\ \E e \in SrcEntries : src' = Append(src, e)
  /\ stage' = stage + 1

Next == NextFunc \/ NextMod
Spec == Init /\ [][Next]_vars

FuncDone == kind = "func" /\ stage >= 2
ModDone  == kind = "mod" /\ stage >= 1

----------------------------------------------------------------------------
\* per definition of src: its number in printed output (group order), as a count
GroupRank(k) == CASE k = "global" -> 1 [] k = "alias" -> 2 [] k = "ifunc" -> 3 [] k = "func" -> 4
Before(s, j, i) == \/ GroupRank(s[j].kind) < GroupRank(s[i].kind)
                   \/ (s[j].kind = s[i].kind /\ j < i)
PrintedNumber(s) ==
  [i \in 1..Len(s) |->
     IF s[i].name # "" THEN NoNum
     ELSE Cardinality({j \in 1..Len(s) : s[j].name = "" /\ Before(s, j, i)})]
\* the same numbers listed in group order
PrintedInGroupOrder(s) ==
  LET num == PrintedNumber(s)
      idx(k) == SelectSeq([i \in 1..Len(s) |-> i], LAMBDA i : s[i].kind = k)
      all == idx("global") \o idx("alias") \o idx("ifunc") \o idx("func")
  IN [p \in 1..Len(all) |-> num[all[p]]]

FnWalkIsLLVM ==
  FuncDone => LET r == AssignLocalIDs(f, ValidateOnPrint)
              IN r.ok /\ LocalIdsCorrect(r.f)
                 /\ \A p \in 1..Len(FlatLocal(f)) :
                      LLVMLocalNumbering(f)[p] # NoNum => FlatLocal(r.f)[p].id = LLVMLocalNumbering(f)[p]
FnIdempotent ==
  FuncDone => /\ LocalAssignIdempotent(f, TRUE) /\ LocalAssignIdempotent(f, ValidateOnPrint)
              \* the parser's AssignIDs followed by the printer's
              /\ LET r == AssignLocalIDs(f, TRUE) IN AssignLocalIDs(r.f, ValidateOnPrint) = r
\* parse -> insert an unnamed instruction -> print: the shift law and the numbering after the edit
FnInsertShifts == FuncDone => InsertShifts(f) /\ ParseInsertPrintCorrect(f, ValidateOnPrint)
ModBuiltCorrect ==
  ModDone => LET r == AssignGlobalIDs(BuildInstall(src), ValidateOnPrint)
             IN r.ok /\ GlobalIdsCorrect(r.gl)
ModParsedTotal   == ModDone => AssignGlobalIDs(ParseInstall(src), ValidateOnPrint).ok
ModParsedCorrect == ModDone => GlobalNumberingCorrect(ParseInstall(src), ValidateOnPrint)
ModIdempotent    == ModDone => /\ GlobalAssignIdempotent(BuildInstall(src), TRUE)
                               /\ GlobalAssignIdempotent(ParseInstall(src), ValidateOnPrint)
ModPrintedAgree  ==
  ModDone => LET num == LLVMGlobalNumbering(ParseInstall(src))
             IN PrintedInGroupOrder(src) = num

----------------------------------------------------------------------------
ShapeOf(fb) ==
  [params |-> [i \in 1..Len(fb.params) |-> fb.params[i].name],
   blocks |-> [b \in 1..Len(fb.blocks) |->
                 [name  |-> fb.blocks[b].name,
                  insts |-> [i \in 1..Len(fb.blocks[b].insts) |->
                               [name |-> fb.blocks[b].insts[i].name, res |-> fb.blocks[b].insts[i].res]],
                  term  |-> [k |-> fb.blocks[b].term.k, name |-> fb.blocks[b].term.name,
                             res |-> fb.blocks[b].term.res]]]]

Write(rec) == Serialize(ToJson(rec) \o "\n", EmitFile,
                [format |-> "TXT", charset |-> "UTF-8",
                 openOptions |-> <<"WRITE", "CREATE", "APPEND">>]).exitValue = 0

Emit ==
  IF kind' = "func"
  THEN stage' >= 2 => Write([kind |-> "func", f |-> ShapeOf(f'), form |-> form', names |-> names', ids |-> LLVMLocalNumbering(f'),
                           ins |-> LLVMLocalNumbering(InsertFirst(f'))[InsertPos(f')]])
  ELSE Write([kind |-> "mod", src |-> src', names |-> names', textual |-> TextualGlobalNumbering(src'),
              printed |-> PrintedNumber(src')])
=============================================================================
