---------------------------- MODULE OperandsConc ----------------------------
(***************************************************************************)
(* Concurrent read-only views (C15): several goroutines call Succs() (or   *)
(* Operands()) of ONE terminator at the same time; nobody edits it.  The   *)
(* property "a terminator's successor list is exactly its branch targets,  *)
(* in order" is a property of every returned list, whoever else is asking. *)
(*                                                                         *)
(* The terminator has NT branch targets 1..NT (the fields Target,          *)
(* TargetTrue..., the slices Cases / ValidTargets / OtherRetTargets /      *)
(* Handlers: never written here) and the exported field Successors, which  *)
(* every Succs() call assigns (fld).  One call of reader r is a sequence   *)
(* of steps, one per access of shared memory:                              *)
(*                                                                         *)
(*   as written (InPlace = FALSE):                                         *)
(*     Start      loc := <<>>                      private list            *)
(*     Build      loc := Append(loc, target i)     i = 1..NT               *)
(*     Assign     fld := loc                       term.Successors = succs *)
(*     Return     ret := fld                       return term.Successors  *)
(*   deviation "in place" (InPlace = TRUE): the list is rebuilt in the     *)
(*   shared field, truncated first                                         *)
(*     Read       loc := IF i = 1 THEN <<>> ELSE fld    term.Successors[:0] / term.Successors *)
(*     Write      fld := Append(loc, target i)     term.Successors = append(...) *)
(*     Return     ret := fld                                               *)
(*                                                                         *)
(* Every reader makes Calls calls.  fld starts as <<>> (Succs() never      *)
(* called) or as the targets (called before).                              *)
(*                                                                         *)
(* RetIsTargets: every returned list is <<1..NT>>.  TLC: holds as written  *)
(* (OperandsConc.cfg; the unsynchronised assignment of equal lists is      *)
(* harmless for the result), violated in place (OperandsConcInPlace.cfg:   *)
(* lists that are too long, too short or out of order; run as vacuity      *)
(* guard).  harness/props/c15/views.go runs the real Succs() / Operands()  *)
(* of one terminator of every kind from several goroutines and compares    *)
(* every returned list with the targets computed sequentially.            *)
(***************************************************************************)
EXTENDS Integers, Sequences

CONSTANTS Readers,   \* set of reader ids
          NT,        \* number of branch targets
          Calls,     \* calls per reader
          InPlace    \* deviation switch

VARIABLES fld,   \* the shared field Successors
          pc,    \* pc[r]: "start" "build" "read" "write" "assign" "return" "done"
          i,     \* i[r]: index of the next target to add
          loc,   \* loc[r]: private list / the value of the field as read
          ret,   \* ret[r]: the list returned by the last finished call
          n      \* n[r]: finished calls
vars == <<fld, pc, i, loc, ret, n>>

Targets == [x \in 1..NT |-> x]

Init == /\ fld \in {<<>>, Targets}
        /\ pc = [r \in Readers |-> "start"] /\ i = [r \in Readers |-> 1]
        /\ loc = [r \in Readers |-> <<>>] /\ ret = [r \in Readers |-> Targets] /\ n = [r \in Readers |-> 0]

Start(r) == /\ pc[r] = "start" /\ n[r] < Calls
            /\ i' = [i EXCEPT ![r] = 1] /\ loc' = [loc EXCEPT ![r] = <<>>]
            /\ pc' = [pc EXCEPT ![r] = IF InPlace THEN "read" ELSE "build"]
            /\ UNCHANGED <<fld, ret, n>>
\* as written
Build(r) == /\ pc[r] = "build"
            /\ IF i[r] <= NT
               THEN /\ loc' = [loc EXCEPT ![r] = Append(@, i[r])] /\ i' = [i EXCEPT ![r] = @ + 1] /\ UNCHANGED pc
               ELSE /\ pc' = [pc EXCEPT ![r] = "assign"] /\ UNCHANGED <<loc, i>>
            /\ UNCHANGED <<fld, ret, n>>
Assign(r) == /\ pc[r] = "assign" /\ fld' = loc[r] /\ pc' = [pc EXCEPT ![r] = "return"]
             /\ UNCHANGED <<i, loc, ret, n>>
\* in place
Read(r) == /\ pc[r] = "read"
           /\ IF i[r] <= NT
              THEN /\ loc' = [loc EXCEPT ![r] = IF i[r] = 1 THEN <<>> ELSE fld] /\ pc' = [pc EXCEPT ![r] = "write"]
              ELSE /\ pc' = [pc EXCEPT ![r] = "return"] /\ UNCHANGED loc
           /\ UNCHANGED <<fld, i, ret, n>>
Write(r) == /\ pc[r] = "write" /\ fld' = Append(loc[r], i[r])
            /\ i' = [i EXCEPT ![r] = @ + 1] /\ pc' = [pc EXCEPT ![r] = "read"]
            /\ UNCHANGED <<loc, ret, n>>
Return(r) == /\ pc[r] = "return" /\ ret' = [ret EXCEPT ![r] = fld] /\ n' = [n EXCEPT ![r] = @ + 1]
             /\ pc' = [pc EXCEPT ![r] = "start"] /\ UNCHANGED <<fld, i, loc>>

Next == \E r \in Readers : Start(r) \/ Build(r) \/ Assign(r) \/ Read(r) \/ Write(r) \/ Return(r)
Spec == Init /\ [][Next]_vars

RetIsTargets == \A r \in Readers : ret[r] = Targets
\* the lists stay bounded in the deviation too (an in-place list can grow by one per interleaved append)
Bounded == Len(fld) <= NT * Calls * 4
=============================================================================
