SPECIFICATION Spec
CONSTANTS
  Dev = {}
  MaxCalls = 3
  MaxOps = 9
INVARIANTS Complete NoUseLeft SuccsLive WriteLive
PROPERTIES WriteExact
VIEW View
CHECK_DEADLOCK FALSE
