SPECIFICATION Spec
CONSTANTS
  NamedByFields = FALSE
  Emit = TRUE
  Big = FALSE
  MaxStage = 2
INVARIANTS EmitOK GenWellFormed
CHECK_DEADLOCK FALSE
