\* vacuity: a reference printer that drops the keyword of family DropFam where another field is set
\* (and a parser that does not re-infer it) must violate RefRoundTrip
SPECIFICATION Spec
CONSTANTS
  CombosFile = "combos.ndjson"
  ImpliedDropped = TRUE
  DropFam = 2
INVARIANTS RefRoundTrip
CHECK_DEADLOCK FALSE
