------------------------------- MODULE Modules -------------------------------
(***************************************************************************)
(* Feature matrix of LLVM 14 assembly (properties C01, C02, C17): a        *)
(* bounded generator of valid modules, transcribed from the LLVM 14        *)
(* Language Reference and assembly writer -- not from the Go sources.      *)
(*                                                                         *)
(* A family is a text template with named slots; every slot has a list of  *)
(* alternative spellings, the first being the default (usually empty).     *)
(* A configuration assigns one alternative to every slot.  The machine     *)
(* enumerates, per family: the default configuration, every configuration  *)
(* that differs from the default in ONE slot (each keyword of the grammar  *)
(* position is exercised once), the full cross product of the slot pairs   *)
(* listed in `pairs`, and -- for the debug-info families -- the            *)
(* configuration with EVERY optional field present.  Valid(f, c) is the    *)
(* LangRef's well-formedness rule for the family; only valid               *)
(* configurations are emitted (llvm-as arbitrates the transcription: a     *)
(* configuration it rejects is discarded and counted by the harness).      *)
(*                                                                         *)
(* The required outcome of every emitted module is the same (that is what  *)
(* C01 says): the parser accepts it, the printed text is valid LLVM and    *)
(* LLVM reads input and output as the same module; C02: the printed text   *)
(* is a fixpoint.  The harness fills the template (harness/props/modgen),  *)
(* and compares, for enumerated keyword slots, the in-memory field with    *)
(* the slot (projection).                                                  *)
(***************************************************************************)
EXTENDS Integers, Sequences, FiniteSets, TLC, Json, IOUtils

CONSTANTS FamilySet,    \* names of the families to enumerate, or {"*"}
          PairMode      \* "listed": cross only the slot pairs a family lists; "all": cross every pair of slots
                        \*  whose product of alternatives is at most 80 (thorough tier)

Slot(n, alts) == [n |-> n, alts |-> alts]
Fam(name, prelude, tmpl, slots, pairs, full) ==
  [name |-> name, prelude |-> prelude, tmpl |-> tmpl, slots |-> slots, pairs |-> pairs, full |-> full]

----------------------------------------------------------------------------
\* Global variables
Linkages == <<"", "private ", "internal ", "available_externally ", "linkonce ", "weak ", "common ", "appending ",
              "extern_weak ", "linkonce_odr ", "weak_odr ", "external ">>
Preempts == <<"", "dso_preemptable ", "dso_local ">>
Visibs   == <<"", "default ", "hidden ", "protected ">>
DLLs     == <<"", "dllimport ", "dllexport ">>
TLSs     == <<"", "thread_local ", "thread_local(localdynamic) ", "thread_local(initialexec) ", "thread_local(localexec) ">>
UAddrs   == <<"", "unnamed_addr ", "local_unnamed_addr ">>

GV == Fam("gv",
  "$g = comdat any\n$c = comdat largest\n!0 = !{i32 1}\n!1 = !{i32 2}\n",
  "@g = {linkage}{preempt}{vis}{dll}{tls}{uaddr}{as}{extinit}{kind} {ty}{init}{section}{partition}{comdat}{align}{md}\n",
  << Slot("linkage", Linkages), Slot("preempt", Preempts), Slot("vis", Visibs), Slot("dll", DLLs), Slot("tls", TLSs),
     Slot("uaddr", UAddrs), Slot("as", <<"", "addrspace(1) ">>), Slot("extinit", <<"", "externally_initialized ">>),
     Slot("kind", <<"global", "constant">>),
     Slot("section", <<"", ", section \"my sec\"">>), Slot("partition", <<"", ", partition \"part\"">>),
     Slot("comdat", <<"", ", comdat", ", comdat($c)">>), Slot("align", <<"", ", align 8", ", align 4294967296">>),
     Slot("md", <<"", ", !foo !0", ", !foo !0, !bar !0", ", !type !0, !type !1, !foo !1">>) >>,
  { <<"linkage", "vis">>, <<"linkage", "preempt">>, <<"linkage", "dll">>, <<"linkage", "tls">>, <<"linkage", "comdat">>, <<"vis", "preempt">> },
  FALSE)

Local(l) == l \in {"private ", "internal "}
IsDecl(c) == c.linkage \in {"external ", "extern_weak "}
GVValid(c) ==
  /\ (Local(c.linkage) => c.vis \in {"", "default "} /\ c.preempt # "dso_preemptable " /\ c.dll = "")
  /\ (c.dll = "dllimport " => c.linkage \in {"external ", "extern_weak ", "available_externally "} /\ c.preempt # "dso_local ")
  /\ (c.dll # "" => c.vis \in {"", "default "})
  /\ (c.vis \in {"hidden ", "protected "} => c.preempt # "dso_preemptable ")
  /\ (c.linkage = "common " => c.kind = "global" /\ c.comdat = "" /\ c.section = "")
  /\ (IsDecl(c) => c.comdat = "" /\ c.extinit = "")
  /\ (c.linkage = "available_externally " => c.comdat = "")
\* derived slots: type and initialiser follow the linkage
GVDerive(c) == [ty |-> IF c.linkage = "appending " THEN "[1 x i32]" ELSE "i32",
                init |-> CASE IsDecl(c) -> "" [] c.linkage = "appending " -> " [i32 7]"
                           [] c.linkage = "common " -> " 0" [] OTHER -> " 7"]

----------------------------------------------------------------------------
\* Function headers
CCs == <<"", "ccc ", "fastcc ", "coldcc ", "webkit_jscc ", "anyregcc ", "preserve_mostcc ", "preserve_allcc ",
         "cxx_fast_tlscc ", "swiftcc ", "swifttailcc ", "tailcc ", "cfguard_checkcc ", "ghccc ", "x86_stdcallcc ",
         "x86_fastcallcc ", "arm_apcscc ", "arm_aapcscc ", "arm_aapcs_vfpcc ", "msp430_intrcc ", "x86_thiscallcc ",
         "ptx_kernel ", "ptx_device ", "spir_func ", "spir_kernel ", "intel_ocl_bicc ", "x86_64_sysvcc ", "win64cc ",
         "x86_vectorcallcc ", "hhvmcc ", "hhvm_ccc ", "avr_intrcc ", "avr_signalcc ", "amdgpu_vs ", "amdgpu_gs ",
         "amdgpu_ps ", "amdgpu_cs ", "amdgpu_kernel ", "x86_regcallcc ", "amdgpu_hs ", "amdgpu_ls ", "amdgpu_es ",
         "aarch64_vector_pcs ", "aarch64_sve_vector_pcs ", "amdgpu_gfx ", "cc 10 ", "cc 1 ", "cc 93 ", "cc 1023 ">>
FnAttrs == <<"", " alwaysinline", " argmemonly", " cold", " convergent", " disable_sanitizer_instrumentation", " hot",
             " inaccessiblememonly", " inaccessiblemem_or_argmemonly", " inlinehint", " minsize", " mustprogress",
             " naked", " nobuiltin", " nocallback", " nocf_check", " noduplicate", " nofree", " noimplicitfloat", " noinline",
             " nomerge", " nonlazybind", " noprofile", " norecurse", " noredzone", " noreturn", " nosanitize_coverage", " nosync",
             " nounwind", " null_pointer_is_valid", " optforfuzzing", " optnone noinline", " optsize", " readnone", " readonly",
             " returns_twice", " safestack", " sanitize_address", " sanitize_hwaddress", " sanitize_memtag", " sanitize_memory",
             " sanitize_thread", " shadowcallstack", " speculatable", " speculative_load_hardening", " ssp", " sspreq", " sspstrong",
             " strictfp", " uwtable", " willreturn", " writeonly", " alignstack(8)", " allocsize(0)",
             " vscale_range(1,2)", " vscale_range(2,2)", " \"key\"", " \"key\"=\"a \\22 val\"", " \"key\"=\"\"", " #0", " #0 nounwind #1", " nounwind readonly \"k\"=\"v\" #1">>
RetAttrs == <<"", "zeroext ", "signext ", "inreg ", "noundef ", "zeroext noundef ">>
PtrRetAttrs == <<"", "noalias ", "nonnull ", "align 8 ", "dereferenceable(8) ", "dereferenceable_or_null(8) ", "noundef nonnull align 4 ">>
ParamAttrs == <<"", " zeroext", " signext", " inreg", " noundef", " returned">>
PtrParamAttrs == <<"", " byval(i32)", " byref(i32)", " preallocated(i32)", " inalloca(i32)", " sret(i32)", " align 8", " noalias",
                   " nocapture", " nofree", " nest", " nonnull", " dereferenceable(8)", " dereferenceable_or_null(8)", " swiftself",
                   " swiftasync", " readnone", " readonly", " writeonly", " noundef", " byval(i32) align 4", " nocapture readonly noalias",
                   " \"k\"", " \"k\"=\"v\"", " \"k\"=\"\"", " alignstack(8)">>

FN == Fam("fn",
  "$f = comdat any\n$c = comdat any\n!0 = !{i32 1}\n!1 = !{i32 2}\ndeclare i32 @pers(...)\nattributes #0 = { nounwind }\nattributes #1 = { cold \"a\"=\"b\" }\n",
  "define {linkage}{preempt}{vis}{dll}{cc}{retattr}i32 @f(i32{pattr} %x, i32*{ppattr} %p, i8* %q){uaddr}{as}{fnattr}{section}{partition}{comdat}{align}{gc}{prefix}{prologue}{personality}{md} {\n  ret i32 %x\n}\n",
  << Slot("linkage", <<"", "private ", "internal ", "available_externally ", "linkonce ", "weak ", "linkonce_odr ", "weak_odr ", "external ">>),
     Slot("preempt", Preempts), Slot("vis", Visibs), Slot("dll", <<"", "dllexport ">>), Slot("cc", CCs), Slot("retattr", RetAttrs),
     Slot("pattr", ParamAttrs), Slot("ppattr", PtrParamAttrs), Slot("uaddr", UAddrs), Slot("as", <<"", " addrspace(1)">>), Slot("fnattr", FnAttrs),
     Slot("section", <<"", " section \"s\"">>), Slot("partition", <<"", " partition \"p\"">>), Slot("comdat", <<"", " comdat", " comdat($c)">>),
     Slot("align", <<"", " align 16">>), Slot("gc", <<"", " gc \"shadow-stack\"">>), Slot("prefix", <<"", " prefix i32 1">>),
     Slot("prologue", <<"", " prologue i32 2">>), Slot("personality", <<"", " personality i8* bitcast (i32 (...)* @pers to i8*)">>),
     Slot("md", <<"", " !foo !0", " !foo !0 !bar !0", " !type !0 !type !1 !foo !1">>) >>,
  { <<"linkage", "vis">>, <<"linkage", "preempt">> },
  FALSE)
FNValid(c) ==
  /\ (Local(c.linkage) => c.vis \in {"", "default "} /\ c.preempt # "dso_preemptable " /\ c.dll = "")
  /\ (c.dll # "" => c.vis \in {"", "default "})
  /\ (c.vis \in {"hidden ", "protected "} => c.preempt # "dso_preemptable ")
  /\ (c.linkage = "available_externally " => c.comdat = "")
  /\ c.ppattr \notin {" inalloca(i32)", " sret(i32)"}
  /\ c.cc \notin {"spir_kernel ", "amdgpu_kernel "}     \* need a void return type: family "mod"

\* declarations
FD == Fam("fd",
  "!0 = !{i32 1}\n!1 = !{i32 2}\nattributes #0 = { nounwind }\nattributes #1 = { cold }\n",
  "declare {md}{linkage}{preempt}{vis}{dll}{cc}{retattr}i8* @f(i32{pattr}, i32*{ppattr}, ...){uaddr}{as}{fnattr}{align}{gc}{prefix}{prologue}\n",
  << Slot("md", <<"", "!foo !0 ", "!foo !0 !bar !0 ", "!type !0 !type !1 !foo !1 ">>), Slot("linkage", <<"", "extern_weak ", "external ">>), Slot("preempt", Preempts), Slot("vis", Visibs),
     Slot("dll", DLLs), Slot("cc", <<"", "x86_stdcallcc ", "cc 10 ">>), Slot("retattr", PtrRetAttrs), Slot("pattr", ParamAttrs), Slot("ppattr", PtrParamAttrs),
     Slot("uaddr", UAddrs), Slot("as", <<"", " addrspace(1)">>), Slot("fnattr", <<"", " nounwind", " #0", " #0 #1">>),
     Slot("align", <<"", " align 16">>), Slot("gc", <<"", " gc \"statepoint-example\"">>), Slot("prefix", <<"", " prefix i32 1">>),
     Slot("prologue", <<"", " prologue i32 2">>) >>,
  { <<"linkage", "vis">>, <<"dll", "preempt">> },
  FALSE)
FDValid(c) ==
  /\ (c.dll = "dllimport " => c.preempt # "dso_local ")
  /\ (c.dll # "" => c.vis \in {"", "default "})
  /\ (c.vis \in {"hidden ", "protected "} => c.preempt # "dso_preemptable ")
  /\ c.pattr # " returned"                    \* needs a return type compatible with the parameter
  /\ c.ppattr \notin {" inalloca(i32)", " sret(i32)"}   \* inalloca must be last; sret needs a void return: family "mod"

----------------------------------------------------------------------------
\* Calls, invokes, callbr
FMFs == <<"", "fast ", "nnan ", "ninf ", "nsz ", "arcp ", "contract ", "afn ", "reassoc ", "nnan ninf nsz arcp contract afn reassoc ", "nnan nsz ">>
CALL == Fam("call",
  "declare float @callee(float, i8*, ...)\ndeclare void @v()\ndeclare i32 @pers(...)\n!0 = !{i32 1}\nattributes #0 = { nounwind }\n",
  "define float @f(float %a, i8* %p) personality i8* bitcast (i32 (...)* @pers to i8*) {\n  {res}{tail}call {fmf}{cc}{retattr}{as}float {sig}@callee(float{aattr} %a, i8*{pattr} %p{varargs}){fnattr}{bundle}{md}\n  ret float %a\n}\n",
  << Slot("res", <<"%r = ", "">>), Slot("tail", <<"", "tail ", "musttail ", "notail ">>), Slot("fmf", FMFs), Slot("cc", <<"", "fastcc ", "cc 10 ", "coldcc ">>),
     Slot("retattr", <<"", "noundef ", "nofpclass(nan) ">>), Slot("as", <<"", "addrspace(0) ">>), Slot("sig", <<"(float, i8*, ...) ", "(float, i8*, ...) ">>),
     Slot("aattr", <<"", " noundef", " inreg">>), Slot("pattr", <<"", " nonnull", " byval(i8)", " nocapture readonly", " align 8", " elementtype(i32)">>),
     Slot("varargs", <<"", ", i32 1", ", i32 signext 1, double 2.0", ", metadata !0">>),
     Slot("fnattr", <<"", " nounwind", " #0", " nounwind readnone", " \"k\"=\"v\"", " \"k\"=\"\"", " nobuiltin", " noreturn">>),
     Slot("bundle", <<"", " [ \"deopt\"(i32 1, i8* %p) ]", " [ \"tag\"() ]", " [ \"deopt\"(), \"x\"(float %a) ]", " [ \"gc-live\"(i8* %p) ]">>),
     Slot("md", <<"", ", !foo !0", ", !foo !0, !bar !0">>) >>,
  { <<"tail", "fmf">> },
  FALSE)
CALLValid(c) == /\ (c.tail = "musttail " => FALSE)       \* musttail needs a matching prototype and `ret` of the result: family "musttail"
                /\ (c.retattr = "nofpclass(nan) " => FALSE) \* LLVM 16 attribute, not LLVM 14
                /\ (c.pattr = " elementtype(i32)" => FALSE) \* only on intrinsic / inline-asm calls in LLVM 14
                /\ (c.varargs = ", metadata !0" => FALSE)

INVOKE == Fam("invoke",
  "declare i32 @callee(i32, ...)\ndeclare i32 @pers(...)\n!0 = !{i32 1}\nattributes #0 = { nounwind }\n",
  "define i32 @f(i32 %a) personality i8* bitcast (i32 (...)* @pers to i8*) {\n  {res}invoke {cc}{retattr}{as}i32 (i32, ...) @callee(i32{aattr} %a{varargs}){fnattr}{bundle}\n          to label %ok unwind label %bad{md}\nok:\n  ret i32 %a\nbad:\n  %lp = landingpad { i8*, i32 }\n          {clauses}\n  resume { i8*, i32 } %lp\n}\n",
  << Slot("res", <<"%r = ", "">>), Slot("cc", <<"", "fastcc ", "cc 10 ">>), Slot("retattr", <<"", "noundef ", "zeroext ">>), Slot("as", <<"", "addrspace(0) ">>),
     Slot("aattr", <<"", " noundef", " signext">>), Slot("varargs", <<"", ", i32 1">>), Slot("fnattr", <<"", " nounwind", " #0">>),
     Slot("bundle", <<"", " [ \"deopt\"(i32 %a) ]">>), Slot("md", <<"", ", !foo !0">>),
     Slot("clauses", <<"cleanup", "catch i8* null", "filter [0 x i8*] zeroinitializer", "cleanup\n          catch i8* null\n          filter [1 x i8*] [i8* null]">>) >>,
  {}, FALSE)

----------------------------------------------------------------------------
\* Memory and atomic instructions
Orderings == <<"unordered", "monotonic", "acquire", "release", "acq_rel", "seq_cst">>
MEM == Fam("mem",
  "!0 = !{i32 1}\n!1 = !{}\n",
  "define void @f(i32* %p, i32 %v, i64 %n) {\n{inst}\n  ret void\n}\n",
  << Slot("inst", <<
       "  %a = alloca i32\n  store i32* %a, i32** undef",
       "  %a = alloca inalloca i32\n  store i32* %a, i32** undef",
       "  %a = alloca swifterror i8*\n  store i8* null, i8** %a",
       "  %a = alloca i32, i64 %n\n  store i32* %a, i32** undef",
       "  %a = alloca i32, align 16\n  store i32* %a, i32** undef",
       "  %a = alloca i32, i64 %n, align 8, addrspace(0)\n  store i32* %a, i32** undef",
       "  %a = alloca i32, !foo !0\n  store i32* %a, i32** undef",
       "  %l = load i32, i32* %p\n  store i32 %l, i32* undef",
       "  %l = load volatile i32, i32* %p, align 4\n  store i32 %l, i32* undef",
       "  %l = load i32, i32* %p, align 4, !nontemporal !0, !invariant.load !1\n  store i32 %l, i32* undef",
       "  %l = load atomic i32, i32* %p unordered, align 4\n  store i32 %l, i32* undef",
       "  %l = load atomic volatile i32, i32* %p syncscope(\"singlethread\") seq_cst, align 4\n  store i32 %l, i32* undef",
       "  %l = load atomic i32, i32* %p monotonic, align 4\n  store i32 %l, i32* undef",
       "  %l = load atomic i32, i32* %p acquire, align 4\n  store i32 %l, i32* undef",
       "  store i32 %v, i32* %p",
       "  store volatile i32 %v, i32* %p, align 4",
       "  store i32 %v, i32* %p, align 4, !nontemporal !0",
       "  store atomic i32 %v, i32* %p unordered, align 4",
       "  store atomic volatile i32 %v, i32* %p syncscope(\"agent\") release, align 4",
       "  store atomic i32 %v, i32* %p seq_cst, align 4",
       "  fence acquire",
       "  fence release",
       "  fence acq_rel",
       "  fence syncscope(\"singlethread\") seq_cst",
       "  %c = cmpxchg i32* %p, i32 %v, i32 7 monotonic monotonic\n  store { i32, i1 } %c, { i32, i1 }* undef",
       "  %c = cmpxchg weak volatile i32* %p, i32 %v, i32 7 syncscope(\"singlethread\") acq_rel acquire, align 4\n  store { i32, i1 } %c, { i32, i1 }* undef",
       "  %c = cmpxchg i32* %p, i32 %v, i32 7 seq_cst seq_cst, !foo !0\n  store { i32, i1 } %c, { i32, i1 }* undef",
       "  %c = cmpxchg i32* %p, i32 %v, i32 7 release monotonic\n  store { i32, i1 } %c, { i32, i1 }* undef",
       "  %c = cmpxchg i32* %p, i32 %v, i32 7 seq_cst seq_cst, align 8",
       "  %r = atomicrmw add i32* %p, i32 %v seq_cst, align 16",
       "  %r = atomicrmw xchg i32* %p, i32 %v monotonic, align 8, !foo !0",
       "  %r = atomicrmw xchg i32* %p, i32 %v monotonic\n  store i32 %r, i32* undef",
       "  %r = atomicrmw add i32* %p, i32 %v acquire\n  store i32 %r, i32* undef",
       "  %r = atomicrmw sub i32* %p, i32 %v release\n  store i32 %r, i32* undef",
       "  %r = atomicrmw and i32* %p, i32 %v acq_rel\n  store i32 %r, i32* undef",
       "  %r = atomicrmw nand i32* %p, i32 %v seq_cst\n  store i32 %r, i32* undef",
       "  %r = atomicrmw or i32* %p, i32 %v monotonic\n  store i32 %r, i32* undef",
       "  %r = atomicrmw xor i32* %p, i32 %v monotonic\n  store i32 %r, i32* undef",
       "  %r = atomicrmw max i32* %p, i32 %v monotonic\n  store i32 %r, i32* undef",
       "  %r = atomicrmw min i32* %p, i32 %v monotonic\n  store i32 %r, i32* undef",
       "  %r = atomicrmw umax i32* %p, i32 %v monotonic\n  store i32 %r, i32* undef",
       "  %r = atomicrmw umin i32* %p, i32 %v monotonic\n  store i32 %r, i32* undef",
       "  %r = atomicrmw volatile add i32* %p, i32 %v syncscope(\"singlethread\") seq_cst, align 4\n  store i32 %r, i32* undef",
       "  %fp = bitcast i32* %p to float*\n  %r = atomicrmw fadd float* %fp, float 1.0 monotonic\n  store float %r, float* undef",
       "  %fp = bitcast i32* %p to float*\n  %r = atomicrmw fsub float* %fp, float 1.0 monotonic\n  store float %r, float* undef",
       "  %g = getelementptr i32, i32* %p, i64 %n\n  store i32* %g, i32** undef",
       "  %g = getelementptr inbounds i32, i32* %p, i64 1\n  store i32* %g, i32** undef",
       "  %s = bitcast i32* %p to { i32, [4 x i8] }*\n  %g = getelementptr inbounds { i32, [4 x i8] }, { i32, [4 x i8] }* %s, i64 0, i32 1, i64 %n\n  store i8* %g, i8** undef"
     >>) >>,
  {}, FALSE)

----------------------------------------------------------------------------
\* Arithmetic, comparison, conversion, vector, aggregate and other instructions
IPreds == <<"eq", "ne", "ugt", "uge", "ult", "ule", "sgt", "sge", "slt", "sle">>
FPreds == <<"false", "oeq", "ogt", "oge", "olt", "ole", "one", "ord", "ueq", "ugt", "uge", "ult", "ule", "une", "uno", "true">>
ARITH == Fam("arith",
  "!0 = !{i32 1}\n",
  "define void @f(i32 %a, i32 %b, float %x, float %y, <4 x i32> %va, <4 x float> %vx, <vscale x 2 x i32> %sa, i1 %c, i8* %p, {i32, float} %agg, [2 x i32] %arr) {\n  {inst}\n  ret void\n}\n",
  << Slot("inst", <<
       "%r = add i32 %a, %b\n  store i32 %r, i32* undef", "%r = add nuw i32 %a, %b\n  store i32 %r, i32* undef", "%r = add nsw i32 %a, %b\n  store i32 %r, i32* undef", "%r = add nuw nsw i32 %a, %b\n  store i32 %r, i32* undef",
       "%r = sub i32 %a, %b\n  store i32 %r, i32* undef", "%r = sub nuw nsw i32 %a, %b\n  store i32 %r, i32* undef", "%r = mul i32 %a, %b\n  store i32 %r, i32* undef", "%r = mul nuw nsw i32 %a, %b\n  store i32 %r, i32* undef",
       "%r = udiv i32 %a, %b\n  store i32 %r, i32* undef", "%r = udiv exact i32 %a, %b\n  store i32 %r, i32* undef", "%r = sdiv i32 %a, %b\n  store i32 %r, i32* undef", "%r = sdiv exact i32 %a, %b\n  store i32 %r, i32* undef",
       "%r = urem i32 %a, %b\n  store i32 %r, i32* undef", "%r = srem i32 %a, %b\n  store i32 %r, i32* undef",
       "%r = shl i32 %a, %b\n  store i32 %r, i32* undef", "%r = shl nuw nsw i32 %a, %b\n  store i32 %r, i32* undef", "%r = lshr i32 %a, %b\n  store i32 %r, i32* undef", "%r = lshr exact i32 %a, %b\n  store i32 %r, i32* undef",
       "%r = ashr i32 %a, %b\n  store i32 %r, i32* undef", "%r = ashr exact i32 %a, %b\n  store i32 %r, i32* undef", "%r = and i32 %a, %b\n  store i32 %r, i32* undef", "%r = or i32 %a, %b\n  store i32 %r, i32* undef", "%r = xor i32 %a, -1\n  store i32 %r, i32* undef",
       "%r = fneg float %x\n  store float %r, float* undef", "%r = fneg fast float %x\n  store float %r, float* undef", "%r = fneg nnan ninf <4 x float> %vx\n  store <4 x float> %r, <4 x float>* undef",
       "%r = fadd float %x, %y\n  store float %r, float* undef", "%r = fadd fast float %x, %y\n  store float %r, float* undef", "%r = fadd nnan ninf nsz arcp contract afn reassoc float %x, %y\n  store float %r, float* undef",
       "%r = fsub nsz float %x, %y\n  store float %r, float* undef", "%r = fmul arcp float %x, %y\n  store float %r, float* undef", "%r = fdiv contract float %x, %y\n  store float %r, float* undef", "%r = frem afn float %x, %y\n  store float %r, float* undef",
       "%r = fadd reassoc <4 x float> %vx, %vx\n  store <4 x float> %r, <4 x float>* undef",
       "%r = add <4 x i32> %va, %va\n  store <4 x i32> %r, <4 x i32>* undef", "%r = add <vscale x 2 x i32> %sa, %sa\n  store <vscale x 2 x i32> %r, <vscale x 2 x i32>* undef", "%r = mul <4 x i32> %va, <i32 1, i32 2, i32 3, i32 4>\n  store <4 x i32> %r, <4 x i32>* undef",
       "%r = icmp eq i32 %a, %b\n  store i1 %r, i1* undef", "%r = icmp ne i32 %a, %b\n  store i1 %r, i1* undef", "%r = icmp ugt i32 %a, %b\n  store i1 %r, i1* undef", "%r = icmp uge i32 %a, %b\n  store i1 %r, i1* undef", "%r = icmp ult i32 %a, %b\n  store i1 %r, i1* undef",
       "%r = icmp ule i32 %a, %b\n  store i1 %r, i1* undef", "%r = icmp sgt i32 %a, %b\n  store i1 %r, i1* undef", "%r = icmp sge i32 %a, %b\n  store i1 %r, i1* undef", "%r = icmp slt i32 %a, %b\n  store i1 %r, i1* undef", "%r = icmp sle i32 %a, %b\n  store i1 %r, i1* undef",
       "%r = icmp eq i8* %p, null\n  store i1 %r, i1* undef", "%r = icmp slt <4 x i32> %va, zeroinitializer\n  store <4 x i1> %r, <4 x i1>* undef", "%r = icmp eq <vscale x 2 x i32> %sa, zeroinitializer\n  store <vscale x 2 x i1> %r, <vscale x 2 x i1>* undef",
       "%r = fcmp false float %x, %y\n  store i1 %r, i1* undef", "%r = fcmp oeq float %x, %y\n  store i1 %r, i1* undef", "%r = fcmp ogt float %x, %y\n  store i1 %r, i1* undef", "%r = fcmp oge float %x, %y\n  store i1 %r, i1* undef",
       "%r = fcmp olt float %x, %y\n  store i1 %r, i1* undef", "%r = fcmp ole float %x, %y\n  store i1 %r, i1* undef", "%r = fcmp one float %x, %y\n  store i1 %r, i1* undef", "%r = fcmp ord float %x, %y\n  store i1 %r, i1* undef",
       "%r = fcmp ueq float %x, %y\n  store i1 %r, i1* undef", "%r = fcmp ugt float %x, %y\n  store i1 %r, i1* undef", "%r = fcmp uge float %x, %y\n  store i1 %r, i1* undef", "%r = fcmp ult float %x, %y\n  store i1 %r, i1* undef",
       "%r = fcmp ule float %x, %y\n  store i1 %r, i1* undef", "%r = fcmp une float %x, %y\n  store i1 %r, i1* undef", "%r = fcmp uno float %x, %y\n  store i1 %r, i1* undef", "%r = fcmp true float %x, %y\n  store i1 %r, i1* undef",
       "%r = fcmp fast olt float %x, %y\n  store i1 %r, i1* undef", "%r = fcmp nnan ninf oeq <4 x float> %vx, %vx\n  store <4 x i1> %r, <4 x i1>* undef",
       "%r = trunc i32 %a to i8\n  store i8 %r, i8* undef", "%r = zext i32 %a to i64\n  store i64 %r, i64* undef", "%r = sext i32 %a to i64\n  store i64 %r, i64* undef", "%r = trunc <4 x i32> %va to <4 x i8>\n  store <4 x i8> %r, <4 x i8>* undef",
       "%r = fptrunc float %x to half\n  store half %r, half* undef", "%r = fpext float %x to double\n  store double %r, double* undef", "%r = fptoui float %x to i32\n  store i32 %r, i32* undef", "%r = fptosi float %x to i32\n  store i32 %r, i32* undef",
       "%r = uitofp i32 %a to float\n  store float %r, float* undef", "%r = sitofp i32 %a to double\n  store double %r, double* undef", "%r = ptrtoint i8* %p to i64\n  store i64 %r, i64* undef", "%r = inttoptr i32 %a to i8*\n  store i8* %r, i8** undef",
       "%r = bitcast i32 %a to float\n  store float %r, float* undef", "%r = bitcast <4 x i32> %va to <2 x i64>\n  store <2 x i64> %r, <2 x i64>* undef", "%r = addrspacecast i8* %p to i8 addrspace(1)*\n  store i8 addrspace(1)* %r, i8 addrspace(1)** undef",
       "%r = ptrtoint i8* %p to i64, !foo !0\n  store i64 %r, i64* undef",
       "%r = select i1 %c, i32 %a, i32 %b\n  store i32 %r, i32* undef", "%r = select fast i1 %c, float %x, float %y\n  store float %r, float* undef", "%r = select <4 x i1> zeroinitializer, <4 x i32> %va, <4 x i32> %va\n  store <4 x i32> %r, <4 x i32>* undef",
       "%r = freeze i32 %a\n  store i32 %r, i32* undef", "%r = freeze i32 %a, !foo !0", "%r = va_arg i8* %p, i32, !foo !0", "%r = fneg float %x, !foo !0", "%r = select i1 %c, i32 %a, i32 %b, !foo !0",
       "%r = extractelement <4 x i32> %va, i32 1, !foo !0", "%r = insertvalue {i32, float} %agg, float %x, 1, !foo !0", "%r = icmp eq i32 %a, %b, !foo !0", "%r = fcmp oeq float %x, %y, !foo !0",
       "%r = add i32 %a, %b, !foo !0", "%r = trunc i32 %a to i8, !foo !0", "%r = shufflevector <4 x i32> %va, <4 x i32> undef, <4 x i32> zeroinitializer, !foo !0", "%r = freeze <4 x i32> %va\n  store <4 x i32> %r, <4 x i32>* undef",
       "%r = extractelement <4 x i32> %va, i32 1\n  store i32 %r, i32* undef", "%r = extractelement <vscale x 2 x i32> %sa, i64 0\n  store i32 %r, i32* undef",
       "%r = insertelement <4 x i32> %va, i32 %a, i32 1\n  store <4 x i32> %r, <4 x i32>* undef", "%r = insertelement <4 x i32> undef, i32 %a, i64 0\n  store <4 x i32> %r, <4 x i32>* undef",
       "%r = shufflevector <4 x i32> %va, <4 x i32> undef, <4 x i32> <i32 0, i32 1, i32 2, i32 3>\n  store <4 x i32> %r, <4 x i32>* undef",
       "%r = shufflevector <4 x i32> %va, <4 x i32> %va, <2 x i32> <i32 0, i32 undef>\n  store <2 x i32> %r, <2 x i32>* undef",
       "%r = shufflevector <4 x i32> %va, <4 x i32> poison, <8 x i32> zeroinitializer\n  store <8 x i32> %r, <8 x i32>* undef",
       "%r = shufflevector <vscale x 2 x i32> %sa, <vscale x 2 x i32> undef, <vscale x 2 x i32> zeroinitializer\n  store <vscale x 2 x i32> %r, <vscale x 2 x i32>* undef",
       "%r = extractvalue {i32, float} %agg, 0\n  store i32 %r, i32* undef", "%r = extractvalue [2 x i32] %arr, 1\n  store i32 %r, i32* undef",
       "%r = insertvalue {i32, float} %agg, float %x, 1\n  store {i32, float} %r, {i32, float}* undef", "%r = insertvalue {i32, float} undef, i32 %a, 0\n  store {i32, float} %r, {i32, float}* undef",
       "%r = insertvalue {i32, {float, [2 x i32]}} undef, i32 7, 1, 1, 0\n  store {i32, {float, [2 x i32]}} %r, {i32, {float, [2 x i32]}}* undef",
       "%r = va_arg i8* %p, i32\n  store i32 %r, i32* undef"
     >>) >>,
  {}, FALSE)

----------------------------------------------------------------------------
\* Terminators and exception handling
TERM == Fam("term",
  "declare i32 @pers(...)\ndeclare void @v()\n!0 = !{i32 1}\n!1 = !{!\"branch_weights\", i32 1, i32 2}\n",
  "define i32 @f(i32 %a, i1 %c, i8* %p) personality i8* bitcast (i32 (...)* @pers to i8*) {\nentry:\n{body}\n}\n",
  << Slot("body", <<
       "  ret i32 %a",
       "  ret i32 %a, !foo !0",
       "  br label %x\nx:\n  ret i32 0",
       "  br i1 %c, label %x, label %y, !prof !1\nx:\n  ret i32 0\ny:\n  ret i32 1",
       "  switch i32 %a, label %d [\n    i32 0, label %x\n    i32 -1, label %y\n    i32 2147483647, label %x\n  ]\nx:\n  ret i32 0\ny:\n  ret i32 1\nd:\n  unreachable",
       "  switch i32 %a, label %d [\n  ]\nd:\n  ret i32 0",
       "  indirectbr i8* %p, [label %x, label %y]\nx:\n  ret i32 0\ny:\n  ret i32 1",
       "  indirectbr i8* blockaddress(@f, %x), [label %x]\nx:\n  ret i32 0",
       "  unreachable",
       "  br label %x\nx:\n  %r = phi fast float [ 1.0, %entry ]\n  %s = phi nnan nsz <2 x float> [ zeroinitializer, %entry ]\n  store float %r, float* undef\n  ret i32 0",
       "  br i1 %c, label %x, label %y\nx:\n  br label %y\ny:\n  %r = phi i32 [ %a, %entry ], [ 7, %x ], !foo !0\n  %q = phi i8* [ %p, %entry ], [ null, %x ]\n  ret i32 %r",
       "  callbr void asm \"\", \"r,X\"(i32 %a, i8* blockaddress(@f, %x))\n          to label %y [label %x]\nx:\n  ret i32 0\ny:\n  ret i32 1",
       "  invoke void @v()\n          to label %x unwind label %cs\nx:\n  ret i32 0\ncs:\n  %sw = catchswitch within none [label %cp] unwind to caller\ncp:\n  %pad = catchpad within %sw [i8* null, i32 64]\n  catchret from %pad to label %x",
       "  invoke void @v()\n          to label %x unwind label %cl\nx:\n  ret i32 0\ncl:\n  %pad = cleanuppad within none []\n  call void @v() [ \"funclet\"(token %pad) ]\n  cleanupret from %pad unwind to caller",
       "  invoke void @v()\n          to label %x unwind label %cs\nx:\n  ret i32 0\ncs:\n  %sw = catchswitch within none [label %cp, label %cp2] unwind label %cl\ncp:\n  %pad = catchpad within %sw []\n  catchret from %pad to label %x\ncp2:\n  %pad2 = catchpad within %sw [i32 1]\n  catchret from %pad2 to label %x\ncl:\n  %cpad = cleanuppad within none [i32 7]\n  cleanupret from %cpad unwind to caller"
     >>) >>,
  {}, FALSE)

----------------------------------------------------------------------------
\* Types and constants (in a global initialiser / function signature)
\* constant expressions of LLVM 14 for which the library has no expression type
ConstNotRepr == <<
       "i64 udiv (i64 ptrtoint (i32* @x to i64), i64 3)",
       "i64 sdiv exact (i64 ptrtoint (i32* @x to i64), i64 3)",
       "i64 urem (i64 ptrtoint (i32* @x to i64), i64 3)",
       "i64 srem (i64 ptrtoint (i32* @x to i64), i64 3)",
       "float fadd (float uitofp (i64 ptrtoint (i32* @x to i64) to float), float 1.0)",
       "float fsub (float uitofp (i64 ptrtoint (i32* @x to i64) to float), float 1.0)",
       "float fmul (float uitofp (i64 ptrtoint (i32* @x to i64) to float), float 2.0)",
       "float fdiv (float uitofp (i64 ptrtoint (i32* @x to i64) to float), float 2.0)",
       "float frem (float uitofp (i64 ptrtoint (i32* @x to i64) to float), float 2.0)",
       "{ i64, i8 } insertvalue ({ i64, i8 } undef, i64 ptrtoint (i32* @x to i64), 0)",
       "i64 extractvalue ({ i64, i8 } { i64 ptrtoint (i32* @x to i64), i8 0 }, 0)" >>
\* Aggregates whose every leaf is a zero of some sort.  LLVM folds an aggregate of null values into
\* zeroinitializer -- but -0.0 is not a null value: `[2 x float] [float -0.0, float -0.0]` keeps its sign bits
\* (seeds C01-15, C10-13: a parser-side fold that tests floats with Sign() = 0).  Every zero-like leaf of every
\* floating-point kind, integer and pointer, alone and next to the positive zero, in every container form.
ZeroLeaves == << <<"float", "-0.0", "0.0">>, <<"float", "0.0", "0.0">>, <<"double", "-0.0", "0.0">>, <<"half", "0xH8000", "0xH0000">>,
                 <<"half", "-0.0", "0.0">>, <<"x86_fp80", "0xK80000000000000000000", "0xK00000000000000000000">>,
                 <<"fp128", "0xL00000000000000008000000000000000", "0xL00000000000000000000000000000000">>,
                 <<"ppc_fp128", "0xM80000000000000000000000000000000", "0xM00000000000000000000000000000000">>,
                 <<"i32", "0", "0">>, <<"i8*", "null", "null">>, <<"float", "zeroinitializer", "-0.0">> >>
ZeroAggForms(t, v, p) ==
  << "[2 x " \o t \o "] [" \o t \o " " \o v \o ", " \o t \o " " \o v \o "]",
     "[2 x " \o t \o "] [" \o t \o " " \o p \o ", " \o t \o " " \o v \o "]",
     "<2 x " \o t \o "> <" \o t \o " " \o v \o ", " \o t \o " " \o v \o ">",
     "<2 x " \o t \o "> <" \o t \o " " \o v \o ", " \o t \o " " \o p \o ">",
     "{ " \o t \o ", i32 } { " \o t \o " " \o v \o ", i32 0 }",
     "<{ i8, " \o t \o " }> <{ i8 0, " \o t \o " " \o v \o " }>",
     "[2 x [1 x " \o t \o "]] [[1 x " \o t \o "] [" \o t \o " " \o v \o "], [1 x " \o t \o "] zeroinitializer]",
     "{ [1 x " \o t \o "], <1 x " \o t \o "> } { [1 x " \o t \o "] [" \o t \o " " \o v \o "], <1 x " \o t \o "> <" \o t \o " " \o v \o "> }" >>
RECURSIVE ConcatAll(_)
ConcatAll(ss) == IF ss = <<>> THEN <<>> ELSE Head(ss) \o ConcatAll(Tail(ss))
ZeroAggs == ConcatAll([k \in 1..Len(ZeroLeaves) |-> ZeroAggForms(ZeroLeaves[k][1], ZeroLeaves[k][2], ZeroLeaves[k][3])])
CONSTS == Fam("const",
  "%S = type { i32, %S* }\n%O = type opaque\n%P = type <{ i8, i32 }>\n@x = global i32 0\n@y = global [4 x i32] zeroinitializer\ndeclare void @fn()\n",
  "@g = global {tc}\n",
  << Slot("tc", <<
       "i1 true", "i1 false", "i8 -128", "i8 127", "i32 0", "i64 -9223372036854775808", "i64 9223372036854775807", "i128 170141183460469231731687303715884105727",
       "i33 4294967296", "i1 1", "i8 255", "i64 9223372036854775808", "i64 18446744073709551615", "i128 18446744073709551616", "i16 32768", "i64 4096", "i64 65535", "i32 4294967295",
       "half 1.0", "half 0xH3C00", "bfloat 0xR3F80", "float 1.0", "float 0x3FF0000000000000", "float 0x36A0000000000000", "double 1.0e+300", "double 0x7FF0000000000000",
       "double -0.0", "x86_fp80 0xK3FFF8000000000000000", "fp128 0xL00000000000000003FFF000000000000", "ppc_fp128 0xM3FF00000000000000000000000000000",
       "i8* null", "i32* @x", "i32 addrspace(1)* null", "%S* null", "%O* null", "void ()* @fn", "i8** null",
       "%S zeroinitializer", "%S { i32 1, %S* null }", "%P <{ i8 1, i32 2 }>", "{ i8, { i16, [2 x i1] } } { i8 1, { i16, [2 x i1] } { i16 2, [2 x i1] [i1 true, i1 false] } }",
       "{} zeroinitializer", "{} {}", "<{}> <{}>", "[0 x i32] zeroinitializer", "[0 x i32] []", "[2 x i32] [i32 1, i32 2]", "[2 x [2 x i8]] [[2 x i8] c\"ab\", [2 x i8] c\"\\00\\FF\"]",
       "[3 x i8] c\"a\\22\\5C\"", "[5 x i8] c\"h\\C3\\A9\\0A\\00\"",
       "<2 x i32> <i32 1, i32 2>", "<2 x i32> zeroinitializer", "<4 x float> <float 1.0, float undef, float poison, float 0.0>", "<2 x i8*> <i8* null, i8* null>",
       "i32 undef", "i32 poison", "%S undef", "<2 x i32> poison", "[2 x i32] undef",
       "i64 ptrtoint (i32* @x to i64)", "i32* getelementptr ([4 x i32], [4 x i32]* @y, i64 0, i64 1)", "i32* getelementptr inbounds ([4 x i32], [4 x i32]* @y, i64 0, i64 1)",
       "i32* getelementptr inbounds ([4 x i32], [4 x i32]* @y, i64 0, inrange i64 1)", "i32* getelementptr (i32, i32* @x, i32 1)",
       "i8* bitcast (i32* @x to i8*)", "i8 addrspace(1)* addrspacecast (i8* bitcast (i32* @x to i8*) to i8 addrspace(1)*)", "i32* inttoptr (i64 16 to i32*)",
       "i64 add (i64 ptrtoint (i32* @x to i64), i64 1)", "i64 add nuw nsw (i64 ptrtoint (i32* @x to i64), i64 1)", "i64 sub (i64 ptrtoint (i32* @x to i64), i64 1)",
       "i64 mul nsw (i64 ptrtoint (i32* @x to i64), i64 2)", "i64 shl nuw (i64 ptrtoint (i32* @x to i64), i64 1)", "i64 lshr exact (i64 ptrtoint (i32* @x to i64), i64 1)",
       "i64 ashr (i64 ptrtoint (i32* @x to i64), i64 1)", "i64 and (i64 ptrtoint (i32* @x to i64), i64 7)", "i64 or (i64 ptrtoint (i32* @x to i64), i64 7)",
       "i64 xor (i64 ptrtoint (i32* @x to i64), i64 7)", "i32 trunc (i64 ptrtoint (i32* @x to i64) to i32)", "i128 zext (i64 ptrtoint (i32* @x to i64) to i128)", "i128 sext (i64 ptrtoint (i32* @x to i64) to i128)",
       "i1 icmp eq (i32* @x, i32* null)", "i1 icmp ult (i64 ptrtoint (i32* @x to i64), i64 8)", "i1 fcmp oeq (float uitofp (i64 ptrtoint (i32* @x to i64) to float), float 1.0)",
       "float sitofp (i64 ptrtoint (i32* @x to i64) to float)", "i64 fptoui (float uitofp (i64 ptrtoint (i32* @x to i64) to float) to i64)",
       "i64 fptosi (float uitofp (i64 ptrtoint (i32* @x to i64) to float) to i64)", "double fpext (float uitofp (i64 ptrtoint (i32* @x to i64) to float) to double)",
       "half fptrunc (float uitofp (i64 ptrtoint (i32* @x to i64) to float) to half)",
       "float fneg (float uitofp (i64 ptrtoint (i32* @x to i64) to float))",
       "i32* select (i1 icmp eq (i32* @x, i32* null), i32* @x, i32* null)",
       "i64 extractelement (<2 x i64> <i64 ptrtoint (i32* @x to i64), i64 0>, i32 0)",
       "<2 x i64> insertelement (<2 x i64> zeroinitializer, i64 ptrtoint (i32* @x to i64), i32 1)",
       "<2 x i64> shufflevector (<2 x i64> <i64 ptrtoint (i32* @x to i64), i64 0>, <2 x i64> undef, <2 x i32> <i32 1, i32 0>)",
       "void ()* dso_local_equivalent @fn", "void ()* no_cfi @fn"
     >> \o ZeroAggs \o ConstNotRepr) >>,
  {}, FALSE)
CONSTValid(c) == c.tc # "void ()* no_cfi @fn"        \* no_cfi is LLVM 15

TYPES == Fam("type",
  "%S = type { i32, %S* }\n%O = type opaque\n",
  "declare void @f({ty})\n",
  << Slot("ty", << "i1", "i7", "i8388607", "half", "bfloat", "float", "double", "x86_fp80", "fp128", "ppc_fp128", "x86_mmx", "x86_amx", "token",
       "i8*", "i8 addrspace(3)*", "i8**", "%S*", "%O*", "void ()*", "i32 (i8*, ...)*", "void (i32) addrspace(1)*", "{ i32 }*", "ptr",
       "<1 x i8>", "<16 x float>", "<2 x i8*>", "<vscale x 1 x i64>", "<vscale x 16 x i1>", "[0 x i8]", "[3 x [2 x i8]]", "[4294967296 x i8]",
       "{}", "{ i8 }", "{ i8, { i16 }, [1 x i1] }", "<{ i8, i32 }>", "<{}>", "%S", "{ %S, %O* }", "label" >>) >>,
  {}, FALSE)
TYPEValid(c) == c.ty \notin {"ptr", "label", "token", "x86_amx"}   \* opaque pointers mix, label/token/amx parameters: invalid in this position

----------------------------------------------------------------------------
\* Module-level definitions
MODLVL == Fam("mod",
  "",
  "{item}\n",
  << Slot("item", <<
       "source_filename = \"a b\\22c.c\"",
       \* type names that a number parser accepts but that are not the canonical spelling of a number are ordinary,
       \* pairwise different names (fix e47ce20: they were all taken for the type "42"); names made of digits only are the
       \* known quoting defect of C11 and stay out of this item
       "%\"+42\" = type { i8 }\n%\"+042\" = type { i64 }\n%\"-042\" = type { i16 }\n@b = global %\"+42\" zeroinitializer\n@c = global %\"+042\" zeroinitializer\n@d = global %\"-042\" zeroinitializer",
       "target datalayout = \"e-m:e-p270:32:32-p271:32:32-p272:64:64-i64:64-f80:128-n8:16:32:64-S128\"",
       "target triple = \"x86_64-pc-linux-gnu\"",
       "module asm \"nop\"\nmodule asm \"\\09.globl x\\0A\"",
       "$c = comdat any\n@c = global i32 0, comdat",
       "$c = comdat exactmatch\n@c = global i32 0, comdat",
       "$c = comdat largest\n@c = global i32 0, comdat",
       "$c = comdat nodeduplicate\n@c = global i32 0, comdat",
       "$c = comdat samesize\n@c = global i32 0, comdat",
       "@x = global i32 0\n@a = alias i32, i32* @x",
       "@x = global i32 0\n@a = internal alias i32, i32* @x",
       "@x = global i32 0\n@a = weak dso_local hidden unnamed_addr alias i32, i32* @x",
       "@x = global i32 0\n@a = linkonce_odr protected local_unnamed_addr alias i32, i32* @x",
       "@x = thread_local global i32 0\n@a = thread_local(initialexec) alias i32, i32* @x",
       "@x = global i32 0\n@a = alias i8, bitcast (i32* @x to i8*)",
       "@x = global [2 x i32] zeroinitializer\n@a = alias i32, getelementptr ([2 x i32], [2 x i32]* @x, i64 0, i64 1)",
       "@x = addrspace(1) global i32 0\n@a = alias i32, i32 addrspace(1)* @x",
       "@x = global i32 0\n@a = alias i32, i32* @x, partition \"p\"",
       "define void ()* @r() {\n  ret void ()* null\n}\n@i = ifunc void (), void ()* ()* @r",
       "define void ()* @r() {\n  ret void ()* null\n}\n@i = weak hidden ifunc void (), void ()* ()* @r",
       "define void ()* @r() {\n  ret void ()* null\n}\n@i = dso_local ifunc void (), void ()* ()* @r, partition \"p\"",
       "attributes #0 = { nounwind }\nattributes #7 = { \"a\" \"b\"=\"c\" \"e\"=\"\" align=8 alignstack=16 uwtable }\ndeclare void @f() #0\ndeclare void @g() #7",
       "define void @f() unnamed_addr jumptable {\n  ret void\n}",
       "declare void @kr(...)\ndeclare i32 @pers(...)\ndefine void @c(i32 %x, i8* %p, void (i32)* %fp) personality i8* bitcast (i32 (...)* @pers to i8*) {\n  call void bitcast (void (...)* @kr to void (i32, i8*)*)(i32 %x, i8* %p)\n  call void %fp(i32 %x)\n  call void inttoptr (i64 4096 to void (i32)*)(i32 1)\n  %r = call i32 bitcast (void (...)* @kr to i32 (i8*)*)(i8* %p)\n  invoke void bitcast (void (...)* @kr to void (i32)*)(i32 %r)\n          to label %ok unwind label %lp\nok:\n  ret void\nlp:\n  %l = landingpad { i8*, i32 }\n          cleanup\n  ret void\n}",
       "declare void @llvm.dbg.value(metadata, metadata, metadata)\ndefine i32 @f(i32 %a) {\n  %s = add i32 %a, 1\n  call void @llvm.dbg.value(metadata !DIArgList(i32 %a, i32 %s), metadata !0, metadata !DIExpression(DW_OP_LLVM_arg, 0, DW_OP_LLVM_arg, 1, DW_OP_plus))\n  ret i32 %s\n}\ndefine i32 @g(i32 %a) {\n  %s = mul i32 %a, 3\n  call void @llvm.dbg.value(metadata !DIArgList(i32 %a, i32 %s), metadata !0, metadata !DIExpression(DW_OP_LLVM_arg, 0, DW_OP_LLVM_arg, 1, DW_OP_plus))\n  call void @llvm.dbg.value(metadata i32 %a, metadata !0, metadata !DIExpression())\n  ret i32 %s\n}\n!0 = !{}",
       "@vt = constant [2 x i8*] zeroinitializer, !type !0, !type !1, !type !0\ndeclare !type !0 !type !1 void @d()\ndefine void @e() !type !1 !type !0 {\n  %x = load i8*, i8** undef, !foo !0, !bar !1\n  ret void\n}\n!0 = !{i64 0, !\"a\"}\n!1 = !{i64 8, !\"b\"}",
       "define void @f() addrspace(1) {\n  ret void\n}\n@p = global void () addrspace(1)* @f\n@q = global [1 x i8 addrspace(1)*] [i8 addrspace(1)* bitcast (void () addrspace(1)* @f to i8 addrspace(1)*)]\ndefine void () addrspace(1)* @g() {\n  call addrspace(1) void @f()\n  ret void () addrspace(1)* @f\n}",
       "define void @d() addrspace(2) {\n  ret void\n}\n@a = alias void (), void () addrspace(2)* @d\n@g = addrspace(3) global i32 0\n@h = global i32 addrspace(3)* @g\ndefine i32 @u() {\n  %v = load i32, i32 addrspace(3)* @g\n  ret i32 %v\n}",
       "declare i8* @m(i32, i32) allocsize(1, 0)\ndeclare i8* @n(i32, i32) allocsize(0)\ndefine i8* @c() {\n  %r = call i8* @m(i32 1, i32 2) allocsize(1, 0)\n  ret i8* %r\n}\nattributes #0 = { allocsize(1, 0) vscale_range(1,1) alignstack=1 }\ndeclare i8* @o(i32, i32) #0",
       "declare void @a(i8* align 1 dereferenceable(1) dereferenceable_or_null(1), i32* byval(i32) align 1)\ndefine void @b() align 1 {\n  %x = alloca i8, align 1\n  %y = alloca i8, i32 0\n  ret void\n}",
       "declare i8* @m(i32, i32) allocsize(0, 1)",
       "declare void @s({ i32 }* sret({ i32 }) align 4, i32* inalloca(i32))",
       "declare spir_kernel void @k()\ndeclare amdgpu_kernel void @a()",
       "declare i8* @r(i8* returned)",
       "declare void @f()\ndefine void @g() {\n  call void @f() builtin\n  ret void\n}",
       "declare i32 @f(i32)\ndefine i32 @g(i32 %x) {\n  %r = musttail call i32 @f(i32 %x)\n  ret i32 %r\n}",
       "@v = global <vscale x 4 x i32>* null\ndefine <vscale x 2 x i1> @z() {\n  ret <vscale x 2 x i1> zeroinitializer\n}",
       "!named = !{}\n!\\31abc = !{!0}\n!a.b-c$d_e = !{!0, !1}\n!0 = !{}\n!1 = distinct !{!0, !1, null, !\"s\\00t\", i32 1, i8* null, !{!0}, !{}}",
       "@x = global i32 0, !a !0, !b !1\n!0 = !{i32* @x}\n!1 = !{void ()* @f, !0}\ndeclare !a !0 void @f()",
       "@a = global i32* @h\n@b = global i32* @h\n@h = global i32 0\nuselistorder i32* @h, { 1, 0 }",
       "define void @f() {\n  br i1 true, label %a, label %b\na:\n  br label %b\nb:\n  ret void\n  uselistorder label %b, { 1, 0 }\n}",
       "define void @f() {\n  br i1 true, label %a, label %b\na:\n  br label %b\nb:\n  ret void\n}\nuselistorder_bb @f, %b, { 1, 0 }",
       "define void @f(i32 %x) {\n  call void asm sideeffect \"nop\", \"~{memory}\"()\n  %r = call i32 asm \"mov $1, $0\", \"=r,r\"(i32 %x)\n  call void asm sideeffect alignstack inteldialect \"nop\", \"\"()\n  call void asm unwind \"nop\", \"\"()\n  ret void\n}",
       "declare void @llvm.dbg.value(metadata, metadata, metadata)\ndefine void @f(i32 %x) {\n  call void @llvm.dbg.value(metadata i32 %x, metadata !0, metadata !DIExpression())\n  call void @llvm.dbg.value(metadata !{}, metadata !0, metadata !DIExpression(DW_OP_deref))\n  ret void\n}\n!0 = !{}",
       \* added from the statement-coverage survey of asm/ (constructs no earlier item reached)
       "declare i8* @llvm.coro.begin(token, i8*)\ndefine void @f() {\n  %h = call i8* @llvm.coro.begin(token none, i8* null)\n  ret void\n}",
       "@g = global i32 0 #0\n@h = external global i32 #1\nattributes #0 = { \"k\"=\"v\" }\nattributes #1 = { \"bss-section\"=\".b\" \"x\" }",
       "@x = global i32 0\n@a = dllexport alias i32, i32* @x\n@b = external alias i32, i32* @x\n@c = alias i32, addrspacecast (i32* @x to i32 addrspace(1)*)\n@d = alias i32, inttoptr (i64 ptrtoint (i32* @x to i64) to i32*)",
       "define void ()* @r() {\n  ret void ()* null\n}\n@i = external ifunc void (), void ()* ()* @r\n@j = dllexport local_unnamed_addr ifunc void (), void ()* ()* @r\n@k = thread_local ifunc void (), void ()* ()* @r\n@l = ifunc void (), void ()* ()* bitcast (void ()* ()* @r to void ()* ()*)",
       "@g = global i32 0, align u0x10\ndefine void @f() align u0x20 {\n  %a = alloca i32, align u0x8\n  ret void\n}",
       "declare cc 0 void @f()\ndeclare cc 8 void @g()\ndeclare cc 1023 void @h()\ndefine void @c() {\n  call cc 0 void @f()\n  call cc 8 void @g()\n  ret void\n}",
       "declare i32 @p(...)\ndefine void @f() personality i32 (...)* @p {\nentry:\n  invoke void @f() to label %ok unwind label %cs\ncs:\n  %s = catchswitch within none [label %cp] unwind to caller\ncp:\n  %c = catchpad within %s [metadata !0, i32 1]\n  invoke void @f() [ \"funclet\"(token %c) ] to label %ok2 unwind label %cl\nok2:\n  catchret from %c to label %ok\ncl:\n  %k = cleanuppad within %c [metadata !0]\n  cleanupret from %k unwind to caller\nok:\n  ret void\n}\n!0 = !{}",
       "declare void @a(i32* preallocated(i32))\ndeclare void @b() vscale_range(2)\ndeclare void @d() vscale_range(1,16)\ndefine void @c(i32* %p) {\n  call void asm \"\", \"*m\"(i32* elementtype(i32) %p)\n  ret void\n}",
       "define i32* @f({i32, i32}* %p, [4 x i32]* %q, <2 x i32*> %v) {\n  %a = getelementptr [4 x i32], [4 x i32]* %q, i1 true, i1 false\n  %b = getelementptr i32, <2 x i32*> %v, <2 x i32> zeroinitializer\n  %c = getelementptr i32, <2 x i32*> %v, <2 x i32> <i32 1, i32 2>\n  %d = getelementptr i32, <2 x i32*> %v, <2 x i64> undef\n  %e = getelementptr [4 x i32], [4 x i32]* %q, i64 ptrtoint (i32* @g to i64), i64 1\n  ret i32* %a\n}\n@g = global i32 0",
       "define void @f() {\n  ret void, !foo !{i32 1, !\"s\"}, !bar !DIBasicType(name: \"b\")\n}\n@g = global i32 0, !baz !{}",
       "!named = !{!DIExpression(), !DIExpression(DW_OP_deref)}\n!0 = !{!DIBasicType(name: \"int\", size: 32), !DIFile(filename: \"a\", directory: \"b\"), !DISubrange(count: 3), !DIEnumerator(name: \"e\", value: 1), !DIExpression(DW_OP_deref)}\n!t = !{!0}",
       "define void @f() {\n  ret void, !dbg !DILocation(line: 1, column: 2, scope: !4)\n}\n!0 = !DIFile(filename: \"a\", directory: \"b\")\n!1 = distinct !DICompileUnit(language: DW_LANG_C99, file: !0)\n!4 = distinct !DISubprogram(name: \"f\", unit: !1, spFlags: DISPFlagDefinition)\n!llvm.dbg.cu = !{!1}\n!llvm.module.flags = !{!9}\n!9 = !{i32 2, !\"Debug Info Version\", i32 3}",
       "!0 = !DIBasicType(name: \"int\", size: 32, encoding: 5, flags: 0)\n!1 = !DISubroutineType(cc: 1, types: null, flags: 8192)\n!2 = !DIMacro(type: 1, name: \"N\")\n!3 = !DIFile(filename: \"a\", directory: \"b\")\n!4 = distinct !DICompileUnit(language: 12, file: !3, emissionKind: 1, nameTableKind: 1)\n!5 = !DIDerivedType(tag: 15, baseType: !0)\n!llvm.dbg.cu = !{!4}\n!t = !{!0, !1, !2, !5}\n!llvm.module.flags = !{!9}\n!9 = !{i32 2, !\"Debug Info Version\", i32 3}",
       "!3 = !DIFile(filename: \"a\", directory: \"b\")\n!4 = distinct !DICompileUnit(language: DW_LANG_C99, file: !3)\n!5 = !DISubroutineType(types: null)\n!6 = distinct !DISubprogram(name: \"f\", scope: !3, file: !3, line: 1, type: !5, isLocal: true, isDefinition: true, isOptimized: true, virtuality: DW_VIRTUALITY_pure_virtual, unit: !4)\n!7 = !DISubprogram(name: \"g\", scope: null, file: null, type: null, isLocal: false, isDefinition: false, isOptimized: false, containingType: null, templateParams: null, declaration: null, retainedNodes: null, thrownTypes: null)\n!llvm.dbg.cu = !{!4}\n!t = !{!6, !7}\n!llvm.module.flags = !{!9}\n!9 = !{i32 2, !\"Debug Info Version\", i32 3}",
       "!0 = !DIStringType(name: \"s\", tag: DW_TAG_string_type, size: 8)\n!1 = !DICompositeType(tag: DW_TAG_structure_type, name: \"S\", scope: null, file: null, baseType: null, elements: null, vtableHolder: null, templateParams: null)\n!2 = !DIDerivedType(tag: DW_TAG_pointer_type, baseType: null, scope: null, file: null)\n!3 = !DILocalVariable(name: \"v\", scope: !7, file: null, type: null)\n!4 = !DIBasicType(name: \"i\")\n!5 = !DIGlobalVariable(name: \"g\", scope: null, file: null, type: !4, isLocal: false, isDefinition: true, declaration: null, templateParams: null)\n!6 = !DIFile(filename: \"a\", directory: \"b\")\n!7 = distinct !DISubprogram(name: \"f\", unit: !8, spFlags: DISPFlagDefinition)\n!8 = distinct !DICompileUnit(language: DW_LANG_C99, file: !6, enums: null, retainedTypes: null, globals: null, imports: null, macros: null)\n!llvm.dbg.cu = !{!8}\n!t = !{!0, !1, !2, !3, !5}\n!llvm.module.flags = !{!9}\n!9 = !{i32 2, !\"Debug Info Version\", i32 3}",
       "!0 = !DISubrange(count: 3, lowerBound: u0x1)\n!1 = !DIBasicType(name: \"i\", size: u0x20, align: u0x8)\n!2 = !DIEnumerator(name: \"e\", value: u0xF, isUnsigned: true)\n!t = !{!0, !1, !2}",
       "define i32 @f(i32 %x) {\n  %r = callbr fastcc zeroext i32 asm \"\", \"=r,r,i\"(i32 %x, i8* blockaddress(@f, %b)) nounwind to label %a [label %b]\na:\n  ret i32 %r\nb:\n  callbr void asm \"\", \"i\"(i8* blockaddress(@f, %c)) to label %c []\nc:\n  ret i32 0\n}",
       "define void @f(i32* %p, <2 x i32*> %v, [4 x i32]* %q) {\n  %a = getelementptr i32, i32* %p, <2 x i64> <i64 1, i64 1>\n  %b = getelementptr i32, i32* %p, <2 x i64> poison\n  %c = getelementptr i32, <2 x i32*> %v, <2 x i64> <i64 undef, i64 1>\n  %d = getelementptr i32, i32* %p, i64 add (i64 1, i64 2)\n  %e = getelementptr i32, i32* %p, <2 x i64> <i64 ptrtoint (i32* @g to i64), i64 0>\n  %g = getelementptr [4 x i32], [4 x i32]* %q, i64 0, <2 x i64> <i64 3, i64 3>\n  ret void\n}\n@g = global i32 0\n@h = global <2 x i32*> getelementptr (i32, i32* @g, <2 x i64> <i64 1, i64 1>)\n@i = global <2 x i32*> getelementptr (i32, <2 x i32*> <i32* @g, i32* @g>, <2 x i64> <i64 1, i64 2>)",
       "!0 = !DIFile(filename: \"a\", directory: \"b\")\n!1 = distinct !DICompileUnit(language: DW_LANG_C99, file: !0)\n!2 = !DIGlobalVariableExpression(var: !3, expr: !DIExpression())\n!3 = !DIGlobalVariable(name: \"g\", scope: null, type: !15)\n!4 = !DIImportedEntity(tag: DW_TAG_imported_module, scope: !1, entity: null, file: null, elements: null)\n!5 = distinct !DISubprogram(name: \"f\", unit: !1, spFlags: DISPFlagDefinition)\n!6 = !DILabel(scope: !5, name: \"l\", file: !0, line: 1)\n!7 = distinct !DILexicalBlock(scope: !5, file: null)\n!8 = !DILexicalBlockFile(scope: !5, file: null, discriminator: 0)\n!9 = !{i32 2, !\"Debug Info Version\", i32 3}\n!10 = !DILocation(line: 1, scope: !5, inlinedAt: null)\n!11 = !DIMacroFile(file: !0, nodes: null)\n!12 = !DIObjCProperty(name: \"p\", file: null, type: null)\n!13 = !DISubprogram(name: \"v\", scope: null, virtuality: 1, spFlags: DISPFlagPureVirtual)\n!14 = !DICompositeType(tag: DW_TAG_structure_type, name: \"S\", vtableHolder: !15)\n!15 = !DIBasicType(name: \"int\")\n!16 = !DICommonBlock(scope: !5, declaration: null, name: \"c\", file: null)\n!17 = !DIModule(scope: null, name: \"m\", file: null)\n!18 = !DITemplateTypeParameter(name: \"T\", type: null)\n!19 = !DITemplateValueParameter(name: \"V\", type: null, value: i32 1)\n!20 = !{!DILexicalBlock(scope: !5), !DIGlobalVariable(name: \"h\", type: !15)}\n!21 = !DISubroutineType(types: null)\n!22 = !DIStringType(name: \"s\", stringLength: null, stringLengthExpression: null, stringLocationExpression: null)\n!llvm.dbg.cu = !{!1}\n!llvm.module.flags = !{!9}\n!t = !{!2, !4, !6, !7, !8, !10, !11, !12, !13, !14, !16, !17, !18, !19, !20, !21, !22}",
       "@x = global i32 0\n@y = global i32 0\n@a = alias i32, i32* select (i1 true, i32* @x, i32* @y)\n@b = alias i32, i32* getelementptr (i32, i32* @x, i64 0)",
       "declare i32 @foo()\ndeclare i32 @bar(i32, ...)\ndefine i32 @c(i32 %x) personality i32 (...)* @pers {\n  %a = call i32 (...) bitcast (i32 ()* @foo to i32 (...)*)()\n  %b = call i32 (...) bitcast (i32 ()* @foo to i32 (...)*)(i32 %x)\n  %c = call i32 (i32, ...) @bar(i32 %x)\n  %d = call i32 (i32, ...) @bar(i32 %x, i32 %a)\n  %e = call i32 (i32, ...) bitcast (i32 ()* @foo to i32 (i32, ...)*)(i32 %b)\n  %f = invoke i32 (...) bitcast (i32 ()* @foo to i32 (...)*)()\n          to label %ok unwind label %lp\nok:\n  ret i32 %f\nlp:\n  %l = landingpad { i8*, i32 }\n          cleanup\n  ret i32 %c\n}\ndeclare i32 @pers(...)",
       "%v = type <vscale x 4 x i32>\ndefine %v @f(%v %a) {\n  %r = add %v %a, %a\n  ret %v %r\n}",
       "!0 = !DIBasicType(name: \"x\", size: 32, encoding: 200)\n!1 = !DISubroutineType(cc: 250, types: null)\n!3 = !DIFile(filename: \"a\", directory: \"b\")\n!4 = distinct !DICompileUnit(language: 36000, file: !3)\n!5 = !DICompositeType(tag: DW_TAG_structure_type, name: \"S\", runtimeLang: 999)\n!llvm.dbg.cu = !{!4}\n!t = !{!0, !1, !5}\n!llvm.module.flags = !{!9}\n!9 = !{i32 2, !\"Debug Info Version\", i32 3}",
       "define void @g() addrspace(1) {\nentry:\n  br label %bb\nbb:\n  ret void\n}\n@e = global i8 addrspace(1)* blockaddress(@g, %bb)\ndefine void @h() {\n  indirectbr i8 addrspace(1)* blockaddress(@g, %bb), []\n}",
       \* call-like instructions through a function pointer in another address space; a type-carrying FUNCTION attribute
       "declare i32 @p(...)\ndefine void @f(void () addrspace(1)* %fp, i32 (i32) addrspace(1)* %fq) personality i32 (...)* @p {\n  call addrspace(1) void %fp()\n  %r = tail call addrspace(1) i32 %fq(i32 1)\n  invoke addrspace(1) void %fp() to label %a unwind label %b\na:\n  ret void\nb:\n  %l = landingpad { i8*, i32 } cleanup\n  ret void\n}",
       "declare void @f() preallocated(i8)\ndeclare void @g() #0\nattributes #0 = { preallocated(i32) nounwind }"
     >>) >>,
  {}, FALSE)

----------------------------------------------------------------------------
\* Debug-info nodes: one family per node kind; the node under test is !20, kept alive by !test.
DIPreludeWith(cus) == "!llvm.dbg.cu = " \o cus \o "\n!llvm.module.flags = !{!9}\n!test = !{!20}\n!1 = !DIFile(filename: \"a.c\", directory: \"/d\")\n!2 = !DIBasicType(name: \"int\", size: 32, encoding: DW_ATE_signed)\n!3 = distinct !DICompileUnit(language: DW_LANG_C99, file: !1, emissionKind: FullDebug)\n!4 = distinct !DISubprogram(name: \"f\", scope: !1, file: !1, line: 1, type: !5, spFlags: DISPFlagDefinition, unit: !3)\n!5 = !DISubroutineType(types: !6)\n!6 = !{!2}\n!7 = !DIExpression()\n!8 = !{}\n!9 = !{i32 2, !\"Debug Info Version\", i32 3}\n!10 = distinct !DIGlobalVariable(name: \"gv\", scope: !3, file: !1, line: 1, type: !2, isLocal: false, isDefinition: true)\n!11 = !DILocation(line: 1, column: 1, scope: !4)\n!12 = !DINamespace(name: \"ns\", scope: null)\n!13 = !DICompositeType(tag: DW_TAG_structure_type, name: \"S\", file: !1, size: 32, elements: !8)\n!14 = !DILocalVariable(name: \"v\", scope: !4, file: !1, line: 1, type: !2)\n!15 = !DIDerivedType(tag: DW_TAG_member, name: \"m\", scope: !13, file: !1, baseType: !2, size: 32)\n"
DIPrelude == DIPreludeWith("!{!3}")
DIPairs(kind) == CASE kind = "DICompositeType" -> {<<"tag", "rank">>, <<"tag", "dataLocation">>, <<"tag", "associated">>, <<"tag", "allocated">>, <<"tag", "discriminator">>}
                    [] kind = "DILexicalBlock" -> {<<"line", "column">>}
                    [] kind = "DISubprogram" -> {<<"file", "line">>}
                    [] kind = "DIEnumerator" -> {<<"value", "isUnsigned">>}
                    [] kind = "DISubrange" -> {<<"count", "upperBound">>, <<"count", "lowerBound">>}
                    [] OTHER -> {}
DI(kind, distinct, fields) ==
  Fam(kind, IF kind = "DICompileUnit" THEN DIPreludeWith("!{!3, !20}") ELSE DIPrelude, "!20 = " \o (IF distinct THEN "distinct " ELSE "") \o "!" \o kind \o "({fields})\n", fields, DIPairs(kind), TRUE)

DIFams == <<
  DI("DIBasicType", FALSE, << Slot("tag", <<"", "tag: DW_TAG_base_type", "tag: DW_TAG_unspecified_type">>), Slot("name", <<"name: \"int\"", "">>), Slot("size", <<"", "size: 32">>),
       Slot("align", <<"", "align: 32">>), Slot("encoding", <<"", "encoding: DW_ATE_signed", "encoding: DW_ATE_float", "encoding: DW_ATE_unsigned_char">>),
       Slot("flags", <<"", "flags: DIFlagBigEndian", "flags: DIFlagLittleEndian">>) >>),
  DI("DICommonBlock", FALSE, << Slot("scope", <<"scope: !4">>), Slot("declaration", <<"", "declaration: !10">>), Slot("name", <<"", "name: \"blk\"">>),
       Slot("file", <<"", "file: !1">>), Slot("line", <<"", "line: 3">>) >>),
  DI("DICompileUnit", TRUE, << Slot("language", <<"language: DW_LANG_C99", "language: DW_LANG_C_plus_plus_14", "language: DW_LANG_Rust">>), Slot("file", <<"file: !1">>),
       Slot("producer", <<"", "producer: \"clang \\22x\\22\"">>), Slot("isOptimized", <<"", "isOptimized: true", "isOptimized: false">>), Slot("flags", <<"", "flags: \"-O2\"">>),
       Slot("runtimeVersion", <<"", "runtimeVersion: 2">>), Slot("splitDebugFilename", <<"", "splitDebugFilename: \"a.dwo\"">>),
       Slot("emissionKind", <<"", "emissionKind: FullDebug", "emissionKind: LineTablesOnly", "emissionKind: NoDebug", "emissionKind: DebugDirectivesOnly">>),
       Slot("enums", <<"", "enums: !8">>), Slot("retainedTypes", <<"", "retainedTypes: !8">>), Slot("globals", <<"", "globals: !8">>), Slot("imports", <<"", "imports: !8">>),
       Slot("macros", <<"", "macros: !8">>), Slot("dwoId", <<"", "dwoId: 42">>), Slot("splitDebugInlining", <<"", "splitDebugInlining: false", "splitDebugInlining: true">>),
       Slot("debugInfoForProfiling", <<"", "debugInfoForProfiling: true">>), Slot("nameTableKind", <<"", "nameTableKind: GNU", "nameTableKind: None">>),
       Slot("rangesBaseAddress", <<"", "rangesBaseAddress: true">>), Slot("sysroot", <<"", "sysroot: \"/\"">>), Slot("sdk", <<"", "sdk: \"MacOSX.sdk\"">>) >>),
  DI("DICompositeType", FALSE, << Slot("tag", <<"tag: DW_TAG_structure_type", "tag: DW_TAG_array_type", "tag: DW_TAG_enumeration_type", "tag: DW_TAG_union_type", "tag: DW_TAG_class_type", "tag: DW_TAG_variant_part">>),
       Slot("name", <<"", "name: \"T\"">>), Slot("scope", <<"", "scope: !12">>), Slot("file", <<"", "file: !1">>), Slot("line", <<"", "line: 2">>),
       Slot("baseType", <<"", "baseType: !2">>), Slot("size", <<"", "size: 64">>), Slot("align", <<"", "align: 32">>), Slot("offset", <<"", "offset: 8">>),
       Slot("flags", <<"", "flags: DIFlagFwdDecl", "flags: DIFlagPublic | DIFlagAppleBlock", "flags: DIFlagTypePassByValue",
                      "flags: 2097152", "flags: DIFlagPublic | 2097152 | DIFlagVector">>), Slot("elements", <<"", "elements: !8">>),
       Slot("runtimeLang", <<"", "runtimeLang: DW_LANG_ObjC">>), Slot("vtableHolder", <<"", "vtableHolder: !13">>), Slot("templateParams", <<"", "templateParams: !8">>),
       Slot("identifier", <<"", "identifier: \"_ZTS1T\"">>), Slot("discriminator", <<"", "discriminator: !15">>), Slot("dataLocation", <<"", "dataLocation: !7">>),
       Slot("associated", <<"", "associated: !7">>), Slot("allocated", <<"", "allocated: !7">>), Slot("rank", <<"", "rank: 2", "rank: !7">>), Slot("annotations", <<"", "annotations: !8">>) >>),
  DI("DIDerivedType", FALSE, << Slot("tag", <<"tag: DW_TAG_pointer_type", "tag: DW_TAG_typedef", "tag: DW_TAG_member", "tag: DW_TAG_const_type", "tag: DW_TAG_inheritance">>),
       Slot("name", <<"", "name: \"p\"">>), Slot("scope", <<"", "scope: !13">>), Slot("file", <<"", "file: !1">>), Slot("line", <<"", "line: 2">>), Slot("baseType", <<"baseType: !2", "baseType: null">>),
       Slot("size", <<"", "size: 64">>), Slot("align", <<"", "align: 32">>), Slot("offset", <<"", "offset: 8">>), Slot("flags", <<"", "flags: DIFlagArtificial", "flags: DIFlagStaticMember">>),
       Slot("extraData", <<"", "extraData: i32 7">>), Slot("dwarfAddressSpace", <<"", "dwarfAddressSpace: 1", "dwarfAddressSpace: 0">>), Slot("annotations", <<"", "annotations: !8">>) >>),
  DI("DIEnumerator", FALSE, << Slot("name", <<"name: \"A\"">>), Slot("value", <<"value: 1", "value: -1", "value: 0", "value: 9223372036854775807", "value: 18446744073709551615">>), Slot("isUnsigned", <<"", "isUnsigned: true">>) >>),
  DI("DIExpression", FALSE, << Slot("ops", <<"", "DW_OP_deref", "DW_OP_plus_uconst, 4", "DW_OP_LLVM_fragment, 0, 8", "DW_OP_constu, 1, DW_OP_stack_value", "DW_OP_deref, DW_OP_plus_uconst, 8, DW_OP_LLVM_fragment, 8, 16",
        "DW_OP_LLVM_convert, 16, DW_ATE_signed, DW_OP_LLVM_convert, 32, DW_ATE_signed, DW_OP_stack_value", "DW_OP_LLVM_entry_value, 1", "DW_OP_LLVM_arg, 0, DW_OP_LLVM_arg, 1, DW_OP_plus">>) >>),
  DI("DIFile", FALSE, << Slot("filename", <<"filename: \"b.c\"", "filename: \"\"">>), Slot("directory", <<"directory: \"/x y\"", "directory: \"\"">>),
       Slot("checksum", <<"", "checksumkind: CSK_MD5, checksum: \"000102030405060708090a0b0c0d0e0f\"", "checksumkind: CSK_SHA1, checksum: \"000102030405060708090a0b0c0d0e0f10111213\"",
                          "checksumkind: CSK_SHA256, checksum: \"000102030405060708090a0b0c0d0e0f101112131415161718191a1b1c1d1e1f\"">>), Slot("source", <<"", "source: \"int x;\\0A\"">>) >>),
  DI("DIGlobalVariable", TRUE, << Slot("name", <<"name: \"g\"">>), Slot("linkageName", <<"", "linkageName: \"_g\"">>), Slot("scope", <<"", "scope: !3">>), Slot("file", <<"", "file: !1">>),
       Slot("line", <<"", "line: 2">>), Slot("type", <<"type: !2">>), Slot("isLocal", <<"isLocal: false", "isLocal: true">>), Slot("isDefinition", <<"isDefinition: true", "isDefinition: false">>),
       Slot("templateParams", <<"", "templateParams: !8">>), Slot("declaration", <<"", "declaration: !15">>), Slot("align", <<"", "align: 64">>), Slot("annotations", <<"", "annotations: !8">>) >>),
  DI("DIGlobalVariableExpression", FALSE, << Slot("var", <<"var: !10">>), Slot("expr", <<"expr: !7", "expr: !DIExpression(DW_OP_deref)">>) >>),
  DI("DIImportedEntity", FALSE, << Slot("tag", <<"tag: DW_TAG_imported_module", "tag: DW_TAG_imported_declaration">>), Slot("name", <<"", "name: \"n\"">>), Slot("scope", <<"scope: !3">>),
       Slot("entity", <<"", "entity: !12">>), Slot("file", <<"", "file: !1">>), Slot("line", <<"", "line: 2">>), Slot("elements", <<"", "elements: !8">>) >>),
  DI("DILabel", FALSE, << Slot("scope", <<"scope: !4">>), Slot("name", <<"name: \"l\"">>), Slot("file", <<"file: !1">>), Slot("line", <<"line: 3">>) >>),
  DI("DILexicalBlock", TRUE, << Slot("scope", <<"scope: !4">>), Slot("file", <<"", "file: !1">>), Slot("line", <<"", "line: 2">>), Slot("column", <<"", "column: 3">>) >>),
  DI("DILexicalBlockFile", FALSE, << Slot("scope", <<"scope: !4">>), Slot("file", <<"", "file: !1">>), Slot("discriminator", <<"discriminator: 0", "discriminator: 7">>) >>),
  DI("DILocalVariable", FALSE, << Slot("name", <<"", "name: \"x\"">>), Slot("arg", <<"", "arg: 1">>), Slot("scope", <<"scope: !4">>), Slot("file", <<"", "file: !1">>), Slot("line", <<"", "line: 2">>),
       Slot("type", <<"", "type: !2">>), Slot("flags", <<"", "flags: DIFlagArtificial", "flags: DIFlagObjectPointer | DIFlagArtificial">>), Slot("align", <<"", "align: 64">>), Slot("annotations", <<"", "annotations: !8">>) >>),
  DI("DILocation", FALSE, << Slot("line", <<"", "line: 2">>), Slot("column", <<"", "column: 3">>), Slot("scope", <<"scope: !4">>), Slot("inlinedAt", <<"", "inlinedAt: !11">>),
       Slot("isImplicitCode", <<"", "isImplicitCode: true">>) >>),
  DI("DIMacro", FALSE, << Slot("type", <<"type: DW_MACINFO_define", "type: DW_MACINFO_undef">>), Slot("line", <<"", "line: 2">>), Slot("name", <<"name: \"N\"">>), Slot("value", <<"", "value: \"1\"">>) >>),
  DI("DIMacroFile", FALSE, << Slot("type", <<"", "type: DW_MACINFO_start_file">>), Slot("line", <<"", "line: 2">>), Slot("file", <<"file: !1">>), Slot("nodes", <<"", "nodes: !8">>) >>),
  DI("DIModule", FALSE, << Slot("scope", <<"scope: null", "scope: !1">>), Slot("name", <<"name: \"M\"">>), Slot("configMacros", <<"", "configMacros: \"-DX\"">>), Slot("includePath", <<"", "includePath: \"/i\"">>),
       Slot("apinotes", <<"", "apinotes: \"n\"">>), Slot("file", <<"", "file: !1">>), Slot("line", <<"", "line: 2">>), Slot("isDecl", <<"", "isDecl: true">>) >>),
  DI("DINamespace", FALSE, << Slot("name", <<"", "name: \"n\"">>), Slot("scope", <<"scope: null", "scope: !12">>), Slot("exportSymbols", <<"", "exportSymbols: true">>) >>),
  DI("DIObjCProperty", FALSE, << Slot("name", <<"", "name: \"p\"">>), Slot("file", <<"", "file: !1">>), Slot("line", <<"", "line: 2">>), Slot("setter", <<"", "setter: \"s\"">>), Slot("getter", <<"", "getter: \"g\"">>),
       Slot("attributes", <<"", "attributes: 7">>), Slot("type", <<"", "type: !2">>) >>),
  DI("DIStringType", FALSE, << Slot("name", <<"name: \"s\"">>), Slot("stringLength", <<"", "stringLength: !14">>), Slot("stringLengthExpression", <<"", "stringLengthExpression: !7">>),
       Slot("stringLocationExpression", <<"", "stringLocationExpression: !7">>), Slot("size", <<"", "size: 32">>), Slot("align", <<"", "align: 8">>), Slot("encoding", <<"", "encoding: DW_ATE_ASCII">>) >>),
  DI("DISubprogram", TRUE, << Slot("name", <<"", "name: \"sp\"">>), Slot("linkageName", <<"", "linkageName: \"_sp\"">>), Slot("scope", <<"", "scope: !1">>), Slot("file", <<"", "file: !1">>), Slot("line", <<"", "line: 2">>),
       Slot("type", <<"", "type: !5">>), Slot("scopeLine", <<"", "scopeLine: 3">>), Slot("containingType", <<"", "containingType: !13">>), Slot("virtualIndex", <<"", "virtualIndex: 1">>),
       Slot("thisAdjustment", <<"", "thisAdjustment: -8">>), Slot("flags", <<"", "flags: DIFlagPrototyped", "flags: DIFlagPrototyped | DIFlagAllCallsDescribed", "flags: DIFlagPrivate", "flags: DIFlagProtected">>),
       Slot("spFlags", <<"spFlags: DISPFlagDefinition", "spFlags: DISPFlagDefinition | DISPFlagOptimized", "spFlags: DISPFlagLocalToUnit | DISPFlagDefinition", "spFlags: DISPFlagDefinition | DISPFlagPure | DISPFlagElemental | DISPFlagRecursive | DISPFlagMainSubprogram",
                         "spFlags: DISPFlagDefinition | 4096", "spFlags: 4104">>),
       Slot("unit", <<"unit: !3">>), Slot("templateParams", <<"", "templateParams: !8">>), Slot("declaration", <<"", "declaration: !21">>), Slot("retainedNodes", <<"", "retainedNodes: !8">>),
       Slot("thrownTypes", <<"", "thrownTypes: !8">>), Slot("annotations", <<"", "annotations: !8">>) >>),
  DI("DISubrange", FALSE, << Slot("count", <<"count: 4", "count: -1", "count: !14", "">>), Slot("lowerBound", <<"", "lowerBound: 1", "lowerBound: !14", "lowerBound: !7">>),
       Slot("upperBound", <<"", "upperBound: 9", "upperBound: !7">>), Slot("stride", <<"", "stride: 4", "stride: !7">>) >>),
  DI("DISubroutineType", FALSE, << Slot("flags", <<"", "flags: DIFlagLValueReference">>), Slot("cc", <<"", "cc: DW_CC_normal", "cc: DW_CC_BORLAND_thiscall">>), Slot("types", <<"types: !6", "types: null", "types: !8">>) >>),
  DI("DITemplateTypeParameter", FALSE, << Slot("name", <<"", "name: \"T\"">>), Slot("type", <<"type: !2">>), Slot("defaulted", <<"", "defaulted: true">>) >>),
  DI("DITemplateValueParameter", FALSE, << Slot("tag", <<"", "tag: DW_TAG_GNU_template_template_param">>), Slot("name", <<"", "name: \"V\"">>), Slot("type", <<"", "type: !2">>), Slot("defaulted", <<"", "defaulted: true">>),
       Slot("value", <<"value: i32 7", "value: !\"s\"", "value: !8">>) >>),
  DI("GenericDINode", FALSE, << Slot("tag", <<"tag: DW_TAG_lexical_block", "tag: 65535">>), Slot("header", <<"", "header: \"h\\00x\"">>), Slot("operands", <<"", "operands: {!1, !\"s\", null}">>) >>)
>>
\* DISubprogram's declaration needs a declaration subprogram
DISPExtra == "!21 = !DISubprogram(name: \"sp\", scope: !1, file: !1, line: 2, type: !5, spFlags: 0)\n"
DIValid(kind, c) ==
  CASE kind = "DISubrange" -> (c.count # "") # (c.upperBound # "")           \* exactly one of count and upperBound
    [] kind = "DICompositeType" -> /\ (c.rank # "" \/ c.dataLocation # "" \/ c.associated # "" \/ c.allocated # "" => c.tag = "tag: DW_TAG_array_type")
                                   /\ (c.discriminator # "" => c.tag = "tag: DW_TAG_variant_part")
    [] kind = "DILexicalBlock" -> (c.column # "" => c.line # "")
    [] kind = "DISubprogram" -> (c.line # "" => c.file # "")
    [] kind = "DIEnumerator" -> (c.value = "value: 18446744073709551615" => c.isUnsigned # "") /\ (c.value = "value: -1" => c.isUnsigned = "")
    [] OTHER -> TRUE

----------------------------------------------------------------------------
\* Non-canonical spellings of whole modules (C02: one parse+print normalises; LLVM does not
\* arbitrate all of them, e.g. s0x literals)
\* Numerically spelled enumerators: `cc N` for every N the enum range of LLVM 14 covers (0..101), the gaps and
\* values beyond it.  A value whose String() is a keyword the grammar does not know is silently dropped by the
\* lexer (seed C02-16: keyword drift between printer and parser shows only as a lost calling convention on the
\* SECOND round).  One module per block of 32 conventions, at declarations and at call sites.
RECURSIVE CCDecls(_, _)
CCDecls(lo, hi) == IF lo > hi THEN "" ELSE "declare cc " \o ToString(lo) \o " void @f" \o ToString(lo) \o "()\n" \o CCDecls(lo + 1, hi)
RECURSIVE CCCalls(_, _)
CCCalls(lo, hi) == IF lo > hi THEN "" ELSE "  call cc " \o ToString(lo) \o " void @f" \o ToString(lo) \o "()\n" \o CCCalls(lo + 1, hi)
CCModule(lo, hi) == CCDecls(lo, hi) \o "define void @caller() {\n" \o CCCalls(lo, hi) \o "  ret void\n}"
\* References to attribute groups that have no definition (the documented exception of C05: materialised as empty
\* groups).  LLVM rejects such input, the parser accepts it, so the fixpoint law applies: the IDs are referenced in
\* descending order inside one header, across headers and call sites, and -- for the order in which the translator's
\* map yields the functions -- by twelve functions at once (seed C02-15).
RECURSIVE UndefGroupDecls(_, _)
UndefGroupDecls(lo, hi) == IF lo > hi THEN "" ELSE "declare void @f" \o ToString(lo) \o "() #" \o ToString(lo) \o "\n" \o UndefGroupDecls(lo + 1, hi)
SpellGenerated == <<
       CCModule(0, 31), CCModule(32, 63), CCModule(64, 95), CCModule(96, 127), CCModule(1020, 1023),
       "declare void @f() #7 #3\ndeclare void @g() #5\ndefine void @h() #9 #1 {\n  call void @f() #8 #2\n  ret void\n}",
       "attributes #4 = { nounwind }\ndeclare void @f() #6 #4 #2\ndeclare void @g() #0",
       UndefGroupDecls(1, 12) >>
SPELL == Fam("spell",
  "",
  "{text}\n",
  << Slot("text", <<
       "@a = global i32 u0x1000\n@b = global i32 4096\n@c = global i8 s0xFF\n@d = global i8 -1\n@e = global i64 u0xFFFFFFFFFFFFFFFF\n@f = global i16 s0x7FFF",
       "@a = global i32 007\n@b = global i32 -0\n@c = global i1 1\n@d = global i1 0\n@e = global i1 true",
       "@a = global double 1.0\n@b = global double 1.000000e+00\n@c = global double 0x3FF0000000000000\n@d = global double 1e0\n@e = global double 1.0E+0\n@f = global float 0x3FF0000000000000\n@g = global double -0.0\n@h = global double 0x8000000000000000",
       "@a = global double 1.5e+300\n@b = global double 0x7FF0000000000000\n@c = global double 0xFFF0000000000000\n@d = global double 4.9406564584124654e-324\n@e = global float 1.25\n@f = global half 0xH3C00\n@g = global half 1.0",
       "@\"g\" = global i32 0\n@\"h h\" = global i32* @\"g\"\n@\"\\67x\" = global i32* @g\n@\"0\" = global i32 1\n@\"1a\" = global i32 2",
       "define i32 @\"f\"(i32 %\"x\", i32 %\"y z\") {\n\"entry\":\n  %\"r\" = add i32 %x, %\"y z\"\n  br label %\"the end\"\n\"the end\":\n  ret i32 %r\n}",
       "define i32 @f(i32, i32) {\n  %3 = add i32 %0, %1\n  br label %4\n4:\n  ret i32 %3\n}",
       "define i32 @f(i32 %0, i32 %1) {\n2:\n  %3 = add i32 %0, %1\n  br label %4\n\n4:                                                ; preds = %2\n  ret i32 %3\n}",
       "define i32 @f(i32 %a, i32) {\n  add i32 %a, %0\n  add i32 %2, %2\n  ret i32 %3\n}",
       "; a comment\n\n\n@g   =    global    i32   0   ; trailing\n\tdefine   void\t@f ( )   {\n ; inside\n\tret   void\n}\n; end",
       "define void @f() { ret void }\ndefine void @g() { call void @f() ret void }",
       "define void @main() {\n  call void @f()\n  ret void\n}\ndeclare void @f()\n@g = global i32* @h\n@h = global i32 0\n%T = type { %U* }\n%U = type { %T* }\n@t = global %T zeroinitializer",
       "!1 = !{!0}\n!nm = !{!1}\n!0 = !{}\n!nm = !{!0}\n@g = global i32 0, !foo !1",
       "attributes #1 = { nounwind }\ndeclare void @f() #1 #0\nattributes #0 = { cold }\ndefine void @g() nounwind cold {\n  ret void\n}",
       "!5 = !{!9}\n!9 = !{}\n@g = global i32 0, !foo !5\n!llvm.x = !{!5, !9}",
       "@a = global [3 x i8] c\"abc\"\n@b = global [3 x i8] [i8 97, i8 98, i8 99]\n@c = global [2 x i8] zeroinitializer\n@d = global [2 x i8] c\"\\00\\00\"\n@e = global { i32, i8 } zeroinitializer\n@f = global { i32, i8 } { i32 0, i8 0 }",
       "declare void @f(i32)\ndefine void @g() {\n  call void (i32) @f(i32 1)\n  call void @f(i32 2)\n  tail call fastcc void @f(i32 3)\n  ret void\n}",
       "target triple = \"x86_64-pc-linux-gnu\"\nsource_filename = \"x.c\"\ntarget datalayout = \"e\"\n@g = global i32 0",
       "define void @f(i1 %c) {\n  br i1 %c, label %a, label %b\nb:\n  ret void\na:\n  br label %b\n}",
       "@g = external global i32\n@h = extern_weak global i32\n@i = common global i32 0\n@j = private unnamed_addr constant [2 x i8] c\"a\\00\", align 1",
       "%0 = type { i32 }\n%1 = type { %0 }\n@g = global %1 zeroinitializer\n%named = type { %0*, %1* }\n@h = global %named zeroinitializer",
       "define <2 x i32> @f(<2 x i32> %v) {\n  %r = add <2 x i32> %v, <i32 1, i32 u0x10>\n  %s = shufflevector <2 x i32> %r, <2 x i32> undef, <2 x i32> <i32 1, i32 0>\n  ret <2 x i32> %s\n}",
       "define i32 @f(i32 %x) {\n  switch i32 %x, label %d [ i32 0, label %a\n i32 u0x1000, label %a ]\na:\n  ret i32 1\nd:\n  ret i32 0\n}",
       "@a = global float 0x3FE0000000000001\n@b = global float 0x4000000000000001\n@c = global float 0xC004000000000001\n@d = global float 0x3FF8000010000000\n@e = global float 0.1\n@f = global half 0.1\n@g = global double 0.1",
       "@a = global double 3.14159265358979323846264338327950288\n@b = global double 1e-400\n@c = global double 1e400\n@d = global float 16777217.0\n@e = global double 9007199254740993.0\n@f = global x86_fp80 0xK4000C90FDAA22168C235\n@g = global fp128 0xL8469898CC51701B84000921FB54442D1",
       "!0 = !DIEnumerator(isUnsigned: true, value: 18446744073709551615, name: \"MAX\")\n!1 = !DIEnumerator(value: -9223372036854775808, name: \"MIN\")\n!e = !{!0, !1}",
       "@\"007\" = global i32 0\n@\"00\" = global i32* @\"007\"\ndefine i32 @\"010\"(i32 %\"01\") {\n\"0010\":\n  br label %\"08\"\n\"08\":\n  ret i32 %\"01\"\n}",
       "@a = global i64 9223372036854775808\n@b = global i64 18446744073709551615\n@c = global i64 u0x8000000000000000\n@d = global i64 u0xFFFFFFFFFFFFFFFF\n@e = global i128 u0xFFFFFFFFFFFFFFFFFFFFFFFFFFFFFFFF\n@f = global i64 -9223372036854775808\n@g = global i32 u0xFFFFFFFF\n@h = global i16 u0x8000",
       "@0 = global i32 0\n@1 = alias i32, i32* @0\ndefine i32* @2() {\n  ret i32* @1\n}\n@3 = ifunc i32* (), i32* ()* ()* @r\n@4 = global i32* ()* @3\ndefine i32* ()* @r() {\n  ret i32* ()* @2\n}",
       "define void @0() {\n  call void @1()\n  ret void\n}\ndefine void @1() {\n  ret void\n}\n@2 = alias void (), void ()* @0\n@3 = global void ()* @2\n@4 = alias void (), void ()* @1",
       "declare void @f()\ndefine void @g(i32* %p) {\n  %a = alloca i32, i32 1\n  %b = alloca i32, i32 1, align 4\n  %c = alloca i32, i64 1\n  call ccc void @f()\n  %l = load i32, i32* %p, align 4\n  store i32 %l, i32* %a, align 4\n  ret void\n}",
       "@g = default global i32 0\n@h = external dso_preemptable global i32\n@i = external default global i32, align 1\ndeclare default void @d()\ndefine dso_preemptable default ccc void @e() addrspace(0) {\n  ret void\n}\n@a = external alias i32, i32* @g",
       "!0 = !DISubrange(upperBound: 9, lowerBound: 1)\n!1 = !DIFile(directory: \"/d\", filename: \"f.c\")\n!2 = !DIBasicType(encoding: DW_ATE_signed, size: 32, name: \"int\")\n!e = !{!0, !1, !2}",
       "attributes #0 = { alignstack=8 \"a\"=\"b\" }\nattributes #0 = { alignstack=8 \"a\" = \"b\" nounwind }\ndeclare void @f() #0",
       "@a = global x86_fp80 0xK00018000000000000000\n@b = global x86_fp80 0xK0FFF8000000000000000\n@c = global x86_fp80 0xK00000000000000000001\n@d = global x86_fp80 0xK80018000000000000000\n@e = global fp128 0xL00000000000000000001000000000000\n@f = global ppc_fp128 0xM00100000000000000000000000000000\n@g = global half 0xH0001\n@h = global float 0x36A0000000000000\n@i = global double 0x0000000000000001"
     >> \o SpellGenerated) >>,
  {}, FALSE)

----------------------------------------------------------------------------
Families == <<GV, FN, FD, CALL, INVOKE, MEM, ARITH, TERM, CONSTS, TYPES, MODLVL, SPELL>> \o DIFams
FamilyIdx == {k \in 1..Len(Families) : "*" \in FamilySet \/ Families[k].name \in FamilySet
                                        \/ ("DI*" \in FamilySet /\ Families[k].full)}

SlotNames(F) == {F.slots[k].n : k \in 1..Len(F.slots)}
AltsOf(F, s) == (CHOOSE k \in 1..Len(F.slots) : F.slots[k].n = s)
Default(F) == [s \in SlotNames(F) |-> F.slots[AltsOf(F, s)].alts[1]]
Singles(F) == { [Default(F) EXCEPT ![F.slots[k].n] = F.slots[k].alts[a]] :
                  <<k, a>> \in {<<k, a>> \in (1..Len(F.slots)) \X (1..200) : a <= Len(F.slots[k].alts)} }
AllPairs(F) == { <<F.slots[x].n, F.slots[y].n>> : <<x, y>> \in {<<x, y>> \in (1..Len(F.slots)) \X (1..Len(F.slots)) :
                     x < y /\ Len(F.slots[x].alts) * Len(F.slots[y].alts) <= 80} }
PairsOf(F) == IF PairMode = "all" /\ ~F.full THEN F.pairs \cup AllPairs(F) ELSE F.pairs
PairCfgs(F) == UNION { { [Default(F) EXCEPT ![p[1]] = F.slots[AltsOf(F, p[1])].alts[x[1]], ![p[2]] = F.slots[AltsOf(F, p[2])].alts[x[2]]] :
                           x \in (1..Len(F.slots[AltsOf(F, p[1])].alts)) \X (1..Len(F.slots[AltsOf(F, p[2])].alts)) } : p \in PairsOf(F) }
\* every optional field present (second alternative where there is one)
Full(F) == [s \in SlotNames(F) |-> LET al == F.slots[AltsOf(F, s)].alts IN IF Len(al) >= 2 /\ al[1] = "" THEN al[2] ELSE al[1]]
\* Three-way crossing.  LLVM's writer and reader treat dso_local as IMPLIED by local linkage or non-default
\* visibility -- except for extern_weak (GlobalValue::isImplicitDSOLocal): whether the keyword may be dropped
\* depends on linkage, visibility and preemption together (seeds C01-16, C18-14), which no pair of slots shows.
TriplesOf(F) == IF F.name \in {"gv", "fn", "fd"} THEN {<<"linkage", "vis", "preempt">>} ELSE {}
TripleCfgs(F) == UNION { { [Default(F) EXCEPT ![p[1]] = F.slots[AltsOf(F, p[1])].alts[x[1]], ![p[2]] = F.slots[AltsOf(F, p[2])].alts[x[2]],
                                              ![p[3]] = F.slots[AltsOf(F, p[3])].alts[x[3]]] :
                           x \in (1..Len(F.slots[AltsOf(F, p[1])].alts)) \X (1..Len(F.slots[AltsOf(F, p[2])].alts)) \X (1..Len(F.slots[AltsOf(F, p[3])].alts)) } : p \in TriplesOf(F) }
Configs(F) == Singles(F) \cup PairCfgs(F) \cup TripleCfgs(F) \cup (IF F.full THEN {Full(F)} ELSE {})

Valid(F, c) ==
  CASE F.name = "gv" -> GVValid(c) [] F.name = "fn" -> FNValid(c) [] F.name = "fd" -> FDValid(c)
    [] F.name = "call" -> CALLValid(c) [] F.name = "const" -> CONSTValid(c) [] F.name = "type" -> TYPEValid(c)
    [] F.full -> DIValid(F.name, c)
    [] OTHER -> TRUE
Derive(F, c) == IF F.name = "gv" THEN GVDerive(c) ELSE [none |-> ""]
PreludeOf(F) == IF F.name = "DISubprogram" THEN F.prelude \o DISPExtra ELSE F.prelude

\* debug-info fields may be written in any order: every DI configuration is emitted in table order and reversed;
\* a node that need not be distinct may also be written inline where it is used (here: as the field of a tuple)
\* instead of as a numbered definition
DistinctKinds == {"DICompileUnit", "DIGlobalVariable", "DILexicalBlock", "DISubprogram"}
Forms(F) == IF ~F.full THEN {"fwd"} ELSE IF F.name \in DistinctKinds THEN {"fwd", "rev"} ELSE {"fwd", "rev", "inline"}
VARIABLES stage, fam, cfg, rev
vars == <<stage, fam, cfg, rev>>
Init == stage = 0 /\ fam = 0 /\ cfg = <<>> /\ rev = "fwd"
Next == \/ stage = 0 /\ fam' \in FamilyIdx /\ stage' = 1 /\ UNCHANGED <<cfg, rev>>
        \/ stage = 1 /\ cfg' \in {c \in Configs(Families[fam]) : Valid(Families[fam], c)} /\ stage' = 2 /\ UNCHANGED fam
                      /\ rev' \in Forms(Families[fam])
Spec == Init /\ [][Next]_vars

\* Constructs of LLVM 14 that the in-memory IR of the library has no way to hold (no bfloat kind, no
\* udiv/sdiv/urem/srem/f*/extractvalue/insertvalue constant expressions; the SHA256 checksum kind was added by 42446ee).
\* C01 requires for them an error (never a crash, never a silently altered module).
NotRepresentable(alt) ==
  alt \in {"bfloat", "bfloat 0xR3F80"}
           \cup {ConstNotRepr[k] : k \in 1..Len(ConstNotRepr)}
Representable(F, c) == \A k \in 1..Len(F.slots) : ~NotRepresentable(c[F.slots[k].n])

\* alternatives deliberately excluded by the validity rules (kept in the tables as documentation)
Unreachable == {"musttail ", "nofpclass(nan) ", " elementtype(i32)", ", metadata !0", "void ()* no_cfi @fn", "ptr", "label", "token", "x86_amx",
                " returned", " inalloca(i32)", " sret(i32)", "spir_kernel ", "amdgpu_kernel "}   \* exercised by items of family "mod" instead
\* every alternative of every slot occurs in some valid configuration (no keyword is unreachable)
EveryAltCovered ==
  stage = 1 => \A k \in 1..Len(Families[fam].slots) : \A a \in 1..Len(Families[fam].slots[k].alts) :
                  (\E c \in Configs(Families[fam]) : Valid(Families[fam], c) /\ c[Families[fam].slots[k].n] = Families[fam].slots[k].alts[a])
                  \/ Families[fam].slots[k].alts[a] \in Unreachable

Emit == stage' = 2 =>
  LET F == Families[fam'] IN
  Serialize(ToJson([fam |-> F.name, prelude |-> PreludeOf(F), tmpl |-> (IF rev' = "inline" THEN "!20 = !{!" \o F.name \o "({fields})}\n" ELSE F.tmpl), form |-> rev',
                    order |-> [k \in 1..Len(F.slots) |-> F.slots[IF rev' = "rev" THEN Len(F.slots) + 1 - k ELSE k].n],
                    cfg |-> cfg', dflt |-> Default(F), derived |-> Derive(F, cfg'), di |-> F.full, repr |-> Representable(F, cfg')]) \o "\n", "modules.ndjson",
            [format |-> "TXT", charset |-> "UTF-8", openOptions |-> <<"WRITE", "CREATE", "APPEND">>]).exitValue = 0
=============================================================================
