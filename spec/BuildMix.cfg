SPECIFICATION Spec
CONSTANTS
  Mode = "mix"
  MaxSteps = 6
  ExecWidths = {8}
  ExecExhaustive = FALSE
  BoundarySmall = TRUE
INVARIANTS ProgWellFormed Emit
CHECK_DEADLOCK FALSE
