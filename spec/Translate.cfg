SPECIFICATION Spec
CONSTANTS
  AsImplemented = FALSE
  SourceSet = "all"
  PermAllUpTo = 4
VIEW View
INVARIANTS Deterministic ErrorOnFault NeverCrash RefIdentity NoDummyLeft ScaffoldBeforeUse CanonOrder TextualIsPositional
CHECK_DEADLOCK FALSE
