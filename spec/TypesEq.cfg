SPECIFICATION Spec
CONSTANTS
  NamedByFields = FALSE
  Emit = FALSE
  Big = FALSE
  MaxStage = 4
INVARIANTS Reflexive Symmetric Transitive OneAttribute TermIdentity FinerThanUnfolding GenWellFormed
CHECK_DEADLOCK FALSE
