SPECIFICATION Spec
CONSTANTS
  MaxN = 3
  BigPows = {7, 8, 10, 12, 15, 16, 20, 24, 30, 31, 32}
  Dense = 1100
  Emit = FALSE
INVARIANTS RefsResolve MergeComplete EmitPattern
CHECK_DEADLOCK FALSE
