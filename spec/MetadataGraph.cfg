SPECIFICATION Spec
CONSTANTS
  MaxN = 3
  Emit = FALSE
INVARIANTS RefsResolve MergeComplete EmitPattern
CHECK_DEADLOCK FALSE
