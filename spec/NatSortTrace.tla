--------------------------- MODULE NatSortTrace ---------------------------
(***************************************************************************)
(* Judges a recording of the real natural-order comparison (C20).          *)
(*                                                                         *)
(* natsort_rec.ndjson has one row per string i:                            *)
(*    {"s": [bytes of string i], "lt": [j : the code says s_i < s_j]}      *)
(* The relation R(i,j) is taken as is: nothing about it is assumed.  The   *)
(* trace machine consumes one row per step and the invariant RowOK states, *)
(* for the consumed row i and every j:                                     *)
(*   - irreflexivity;                                                      *)
(*   - the rank characterisation of a strict total order:                  *)
(*         R(i,j) <=> Rank[i] < Rank[j],  Rank[i] = |{k : R(k,i)}|,        *)
(*     and Rank injective -- on a finite set this is equivalent to         *)
(*     irreflexive /\ asymmetric /\ transitive /\ total (checked by TLC on *)
(*     every relation over 3 elements in RankEquiv.cfg);                   *)
(*   - the numeric-run law of module NatSort on the pair (s_i, s_j).       *)
(* Every failing pair is printed (BADPAIR ...) so that all of them can be  *)
(* classified, not only the first.                                         *)
(***************************************************************************)
EXTENDS Integers, Sequences, FiniteSets, TLC, Json

\* NatSort's operators are used with dummy constants (its state machine is not used here)
NS == INSTANCE NatSort WITH Alphabet <- {}, MaxLen <- 0, a <- <<>>, b <- <<>>, c <- <<>>, stage <- 0

Trace == ndJsonDeserialize("natsort_rec.ndjson")
N == Len(Trace)

LT == [i \in 1..N |-> {Trace[i].lt[k] : k \in 1..Len(Trace[i].lt)}]
R(i, j) == j \in LT[i]
Rank == [i \in 1..N |-> Cardinality({k \in 1..N : i \in LT[k]})]
Str(i) == Trace[i].s

Bad(law, i, j) == PrintT(<<"BADPAIR", law, i, j>>) /\ FALSE

PairOK(i, j) ==
  /\ (i = j => ~R(i, j))                                   \/ Bad("irreflexive", i, j)
  /\ (i # j => Rank[i] # Rank[j])                          \/ Bad("total-order(rank-injective)", i, j)
  /\ (R(i, j) <=> Rank[i] < Rank[j])                       \/ Bad("total-order(rank)", i, j)
  /\ (NS!NumericRunsApplies(Str(i), Str(j))
        => (R(i, j) <=> NS!NumericRunsWant(Str(i), Str(j)))) \/ Bad("numeric-runs", i, j)

VARIABLE l
Init == l = 0
Next == l < N /\ l' = l + 1
Spec == Init /\ [][Next]_l

RowOK == l >= 1 => \A j \in 1..N : PairOK(l, j)

\* informational: how often the code's relation differs from the reference order
RefAgree == l >= 1 => \A j \in 1..N : (R(l, j) <=> NS!RefLess(Str(l), Str(j))) \/ Bad("differs-from-reference", l, j)
=============================================================================
