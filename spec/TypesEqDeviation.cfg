SPECIFICATION Spec
CONSTANTS
  NamedByFields = TRUE
  Emit = FALSE
  Big = FALSE
  MaxStage = 3
INVARIANTS Reflexive Symmetric OneAttribute TermIdentity
CHECK_DEADLOCK FALSE
