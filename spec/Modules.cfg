SPECIFICATION Spec
CONSTANTS
  FamilySet = {"*"}
INVARIANT EveryAltCovered
ACTION_CONSTRAINT Emit
CHECK_DEADLOCK FALSE
