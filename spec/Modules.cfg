SPECIFICATION Spec
CONSTANTS
  FamilySet = {"*"}
  PairMode = "listed"
INVARIANT EveryAltCovered
ACTION_CONSTRAINT Emit
CHECK_DEADLOCK FALSE
