SPECIFICATION Spec
CONSTANTS
  AsImplemented = TRUE
  Emit = FALSE
  ChunkSize = 256
  ChunkStride = 1
  Walk = FALSE
  Pow2 = TRUE
  Pos = FALSE
  Kinds = {"half", "float", "double", "x86_fp80", "fp128", "ppc_fp128"}
INVARIANTS Preserved
CHECK_DEADLOCK FALSE
