SPECIFICATION Spec
CONSTANTS
  Dev = {"struct-ops"}
  MaxCalls = 3
  Classes = FALSE
  MaxOps = 5
INVARIANTS Complete WriteLive
VIEW View
CHECK_DEADLOCK FALSE
