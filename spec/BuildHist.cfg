SPECIFICATION Spec
CONSTANTS
  Mode = "hist"
  MaxSteps = 1
  ExecWidths = {8}
  ExecExhaustive = TRUE
  BoundarySmall = TRUE
INVARIANTS ProgWellFormed HistSound Emit
CHECK_DEADLOCK FALSE
