---------------------------- MODULE LiteralsIntHist ----------------------------
(***************************************************************************)
(* C09: print - mutate - print histories of integer constants.             *)
(*                                                                         *)
(* constant.Int has exported, mutable fields: Typ and X, and X is a        *)
(* *big.Int that can be updated in place and shared between constants.     *)
(* The print law of C09 quantifies over every value a constant holds WHEN  *)
(* IT IS PRINTED, not only over freshly made constants.  This machine is   *)
(* the API history model:                                                  *)
(*                                                                         *)
(*   cells   the big.Int objects (sequence of integers; index = identity)  *)
(*   cs      the constants: sequence of [w |-> width, cell |-> index];     *)
(*           two constants with the same cell share one *big.Int           *)
(*   memo    per constant, the literal remembered by a memoising printer   *)
(*           (<<>> = none) -- only used with Memoise = TRUE                *)
(*   outs    what the last PrintAll showed: per constant [w, val, lit]     *)
(*   hist    the history so far (the vector handed to the harness)         *)
(*                                                                         *)
(* Start: one constant, two constants with a big.Int each, or two          *)
(* constants sharing one big.Int (the second possibly of a wider type);    *)
(* initial value from Pool(w); optionally an initial PrintAll.             *)
(* Step (at most MaxChanges): one change followed by PrintAll --           *)
(*   SetX(c, v)     c.X = new big.Int with value v (fresh cell)            *)
(*   Mut(c, op)     in place on c.X: set(v), lsh16, neg, add1, sub1        *)
(*                  (every constant sharing the cell sees it)              *)
(*   SetTyp(c, w')  c.Typ = iw'                                            *)
(*   Alias(c, d)    c.X = d.X                                              *)
(* A change is enabled only if afterwards every constant holds a value of  *)
(* its type (the property's quantifier).                                   *)
(*                                                                         *)
(* Required: every Print shows a literal that denotes the CURRENT value of *)
(* that constant at its current width (PrintCurrent).  The printer is      *)
(* Literals!CodePrint.  Memoise = TRUE models a printer that remembers the *)
(* literal it chose for a value >= 0x1000 and never invalidates it         *)
(* (LiteralsIntHistMemo.cfg): TLC then reports PrintCurrent violated by    *)
(* New(65535); Print; lsh16; Print.                                        *)
(*                                                                         *)
(* Every reachable state with at least one change is one history; it is    *)
(* emitted (EmitFile = "stdout") with the value every constant must hold   *)
(* after each step.  The harness (harness/props/c09) replays the history   *)
(* on real constant.Int objects (same sharing, same in-place operations),  *)
(* prints with Int.Ident and through Module.String after every step and    *)
(* checks that each printed literal parses back to the current value; the  *)
(* recorded (value, literal) facts are judged by LiteralsIntTrace.         *)
(***************************************************************************)
EXTENDS Literals, Json

CONSTANTS Widths,       \* widths of the first constant
          DeepWidths,   \* start widths whose histories (those that begin with a Print) go to
                        \* MaxChanges changes; all others stop after one change
          MaxChanges,   \* changes per history
          Memoise,      \* TRUE: the memoising printer
          EmitFile      \* "" or "stdout"

VARIABLES cells, cs, memo, outs, hist, nch, stage
vars == <<cells, cs, memo, outs, hist, nch, stage>>

N(n) == IntFromInt(n)
P2I(k) == IntVal(FALSE, Pow2Nat(k))
\* values on both sides of 0x1000, negative, beyond 64 bits; filtered by the width
PoolAll == {N(0), N(1), N(-1), N(7), N(4095), N(4096), N(4097), N(-4096), N(-4097), N(65535),
            IntVal(FALSE, <<0, 65535>>),            \* 0xFFFF0000
            IntVal(FALSE, <<0, 32768>>),            \* 0x80000000
            IntVal(FALSE, <<52501, 18838>>),        \* 1234619157: decimal is the readable form
            P2I(64), IntVal(FALSE, <<4096, 0, 0, 0, 1>>), IntVal(TRUE, Pow2Nat(64)),
            IntVal(FALSE, <<65535, 65535, 65535, 65535, 255>>)}   \* 2^72 - 1
Pool(w) == {v \in PoolAll : Representable(w, v)}
               \cup {IntVal(TRUE, Pow2Nat(w - 1)), IntVal(FALSE, NatSub(Pow2Nat(w), <<1>>))}
\* the values changes move to (smaller, to keep the history space small)
ChangePool(w) == {v \in {N(0), N(-1), N(4095), N(4096), N(-4096), IntVal(FALSE, <<0, 65535>>), P2I(64)} :
                    Representable(w, v)}
Wider(w) == IF w = 1 THEN 8 ELSE 2 * w
OtherWidths(w) == {1, 8, Wider(w)} \ {w}

IntNeg(v) == IntVal(~v.neg, v.mag)
IntAdd1(v) == IF v.neg THEN IntVal(TRUE, NatSub(v.mag, <<1>>)) ELSE IntVal(FALSE, NatAdd1(v.mag))
IntSub1(v) == IntNeg(IntAdd1(IntNeg(v)))
IntLsh16(v) == IF v.mag = <<>> THEN v ELSE IntVal(v.neg, <<0>> \o v.mag)
Apply(op, v) == CASE op = "lsh16" -> IntLsh16(v) [] op = "neg" -> IntNeg(v)
                  [] op = "add1" -> IntAdd1(v) [] op = "sub1" -> IntSub1(v)

ValOfC(cl, c) == cl[c.cell]
AllInType(cl, k) == \A i \in 1..Len(k) : Representable(k[i].w, cl[k[i].cell])

\* the printer: CodePrint, or the memoising variant
Big(v) == ~v.neg /\ BitLen(v.mag) >= 13                      \* v >= 0x1000
PrintOne(cl, k, mm, i) ==
  LET v == cl[k[i].cell] IN
  IF Memoise /\ k[i].w # 1 /\ Big(v) /\ mm[i] # <<>> THEN mm[i]
  ELSE CodePrint(k[i].w, v, FALSE).lit
PrintAll(cl, k, mm) == [i \in 1..Len(k) |-> [w |-> k[i].w, val |-> cl[k[i].cell], lit |-> PrintOne(cl, k, mm, i)]]
MemoAfter(cl, k, mm) == [i \in 1..Len(k) |->
                           IF Memoise /\ k[i].w # 1 /\ Big(cl[k[i].cell]) /\ mm[i] = <<>>
                           THEN PrintOne(cl, k, mm, i) ELSE mm[i]]
After(cl, k) == [i \in 1..Len(k) |-> [w |-> k[i].w, neg |-> cl[k[i].cell].neg, mag |-> cl[k[i].cell].mag]]

Init == cells = <<>> /\ cs = <<>> /\ memo = <<>> /\ outs = <<>> /\ hist = <<>> /\ nch = 0 /\ stage = 0

Start(mode, w, w2, v, pf) ==
  LET cl == IF mode = "two-own" THEN <<v, v>> ELSE <<v>>
      k  == CASE mode = "one" -> <<[w |-> w, cell |-> 1]>>
              [] mode = "two-own" -> <<[w |-> w, cell |-> 1], [w |-> w2, cell |-> 2]>>
              [] mode = "two-shared" -> <<[w |-> w, cell |-> 1], [w |-> w2, cell |-> 1]>>
      m0 == [i \in 1..Len(k) |-> <<>>]
  IN /\ AllInType(cl, k)
     /\ cells' = cl /\ cs' = k
     /\ outs' = (IF pf THEN PrintAll(cl, k, m0) ELSE <<>>)
     /\ memo' = (IF pf THEN MemoAfter(cl, k, m0) ELSE m0)
     /\ hist' = <<[op |-> "new", mode |-> mode, print |-> pf, after |-> After(cl, k)]>>
     /\ nch' = 0 /\ stage' = 1

\* a change leads to (cl, k); it is followed by PrintAll
Step(rec, cl, k) ==
  /\ AllInType(cl, k)
  /\ cells' = cl /\ cs' = k
  /\ outs' = PrintAll(cl, k, memo) /\ memo' = MemoAfter(cl, k, memo)
  /\ hist' = Append(hist, [rec EXCEPT !.after = After(cl, k)])
  /\ nch' = nch + 1 /\ UNCHANGED stage

Rec(op, c, arg) == [op |-> op, c |-> c, arg |-> arg, after |-> <<>>]
ArgV(v) == [neg |-> v.neg, mag |-> v.mag, w |-> 0, d |-> 0]
ArgW(w) == [neg |-> FALSE, mag |-> <<>>, w |-> w, d |-> 0]
ArgD(d) == [neg |-> FALSE, mag |-> <<>>, w |-> 0, d |-> d]
ArgNone == ArgD(0)

Change ==
  \E c \in 1..Len(cs) :
    \/ \E v \in ChangePool(cs[c].w) :                                   \* c.X = new big.Int(v)
         Step(Rec("setx", c, ArgV(v)), Append(cells, v), [cs EXCEPT ![c].cell = Len(cells) + 1])
    \/ \E v \in ChangePool(cs[c].w) :                                   \* c.X.Set(v)
         Step(Rec("mut-set", c, ArgV(v)), [cells EXCEPT ![cs[c].cell] = v], cs)
    \/ \E op \in {"lsh16", "neg", "add1", "sub1"} :                     \* in place
         Step(Rec(op, c, ArgNone), [cells EXCEPT ![cs[c].cell] = Apply(op, cells[cs[c].cell])], cs)
    \/ \E w2 \in OtherWidths(cs[c].w) :                                 \* c.Typ = iw2
         Step(Rec("settyp", c, ArgW(w2)), cells, [cs EXCEPT ![c].w = w2])
    \/ \E d \in 1..Len(cs) : d # c /\ cs[d].cell # cs[c].cell /\         \* c.X = d.X
         Step(Rec("alias", c, ArgD(d)), cells, [cs EXCEPT ![c].cell = cs[d].cell])

Next ==
  \/ stage = 0 /\ \E mode \in {"one", "two-own", "two-shared"}, w \in Widths, pf \in BOOLEAN :
                    \E v \in Pool(w), w2 \in {w, Wider(w)} : Start(mode, w, w2, v, pf)
  \/ stage = 1 /\ nch < (IF hist[1].after[1].w \in DeepWidths /\ hist[1].print THEN MaxChanges ELSE 1) /\ Change
Spec == Init /\ [][Next]_vars

----------------------------------------------------------------------------
TypeOK == stage = 1 => AllInType(cells, cs)
\* every Print shows the current value
PrintCurrent == \A i \in 1..Len(outs) : PrintedDenotes(outs[i].w, outs[i].val, outs[i].lit)
\* and constants sharing a big.Int of the same type print alike
SharedAlike == \A i, j \in 1..Len(outs) :
                 (i <= Len(cs) /\ j <= Len(cs) /\ cs[i] = cs[j]) => outs[i].lit = outs[j].lit

Vector == ToJson([hist |-> hist])
Emit == (nch >= 1 /\ EmitFile = "stdout") => PrintT(Vector)
=============================================================================
