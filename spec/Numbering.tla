----------------------------- MODULE Numbering -----------------------------
(***************************************************************************)
(* LLVM numbering of unnamed values (C08) -- pure operators, no state.     *)
(*                                                                         *)
(* DATA.  Everything that can carry a number is a record with the fields   *)
(*    name  ("" = unnamed),                                                *)
(*    id    (the number *cached* in the object: LocalID / GlobalID of      *)
(*           ir/helper.go; 0 doubles as "not assigned yet"),               *)
(*    res   "value" (has a result: parameters, blocks, globals, non-void   *)
(*          instructions and terminators), "void" (call / invoke / callbr  *)
(*          returning void) or "none" (store, fence, ret, br: not a        *)
(*          namedVar at all).                                              *)
(* A block additionally has insts (sequence of instructions) and term      *)
(* (a record with one more field k in {"none","ret","br","invoke",         *)
(* "callbr","catchswitch"}; k = "none" is a block whose terminator has not *)
(* been set yet).  A function body is [params, blocks]; the module's       *)
(* global name space is gl = [globals, aliases, ifuncs, funcs], the four   *)
(* slices of ir.Module in the order in which WriteTo prints them.          *)
(*                                                                         *)
(* REFERENCE FUNCTIONS (what LLVM does; confirmed with llvm-as/llvm-dis,   *)
(* DESIGN.md Appendix B "Numbering"; written as a *count*, with no walk):  *)
(*    LLVMLocalNumbering(f)      params first, then per block the block    *)
(*                               and each non-void result; -1 = no number  *)
(*    LLVMGlobalNumbering(gl)    the same over globals, aliases, ifuncs,   *)
(*                               funcs (llvm-dis prints in this order)     *)
(*    TextualGlobalNumbering(s)  what LLVM requires of *input* text: one   *)
(*                               counter over all kinds in textual order   *)
(*                                                                         *)
(* THE CODE, AS WRITTEN (a walk with a counter; ir/func.go AssignIDs,      *)
(* ir/module.go AssignGlobalIDs):                                          *)
(*    AssignLocalIDs(f, validate), AssignGlobalIDs(gl, validate)           *)
(* return [ok, f] / [ok, gl].  With validate = TRUE an unnamed value whose *)
(* cached id is neither 0 nor the expected number stops the walk with      *)
(* ok = FALSE -- and everything *before* the offending value has already   *)
(* been rewritten (the partial rewrite of the real code).  With            *)
(* validate = FALSE the walk renumbers (the behaviour the properties       *)
(* require of printing).  ParseInstall(src) is the state the translator    *)
(* leaves behind: giveUnnamedIdentID numbers unnamed globals of all kinds  *)
(* with one counter in textual order, step 8c of asm/translate.go files    *)
(* them into the four groups.                                              *)
(*                                                                         *)
(* Bound to the code by NumberingGen.tla (vectors replayed by              *)
(* harness/props/c08) and NumberingTrace.tla (recorded "setid" hook events *)
(* judged against these operators).  IRState.tla uses the walks for its    *)
(* print actions.                                                          *)
(***************************************************************************)
EXTENDS Integers, Sequences, FiniteSets

NoNum == -1

Numbered(n) == n.name = "" /\ n.res = "value"

Ent(nm)        == [name |-> nm, id |-> 0, res |-> "value"]          \* global, param
Inst(nm, r)    == [name |-> nm, id |-> 0, res |-> r]
Term(k, nm, r) == [k |-> k, name |-> nm, id |-> 0, res |-> r, tgt |-> 0]   \* tgt: successor block (IRState)
NoTerm         == Term("none", "", "none")
Block(nm, is, t) == [name |-> nm, id |-> 0, res |-> "value", insts |-> is, term |-> t]

Item(n) == [name |-> n.name, id |-> n.id, res |-> n.res]

----------------------------------------------------------------------------
(* Reference: LLVM's numbering as a count over the flattened definition     *)
(* order.  Layout of the flat sequence: params, then per block: the label, *)
(* its instructions, its terminator (always present in the layout; a       *)
(* missing terminator is an item with res = "none").                       *)

FlatBlock(b) == <<Item(b)>> \o [i \in 1..Len(b.insts) |-> Item(b.insts[i])] \o <<Item(b.term)>>
RECURSIVE FlatBlocks(_)
FlatBlocks(bs) == IF bs = <<>> THEN <<>> ELSE FlatBlock(Head(bs)) \o FlatBlocks(Tail(bs))
FlatLocal(f) == [i \in 1..Len(f.params) |-> Item(f.params[i])] \o FlatBlocks(f.blocks)

GroupOrder == <<"globals", "aliases", "ifuncs", "funcs">>
FlatGlobal(gl) == gl.globals \o gl.aliases \o gl.ifuncs \o gl.funcs

\* number of the item at position p = how many numbered items precede it
CountNumbering(items) ==
  [p \in 1..Len(items) |->
     IF Numbered(items[p]) THEN Cardinality({q \in 1..(p - 1) : Numbered(items[q])}) ELSE NoNum]

LLVMLocalNumbering(f)   == CountNumbering(FlatLocal(f))
LLVMGlobalNumbering(gl) == CountNumbering(FlatGlobal(gl))

\* a source text, abstractly: sequence of [kind, name] in textual order,
\* kind in {"global","alias","ifunc","func"}
TextualGlobalNumbering(src) ==
  CountNumbering([i \in 1..Len(src) |-> [name |-> src[i].name, res |-> "value"]])

\* the cached ids, in the same flat layouts
IdsOf(items) == [p \in 1..Len(items) |-> items[p].id]

\* every numbered item carries its LLVM number
LocalIdsCorrect(f) ==
  LET fl == FlatLocal(f)  num == CountNumbering(fl)
  IN \A p \in 1..Len(fl) : Numbered(fl[p]) => fl[p].id = num[p]
GlobalIdsCorrect(gl) ==
  LET fl == FlatGlobal(gl)  num == CountNumbering(fl)
  IN \A p \in 1..Len(fl) : Numbered(fl[p]) => fl[p].id = num[p]

----------------------------------------------------------------------------
(* The code as written: the setName closure and the loops around it.       *)

SetOne(n, next, validate) ==                      \* [ok, next, n]
  IF ~Numbered(n) THEN [ok |-> TRUE, next |-> next, n |-> n]
  ELSE IF validate /\ n.id # 0 /\ n.id # next
       THEN [ok |-> FALSE, next |-> next, n |-> n]                 \* "expected %next, got %id"
       ELSE [ok |-> TRUE, next |-> next + 1, n |-> [n EXCEPT !.id = next]]

RECURSIVE WalkSeq(_, _, _)
WalkSeq(s, next, validate) ==                     \* [ok, next, s]
  IF s = <<>> THEN [ok |-> TRUE, next |-> next, s |-> <<>>]
  ELSE LET h == SetOne(Head(s), next, validate) IN
       IF ~h.ok THEN [ok |-> FALSE, next |-> next, s |-> s]        \* the rest stays untouched
       ELSE LET r == WalkSeq(Tail(s), h.next, validate)
            IN [ok |-> r.ok, next |-> r.next, s |-> <<h.n>> \o r.s]

WalkBlock(b, next, validate) ==                   \* [ok, next, b]
  LET l == SetOne(b, next, validate) IN
  IF ~l.ok THEN [ok |-> FALSE, next |-> next, b |-> b]
  ELSE LET is == WalkSeq(b.insts, l.next, validate) IN
       IF ~is.ok THEN [ok |-> FALSE, next |-> is.next, b |-> [l.n EXCEPT !.insts = is.s]]
       ELSE LET t == SetOne(b.term, is.next, validate)
            IN [ok |-> t.ok, next |-> t.next, b |-> [l.n EXCEPT !.insts = is.s, !.term = t.n]]

RECURSIVE WalkBlocks(_, _, _)
WalkBlocks(bs, next, validate) ==
  IF bs = <<>> THEN [ok |-> TRUE, next |-> next, s |-> <<>>]
  ELSE LET h == WalkBlock(Head(bs), next, validate) IN
       IF ~h.ok THEN [ok |-> FALSE, next |-> h.next, s |-> <<h.b>> \o Tail(bs)]
       ELSE LET r == WalkBlocks(Tail(bs), h.next, validate)
            IN [ok |-> r.ok, next |-> r.next, s |-> <<h.b>> \o r.s]

\* (*Func).AssignIDs
AssignLocalIDs(f, validate) ==                    \* [ok, f]
  LET ps == WalkSeq(f.params, 0, validate) IN
  IF ~ps.ok THEN [ok |-> FALSE, f |-> [f EXCEPT !.params = ps.s]]
  ELSE LET bs == WalkBlocks(f.blocks, ps.next, validate)
       IN [ok |-> bs.ok, f |-> [params |-> ps.s, blocks |-> bs.s]]

\* (*Module).AssignGlobalIDs
AssignGlobalIDs(gl, validate) ==                  \* [ok, gl]
  LET a == WalkSeq(gl.globals, 0, validate) IN
  IF ~a.ok THEN [ok |-> FALSE, gl |-> [gl EXCEPT !.globals = a.s]]
  ELSE LET b == WalkSeq(gl.aliases, a.next, validate) IN
  IF ~b.ok THEN [ok |-> FALSE, gl |-> [gl EXCEPT !.globals = a.s, !.aliases = b.s]]
  ELSE LET c == WalkSeq(gl.ifuncs, b.next, validate) IN
  IF ~c.ok THEN [ok |-> FALSE, gl |-> [gl EXCEPT !.globals = a.s, !.aliases = b.s, !.ifuncs = c.s]]
  ELSE LET d == WalkSeq(gl.funcs, c.next, validate)
       IN [ok |-> d.ok, gl |-> [globals |-> a.s, aliases |-> b.s, ifuncs |-> c.s, funcs |-> d.s]]

----------------------------------------------------------------------------
(* What the translator installs for a source text (module level).          *)

EmptyGl == [globals |-> <<>>, aliases |-> <<>>, ifuncs |-> <<>>, funcs |-> <<>>]
GroupOf(kind) == CASE kind = "global" -> "globals" [] kind = "alias" -> "aliases"
                   [] kind = "ifunc" -> "ifuncs" [] kind = "func" -> "funcs"

RECURSIVE InstallFrom(_, _, _, _)
InstallFrom(src, i, num, gl) ==
  IF i > Len(src) THEN gl
  ELSE LET e == [name |-> src[i].name, res |-> "value",
                 id |-> IF src[i].name = "" THEN num[i] ELSE 0]     \* giveUnnamedIdentID
       IN InstallFrom(src, i + 1, num, [gl EXCEPT ![GroupOf(src[i].kind)] = Append(@, e)])
ParseInstall(src) == InstallFrom(src, 1, TextualGlobalNumbering(src), EmptyGl)

\* the module the same definitions give when built through the API in that order
BuildInstall(src) ==
  InstallFrom(src, 1, [i \in 1..Len(src) |-> 0], EmptyGl)

----------------------------------------------------------------------------
(* Properties of the walks, stated for one function / one module; they are *)
(* checked over all shapes by NumberingGen and over all reachable states   *)
(* by IRState.                                                             *)

\* after a successful assignment every unnamed value carries its LLVM number
LocalNumberingCorrect(f, validate) ==
  LET r == AssignLocalIDs(f, validate) IN r.ok => LocalIdsCorrect(r.f)
GlobalNumberingCorrect(gl, validate) ==
  LET r == AssignGlobalIDs(gl, validate) IN r.ok => GlobalIdsCorrect(r.gl)

\* Editing a numbered function: an unnamed value inserted as the FIRST instruction of the entry block.  Its position in
\* the flat walk is right after the parameters and the entry label.
InsertFirst(f) == [f EXCEPT !.blocks[1].insts = <<Inst("", "value")>> \o @]
InsertPos(f)   == Len(f.params) + 2
\* the shift law: nothing before the inserted value moves, the inserted value takes the count of numbered items before
\* it, every number after it grows by one (uses outside the function -- blockaddress constants -- follow the blocks)
InsertShifts(f) ==
  LET old == LLVMLocalNumbering(f)  new == LLVMLocalNumbering(InsertFirst(f))  p == InsertPos(f) IN
  /\ Len(new) = Len(old) + 1
  /\ \A q \in 1..(p - 1) : new[q] = old[q]
  /\ new[p] = Cardinality({q \in 1..(p - 1) : old[q] # NoNum})
  /\ \A q \in (p + 1)..Len(new) : new[q] = IF old[q - 1] = NoNum THEN NoNum ELSE old[q - 1] + 1
\* parse (numbers validated and cached) -> insert -> print (numbered again): every unnamed value carries its LLVM number
ParseInsertPrintCorrect(f, validate) ==
  LET r == AssignLocalIDs(f, TRUE) IN
  r.ok => LET e == AssignLocalIDs(InsertFirst(r.f), validate) IN e.ok /\ LocalIdsCorrect(e.f)

\* numbering an already numbered function / module again changes nothing
LocalAssignIdempotent(f, validate) ==
  LET r == AssignLocalIDs(f, validate) IN r.ok => AssignLocalIDs(r.f, validate) = r
GlobalAssignIdempotent(gl, validate) ==
  LET r == AssignGlobalIDs(gl, validate) IN r.ok => AssignGlobalIDs(r.gl, validate) = r
=============================================================================
