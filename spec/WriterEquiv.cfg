SPECIFICATION Spec
CONSTANTS
  MaxP = 4
  MaxCap = 10
  MaxRest = 10
INVARIANT Equivalent
CHECK_DEADLOCK FALSE
