SPECIFICATION Spec
CONSTANTS
  MaxDecDigits = 320
  Chunks = 64
INVARIANTS RowsOK
CHECK_DEADLOCK FALSE
