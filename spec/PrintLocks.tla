----------------------------- MODULE PrintLocks -----------------------------
(***************************************************************************)
(* Lock order of the printing entry points (property C13: "every call      *)
(* returns").  The ir package has one mutex per module (m.mu) and one per  *)
(* function (f.mu).  As written, no entry point holds two of them at once: *)
(* Module.WriteTo numbers globals under m.mu, releases it, numbers         *)
(* metadata under m.mu, releases it, then takes each f.mu in turn;         *)
(* Func.LLString takes only its own f.mu.                                  *)
(*                                                                         *)
(* This module states the design rule the trace law lock-order-cycle of    *)
(* PrintConcTrace.tla relies on.  A printer is a sequence of acquisitions; *)
(* Nest says which entry points keep the outer mutex while they take the   *)
(* inner one:                                                              *)
(*   "none"    as written                     -> no deadlock               *)
(*   "module"  module printer holds m for f   -> no deadlock (order m<f)   *)
(*   "func"    function printer holds f for m -> no deadlock (order f<m)   *)
(*   "both"    both of the above              -> TLC finds the deadlock    *)
(* and OrderAcyclic (the relation "held while acquiring" over all steps    *)
(* taken so far has no cycle) fails exactly when a deadlock is reachable.  *)
(* Bound to the code: harness/props/c13 records the nested acquisitions of *)
(* every goroutine from the lock/unlock hook events and PrintConcTrace     *)
(* judges the recorded relation; a run in which the printers actually stop *)
(* is reported by the child's watchdog (all unfinished printers parked in  *)
(* a mutex acquisition at two samples).                                    *)
(***************************************************************************)
EXTENDS Integers, FiniteSets, Sequences, TLC

CONSTANTS ModulePrinters, FuncPrinters, NF, Nest
ASSUME Nest \in {"none", "module", "func", "both"}

Procs == ModulePrinters \cup FuncPrinters
M == 0
Mu == 0..NF                      \* 0 = module mutex, i = mutex of function i
FuncOf(p) == 1 + (CHOOSE i \in 0..(NF - 1) : TRUE)   \* function printers all print function 1: the worst case

\* the acquisitions of a printer, in order: <<mutex, keepOuter>>
Plan(p) ==
  IF p \in ModulePrinters
  THEN <<M>> \o [i \in 1..NF |-> i]
  ELSE IF Nest \in {"func", "both"} THEN <<FuncOf(p), M>> ELSE <<FuncOf(p)>>
Keeps(p) == IF p \in ModulePrinters THEN Nest \in {"module", "both"} ELSE Nest \in {"func", "both"}

VARIABLES owner,   \* owner[mu]: process or "free"
          pos,     \* pos[p]: index into Plan(p) of the next acquisition (Len+1 = done)
          held,    \* held[p]: set of mutexes p holds
          order    \* set of <<held, acquired>> pairs observed so far
vars == <<owner, pos, held, order>>

Init == /\ owner = [mu \in Mu |-> "free"]
        /\ pos = [p \in Procs |-> 1]
        /\ held = [p \in Procs |-> {}]
        /\ order = {}

Acquire(p) ==
  /\ pos[p] <= Len(Plan(p))
  /\ (~Keeps(p) => held[p] = {})                          \* as written: the previous mutex was released first
  /\ (p \in ModulePrinters => held[p] \subseteq {M})      \* at most one function mutex at a time
  /\ LET mu == Plan(p)[pos[p]] IN
     /\ owner[mu] = "free"
     /\ owner' = [owner EXCEPT ![mu] = p]
     /\ order' = order \cup {<<h, mu>> : h \in held[p]}
     /\ held' = [held EXCEPT ![p] = @ \cup {mu}]
     /\ pos' = [pos EXCEPT ![p] = @ + 1]

\* a printer that does not keep the outer mutex releases it before the next acquisition; at the end everything
Release(p) ==
  /\ held[p] # {}
  /\ (~Keeps(p) \/ pos[p] > Len(Plan(p)))
  /\ LET mu == CHOOSE x \in held[p] : TRUE IN
     /\ owner' = [owner EXCEPT ![mu] = "free"]
     /\ held' = [held EXCEPT ![p] = @ \ {mu}]
     /\ UNCHANGED <<pos, order>>

\* a module printer that keeps m releases the function mutex it just used before taking the next one
ReleaseInner(p) ==
  /\ Keeps(p) /\ p \in ModulePrinters /\ pos[p] <= Len(Plan(p))
  /\ \E mu \in held[p] \ {M} :
       /\ owner' = [owner EXCEPT ![mu] = "free"]
       /\ held' = [held EXCEPT ![p] = @ \ {mu}]
       /\ UNCHANGED <<pos, order>>

Done == \A p \in Procs : pos[p] > Len(Plan(p)) /\ held[p] = {}
Next == (\E p \in Procs : Acquire(p) \/ Release(p) \/ ReleaseInner(p)) \/ (Done /\ UNCHANGED vars)
Spec == Init /\ [][Next]_vars /\ WF_vars(Next)

RECURSIVE Closure(_)
Closure(R) == LET R2 == R \cup {<<pq[1][1], pq[2][2]>> : pq \in {x \in R \X R : x[1][2] = x[2][1]}}
              IN IF R2 = R THEN R ELSE Closure(R2)
OrderAcyclic == \A p \in Closure(order) : p[1] # p[2]
Mutex == \A mu \in Mu : \A p, q \in Procs : (mu \in held[p] /\ mu \in held[q]) => p = q
\* no reachable state in which nobody is done and nobody can move (checked by TLC's deadlock detection:
\* Next includes the stuttering step only when every printer has returned)
EveryCallReturns == <>Done
=============================================================================
