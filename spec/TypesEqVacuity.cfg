SPECIFICATION Spec
CONSTANTS
  NamedByFields = FALSE
  Emit = FALSE
  Big = FALSE
  MaxStage = 3
INVARIANTS NeverEqualDistinctObjects UnfoldingNeverCoarser
CHECK_DEADLOCK FALSE
