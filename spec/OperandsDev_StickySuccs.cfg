SPECIFICATION Spec
CONSTANTS
  Dev = {"sticky-succs"}
  MaxCalls = 3
  MaxOps = 5
INVARIANTS SuccsLive
VIEW View
CHECK_DEADLOCK FALSE
