------------------------------- MODULE Types -------------------------------
(***************************************************************************)
(* LLVM-14 types, type identity, result typing and getelementptr typing    *)
(* (properties C16, C06, C07).  This module has no variables: it is the    *)
(* library of reference operators.  The state machines that enumerate     *)
(* their domains are                                                       *)
(*    TypesEq.tla    laws of TypeEq on a term universe + generator of the  *)
(*                   type terms replayed into types.Equal          (C16)   *)
(*    TypesTrace.tla judges the recorded Equal matrices of the real code   *)
(*                   against TypeEq                                (C16)   *)
(*    TypesRes.tla   kind x operand-shape generator with the result type   *)
(*                   LLVM requires                                 (C06)   *)
(*    TypesGep.tla   element type x base x index-list generator with the   *)
(*                   getelementptr result type LLVM requires       (C07)   *)
(*                                                                         *)
(* TYPE TERMS are records, field k is the kind:                            *)
(*    [k |-> "int", w]                     iN                              *)
(*    [k |-> "float", fk]                  half float double fp128         *)
(*                                         x86_fp80 ppc_fp128              *)
(*    [k |-> "ptr", e, as]                 E addrspace(as)*                *)
(*    [k |-> "vec", sc, n, e]              <[vscale x] n x E>              *)
(*    [k |-> "arr", n, e]                  [n x E]                         *)
(*    [k |-> "struct", pk, fs]             literal struct { .. } / <{ .. }>*)
(*    [k |-> "named", nm]                  identified struct %nm           *)
(*    [k |-> "func", ret, ps, va]          RET (PS [, ...])                *)
(*    [k |-> a], a \in Atoms               void label token metadata       *)
(*                                         x86_mmx                         *)
(* (x86_amx is an LLVM-14 type the library has no representation for; it   *)
(* is outside every enumeration.)                                          *)
(*                                                                         *)
(* A UNIVERSE U maps every type name to its body                           *)
(*    [opaque |-> TRUE]   or   [opaque |-> FALSE, pk, fs]                  *)
(* as in an LLVM module: names are unique and only struct types are named. *)
(*                                                                         *)
(* The Go side mirrors the term format 1:1 (harness/props/tyutil): JSON    *)
(* written by ToJson is decoded into tyutil.Term, built into types.Type,   *)
(* and rendered to LLVM text by a renderer that does not use the library's *)
(* printer.                                                                *)
(***************************************************************************)
EXTENDS Integers, Sequences, FiniteSets, TLC

----------------------------------------------------------------------------
(* Constructors *)
TInt(w)            == [k |-> "int", w |-> w]
TFloat(fk)         == [k |-> "float", fk |-> fk]
TPtr(e, as)        == [k |-> "ptr", e |-> e, as |-> as]
TVec(sc, n, e)     == [k |-> "vec", sc |-> sc, n |-> n, e |-> e]
TArr(n, e)         == [k |-> "arr", n |-> n, e |-> e]
TStruct(pk, fs)    == [k |-> "struct", pk |-> pk, fs |-> fs]
TNamed(nm)         == [k |-> "named", nm |-> nm]
TFunc(ret, ps, va) == [k |-> "func", ret |-> ret, ps |-> ps, va |-> va]
Atoms  == {"void", "label", "token", "metadata", "x86_mmx"}
TAtom(a) == [k |-> a]
TVoid  == TAtom("void")
TLabel == TAtom("label")
TToken == TAtom("token")
TMeta  == TAtom("metadata")
TMMX   == TAtom("x86_mmx")
FloatKinds == {"half", "float", "double", "fp128", "x86_fp80", "ppc_fp128"}
I1 == TInt(1)   I8 == TInt(8)   I32 == TInt(32)   I64 == TInt(64)

Opaque       == [opaque |-> TRUE]
Body(pk, fs) == [opaque |-> FALSE, pk |-> pk, fs |-> fs]
\* `%V = type <2 x i32>`: in LLVM a name for a non-struct type is an ALIAS -- it is resolved while
\* parsing and denotes the underlying type (llvm-as prints the underlying type).  The library keeps
\* the name on the type object (TypeName), so such names occur as operand types (C06); they never
\* take part in identity.  Deref replaces every alias name by what it stands for.
Alias(t)     == [opaque |-> FALSE, alias |-> t]
IsAlias(U, nm) == "alias" \in DOMAIN U[nm]
RECURSIVE Deref(_, _)
Deref(U, t) ==
  CASE t.k = "named"  -> IF IsAlias(U, t.nm) THEN Deref(U, U[t.nm].alias) ELSE t
    [] t.k = "ptr"    -> [t EXCEPT !.e = Deref(U, t.e)]
    [] t.k = "vec"    -> [t EXCEPT !.e = Deref(U, t.e)]
    [] t.k = "arr"    -> [t EXCEPT !.e = Deref(U, t.e)]
    [] t.k = "struct" -> [t EXCEPT !.fs = [i \in 1..Len(t.fs) |-> Deref(U, t.fs[i])]]
    [] t.k = "func"   -> [t EXCEPT !.ret = Deref(U, t.ret), !.ps = [i \in 1..Len(t.ps) |-> Deref(U, t.ps[i])]]
    [] OTHER          -> t

SeqRange(s) == {s[i] : i \in 1..Len(s)}

----------------------------------------------------------------------------
(***************************************************************************)
(* TYPE IDENTITY (C16).  LLVM uniques every type except identified structs *)
(* by structure; identified structs are distinct objects with unique       *)
(* names.  So two terms denote the same LLVM type iff they have the same   *)
(* kind and agree in every attribute of that kind, identified structs      *)
(* being compared by name only.  The recursion is on the term (a name is a *)
(* leaf), hence it terminates on recursive types.  U is not consulted: the *)
(* body of an identified struct is no part of its identity.                *)
(***************************************************************************)
RECURSIVE TypeEq(_, _, _)
TypeEq(U, s, t) ==
  /\ s.k = t.k
  /\ CASE s.k = "int"    -> s.w = t.w
       [] s.k = "float"  -> s.fk = t.fk
       [] s.k = "ptr"    -> s.as = t.as /\ TypeEq(U, s.e, t.e)
       [] s.k = "vec"    -> s.sc = t.sc /\ s.n = t.n /\ TypeEq(U, s.e, t.e)
       [] s.k = "arr"    -> s.n = t.n /\ TypeEq(U, s.e, t.e)
       [] s.k = "struct" -> /\ s.pk = t.pk
                            /\ Len(s.fs) = Len(t.fs)
                            /\ \A i \in 1..Len(s.fs) : TypeEq(U, s.fs[i], t.fs[i])
       [] s.k = "named"  -> s.nm = t.nm
       [] s.k = "func"   -> /\ s.va = t.va
                            /\ TypeEq(U, s.ret, t.ret)
                            /\ Len(s.ps) = Len(t.ps)
                            /\ \A i \in 1..Len(s.ps) : TypeEq(U, s.ps[i], t.ps[i])
       [] OTHER          -> TRUE            \* atoms: the kind is the type

(***************************************************************************)
(* The tempting wrong definition, used as the switchable deviation of      *)
(* TypesEq.tla (NamedByFields = TRUE): identified structs compared by      *)
(* their bodies, unfolded to depth d.  Two distinct names with equal       *)
(* bodies then collapse, which LLVM does not do.                           *)
(***************************************************************************)
RECURSIVE TypeEqUnfold(_, _, _, _)
TypeEqUnfold(U, s, t, d) ==
  LET Unf(x) == IF x.k = "named" /\ d > 0 /\ ~U[x.nm].opaque
                THEN TStruct(U[x.nm].pk, U[x.nm].fs) ELSE x
      s1 == Unf(s)   t1 == Unf(t)
      d1 == IF s.k = "named" \/ t.k = "named" THEN d - 1 ELSE d
  IN
  /\ s1.k = t1.k
  /\ CASE s1.k = "int"    -> s1.w = t1.w
       [] s1.k = "float"  -> s1.fk = t1.fk
       [] s1.k = "ptr"    -> s1.as = t1.as /\ TypeEqUnfold(U, s1.e, t1.e, d1)
       [] s1.k = "vec"    -> s1.sc = t1.sc /\ s1.n = t1.n /\ TypeEqUnfold(U, s1.e, t1.e, d1)
       [] s1.k = "arr"    -> s1.n = t1.n /\ TypeEqUnfold(U, s1.e, t1.e, d1)
       [] s1.k = "struct" -> /\ s1.pk = t1.pk
                             /\ Len(s1.fs) = Len(t1.fs)
                             /\ \A i \in 1..Len(s1.fs) : TypeEqUnfold(U, s1.fs[i], t1.fs[i], d1)
       [] s1.k = "named"  -> d <= 0 \/ s1.nm = t1.nm      \* depth exhausted or opaque
       [] s1.k = "func"   -> /\ s1.va = t1.va
                             /\ TypeEqUnfold(U, s1.ret, t1.ret, d1)
                             /\ Len(s1.ps) = Len(t1.ps)
                             /\ \A i \in 1..Len(s1.ps) : TypeEqUnfold(U, s1.ps[i], t1.ps[i], d1)
       [] OTHER           -> TRUE

----------------------------------------------------------------------------
(***************************************************************************)
(* WELL-FORMEDNESS: which terms are LLVM-14 types (checked against llvm-as *)
(* by the harness: every emitted term is rendered and must be accepted).   *)
(***************************************************************************)
IsScalable(t) == t.k = "vec" /\ t.sc
\* pointer element: not void, label, metadata, token
PtrElemOK(t)  == t.k \notin {"void", "label", "metadata", "token"}
\* vector element: integer, floating point, pointer
VecElemOK(t)  == t.k \in {"int", "float", "ptr"}
\* array element / struct field
AggElemOK(t)  == t.k \notin {"void", "label", "metadata", "token", "func"} /\ ~IsScalable(t)
\* function return / parameter
RetOK(t)      == t.k \notin {"label", "metadata", "func"}
ParamOK(t)    == t.k \notin {"void", "func"}

RECURSIVE WellFormed(_, _)
WellFormed(U, t) ==
  CASE t.k = "int"    -> t.w >= 1
    [] t.k = "float"  -> t.fk \in FloatKinds
    [] t.k = "ptr"    -> PtrElemOK(t.e) /\ t.as >= 0 /\ WellFormed(U, t.e)
    [] t.k = "vec"    -> t.n >= 1 /\ VecElemOK(t.e) /\ WellFormed(U, t.e)
    [] t.k = "arr"    -> t.n >= 0 /\ AggElemOK(t.e) /\ WellFormed(U, t.e)
    [] t.k = "struct" -> \A i \in 1..Len(t.fs) : AggElemOK(t.fs[i]) /\ WellFormed(U, t.fs[i])
    [] t.k = "named"  -> t.nm \in DOMAIN U
    [] t.k = "func"   -> /\ RetOK(t.ret) /\ WellFormed(U, t.ret)
                         /\ \A i \in 1..Len(t.ps) : ParamOK(t.ps[i]) /\ WellFormed(U, t.ps[i])
    [] OTHER          -> t.k \in Atoms
UniverseOK(U) == \A nm \in DOMAIN U :
                    U[nm].opaque \/ \A i \in 1..Len(U[nm].fs) :
                                       AggElemOK(U[nm].fs[i]) /\ WellFormed(U, U[nm].fs[i])

(***************************************************************************)
(* ONE-ATTRIBUTE VARIANTS.  Variants(t) is a set of terms each of which    *)
(* differs from t in exactly one attribute at exactly one position: the    *)
(* attributes listed by the property (kind, bit width, floating-point      *)
(* kind, length, scalability, element, field, parameter and return types,  *)
(* address space, packedness, variadicity, name).  Not all variants are    *)
(* well-formed; users filter.                                              *)
(***************************************************************************)
ReplaceAt(s, i, x) == [s EXCEPT ![i] = x]
RemoveAt(s, i)     == SubSeq(s, 1, i - 1) \o SubSeq(s, i + 1, Len(s))
OtherInt(w)   == IF w = 32 THEN 33 ELSE 32
OtherFloat(f) == IF f = "double" THEN "x86_fp80" ELSE IF f = "fp128" THEN "ppc_fp128" ELSE "double"
OtherName(U, nm) == IF \E m \in DOMAIN U : m # nm THEN {CHOOSE m \in DOMAIN U : m # nm} ELSE {}

RECURSIVE Variants(_, _)
Variants(U, t) ==
  CASE t.k = "int"    -> {TInt(OtherInt(t.w)), TFloat("float")}
    [] t.k = "float"  -> {TFloat(OtherFloat(t.fk)), TInt(32)}
    [] t.k = "ptr"    -> {TPtr(t.e, 1 - t.as), TPtr(t.e, t.as + 2)}
                         \cup {TPtr(x, t.as) : x \in Variants(U, t.e)}
    [] t.k = "vec"    -> {TVec(~t.sc, t.n, t.e), TVec(t.sc, t.n + 1, t.e), TArr(t.n, t.e)}
                         \cup {TVec(t.sc, t.n, x) : x \in Variants(U, t.e)}
    [] t.k = "arr"    -> ({TArr(t.n + 1, t.e), TArr(0, t.e), TStruct(FALSE, [i \in 1..t.n |-> t.e])} \ {t})
                         \cup {TArr(t.n, x) : x \in Variants(U, t.e)}
    [] t.k = "struct" -> {TStruct(~t.pk, t.fs), TStruct(t.pk, t.fs \o <<I8>>)}
                         \cup {TStruct(t.pk, RemoveAt(t.fs, i)) : i \in 1..Len(t.fs)}
                         \cup UNION {{TStruct(t.pk, ReplaceAt(t.fs, i, x)) : x \in Variants(U, t.fs[i])}
                                       : i \in 1..Len(t.fs)}
    [] t.k = "named"  -> {TNamed(m) : m \in OtherName(U, t.nm)}
                         \cup (IF U[t.nm].opaque THEN {} ELSE {TStruct(U[t.nm].pk, U[t.nm].fs)})
    [] t.k = "func"   -> {TFunc(t.ret, t.ps, ~t.va), TFunc(t.ret, t.ps \o <<I8>>, t.va)}
                         \cup {TFunc(t.ret, RemoveAt(t.ps, i), t.va) : i \in 1..Len(t.ps)}
                         \cup {TFunc(x, t.ps, t.va) : x \in Variants(U, t.ret)}
                         \cup UNION {{TFunc(t.ret, ReplaceAt(t.ps, i, x), t.va) : x \in Variants(U, t.ps[i])}
                                       : i \in 1..Len(t.ps)}
    [] OTHER          -> {TAtom(a) : a \in Atoms \ {t.k}}

----------------------------------------------------------------------------
(***************************************************************************)
(* RESULT TYPES (C06), per LangRef of LLVM 14.  ops is the sequence of     *)
(* operand types in textual order; x carries the non-operand parts that    *)
(* the rule needs (absent fields are simply not present in the record):    *)
(*    x.to  target type of a cast          x.ty  explicit type (load, phi, *)
(*    x.idx index path (0-based) of         va_arg, landingpad, alloca,    *)
(*          extractvalue / insertvalue           getelementptr source)     *)
(*    x.gidx getelementptr index records   x.as  address space of alloca   *)
(* Resolve(U, t) looks through an identified struct to its body (needed    *)
(* only to step into aggregates; identity never unfolds).                  *)
(***************************************************************************)
Resolve(U, t) == IF t.k = "named" THEN TStruct(U[t.nm].pk, U[t.nm].fs) ELSE t

\* i1, or a vector of i1 with the operand's length AND scalability
CmpResult(t) == IF t.k = "vec" THEN TVec(t.sc, t.n, I1) ELSE I1

RECURSIVE AggPath(_, _, _)
AggPath(U, t, idx) ==
  IF idx = <<>> THEN t
  ELSE LET r == Resolve(U, t) IN
       IF r.k = "struct" THEN AggPath(U, r.fs[Head(idx) + 1], Tail(idx))
       ELSE AggPath(U, r.e, Tail(idx))                          \* array
RECURSIVE AggPathOK(_, _, _)
AggPathOK(U, t, idx) ==
  IF idx = <<>> THEN TRUE
  ELSE LET r == Resolve(U, t) IN
       CASE t.k = "named" /\ U[t.nm].opaque -> FALSE
         [] r.k = "struct" -> Head(idx) < Len(r.fs) /\ AggPathOK(U, r.fs[Head(idx) + 1], Tail(idx))
         [] r.k = "arr"    -> Head(idx) < r.n /\ AggPathOK(U, r.e, Tail(idx))
         [] OTHER          -> FALSE

CalleeSig(t) == t.e            \* callee operand: pointer to function type

UnaryKinds   == {"fneg"}
IntBinKinds  == {"add", "sub", "mul", "udiv", "sdiv", "urem", "srem",
                 "shl", "lshr", "ashr", "and", "or", "xor"}
FPBinKinds   == {"fadd", "fsub", "fmul", "fdiv", "frem"}
CastKinds    == {"trunc", "zext", "sext", "fptrunc", "fpext", "fptoui", "fptosi",
                 "uitofp", "sitofp", "ptrtoint", "inttoptr", "bitcast", "addrspacecast"}
CallKinds    == {"call", "invoke", "callbr"}
TokenKinds   == {"catchpad", "cleanuppad", "catchswitch"}

\* ResultType itself is defined at the end of the module (it uses GepResultType).

----------------------------------------------------------------------------
(***************************************************************************)
(* GETELEMENTPTR (C07).  An index is a record                              *)
(*   [f, w, val, vec, sc, ir]                                              *)
(* f   form: "int" (integer literal, w = 1: false/true), "zeroinit",       *)
(*     "splat" (constant vector, all elements val), "nonsplat",            *)
(*     "elemundef" / "elemcexpr" (constant vector with an undef / constant *)
(*     expression element), "undef",                                       *)
(*     "poison", "cexpr" (ptrtoint expression), "cexpr2" (add of a         *)
(*     ptrtoint), "cfold" (integer constant expression without a global:   *)
(*     trunc / zext / add / sub of literals -- LLVM folds it while parsing, *)
(*     so it has the value val and may select a struct field), "ssa"       *)
(*     (instruction operand that is not a constant)                        *)
(* w   integer width of the (element) type;  val  constant value or -1     *)
(* vec vector length, 0 = scalar;  sc  scalable;  ir  wrapped in inrange   *)
(* The fragment Step/Compatible/Merge/GepResult was validated against      *)
(* LLVM in the design round (7 846 cases, no disagreement) and is          *)
(* re-validated on every run.                                              *)
(***************************************************************************)
Idx(f, w, val, vec, sc) == [f |-> f, w |-> w, val |-> val, vec |-> vec, sc |-> sc, ir |-> FALSE, lit |-> "dec"]
InRange(ix) == [ix EXCEPT !.ir = TRUE]
\* lit: how the literal is spelled -- no input of the typing rule, a dimension of the vectors:
\*   "dec" decimal, "hex" u0x.., "lead0" decimal with leading zeros (first element of a splat);
\*   for "cfold" the expression: "trunc", "zext", "add", "sub"
Spelled(ix, lit) == [ix EXCEPT !.lit = lit]

\* stepping into t with index ix (every index but the first): structs need an i32 constant,
\* scalar or splat; arrays and vectors take any index
StepOK(U, t, ix) ==
  LET r == Resolve(U, t) IN
  CASE t.k = "named" /\ U[t.nm].opaque -> FALSE
    [] r.k = "struct" -> /\ ix.w = 32 /\ ix.val >= 0 /\ ix.val < Len(r.fs)
                         /\ ix.f \in {"int", "zeroinit", "splat", "cfold"}
    [] r.k \in {"arr", "vec"} -> TRUE
    [] OTHER -> FALSE
Step(U, t, ix) == LET r == Resolve(U, t) IN IF r.k = "struct" THEN r.fs[ix.val + 1] ELSE r.e

\* shape = <<vector length or 0, scalable>> of the result so far
BaseShape(b) == IF b.k = "vec" THEN <<b.n, b.sc>> ELSE <<0, FALSE>>
BasePtr(b)   == IF b.k = "vec" THEN b.e ELSE b
\* all vector operands (base and indices) agree in <<length, scalable>>; the first one fixes it
Compatible(shape, ix) == ix.vec = 0 \/ shape[1] = 0 \/ shape = <<ix.vec, ix.sc>>
Merge(shape, ix) == IF shape[1] = 0 /\ ix.vec # 0 THEN <<ix.vec, ix.sc>> ELSE shape

\* walk: [ok, ty, shape] after the index list idxs starting at element type t
RECURSIVE GepWalk(_, _, _, _, _)
GepWalk(U, t, shape, idxs, first) ==
  IF idxs = <<>> THEN [ok |-> TRUE, ty |-> t, shape |-> shape]
  ELSE LET ix == Head(idxs) IN
       IF Compatible(shape, ix) /\ (first \/ StepOK(U, t, ix))
       THEN GepWalk(U, IF first THEN t ELSE Step(U, t, ix), Merge(shape, ix), Tail(idxs), FALSE)
       ELSE [ok |-> FALSE, ty |-> t, shape |-> shape]

\* result: pointer to the reached element in the base's address space, widened to a vector of
\* such pointers (right length and scalability) when the base or any index is a vector
GepOK(U, elem, base, idxs) == GepWalk(U, elem, BaseShape(base), idxs, TRUE).ok
GepResultType(U, elem, base, idxs) ==
  LET c == GepWalk(U, elem, BaseShape(base), idxs, TRUE)
      p == TPtr(c.ty, BasePtr(base).as)
  IN IF c.shape[1] = 0 THEN p ELSE TVec(c.shape[2], c.shape[1], p)

\* all valid index lists of length <= n over the index forms F (first index free, then by type)
RECURSIVE GepLists(_, _, _, _, _, _)
GepLists(U, F, t, shape, first, n) ==
  IF n = 0 THEN {<<>>}
  ELSE {<<>>} \cup
       UNION { IF Compatible(shape, ix) /\ (first \/ StepOK(U, t, ix))
               THEN {<<ix>> \o rest :
                       rest \in GepLists(U, F, IF first THEN t ELSE Step(U, t, ix), Merge(shape, ix), FALSE, n - 1)}
               ELSE {} : ix \in F }

(***************************************************************************)
(* The walker as implemented (internal/gep.ResultType and the getIndex     *)
(* classifiers), as one switchable deviation: the index record of the code *)
(* has no scalability and the classifiers do not look at the type of       *)
(* zeroinitializer / undef / poison / constant-expression indices, so      *)
(*   - a scalable base or index yields a fixed vector,                     *)
(*   - a vector index of those forms contributes no vector length.         *)
(* TypesGep.tla uses it to show (TLC counterexample) that the deviation    *)
(* violates the property, and the harness uses the required operator only. *)
(***************************************************************************)
ImplVecLen(ix, classifierSeesType) ==
  IF ix.f \in {"splat", "nonsplat", "elemundef", "elemcexpr", "ssa"} \/ classifierSeesType THEN ix.vec ELSE 0
GepResultTypeAsImplemented(U, elem, base, idxs, classifierSeesType) ==
  LET RECURSIVE W(_, _, _, _)
      W(t, n, rest, first) ==
        IF rest = <<>> THEN <<t, n>>
        ELSE LET ix == Head(rest)
                 m  == ImplVecLen(ix, classifierSeesType)
             IN W(IF first THEN t ELSE Step(U, t, ix), IF n = 0 THEN m ELSE n, Tail(rest), FALSE)
      r == W(elem, BaseShape(base)[1], idxs, TRUE)
      p == TPtr(r[1], BasePtr(base).as)
  IN IF r[2] = 0 THEN p ELSE TVec(FALSE, r[2], p)
----------------------------------------------------------------------------
(* The result-type rule (see RESULT TYPES above) *)
ResultType(U, kind, ops, x) ==
  CASE kind \in UnaryKinds \cup IntBinKinds \cup FPBinKinds -> ops[1]
    [] kind \in {"icmp", "fcmp"}      -> CmpResult(ops[1])
    [] kind = "extractelement"        -> ops[1].e
    [] kind = "insertelement"         -> ops[1]
       \* <v1, v2, mask>: the mask's length and scalability, the operands' element type
    [] kind = "shufflevector"         -> TVec(ops[3].sc, ops[3].n, ops[1].e)
    [] kind = "extractvalue"          -> AggPath(U, ops[1], x.idx)
    [] kind = "insertvalue"           -> ops[1]
    [] kind = "alloca"                -> TPtr(x.ty, x.as)
    [] kind = "load"                  -> x.ty
       \* <base, index types...>; x.ty the source element type, x.gidx the index records
       \* (section GETELEMENTPTR above; the index forms are studied in depth by C07)
    [] kind = "getelementptr"         -> GepResultType(U, x.ty, ops[1], x.gidx)
       \* <ptr, cmp, new>
    [] kind = "cmpxchg"               -> TStruct(FALSE, <<ops[3], I1>>)
       \* <ptr, val>
    [] kind = "atomicrmw"             -> ops[2]
    [] kind \in CastKinds             -> x.to
    [] kind = "phi"                   -> x.ty
       \* <cond, a, b>
    [] kind = "select"                -> ops[2]
    [] kind = "freeze"                -> ops[1]
       \* <callee, args...>
    [] kind \in CallKinds             -> CalleeSig(ops[1]).ret
    [] kind = "va_arg"                -> x.ty
    [] kind = "landingpad"            -> x.ty
    [] kind \in TokenKinds            -> TToken
=============================================================================
