\* generator of the combinations of enumerated fields of one entity; reference printer as required
SPECIFICATION Spec
CONSTANTS
  CombosFile = "combos.ndjson"
  ImpliedDropped = FALSE
  DropFam = 2
INVARIANTS RefRoundTrip DisjointKeywords Emit
CHECK_DEADLOCK FALSE
