---------------------------- MODULE MetadataEdit ----------------------------
(***************************************************************************)
(* Histories parse -> EDIT -> observe / print (property C17, the programs  *)
(* part of "every reference to !N is the node object of definition !N" and *)
(* "every reference prints the ID of the node it points to").              *)
(*                                                                         *)
(* A parsed module is a sequence of nodes, each with an operand list       *)
(* (metadata.Tuple.Fields, GenericDINode.Operands, NamedDef.Nodes: slices  *)
(* exported by the API, which a program edits with append / insert).  Node *)
(* j starts with the operands 10*j+1 .. 10*j+lens[j] (names of leaf        *)
(* definitions).  Edit(i, p) inserts a new operand (101, 102, ... : a      *)
(* further numbered definition of the module) into node i at position p    *)
(* (front, middle, end = append).  Histories: every one- and two-edit      *)
(* history (the same node twice included) and "every node edited once, in  *)
(* order".                                                                 *)
(*                                                                         *)
(* Laws TLC checks on the model and the harness requires of the real code: *)
(*   FrameLaw   (action property): an edit of node i leaves the operands   *)
(*              of every other node exactly as they were;                  *)
(*   EditedLaw  (invariant): every node holds exactly its parsed operands, *)
(*              in order, plus the operands inserted into IT, the last     *)
(*              one at the position asked for.                             *)
(* EmitEdit writes md_edit.ndjson: {"lens","hist":[{node,pos,x}..],"ops"}  *)
(* -- the history and the operand lists the laws require after it.         *)
(* harness/props/c17/edit.go renders each (lens) as module texts in        *)
(* several layouts (numbered tuples, inline tuples inside one definition,  *)
(* numbered GenericDINodes, named metadata), parses the text in a child    *)
(* process, replays the edits through the exported slices, observes the    *)
(* operands of every node by object identity, prints, parses the print     *)
(* again, and compares all three with "ops".                               *)
(***************************************************************************)
EXTENDS Integers, Sequences, FiniteSets, TLC, Json, IOUtils

CONSTANTS MaxNodes, MaxOps, Emit
VARIABLES lens, ops, hist, stage
vars == <<lens, ops, hist, stage>>

OpsOf(j, l)  == [k \in 1..l |-> 10 * j + k]
Initial(ls)  == [j \in 1..Len(ls) |-> OpsOf(j, ls[j])]
InsOp(s, p, x) == SubSeq(s, 1, p) \o <<x>> \o SubSeq(s, p + 1, Len(s))
Positions(s) == {0, Len(s) \div 2, Len(s)}
IsNew(v)     == v > 100
IsOld(v)     == v <= 100

Init == lens = <<>> /\ ops = <<>> /\ hist = <<>> /\ stage = "build"
Extend == /\ stage = "build" /\ Len(lens) < MaxNodes
          /\ \E l \in 0..MaxOps : lens' = Append(lens, l)
          /\ UNCHANGED <<ops, hist, stage>>
Start == /\ stage = "build" /\ Len(lens) >= 1
         /\ ops' = Initial(lens) /\ stage' = "edit" /\ UNCHANGED <<lens, hist>>
\* one or two edits anywhere, or every node once in order
Allowed(h, i) == Len(h) < 2 \/ (Len(h) < Len(lens) /\ i = Len(h) + 1 /\ \A k \in 1..Len(h) : h[k].node = k)
Edit == /\ stage = "edit"
        /\ \E i \in 1..Len(lens) : /\ Allowed(hist, i)
             /\ \E p \in Positions(ops[i]) : LET x == 101 + Len(hist) IN
                  /\ ops' = [ops EXCEPT ![i] = InsOp(@, p, x)]
                  /\ hist' = Append(hist, [node |-> i, pos |-> p, x |-> x])
        /\ UNCHANGED <<lens, stage>>
Next == Extend \/ Start \/ Edit
Spec == Init /\ [][Next]_vars

FrameStep == (stage = "edit" /\ Len(hist') > Len(hist)) =>
   LET e == hist'[Len(hist')] IN \A j \in 1..Len(lens) : j # e.node => ops'[j] = ops[j]
FrameLaw == [][FrameStep]_vars

NewOf(j) == {hist[k].x : k \in {k \in 1..Len(hist) : hist[k].node = j}}
EditedLaw == stage = "edit" =>
  /\ \A j \in 1..Len(lens) :
       /\ SelectSeq(ops[j], IsOld) = OpsOf(j, lens[j])
       /\ {ops[j][k] : k \in {k \in 1..Len(ops[j]) : IsNew(ops[j][k])}} = NewOf(j)
       /\ Len(ops[j]) = lens[j] + Cardinality(NewOf(j))
  /\ Len(hist) >= 1 => LET e == hist[Len(hist)] IN ops[e.node][e.pos + 1] = e.x

EmitEdit == (Emit /\ stage = "edit" /\ Len(hist) >= 1) =>
   Serialize(ToJson([lens |-> lens, hist |-> hist, ops |-> ops]) \o "\n", "md_edit.ndjson",
             [format |-> "TXT", charset |-> "UTF-8",
              openOptions |-> <<"WRITE", "CREATE", "APPEND">>]).exitValue = 0
=============================================================================
