module verif/harness

go 1.23

require github.com/llir/llvm v0.0.0

require (
	github.com/llir/ll v0.0.0-20220802205332-9207a04d0275 // indirect
	github.com/mewmew/float v0.0.0-20201204173432-505706aa38fa // indirect
	github.com/pkg/errors v0.9.1 // indirect
)

replace github.com/llir/llvm => /repo
