module verif/harness

go 1.23

require github.com/llir/llvm v0.0.0

replace github.com/llir/llvm => /repo
