// Package mbt is the common machinery of the model-based checks: it runs TLC on
// a specification, moves NDJSON between TLC and the Go side, matches failures
// against the committed known-findings file, writes evidence and replay files
// and fixes the exit-code discipline (0 held, 1 violation, 2 infrastructure).
package mbt

import (
	"bufio"
	"bytes"
	"encoding/json"
	"fmt"
	"io"
	"os"
	"os/exec"
	"path/filepath"
	"regexp"
	"sort"
	"strconv"
	"strings"
	"time"
)

// Root is the verification directory.
var Root = func() string {
	if r := os.Getenv("VERIF_ROOT"); r != "" {
		return r
	}
	return "/verif"
}()

// Repo is the repository under test.
var Repo = func() string {
	if r := os.Getenv("VERIF_REPO"); r != "" {
		return r
	}
	return "/repo"
}()

// Infra aborts the check with exit code 2 (never a verdict about the code).
func Infra(format string, a ...interface{}) {
	fmt.Printf("INFRA-ERROR: "+format+"\n", a...)
	os.Exit(2)
}

// Seed returns VERIF_SEED (default 1).
func Seed() int64 {
	if s := os.Getenv("VERIF_SEED"); s != "" {
		if v, err := strconv.ParseInt(s, 10, 64); err == nil {
			return v
		}
	}
	return 1
}

// --- TLC -------------------------------------------------------------------

// TLCOpts describes one TLC run.
type TLCOpts struct {
	Spec      string            // module name, e.g. "NatSort" (file spec/NatSort.tla)
	Cfg       string            // cfg file name inside spec/, e.g. "NatSort.cfg"
	Workers   int               // default 8
	HeapGB    int               // default 4
	Timeout   time.Duration     // default 10 min
	Files     map[string]string // extra files to place in the run directory (name -> source path)
	Data      map[string][]byte // extra files with literal content
	Simulate  string            // e.g. "num=100" ; "" = model checking
	Depth     int               // -depth for simulation
	ExtraArgs []string
	Continue  bool              // -continue: do not stop at first violation
	DFS       bool              // depth-first state queue (trace specs that branch)
	Consts    map[string]string // appended to a copy of the cfg as CONSTANT overrides (name -> value text)
}

// TLCResult is the outcome of a TLC run.
type TLCResult struct {
	Dir        string // run directory (caller removes with Cleanup)
	Output     string
	Generated  int64
	Distinct   int64
	Depth      int
	Violated   []string // names of violated invariants / properties
	ExitCode   int
	Wall       time.Duration
	Cmd        string
	Assumption bool // an ASSUME was violated
}

// Cleanup removes the run directory.
func (r *TLCResult) Cleanup() {
	if r != nil && r.Dir != "" {
		os.RemoveAll(r.Dir)
	}
}

var (
	reStates   = regexp.MustCompile(`(\d+) states generated, (\d+) distinct states found`)
	reDepth    = regexp.MustCompile(`The depth of the complete state graph search is (\d+)`)
	reInv      = regexp.MustCompile(`Error: Invariant (\S+) is violated`)
	reProp     = regexp.MustCompile(`Error: (?:Temporal|Action) propert(?:y|ies) (\S+) (?:is|was|were) violated`)
	reActProp  = regexp.MustCompile(`Error: Action property (\S+) is violated`)
	rePost     = regexp.MustCompile(`Error: Checking postcondition (\S+)? ?failed|postcondition .* violated|Error: The postcondition`)
	reAssume   = regexp.MustCompile(`Assumption .* is false`)
	reSimTrace = regexp.MustCompile(`The number of states generated: (\d+)`)
)

// RunTLC copies spec/ into a fresh directory, runs TLC there and parses the
// summary. It never decides a property by itself: callers look at Violated.
func RunTLC(o TLCOpts) (*TLCResult, error) {
	if o.Workers == 0 {
		o.Workers = 8
	}
	if o.HeapGB == 0 {
		o.HeapGB = 4
	}
	if o.Timeout == 0 {
		o.Timeout = 10 * time.Minute
	}
	dir, err := os.MkdirTemp("", "verif-tlc-")
	if err != nil {
		return nil, err
	}
	res := &TLCResult{Dir: dir}
	specDir := filepath.Join(Root, "spec")
	ents, err := os.ReadDir(specDir)
	if err != nil {
		return res, err
	}
	for _, e := range ents {
		if e.IsDir() {
			continue
		}
		if strings.HasSuffix(e.Name(), ".tla") || e.Name() == o.Cfg {
			b, err := os.ReadFile(filepath.Join(specDir, e.Name()))
			if err != nil {
				return res, err
			}
			if e.Name() == o.Cfg && len(o.Consts) > 0 {
				b = overrideConsts(b, o.Consts)
			}
			if err := os.WriteFile(filepath.Join(dir, e.Name()), b, 0o644); err != nil {
				return res, err
			}
		}
	}
	for name, src := range o.Files {
		b, err := os.ReadFile(src)
		if err != nil {
			return res, err
		}
		if err := os.WriteFile(filepath.Join(dir, name), b, 0o644); err != nil {
			return res, err
		}
	}
	for name, b := range o.Data {
		if err := os.WriteFile(filepath.Join(dir, name), b, 0o644); err != nil {
			return res, err
		}
	}
	args := []string{
		"-Xms64m", fmt.Sprintf("-Xmx%dg", o.HeapGB), "-Xss64m", "-XX:+UseParallelGC", "-XX:ParallelGCThreads=4", "-XX:-UsePerfData",
	}
	if o.DFS {
		args = append(args, "-Dtlc2.tool.queue.IStateQueue=StateDeque")
	}
	args = append(args, "-cp", "/opt/veriftools/tla/tla2tools.jar:/opt/veriftools/tla/CommunityModules-deps.jar", "tlc2.TLC",
		"-workers", strconv.Itoa(o.Workers), "-metadir", filepath.Join(dir, "meta"), "-config", o.Cfg, "-noGenerateSpecTE")
	if o.Simulate != "" {
		args = append(args, "-simulate", o.Simulate)
		if o.Depth > 0 {
			args = append(args, "-depth", strconv.Itoa(o.Depth))
		}
		args = append(args, "-seed", strconv.FormatInt(Seed(), 10))
	}
	if o.Continue {
		args = append(args, "-continue")
	}
	args = append(args, o.ExtraArgs...)
	args = append(args, o.Spec+".tla")
	cmd := exec.Command("timeout", append([]string{strconv.Itoa(int(o.Timeout.Seconds())), "java"}, args...)...)
	cmd.Dir = dir
	var buf bytes.Buffer
	cmd.Stdout = &buf
	cmd.Stderr = &buf
	res.Cmd = "java " + strings.Join(args, " ")
	t0 := time.Now()
	err = cmd.Run()
	res.Wall = time.Since(t0)
	res.Output = buf.String()
	if ee, ok := err.(*exec.ExitError); ok {
		res.ExitCode = ee.ExitCode()
		err = nil
	}
	if err != nil {
		return res, err
	}
	if m := reStates.FindAllStringSubmatch(res.Output, -1); len(m) > 0 {
		last := m[len(m)-1]
		res.Generated, _ = strconv.ParseInt(last[1], 10, 64)
		res.Distinct, _ = strconv.ParseInt(last[2], 10, 64)
	} else if m := reSimTrace.FindStringSubmatch(res.Output); m != nil {
		res.Generated, _ = strconv.ParseInt(m[1], 10, 64)
		res.Distinct = res.Generated
	}
	if m := reDepth.FindStringSubmatch(res.Output); m != nil {
		res.Depth, _ = strconv.Atoi(m[1])
	}
	seen := map[string]bool{}
	for _, m := range reInv.FindAllStringSubmatch(res.Output, -1) {
		if !seen[m[1]] {
			seen[m[1]] = true
			res.Violated = append(res.Violated, m[1])
		}
	}
	for _, m := range reActProp.FindAllStringSubmatch(res.Output, -1) {
		if !seen[m[1]] {
			seen[m[1]] = true
			res.Violated = append(res.Violated, m[1])
		}
	}
	for _, m := range reProp.FindAllStringSubmatch(res.Output, -1) {
		if !seen[m[1]] {
			seen[m[1]] = true
			res.Violated = append(res.Violated, m[1])
		}
	}
	if rePost.MatchString(res.Output) {
		res.Violated = append(res.Violated, "POSTCONDITION")
	}
	if reAssume.MatchString(res.Output) {
		res.Assumption = true
	}
	return res, nil
}

func overrideConsts(cfg []byte, consts map[string]string) []byte {
	lines := strings.Split(string(cfg), "\n")
	var out []string
	for _, l := range lines {
		f := strings.Fields(l)
		skip := false
		// drop "NAME = value" lines that are overridden (only in simple one-per-line form)
		if len(f) >= 3 && f[1] == "=" {
			if _, ok := consts[f[0]]; ok {
				skip = true
			}
		}
		if !skip {
			out = append(out, l)
		}
	}
	keys := make([]string, 0, len(consts))
	for k := range consts {
		keys = append(keys, k)
	}
	sort.Strings(keys)
	out = append(out, "CONSTANTS")
	for _, k := range keys {
		out = append(out, fmt.Sprintf("  %s = %s", k, consts[k]))
	}
	return []byte(strings.Join(out, "\n") + "\n")
}

// MustTLC runs TLC and treats every non-verdict failure (timeout, parse error,
// crash, TLC-internal error) as infrastructure error. ok lists the invariant
// names whose violation the caller handles itself.
func MustTLC(o TLCOpts) *TLCResult { return mustTLC(o, false) }

// MustTLCAllowDeadlock is MustTLC for trace specs that signal a rejected trace
// by a deadlock: "Deadlock reached" in Output is then a result, not a failure.
func MustTLCAllowDeadlock(o TLCOpts) *TLCResult { return mustTLC(o, true) }

func mustTLC(o TLCOpts, allowDeadlock bool) *TLCResult {
	r, err := RunTLC(o)
	if err != nil {
		Infra("TLC %s/%s: %v", o.Spec, o.Cfg, err)
	}
	if r.ExitCode == 124 || r.ExitCode == 137 {
		tail := r.Output
		if len(tail) > 1500 {
			tail = tail[len(tail)-1500:]
		}
		r.Cleanup()
		Infra("TLC %s/%s timed out after %v\n%s", o.Spec, o.Cfg, o.Timeout, tail)
	}
	finished := strings.Contains(r.Output, "Model checking completed") || strings.Contains(r.Output, "Finished in") || strings.Contains(r.Output, "The number of states generated")
	if allowDeadlock && strings.Contains(r.Output, "Deadlock reached") {
		return r
	}
	if len(r.Violated) == 0 && !r.Assumption && (r.ExitCode != 0 || !finished) {
		tail := r.Output
		if len(tail) > 3000 {
			tail = tail[len(tail)-3000:]
		}
		r.Cleanup()
		Infra("TLC %s/%s failed (exit %d):\n%s", o.Spec, o.Cfg, r.ExitCode, tail)
	}
	return r
}

// --- NDJSON ----------------------------------------------------------------

// ReadNDJSON reads one JSON value per line into a slice of T.
func ReadNDJSON[T any](path string) ([]T, error) {
	f, err := os.Open(path)
	if err != nil {
		return nil, err
	}
	defer f.Close()
	var out []T
	r := bufio.NewReaderSize(f, 1<<20)
	for {
		line, err := r.ReadBytes('\n')
		if len(bytes.TrimSpace(line)) > 0 {
			var v T
			if e := json.Unmarshal(line, &v); e != nil {
				return out, fmt.Errorf("%s: %v in %q", path, e, truncate(string(line), 200))
			}
			out = append(out, v)
		}
		if err == io.EOF {
			break
		}
		if err != nil {
			return out, err
		}
	}
	return out, nil
}

// WriteNDJSON writes one JSON value per line.
func WriteNDJSON[T any](path string, recs []T) error {
	var buf bytes.Buffer
	enc := json.NewEncoder(&buf)
	enc.SetEscapeHTML(false)
	for _, r := range recs {
		if err := enc.Encode(r); err != nil {
			return err
		}
	}
	return os.WriteFile(path, buf.Bytes(), 0o644)
}

// NDJSONBytes renders records as NDJSON.
func NDJSONBytes[T any](recs []T) []byte {
	var buf bytes.Buffer
	enc := json.NewEncoder(&buf)
	enc.SetEscapeHTML(false)
	for _, r := range recs {
		if err := enc.Encode(r); err != nil {
			Infra("encode: %v", err)
		}
	}
	return buf.Bytes()
}

func truncate(s string, n int) string {
	if len(s) <= n {
		return s
	}
	return s[:n] + "…"
}

// Truncate shortens s for display.
func Truncate(s string, n int) string { return truncate(s, n) }

// --- Known findings --------------------------------------------------------

// Finding is an entry of known_findings.json.
type Finding struct {
	Property  string `json:"property"`
	Signature string `json:"signature,omitempty"`
	What      string `json:"what"`
	Example   string `json:"example,omitempty"`
	Status    string `json:"status"` // "open" or "fixed"
	Commit    string `json:"commit,omitempty"`
}

// LoadFindings reads known_findings.json (committed; never written at run time).
func LoadFindings() []Finding {
	b, err := os.ReadFile(filepath.Join(Root, "known_findings.json"))
	if err != nil {
		if os.IsNotExist(err) {
			return nil
		}
		Infra("known_findings.json: %v", err)
	}
	var fs []Finding
	if err := json.Unmarshal(b, &fs); err != nil {
		Infra("known_findings.json: %v", err)
	}
	// development aid: extra entries proposed but not yet committed
	if extra := os.Getenv("VERIF_EXTRA_FINDINGS"); extra != "" {
		var more []Finding
		if eb, err := os.ReadFile(extra); err == nil && json.Unmarshal(eb, &more) == nil {
			fs = append(fs, more...)
		}
	}
	return fs
}

// --- Report ----------------------------------------------------------------

// Failure is one record on which the property did not hold.
type Failure struct {
	Signature string      `json:"signature"` // classification used to match known findings
	What      string      `json:"what"`
	Case      interface{} `json:"case"` // enough to replay
}

// Report accumulates the outcome of one check.
type Report struct {
	Property string
	Tier     string
	Level    string
	start    time.Time

	Evaluations      int
	distinct         map[string]bool
	DistinctOverride int
	Rule             string
	Samples          []interface{}
	States           int64
	Transitions      int64
	TracesValidated  int
	Programs         int
	Disagreements    int
	Exhaustive       bool
	Explanation      string
	CheckerCmds      []string
	Assumptions      []string
	Extra            map[string]interface{}
	failures         []Failure
	findings         []Finding
	knownHit         map[string]int
	knownExample     map[string]string
	violations       map[string][]Failure
	violationOrder   []string
	Notes            []string
	maxSamples       int
}

// NewReport starts a report for property id.
func NewReport(id, tier, level string) *Report {
	return &Report{Property: id, Tier: tier, Level: level, start: time.Now(), distinct: map[string]bool{},
		findings: LoadFindings(), knownHit: map[string]int{}, knownExample: map[string]string{},
		violations: map[string][]Failure{}, Extra: map[string]interface{}{}, maxSamples: 6}
}

// Count records one evaluated case; key identifies it for distinctness and
// nontrivial says whether it counts as a non-trivial case by the check's rule.
func (r *Report) Count(key string, nontrivial bool) {
	r.Evaluations++
	if nontrivial {
		r.distinct[key] = true
	}
}

// Sample keeps a few cases for the evidence file.
func (r *Report) Sample(v interface{}) {
	if len(r.Samples) < r.maxSamples {
		r.Samples = append(r.Samples, v)
	}
}

// AddTLC accumulates state counts of a TLC run.
func (r *Report) AddTLC(t *TLCResult) {
	r.States += t.Distinct
	r.Transitions += t.Generated
	r.CheckerCmds = append(r.CheckerCmds, t.Cmd)
}

// Note adds a free-text note to the evidence.
func (r *Report) Note(format string, a ...interface{}) {
	s := fmt.Sprintf(format, a...)
	r.Notes = append(r.Notes, s)
	fmt.Println("NOTE: " + s)
}

// Fail records a failing case. It is matched against the known findings by
// exact signature; unmatched failures become violations.
func (r *Report) Fail(f Failure) {
	for _, k := range r.findings {
		if k.Property == r.Property && k.Status == "open" && k.Signature == f.Signature {
			r.knownHit[k.Signature]++
			if _, ok := r.knownExample[k.Signature]; !ok {
				r.knownExample[k.Signature] = f.What
			}
			return
		}
	}
	if _, ok := r.violations[f.Signature]; !ok {
		r.violationOrder = append(r.violationOrder, f.Signature)
	}
	if len(r.violations[f.Signature]) < 20 {
		r.violations[f.Signature] = append(r.violations[f.Signature], f)
	} else {
		r.violations[f.Signature] = append(r.violations[f.Signature][:20], Failure{})[:20]
	}
	r.failures = append(r.failures, f)
}

// Violations returns the number of unlisted failing cases so far.
func (r *Report) Violations() int { return len(r.failures) }

// Finish writes the evidence file, prints KNOWN-FINDING / VIOLATION lines and
// exits with the proper code.
func (r *Report) Finish() {
	wall := time.Since(r.start).Seconds()
	// known findings
	for _, k := range r.findings {
		if k.Property != r.Property || k.Status != "open" {
			continue
		}
		if n := r.knownHit[k.Signature]; n > 0 {
			fmt.Printf("KNOWN-FINDING: property=%s %s: %s (%d cases this run, e.g. %s)\n", r.Property, k.Signature, k.What, n, truncate(r.knownExample[k.Signature], 160))
		} else {
			fmt.Printf("NOTE: finding %s did not reproduce in this run (tier %s)\n", k.Signature, r.Tier)
		}
	}
	// violations
	replayDir := filepath.Join(Root, "evidence", "replay")
	if len(r.violationOrder) > 0 {
		os.MkdirAll(replayDir, 0o755)
	}
	for i, sig := range r.violationOrder {
		fs := r.violations[sig]
		path := filepath.Join(replayDir, fmt.Sprintf("%s-%s-%d.json", r.Property, r.Tier, i+1))
		b, _ := json.MarshalIndent(map[string]interface{}{
			"property": r.Property, "tier": r.Tier, "seed": Seed(), "signature": sig, "failures": fs,
		}, "", " ")
		os.WriteFile(path, b, 0o644)
		fmt.Printf("VIOLATION property=%s replay=%s\n", r.Property, path)
		fmt.Printf("  signature: %s\n  what: %s\n", sig, truncate(fs[0].What, 400))
	}
	distinct := len(r.distinct)
	if r.DistinctOverride > 0 {
		distinct = r.DistinctOverride
	}
	cov := map[string]interface{}{
		"evaluations":         r.Evaluations,
		"distinct_nontrivial": distinct,
		"rule":                r.Rule,
		"samples":             r.Samples,
		"exhaustive":          r.Exhaustive,
	}
	if r.States > 0 {
		cov["states"] = r.States
		cov["transitions"] = r.Transitions
		cov["traces_validated_against_impl"] = r.TracesValidated
	}
	if r.Programs > 0 {
		cov["programs"] = r.Programs
		cov["disagreements_checked"] = r.Disagreements
	}
	if r.Explanation != "" {
		cov["explanation"] = r.Explanation
	}
	if len(r.CheckerCmds) > 0 {
		cov["checker_cmd"] = strings.Join(r.CheckerCmds, " ;; ")
	}
	known := map[string]int{}
	for k, v := range r.knownHit {
		known[k] = v
	}
	cov["known_finding_hits"] = known
	if len(r.Notes) > 0 {
		cov["notes"] = r.Notes
	}
	for k, v := range r.Extra {
		cov[k] = v
	}
	if len(r.Samples) == 0 {
		cov["samples"] = []interface{}{"(no sample recorded)"}
	}
	ev := map[string]interface{}{
		"property_id": r.Property,
		"tier":        r.Tier,
		"seed":        Seed(),
		"level":       r.Level,
		"coverage":    cov,
		"assumptions": r.Assumptions,
		"wall_s":      wall,
		"violations":  len(r.failures),
	}
	if r.Assumptions == nil {
		ev["assumptions"] = []string{}
	}
	b, err := json.MarshalIndent(ev, "", " ")
	if err != nil {
		Infra("evidence: %v", err)
	}
	os.MkdirAll(filepath.Join(Root, "evidence"), 0o755)
	if err := os.WriteFile(filepath.Join(Root, "evidence", r.Property+".json"), b, 0o644); err != nil {
		Infra("evidence: %v", err)
	}
	fmt.Printf("%s %s: evaluations=%d distinct=%d states=%d traces=%d violations=%d known=%d wall=%.1fs\n",
		r.Property, r.Tier, r.Evaluations, distinct, r.States, r.TracesValidated, len(r.failures), len(r.knownHit), wall)
	if r.Evaluations == 0 {
		Infra("dead driver: no case was evaluated")
	}
	if len(r.failures) > 0 {
		os.Exit(1)
	}
	os.Exit(0)
}

// Guard runs f and converts a panic into (msg, true).
func Guard(f func()) (msg string, panicked bool) {
	defer func() {
		if e := recover(); e != nil {
			msg = fmt.Sprint(e)
			panicked = true
		}
	}()
	f()
	return "", false
}

// Tool runs an external command with stdin, returns stdout, stderr, exit code.
func Tool(stdin []byte, timeout time.Duration, name string, args ...string) (stdout, stderr []byte, code int, err error) {
	cmd := exec.Command("timeout", append([]string{strconv.Itoa(int(timeout.Seconds())), name}, args...)...)
	cmd.Stdin = bytes.NewReader(stdin)
	var so, se bytes.Buffer
	cmd.Stdout = &so
	cmd.Stderr = &se
	err = cmd.Run()
	if ee, ok := err.(*exec.ExitError); ok {
		return so.Bytes(), se.Bytes(), ee.ExitCode(), nil
	}
	return so.Bytes(), se.Bytes(), 0, err
}

// ReadJSON reads one JSON document.
func ReadJSON(path string, v interface{}) error {
	b, err := os.ReadFile(path)
	if err != nil {
		return err
	}
	return json.Unmarshal(b, v)
}
