// Package c05 checks property C05: an input that refers to an undefined name or
// defines a name twice is reported as an error -- no module, no crash.
package c05

import (
	"fmt"
	"strings"

	"verif/harness/mbt"
	"verif/harness/props/reg"
	"verif/harness/props/trcheck"
	"verif/harness/props/trsrc"
)

func init() { reg.Register("C05", Run) }

// site names the fault of a vector in a stable way.
func site(src []trsrc.Entity) string {
	fs := trsrc.FaultSites(src)
	// the empty quoted name is named alone (a pattern may hold valid bare numerals of its own)
	var eq []string
	for _, f := range fs {
		if strings.HasSuffix(f, "@empty-quoted") {
			eq = append(eq, f)
		}
	}
	if len(eq) > 0 {
		fs = eq
	}
	ds := trsrc.DupSites(src)
	var parts []string
	if len(fs) > 0 {
		parts = append(parts, "undefined@"+strings.Join(fs, "+"))
	}
	if len(ds) > 0 {
		parts = append(parts, "duplicate@"+strings.Join(ds, "+"))
	}
	if xs := trsrc.ForeignSites(src); len(xs) > 0 {
		parts = append(parts, "other-function's-local@"+strings.Join(xs, "+"))
	}
	if dl := trsrc.DanglingSites(src); len(dl) > 0 && len(fs) == 0 {
		parts = append(parts, "definition-deleted@"+strings.Join(dl, "+"))
	}
	if len(parts) == 0 {
		return "no-fault"
	}
	return strings.Join(parts, ",")
}

func judge(rep *mbt.Report, cs []*trcheck.Case, arbitrated bool) (faults, discarded int) {
	for _, c := range cs {
		s := site(c.Src)
		if c.Want.St != "err" {
			// fault-free source, or the documented exception (undefined attribute group)
			if c.Want.St == "ok" && strings.Contains(s, "a.func") || strings.Contains(s, "a.call") {
				rep.Count("exception:"+c.Text, true)
				switch {
				case c.Panic != "":
					rep.Fail(mbt.Failure{Signature: "C05|" + s + "|panic", What: "undefined attribute group: parser panics: " + c.Panic, Case: map[string]string{"src": c.Text}})
				case c.Err != nil && strings.Contains(s, "@id-wider-than-64-bits"):
					// an ID that cannot be represented: LLVM 14 takes the text (the number wraps); an error is as
					// good an answer as a materialised group -- only a crash is judged
				case c.Err != nil:
					rep.Fail(mbt.Failure{Signature: "C05|" + s + "|rejected", What: "undefined attribute group is documented to be materialised, parser returns error: " + c.Err.Error(), Case: map[string]string{"src": c.Text}})
				}
			}
			continue
		}
		if arbitrated && c.LLVMOK {
			// LLVM does not consider this a fault: outside the quantifier
			discarded++
			continue
		}
		faults++
		rep.Count("fault:"+c.Text, true)
		if len(rep.Samples) < 4 {
			rep.Sample(map[string]interface{}{"site": s, "src": c.Text, "required": "error, no module", "llvm": mbt.Truncate(c.LLVMDiag, 120),
				"observed": map[string]interface{}{"err": fmt.Sprint(c.Err), "panic": c.Panic, "module": c.Mod != nil}})
		}
		switch {
		case c.Panic != "":
			rep.Fail(mbt.Failure{Signature: "C05|" + s + "|panic",
				What: fmt.Sprintf("parser crashes instead of returning an error (%s): %s", s, mbt.Truncate(c.Panic, 200)), Case: map[string]string{"src": c.Text}})
		case c.Err == nil:
			rep.Fail(mbt.Failure{Signature: "C05|" + s + "|accepted",
				What: fmt.Sprintf("parser returns a module for an input with %s; printed:\n%s", s, mbt.Truncate(c.Printed, 300)), Case: map[string]string{"src": c.Text}})
		case c.Mod != nil:
			rep.Fail(mbt.Failure{Signature: "C05|" + s + "|error-with-module",
				What: "parser returns both an error and a module", Case: map[string]string{"src": c.Text}})
		}
	}
	return
}

// Run is the C05 check.
func Run(tier, replay string) {
	rep := mbt.NewReport("C05", tier, "model_checking")
	rep.Rule = "sources = reference patterns of TranslateSrc.tla x every reference site redirected to an undefined name (a name nothing defines, the quoted numeral, the bare numeral, the empty quoted name, a local or block of ANOTHER function) x every definition duplicated (TLC: ErrorOnFault/Deterministic on every processing order); a case is a faulted source that LLVM also rejects, rendered and given to the real parser"
	if replay != "" {
		var rf struct {
			Failures []struct {
				Case map[string]string `json:"case"`
			} `json:"failures"`
		}
		if err := mbt.ReadJSON(replay, &rf); err != nil {
			mbt.Infra("replay: %v", err)
		}
		for _, f := range rf.Failures {
			text := f.Case["src"]
			m, err, p := trcheck.ParseReal("replay.ll", text)
			rep.Count(text, true)
			if p != "" || err == nil || m != nil {
				rep.Fail(mbt.Failure{Signature: "C05|replay", What: fmt.Sprintf("err=%v panic=%q module=%v", err, p, m != nil), Case: f.Case})
			}
		}
		rep.Finish()
	}
	perm := 3
	if tier == "thorough" {
		perm = 4
	}
	_ = perm
	vs := trcheck.Generate(rep, "faults", 3)
	cs := trcheck.Run(vs)
	faults, discarded := judge(rep, cs, true)
	// type-alias sources: LLVM cannot arbitrate them (it has no alias types); the parser accepts
	// the construct, so an undefined alias target is an undefined name by the property's wording
	avs := trcheck.Generate(rep, "alias", 3)
	acs := trcheck.Run(avs)
	f2, _ := judge(rep, acs, false)
	faults += f2
	rep.TracesValidated = faults
	rep.Extra["faulted_sources"] = len(vs) + len(avs)
	rep.Extra["discarded_not_a_fault_for_llvm"] = discarded
	if discarded*5 > len(vs) {
		mbt.Infra("%d of %d faulted sources are accepted by LLVM: the fault generator is off", discarded, len(vs))
	}
	if tier == "thorough" {
		// faults crossed with permutations of the source order: the model proves the verdict for every
		// processing order of every permuted source; each permuted faulted source is replayed, and the
		// real map orders are sampled by repetition
		pvs := trcheck.Generate(rep, "faultperms", 4)
		pcs := trcheck.Run(pvs)
		f3, d3 := judge(rep, pcs, true)
		faults += f3
		rep.TracesValidated = faults
		// faults crossed with layouts (CR LF, several definitions per line, indentation, comments, no final
		// line ending): the verdict must not depend on how the text is laid out
		lvs := trcheck.Generate(rep, "layoutfaults", 4)
		f4, d4 := judge(rep, trcheck.Run(lvs), true)
		faults += f4
		rep.TracesValidated = faults
		rep.Extra["laid_out_faulted_sources"] = len(lvs)
		rep.Extra["laid_out_discarded_not_a_fault_for_llvm"] = d4
		rep.Extra["permuted_faulted_sources"] = len(pvs)
		rep.Extra["permuted_discarded_not_a_fault_for_llvm"] = d3
		for round := 0; round < 10; round++ {
			judge(rep, trcheck.Run(vs), true)
		}
	}
	viol := trcheck.AsImplementedViolations(rep, "all")
	rep.Extra["model_as_implemented_violates"] = viol
	rep.Exhaustive = true
	rep.Assumptions = []string{"fault sites are those of the 40 reference patterns of TranslateSrc.tla (reference-site kinds, duplicate kinds and fault classes as listed in notes/C04-C05-C12-C20.md); constructs outside the patterns are not faulted",
		"LLVM 14 (llvm-as) arbitrates whether a faulted text is a fault"}
	rep.Finish()
}
