// Package c05 checks property C05 (not built yet).
package c05

import (
	"verif/harness/mbt"
	"verif/harness/props/reg"
)

func init() { reg.Register("C05", Run) }

// Run is the C05 check.
func Run(tier, replay string) { mbt.Infra("check C05 is not built yet") }
