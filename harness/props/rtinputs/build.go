package rtinputs

import (
	"fmt"
	"path/filepath"
	"time"

	"verif/harness/mbt"
	"verif/harness/props/corpus"
	"verif/harness/props/schema"
)

// BuildPrograms returns the construction programs of spec/Build.tla (coverage family: every
// instruction / terminator / constant-expression kind of Schema.tla per operand class, and random
// mixes) rendered to assembly text from the Schema templates -- i.e. without the library's printer --
// so that the parser and printer under test see them as inputs.
func BuildPrograms(rep *mbt.Report, tier string) []corpus.Input {
	t := mbt.MustTLC(mbt.TLCOpts{Spec: "SchemaEnum", Cfg: "SchemaEnum.cfg", Workers: 1, Consts: map[string]string{"WithCExprs": "TRUE"}})
	if len(t.Violated) > 0 {
		mbt.Infra("SchemaEnum: table inconsistency %v", t.Violated)
	}
	var tabs schema.Tables
	if err := mbt.ReadJSON(filepath.Join(t.Dir, "schema.json"), &tabs); err != nil {
		mbt.Infra("schema.json: %v", err)
	}
	t.Cleanup()
	progs := func(o mbt.TLCOpts) []schema.Prog {
		o.Spec, o.Workers, o.Timeout = "Build", 1, 20*time.Minute
		r := mbt.MustTLC(o)
		defer r.Cleanup()
		if len(r.Violated) > 0 {
			mbt.Infra("Build.tla (%s) violates %v", o.Cfg, r.Violated)
		}
		rep.AddTLC(r)
		ps, err := mbt.ReadNDJSON[schema.Prog](filepath.Join(r.Dir, "progs.ndjson"))
		if err != nil {
			mbt.Infra("progs.ndjson: %v", err)
		}
		return ps
	}
	nMix := 60
	if tier == "thorough" {
		nMix = 500
	}
	all := progs(mbt.TLCOpts{Cfg: "BuildCover.cfg"})
	all = append(all, progs(mbt.TLCOpts{Cfg: "BuildMix.cfg", Simulate: fmt.Sprintf("num=%d", nMix), Depth: 7})...)
	var out []corpus.Input
	seen := map[string]bool{}
	for i := range all {
		var text string
		if _, p := mbt.Guard(func() { text = schema.RenderProg(&tabs, &all[i]) }); p || text == "" || seen[text] {
			continue
		}
		seen[text] = true
		out = append(out, corpus.Input{Name: "Build.tla " + all[i].Fam + " " + all[i].ID, Origin: "tlc:Build/" + all[i].Fam, Text: text, Construct: "build:" + all[i].Fam})
	}
	return out
}
