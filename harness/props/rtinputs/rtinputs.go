// Package rtinputs assembles the inputs of the round-trip checks C01 and C02:
// the TLC-generated families (bound to the specs that generate them) and the
// supplementary corpora.
package rtinputs

import (
	"verif/harness/mbt"
	"verif/harness/props/corpus"
	"verif/harness/props/trcheck"
	"verif/harness/props/trsrc"
)

// Generated returns the module texts generated from TLC vectors.
func Generated(rep *mbt.Report, tier string) []corpus.Input {
	var out []corpus.Input
	permAll := 3
	if tier == "thorough" {
		permAll = 5
	}
	for _, v := range trcheck.Generate(rep, "perms", permAll) {
		if v.Want.St == "ok" {
			out = append(out, corpus.Input{Name: "Translate.tla pattern", Origin: "tlc:Translate", Text: trsrc.Render(v.Src)})
		}
	}
	out = append(out, Families(rep, tier)...)
	out = append(out, BuildPrograms(rep, tier)...)
	return out
}

// Corpora returns the supplementary inputs.
func Corpora(tier string) []corpus.Input {
	nStress, size := 40, 150
	clangOpts := []string{"-O0", "-O2", "-O1 -g"}
	if tier == "thorough" {
		nStress = 400
		clangOpts = []string{"-O0", "-O1", "-O2", "-O3", "-Os", "-O0 -g", "-O1 -g", "-O2 -g"}
	}
	ins := corpus.Testdata()
	st := corpus.Stress(nStress, size, mbt.Seed()*100003)
	ins = append(ins, st...)
	nOpt := len(st) / 4
	ins = append(ins, corpus.Opt(st[:nOpt], "-O1", "-mem2reg", "-instcombine")...)
	if tier == "thorough" {
		ins = append(ins, corpus.Stress(60, 600, mbt.Seed()*7+5000)...)
	}
	ins = append(ins, corpus.Clang(clangOpts...)...)
	ins = append(ins, corpus.EscapeModules(8)...)
	return ins
}
