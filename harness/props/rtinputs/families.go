package rtinputs

import (
	"verif/harness/mbt"
	"verif/harness/props/corpus"
	"verif/harness/props/modgen"
)

// Families returns the inputs generated from the feature-matrix specification Modules.tla.
func Families(rep *mbt.Report, tier string) []corpus.Input {
	var out []corpus.Input
	seen := map[string]bool{}
	for _, v := range modgen.Generate(rep, "*") {
		if v.Fam == "spell" {
			continue // C02 only (Spellings)
		}
		t := v.Text()
		if seen[t] {
			continue
		}
		seen[t] = true
		v := v
		in := corpus.Input{Name: v.Label(), Origin: "tlc:Modules/" + v.Fam, Text: t, Construct: v.Construct(), Unrepresentable: !v.Repr}
		if !v.DI && v.Fam != "gv" {
			in.Simpler = func() []corpus.Input {
				var ss []corpus.Input
				for _, w := range v.Singles() {
					ss = append(ss, corpus.Input{Name: w.Label(), Origin: "tlc:Modules/" + w.Fam, Text: w.Text(), Construct: w.Construct(), Unrepresentable: !w.Repr})
				}
				return ss
			}
		}
		out = append(out, in)
	}
	return out
}

// Spellings returns inputs in non-canonical spellings (C02 only: LLVM does not arbitrate all of them).
func Spellings(rep *mbt.Report, tier string) []corpus.Input {
	var out []corpus.Input
	for _, v := range modgen.Generate(rep, "spell") {
		out = append(out, corpus.Input{Name: v.Label(), Origin: "tlc:Modules/spell", Text: v.Text(), Construct: v.Construct()})
	}
	return out
}
