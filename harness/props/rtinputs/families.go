package rtinputs

import (
	"verif/harness/mbt"
	"verif/harness/props/corpus"
)

// Families returns the inputs generated from the feature-matrix specifications (Modules.tla).
func Families(rep *mbt.Report, tier string) []corpus.Input { return nil }

// Spellings returns inputs in non-canonical spellings (C02 only: LLVM does not arbitrate all of them).
func Spellings(rep *mbt.Report, tier string) []corpus.Input { return nil }
