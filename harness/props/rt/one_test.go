package rt

import (
	"fmt"
	"os"
	"testing"
)

func TestOne(t *testing.T) {
	b, _ := os.ReadFile(os.Getenv("ONE"))
	r := Run(string(b), true)
	fmt.Printf("valid=%v parseErr=%q parsePanic=%q printPanic=%q outValid=%v diag=%q same=%v fix=%v\n", r.InputValid, r.ParseErr, r.ParsePanic, r.PrintPanic, r.OutputValid, r.OutputDiag, r.SameMeaning, r.Fixpoint)
}
