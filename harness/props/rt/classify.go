package rt

import (
	"regexp"
	"sort"
	"strconv"
	"strings"
)

var (
	reTok     = regexp.MustCompile(`"(?:[^"\\]|\\.)*"|[^\s,()\[\]{}<>]+|[()\[\]{}<>]`)
	reNum     = regexp.MustCompile(`\d+`)
	reHexF64  = regexp.MustCompile(`^0x[0-9A-Fa-f]{16}$`)
	reHexOth  = regexp.MustCompile(`^0x([HKLMR])([0-9A-Fa-f]+)$`)
	reContext = regexp.MustCompile(`(!DI[A-Za-z]+|!GenericDINode|^\s*(?:%[^ ]+ = )?([a-z_]+))`)
)

func tokens(s string) []string { return reTok.FindAllString(s, -1) }

func multisetDiff(a, b []string) []string {
	count := map[string]int{}
	for _, t := range b {
		count[t]++
	}
	var out []string
	for _, t := range a {
		if count[t] > 0 {
			count[t]--
		} else {
			out = append(out, t)
		}
	}
	return out
}

// isNaNLiteral reports whether tok is a hexadecimal floating-point literal denoting a NaN.
func isNaNLiteral(tok string) bool {
	if reHexF64.MatchString(tok) {
		v, err := strconv.ParseUint(tok[2:], 16, 64)
		return err == nil && (v>>52)&0x7FF == 0x7FF && v&((1<<52)-1) != 0
	}
	if m := reHexOth.FindStringSubmatch(tok); m != nil {
		h := m[2]
		switch m[1] {
		case "H":
			v, err := strconv.ParseUint(h, 16, 16)
			return err == nil && (v>>10)&0x1F == 0x1F && v&0x3FF != 0
		case "K": // x86_fp80: 4 hex digits sign+exponent, 16 digits significand
			if len(h) != 20 {
				return false
			}
			se, _ := strconv.ParseUint(h[:4], 16, 16)
			sig, _ := strconv.ParseUint(h[4:], 16, 64)
			return se&0x7FFF == 0x7FFF && sig<<1 != 0
		case "L": // fp128: low 64 bits first? LLVM prints high word first for 0xL: (lo, hi) order -> check both
			if len(h) != 32 {
				return false
			}
			a, _ := strconv.ParseUint(h[:16], 16, 64)
			b, _ := strconv.ParseUint(h[16:], 16, 64)
			nan := func(hi, lo uint64) bool { return (hi>>48)&0x7FFF == 0x7FFF && (hi&((1<<48)-1) != 0 || lo != 0) }
			return nan(a, b) || nan(b, a)
		case "M":
			if len(h) != 32 {
				return false
			}
			a, _ := strconv.ParseUint(h[:16], 16, 64)
			return (a>>52)&0x7FF == 0x7FF && a&((1<<52)-1) != 0
		}
	}
	return false
}

// signOf returns the sign bit of a hexadecimal floating-point literal (first hex digit >= 8);
// for the 0xL form the sign is in the second word.
func signOf(tok string) bool {
	h := strings.TrimLeft(strings.TrimPrefix(tok, "0x"), "HKLMR")
	if strings.HasPrefix(tok, "0xL") && len(h) == 32 {
		h = h[16:]
	}
	return len(h) > 0 && strings.ContainsRune("89ABCDEFabcdef", rune(h[0]))
}

// ClassifyDiff turns the differing lines of two canonical forms into a stable
// class: which kind of construct differs and which tokens were lost / gained,
// numbers abstracted.
func ClassifyDiff(diff [][2]string) string {
	if len(diff) == 0 {
		return "no-line-differs"
	}
	classes := map[string]bool{}
	for _, d := range diff {
		ta, tb := tokens(d[0]), tokens(d[1])
		lost, gained := multisetDiff(ta, tb), multisetDiff(tb, ta)
		allNaN := len(lost) > 0 && len(lost) == len(gained)
		for i := range lost {
			if !allNaN {
				break
			}
			if !isNaNLiteral(lost[i]) || !isNaNLiteral(gained[i]) || signOf(lost[i]) != signOf(gained[i]) {
				allNaN = false
			}
		}
		if allNaN {
			classes["float-nan-payload-changed"] = true
			continue
		}
		ctx := ""
		src := d[0]
		if src == "" {
			src = d[1]
		}
		if m := reContext.FindStringSubmatch(src); m != nil {
			ctx = m[1]
			if m[2] != "" {
				ctx = m[2]
			}
		}
		norm := func(ts []string) string {
			seen := map[string]bool{}
			var out []string
			for _, t := range ts {
				t = reNum.ReplaceAllString(t, "N")
				if strings.HasPrefix(t, `"`) {
					t = `"…"`
				}
				if !seen[t] {
					seen[t] = true
					out = append(out, t)
				}
			}
			if len(out) > 4 {
				out = out[:4]
			}
			return strings.Join(out, " ")
		}
		kind := "altered"
		switch {
		case d[1] == "":
			kind = "line-lost"
		case d[0] == "":
			kind = "line-invented"
		case len(gained) == 0:
			kind = "dropped"
		case len(lost) == 0:
			kind = "invented"
		}
		classes[strings.TrimSpace(ctx)+" "+kind+" in{"+norm(lost)+"} out{"+norm(gained)+"}"] = true
	}
	var cs []string
	for c := range classes {
		cs = append(cs, c)
	}
	sort.Strings(cs)
	if len(cs) > 2 {
		cs = cs[:2]
	}
	return strings.Join(cs, " ; ")
}

// NormalizeMessage abstracts identifiers, numbers and quoted text in an error or panic message.
func NormalizeMessage(msg string) string {
	if i := strings.Index(msg, "\n"); i >= 0 {
		msg = msg[:i]
	}
	msg = regexp.MustCompile("`[^`]*`").ReplaceAllString(msg, "`…`")
	msg = regexp.MustCompile(`"[^"]*"`).ReplaceAllStringFunc(msg, func(q string) string {
		if len(q) <= 26 && regexp.MustCompile(`^"[A-Za-z_][A-Za-z_0-9]*"$`).MatchString(q) {
			return q // short keywords identify the construct
		}
		return `"…"`
	})
	msg = regexp.MustCompile(`[%@!#$][-a-zA-Z$._0-9]+`).ReplaceAllString(msg, "ID")
	msg = reNum.ReplaceAllString(msg, "N")
	if len(msg) > 160 {
		msg = msg[:160]
	}
	return msg
}
