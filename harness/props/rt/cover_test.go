package rt_test

import (
	"os"
	"testing"

	"verif/harness/llvmoracle"
	"verif/harness/mbt"
	"verif/harness/props/corpus"
	"verif/harness/props/rt"
	"verif/harness/props/rtinputs"
)

// TestCover runs the round-trip pipeline over every input of the chosen tier (development aid: run with
// -coverpkg=github.com/llir/llvm/... to see which library code the inputs reach). COVER_SET=gen|corp|all.
func TestCover(t *testing.T) {
	set := os.Getenv("COVER_SET")
	if set == "" {
		t.Skip("COVER_SET not set")
	}
	rep := mbt.NewReport("C01", "quick", "translation_validation")
	var ins []corpus.Input
	if set == "gen" || set == "all" {
		ins = append(ins, rtinputs.Generated(rep, "quick")...)
	}
	if set == "corp" || set == "all" {
		ins = append(ins, rtinputs.Corpora("quick")...)
	}
	llvmoracle.Parallel(len(ins), func(i int) { rt.Run(ins[i].Text, true) })
	t.Logf("%d inputs", len(ins))
}
