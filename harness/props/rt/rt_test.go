package rt

import (
	"fmt"
	"testing"

	"verif/harness/props/corpus"
)

// TestSurvey prints what the pipeline finds on the corpora (development aid).
func TestSurvey(t *testing.T) {
	ins := corpus.Testdata()
	st := corpus.Stress(20, 150, 1000)
	ins = append(ins, st...)
	ins = append(ins, corpus.Opt(st[:5], "-O1", "-mem2reg")...)
	ins = append(ins, corpus.Clang("-O0", "-O2", "-O1 -g")...)
	for _, in := range ins {
		r := Run(in.Text, true)
		status := "ok"
		switch {
		case !r.InputValid:
			status = "input-invalid: " + r.InputDiag
		case r.ParsePanic != "":
			status = "PARSE-PANIC " + r.ParsePanic
		case r.ParseErr != "":
			status = "PARSE-ERR " + r.ParseErr
		case r.PrintPanic != "":
			status = "PRINT-PANIC " + r.PrintPanic
		case !r.OutputValid:
			status = "OUTPUT-INVALID " + r.OutputDiag
		case !r.SameMeaning:
			status = fmt.Sprintf("MEANING-DIFFERS %q", r.DiffLines)
		case !r.Fixpoint || !r.DigestEqual:
			status = fmt.Sprintf("NOT-FIXPOINT fix=%v digest=%v %s %s", r.Fixpoint, r.DigestEqual, r.ReparseErr, r.ReparsePanic)
		}
		if len(status) > 700 {
			status = status[:700]
		}
		fmt.Printf("%-45s %s\n", in.Name, status)
	}
}
