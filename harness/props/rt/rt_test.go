package rt

import (
	"fmt"
	"os"
	"testing"

	"verif/harness/llvmoracle"
	"verif/harness/mbt"
	"verif/harness/props/modgen"
)

// TestSurvey prints what the pipeline finds on the Modules.tla families (development aid).
func TestSurvey(t *testing.T) {
	rep := mbt.NewReport("C01", "quick", "translation_validation")
	fams := []string{"*"}
	if f := os.Getenv("FAMS"); f != "" {
		fams = []string{f}
	}
	vs := modgen.Generate(rep, fams...)
	res := make([]*Result, len(vs))
	llvmoracle.Parallel(len(vs), func(i int) { res[i] = Run(vs[i].Text(), true) })
	counts := map[string]int{}
	for i, v := range vs {
		r := res[i]
		status := "ok"
		switch {
		case !r.InputValid:
			status = "input-invalid: " + r.InputDiag
		case r.ParsePanic != "":
			status = "PARSE-PANIC " + r.ParsePanic
		case r.ParseErr != "":
			status = "PARSE-ERR " + r.ParseErr
		case r.PrintPanic != "":
			status = "PRINT-PANIC " + r.PrintPanic
		case !r.OutputValid:
			status = "OUTPUT-INVALID " + r.OutputDiag
		case !r.SameMeaning:
			status = fmt.Sprintf("MEANING-DIFFERS %s %q", ClassifyDiff(r.DiffLines), r.DiffLines)
		case !r.Fixpoint || !r.DigestEqual:
			status = fmt.Sprintf("NOT-FIXPOINT fix=%v digest=%v %s %s", r.Fixpoint, r.DigestEqual, r.ReparseErr, r.ReparsePanic)
		}
		counts[v.Fam+" "+status[:min(len(status), 12)]]++
		if status != "ok" {
			if len(status) > 600 {
				status = status[:600]
			}
			fmt.Printf("%-60s %s\n", v.Label(), status)
		}
	}
	fmt.Println(counts)
}
