// Package rt is the round-trip pipeline shared by C01 and C02: parse a valid
// LLVM module with the real parser, print it, let LLVM read input and output,
// compare LLVM's canonical forms modulo metadata numbering, re-parse the
// output and compare text and structure.
package rt

import (
	"fmt"
	"regexp"
	"sort"
	"strings"

	"github.com/llir/llvm/ir"

	"verif/harness/llvmoracle"
	"verif/harness/props/irwalk"
	"verif/harness/props/trcheck"
)

// Result is the outcome of the pipeline on one input.
type Result struct {
	Text string

	InputValid bool // llvm-as accepts the input
	InputDiag  string

	ParseErr   string // error returned by the parser ("" if none)
	ParsePanic string
	Mod        *ir.Module

	PrintPanic string
	Printed    string

	OutputValid bool
	OutputDiag  string

	CanonIn, CanonOut string // LLVM's canonical forms, metadata renumbered
	SameMeaning       bool
	DiffLines         [][2]string // differing lines (in, out), a few

	// fixpoint (C02)
	ReparseErr    string
	ReparsePanic  string
	Printed2      string
	Fixpoint      bool
	DigestEqual   bool
	Reprint2Panic string
}

// Run executes the pipeline. needLLVM=false skips the LLVM comparison (C02 only needs the code).
func Run(text string, needLLVM bool) *Result {
	r := &Result{Text: text}
	var canonIn string
	if needLLVM {
		canonIn, r.InputValid, r.InputDiag = llvmoracle.Canon(text)
		if !r.InputValid {
			return r
		}
	}
	m, err, p := trcheck.ParseReal("input.ll", text)
	r.ParsePanic = p
	if err != nil {
		r.ParseErr = err.Error()
	}
	if m == nil {
		return r
	}
	r.Mod = m
	r.PrintPanic, _ = guard(func() { r.Printed = m.String() })
	if r.PrintPanic != "" {
		return r
	}
	if needLLVM {
		var canonOut string
		canonOut, r.OutputValid, r.OutputDiag = llvmoracle.Canon(r.Printed)
		if r.OutputValid {
			r.CanonIn, r.CanonOut = NormalizeMetadata(canonIn), NormalizeMetadata(canonOut)
			r.SameMeaning = r.CanonIn == r.CanonOut
			if !r.SameMeaning {
				r.DiffLines = diffLines(r.CanonIn, r.CanonOut, 12)
			}
		}
	}
	// fixpoint
	m2, err2, p2 := trcheck.ParseReal("printed.ll", r.Printed)
	r.ReparsePanic = p2
	if err2 != nil {
		r.ReparseErr = err2.Error()
	}
	if m2 != nil {
		r.Reprint2Panic, _ = guard(func() { r.Printed2 = m2.String() })
		if r.Reprint2Panic == "" {
			r.Fixpoint = r.Printed2 == r.Printed
			r.DigestEqual = irwalk.Digest(m) == irwalk.Digest(m2)
		}
	}
	return r
}

func guard(f func()) (msg string, panicked bool) {
	defer func() {
		if e := recover(); e != nil {
			msg = fmt.Sprint(e)
			panicked = true
		}
	}()
	f()
	return "", false
}

var (
	reMdRef  = regexp.MustCompile(`!(\d+)`)
	reMdDef  = regexp.MustCompile(`^!(\d+) = `)
	reNamed  = regexp.MustCompile(`^!([-a-zA-Z$._\\][-a-zA-Z$._0-9\\]*) = `)
	reAttrID = regexp.MustCompile(`#(\d+)`)
)

// NormalizeMetadata renumbers the metadata nodes of llvm-dis output in the
// order of a canonical traversal (body lines in order, then named metadata
// sorted by name, depth first through node references), sorts the named
// metadata by name, and renumbers attribute groups by first use, so that two
// modules that differ only in the order of named-metadata / attribute-group
// definitions or in metadata numbering have equal texts.
func NormalizeMetadata(text string) string {
	lines := strings.Split(text, "\n")
	defs := map[string]string{}
	var defOrder []string
	type named struct{ name, line string }
	var nameds []named
	var body []string
	var attrDefs []string
	for _, l := range lines {
		if m := reMdDef.FindStringSubmatch(l); m != nil {
			defs[m[1]] = l[len(m[0]):]
			defOrder = append(defOrder, m[1])
			continue
		}
		if m := reNamed.FindStringSubmatch(l); m != nil {
			nameds = append(nameds, named{m[1], l})
			continue
		}
		if strings.HasPrefix(l, "attributes #") {
			attrDefs = append(attrDefs, l)
			continue
		}
		body = append(body, l)
	}
	sort.SliceStable(nameds, func(i, j int) bool { return nameds[i].name < nameds[j].name })
	newID := map[string]int{}
	var order []string
	var visit func(id string)
	visit = func(id string) {
		if _, ok := newID[id]; ok {
			return
		}
		if _, ok := defs[id]; !ok {
			return
		}
		newID[id] = len(order)
		order = append(order, id)
		for _, m := range mdRefsOutsideStrings(defs[id]) {
			visit(m)
		}
	}
	for _, l := range body {
		for _, m := range mdRefsOutsideStrings(l) {
			visit(m)
		}
	}
	for _, n := range nameds {
		for _, m := range mdRefsOutsideStrings(n.line) {
			visit(m)
		}
	}
	for _, id := range defOrder {
		visit(id)
	}
	ren := func(s string) string { return replaceMdRefs(s, newID) }
	// attribute groups: renumber by first use in the body
	attrNew := map[string]int{}
	for _, l := range body {
		if strings.HasPrefix(l, ";") {
			continue
		}
		for _, m := range reAttrID.FindAllStringSubmatch(stripStrings(l), -1) {
			if _, ok := attrNew[m[1]]; !ok {
				attrNew[m[1]] = len(attrNew)
			}
		}
	}
	renAttr := func(s string) string {
		return replaceOutsideStrings(s, reAttrID, func(m []string) string {
			if n, ok := attrNew[m[1]]; ok {
				return fmt.Sprintf("#%d", n)
			}
			return m[0]
		})
	}
	var out []string
	for _, l := range body {
		if strings.HasPrefix(l, "; Function Attrs:") {
			continue // comment derived from the attribute group
		}
		out = append(out, renAttr(ren(l)))
	}
	sort.SliceStable(attrDefs, func(i, j int) bool {
		return attrKey(attrDefs[i], attrNew) < attrKey(attrDefs[j], attrNew)
	})
	for _, l := range attrDefs {
		out = append(out, renAttr(l))
	}
	for _, n := range nameds {
		out = append(out, ren(n.line))
	}
	for _, id := range order {
		out = append(out, fmt.Sprintf("!%d = %s", newID[id], ren(defs[id])))
	}
	return strings.Join(out, "\n")
}

func attrKey(l string, attrNew map[string]int) int {
	m := reAttrID.FindStringSubmatch(l)
	if m == nil {
		return 1 << 30
	}
	if n, ok := attrNew[m[1]]; ok {
		return n
	}
	return 1 << 29
}

// stripStrings blanks out the contents of double-quoted strings.
func stripStrings(s string) string {
	b := []byte(s)
	in := false
	for i := 0; i < len(b); i++ {
		if b[i] == '"' {
			in = !in
			continue
		}
		if in {
			b[i] = ' '
		}
	}
	return string(b)
}

func mdRefsOutsideStrings(s string) []string {
	var out []string
	for _, m := range reMdRef.FindAllStringSubmatch(stripStrings(s), -1) {
		out = append(out, m[1])
	}
	return out
}

func replaceOutsideStrings(s string, re *regexp.Regexp, f func(m []string) string) string {
	stripped := stripStrings(s)
	idx := re.FindAllStringSubmatchIndex(stripped, -1)
	if len(idx) == 0 {
		return s
	}
	var sb strings.Builder
	last := 0
	for _, ix := range idx {
		sb.WriteString(s[last:ix[0]])
		m := []string{stripped[ix[0]:ix[1]], stripped[ix[2]:ix[3]]}
		sb.WriteString(f(m))
		last = ix[1]
	}
	sb.WriteString(s[last:])
	return sb.String()
}

func replaceMdRefs(s string, newID map[string]int) string {
	return replaceOutsideStrings(s, reMdRef, func(m []string) string {
		if n, ok := newID[m[1]]; ok {
			return fmt.Sprintf("!%d", n)
		}
		return m[0]
	})
}

// diffLines returns up to max pairs of differing lines (multiset difference, order kept).
func diffLines(a, b string, max int) [][2]string {
	la, lb := strings.Split(a, "\n"), strings.Split(b, "\n")
	count := map[string]int{}
	for _, l := range lb {
		count[l]++
	}
	var onlyA []string
	for _, l := range la {
		if count[l] > 0 {
			count[l]--
		} else {
			onlyA = append(onlyA, l)
		}
	}
	count = map[string]int{}
	for _, l := range la {
		count[l]++
	}
	var onlyB []string
	for _, l := range lb {
		if count[l] > 0 {
			count[l]--
		} else {
			onlyB = append(onlyB, l)
		}
	}
	var out [][2]string
	n := len(onlyA)
	if len(onlyB) > n {
		n = len(onlyB)
	}
	for i := 0; i < n && i < max; i++ {
		var x, y string
		if i < len(onlyA) {
			x = onlyA[i]
		}
		if i < len(onlyB) {
			y = onlyB[i]
		}
		out = append(out, [2]string{x, y})
	}
	return out
}
