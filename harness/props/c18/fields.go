package c18

import (
	"fmt"
	"os"
	"path/filepath"
	"reflect"
	"regexp"
	"strconv"
	"strings"

	"github.com/llir/llvm/asm"
	"github.com/llir/llvm/ir"
	"github.com/llir/llvm/ir/metadata"

	"verif/harness/mbt"
)

// Field layer: every enum-typed FIELD of every specialised metadata node kind,
// with every defined value of its family and with the zero value, in both
// places a node can stand -- as a numbered definition (`!0 = !DIx(field: kw)`)
// and inline as an operand (`!0 = !{!DIx(field: kw)}`).  The two places are
// translated by different code of the parser (a numbered node is created before
// its body is read, an inline one while it is read), and a printer may omit a
// field whose value it takes for the default.  Law (Enum!FieldRoundTrip): the
// value read back from print -> asm.ParseString equals the value set, whether or
// not the field was printed; Enum!PlaceAgnostic: both places read alike.
// The fields are found by reflection (type declared in ir/enum), the node kinds
// are listed here and compared with the struct types of the source at run time
// (a kind missing here is a specification gap, exit 2).

func nodeKinds() []metadata.Definition {
	return []metadata.Definition{
		&metadata.DIBasicType{}, &metadata.DICommonBlock{}, &metadata.DICompileUnit{}, &metadata.DICompositeType{},
		&metadata.DIDerivedType{}, &metadata.DIEnumerator{}, &metadata.DIExpression{}, &metadata.DIFile{},
		&metadata.DIGlobalVariable{}, &metadata.DIGlobalVariableExpression{}, &metadata.DIImportedEntity{}, &metadata.DILabel{},
		&metadata.DILexicalBlock{}, &metadata.DILexicalBlockFile{}, &metadata.DILocalVariable{}, &metadata.DILocation{},
		&metadata.DIMacro{}, &metadata.DIMacroFile{}, &metadata.DIModule{}, &metadata.DINamespace{}, &metadata.DIObjCProperty{},
		&metadata.DIStringType{}, &metadata.DISubprogram{}, &metadata.DISubrange{}, &metadata.DISubroutineType{},
		&metadata.DITemplateTypeParameter{}, &metadata.DITemplateValueParameter{}, &metadata.GenericDINode{},
	}
}

var reNodeStruct = regexp.MustCompile(`(?m)^type (\w+) struct`)

type enumField struct {
	node  reflect.Type // struct type
	field int
	fam   string
}

func (f enumField) site() string { return f.node.Name() + "." + f.node.Field(f.field).Name }

// enumFields lists the (node kind, field) pairs whose type is declared in ir/enum.
func enumFields() []enumField {
	src, err := os.ReadFile(filepath.Join(mbt.Repo, "ir", "metadata", "specialized_metadata.go"))
	if err != nil {
		mbt.Infra("field layer: %v", err)
	}
	listed := map[string]bool{}
	var out []enumField
	for _, n := range nodeKinds() {
		t := reflect.TypeOf(n).Elem()
		listed[t.Name()] = true
		for i := 0; i < t.NumField(); i++ {
			ft := t.Field(i).Type
			if strings.HasSuffix(ft.PkgPath(), "/ir/enum") && t.Field(i).IsExported() {
				switch ft.Kind() {
				case reflect.Int, reflect.Int8, reflect.Int16, reflect.Int32, reflect.Int64,
					reflect.Uint, reflect.Uint8, reflect.Uint16, reflect.Uint32, reflect.Uint64:
					out = append(out, enumField{t, i, ft.Name()})
				}
			}
		}
	}
	var gaps []string
	for _, m := range reNodeStruct.FindAllStringSubmatch(string(src), -1) {
		if !listed[m[1]] {
			gaps = append(gaps, m[1])
		}
	}
	if len(gaps) > 0 {
		mbt.Infra("specification gap: node kinds %v of ir/metadata/specialized_metadata.go are not listed in harness/props/c18/fields.go", gaps)
	}
	return out
}

func setEnum(v reflect.Value, x uint64) {
	if v.Kind() >= reflect.Uint && v.Kind() <= reflect.Uint64 {
		v.SetUint(x)
	} else {
		v.SetInt(int64(x))
	}
}

func getEnum(v reflect.Value) uint64 {
	if v.Kind() >= reflect.Uint && v.Kind() <= reflect.Uint64 {
		return v.Uint()
	}
	return uint64(v.Int())
}

// fieldTrip builds the node with field f = x (the other enum-typed fields: zero, or with fill their
// first defined value), puts it at the place, prints, parses and reads the field back.
func fieldTrip(f enumField, x uint64, place string, fill map[int]uint64) (text, node string, back uint64, err error) {
	nv := reflect.New(f.node)
	nv.Elem().FieldByName("MetadataID").SetInt(-1)
	for i, d := range fill {
		if i != f.field {
			setEnum(nv.Elem().Field(i), d)
		}
	}
	setEnum(nv.Elem().Field(f.field), x)
	// operands the printers write unconditionally: null, an inline file
	null := reflect.ValueOf(&metadata.NullLit{})
	fileType := reflect.TypeOf(&metadata.DIFile{})
	for i := 0; i < f.node.NumField(); i++ {
		fv := nv.Elem().Field(i)
		if !f.node.Field(i).IsExported() {
			continue
		}
		switch {
		case fv.Kind() == reflect.Interface && fv.IsNil() && null.Type().Implements(fv.Type()):
			fv.Set(null)
		case fv.Type() == fileType && f.node != fileType.Elem():
			fv.Set(reflect.ValueOf(&metadata.DIFile{MetadataID: -1, Filename: "a.c", Directory: "/"}))
		}
	}
	m := ir.NewModule()
	var top metadata.Definition
	if place == "numbered" {
		top = nv.Interface().(metadata.Definition)
	} else {
		fld, ok := nv.Interface().(metadata.Field)
		if !ok {
			return "", "", 0, fmt.Errorf("%s is not a metadata.Field", f.node.Name())
		}
		top = &metadata.Tuple{MetadataID: -1, Fields: []metadata.Field{fld}}
	}
	m.MetadataDefs = append(m.MetadataDefs, top)
	m.NamedMetadataDefs["n"] = &metadata.NamedDef{Name: "n", Nodes: []metadata.Node{top.(metadata.Node)}}
	if msg, p := mbt.Guard(func() {
		text = m.String()
		node = nv.Interface().(interface{ LLString() string }).LLString()
	}); p {
		return text, node, 0, fmt.Errorf("printer panics: %s", mbt.Truncate(msg, 160))
	}
	var m2 *ir.Module
	var perr error
	if msg, p := mbt.Guard(func() { m2, perr = asm.ParseString("field.ll", text) }); p {
		return text, node, 0, fmt.Errorf("parser panics: %s", mbt.Truncate(msg, 160))
	}
	if perr != nil {
		return text, node, 0, fmt.Errorf("parser rejects the printed module: %s", mbt.Truncate(perr.Error(), 160))
	}
	if len(m2.MetadataDefs) != 1 {
		return text, node, 0, fmt.Errorf("%d metadata definitions after parsing", len(m2.MetadataDefs))
	}
	var got interface{} = m2.MetadataDefs[0]
	if place == "inline" {
		t, ok := got.(*metadata.Tuple)
		if !ok || len(t.Fields) != 1 {
			return text, node, 0, fmt.Errorf("parsed definition is %T", got)
		}
		got = t.Fields[0]
	}
	gv := reflect.ValueOf(got)
	if gv.Kind() != reflect.Ptr || gv.Elem().Type() != f.node {
		return text, node, 0, fmt.Errorf("parsed node is %T", got)
	}
	return text, node, getEnum(gv.Elem().Field(f.field)), nil
}

type fieldRec struct {
	f     enumField
	c     konst
	place string
	row   *row
	text  string
	err   error
}

var places = []string{"numbered", "inline"}

// fieldRows records the field layer; rows come in (numbered, inline) pairs, Mate is set by the caller.
// flagSets: for the bit-flag families, the sets Enum.tla generated (every field of such a family takes
// them as well -- the flag layer prints them through one node kind per family only); quick: every
// third set per field, rotating with the field, thorough: all.
func fieldRows(rep *mbt.Report, tier string, found map[string]*enumType, flagSets map[string][]uint64, wanted func(layer, fam string, v uint64, site string) bool) []*fieldRec {
	fields := enumFields()
	nsets := 0
	var recs []*fieldRec
	skipped := map[string]int{}
	perField := map[string]int{}
	var unreadable []string
	for _, f := range fields {
		e := found[f.fam]
		if e == nil {
			mbt.Infra("field layer: %s has type enum.%s, which has no typed constants in the source", f.site(), f.fam)
		}
		// the other enum-typed fields of the node: zero first; if no value at all can be read back that
		// way (a printer that always prints a field whose zero has no keyword), their first defined value
		vals := e.values()
		fillFirst := map[int]uint64{}
		for _, g := range fields {
			if g.node == f.node && g.field != f.field {
				gv := found[g.fam].values()
				fillFirst[g.field] = gv[0].Val
				if gv[0].Val == 0 && len(gv) > 1 {
					fillFirst[g.field] = gv[1].Val
				}
			}
		}
		var fill map[int]uint64
		readable := func(fl map[int]uint64) bool {
			for _, c := range vals {
				if _, _, _, err := fieldTrip(f, c.Val, "numbered", fl); err == nil {
					return true
				}
			}
			return false
		}
		if !readable(nil) {
			fill = fillFirst
			if !readable(fill) {
				// no value of the field can be read back in a node of this harness: not evaluated
				unreadable = append(unreadable, f.site())
				continue
			}
		}
		zeroDefined := false
		for _, c := range vals {
			zeroDefined = zeroDefined || c.Val == 0
		}
		if !zeroDefined {
			vals = append([]konst{{Name: f.fam + "(0)", Val: 0}}, vals...)
		}
		_, zeroNode, _, _ := fieldTrip(f, 0, "numbered", fill)
		defined := map[uint64]bool{0: true}
		for _, c := range vals {
			defined[c.Val] = true
		}
		for k, v := range flagSets[f.fam] {
			if defined[v] || (tier == "quick" && (k+f.field+len(f.node.Name()))%3 != 0) {
				continue
			}
			vals = append(vals, konst{Name: memberNames(e, v), Val: v})
			nsets++
		}
		for _, c := range vals {
			if !wanted("field", f.fam, c.Val, f.site()) {
				continue
			}
			var pair []*fieldRec
			for _, place := range places {
				text, node, back, err := fieldTrip(f, c.Val, place, fill)
				r := &row{Kind: "field", Fam: f.fam, Name: c.Name, V: strconv.FormatUint(c.Val, 10), Node: f.node.Name(), Field: f.node.Field(f.field).Name,
					Place: place, Printed: node, OK: err == nil, Back: strconv.FormatUint(back, 10), Omitted: c.Val != 0 && node == zeroNode,
					Bits: []int{}, Toks: []tok{}, PBack: []int{}, val: c.Val}
				pair = append(pair, &fieldRec{f: f, c: c, place: place, row: r, text: text, err: err})
			}
			// the zero of a family that has no constant 0 is not a defined value: it must only not
			// be judged when it has no spelling at all (both places fail alike)
			if !zeroDefined && c.Val == 0 && pair[0].err != nil && pair[1].err != nil {
				skipped[f.site()]++
				continue
			}
			recs = append(recs, pair...)
			perField[f.site()] += 2
			rep.Count("field|"+f.site()+"|"+strconv.FormatUint(c.Val, 10), true)
		}
	}
	rep.Extra["field_layer_fields"] = len(fields)
	rep.Extra["field_layer_flag_sets_in_fields"] = nsets
	rep.Extra["field_layer_fields_not_evaluated_no_value_readable"] = unreadable
	rep.Extra["field_layer_rows_per_field"] = perField
	rep.Extra["field_layer_undefined_zero_without_spelling"] = skipped
	return recs
}
