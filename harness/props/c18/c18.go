// Package c18 checks property C18 (not built yet).
package c18

import (
	"verif/harness/mbt"
	"verif/harness/props/reg"
)

func init() { reg.Register("C18", Run) }

// Run is the C18 check.
func Run(tier, replay string) { mbt.Infra("check C18 is not built yet") }
