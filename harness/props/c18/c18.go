// Package c18 checks property C18 (under construction).
package c18

import (
	"fmt"
	"path/filepath"
	"sort"

	"verif/harness/mbt"
	"verif/harness/props/reg"
)

func init() { reg.Register("C18", Run) }

// Run is the C18 check.
func Run(tier, replay string) {
	et, notes := loadEnumTypes(filepath.Join(mbt.Repo, "ir", "enum"), "enum")
	tt, notes2 := loadEnumTypes(filepath.Join(mbt.Repo, "ir", "types"), "types")
	var names []string
	total := 0
	for n, e := range et {
		names = append(names, n)
		total += len(e.Consts)
	}
	sort.Strings(names)
	fmt.Println(len(names), total, names)
	for n, e := range tt {
		fmt.Println("types:", n, len(e.Consts))
	}
	fmt.Println(notes, notes2)
	mbt.Infra("probe")
}
