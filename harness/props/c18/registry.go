package c18

import (
	asmenum "github.com/llir/llvm/asm/enum"
	"github.com/llir/llvm/ir/enum"
	"github.com/llir/llvm/ir/types"
)

// family binds an enumerated type (found by name in the source at run time)
// to its real printer and its real parser.  The registry is the only
// compile-time knowledge about the enumerated types: a type found in the
// source but missing here is a specification gap (exit 2), never a violation.
type family struct {
	Pkg, Name string
	Str       func(v uint64) string // the real String method
	From      func(s string) uint64 // the real asm/enum.XxxFromString (may panic)
}

type enumerated interface {
	~uint8 | ~uint16 | ~uint64 | ~int64
	String() string
}

func fam[T enumerated](pkg, name string, from func(string) T) *family {
	return &family{Pkg: pkg, Name: name,
		Str:  func(v uint64) string { return T(v).String() },
		From: func(s string) uint64 { return uint64(from(s)) }}
}

var registry = []*family{
	fam("enum", "AllocKind", asmenum.AllocKindFromString),
	fam("enum", "AtomicOp", asmenum.AtomicOpFromString),
	fam("enum", "AtomicOrdering", asmenum.AtomicOrderingFromString),
	fam("enum", "CallingConv", asmenum.CallingConvFromString),
	fam("enum", "ChecksumKind", asmenum.ChecksumKindFromString),
	fam("enum", "ClauseType", asmenum.ClauseTypeFromString),
	fam("enum", "DIFlag", asmenum.DIFlagFromString),
	fam("enum", "DISPFlag", asmenum.DISPFlagFromString),
	fam("enum", "DLLStorageClass", asmenum.DLLStorageClassFromString),
	fam("enum", "DwarfAttEncoding", asmenum.DwarfAttEncodingFromString),
	fam("enum", "DwarfCC", asmenum.DwarfCCFromString),
	fam("enum", "DwarfLang", asmenum.DwarfLangFromString),
	fam("enum", "DwarfMacinfo", asmenum.DwarfMacinfoFromString),
	fam("enum", "DwarfOp", asmenum.DwarfOpFromString),
	fam("enum", "DwarfTag", asmenum.DwarfTagFromString),
	fam("enum", "DwarfVirtuality", asmenum.DwarfVirtualityFromString),
	fam("enum", "EmissionKind", asmenum.EmissionKindFromString),
	fam("enum", "FastMathFlag", asmenum.FastMathFlagFromString),
	fam("enum", "FPred", asmenum.FPredFromString),
	fam("enum", "FuncAttr", asmenum.FuncAttrFromString),
	fam("enum", "IPred", asmenum.IPredFromString),
	fam("enum", "Linkage", asmenum.LinkageFromString),
	fam("enum", "NameTableKind", asmenum.NameTableKindFromString),
	fam("enum", "OverflowFlag", asmenum.OverflowFlagFromString),
	fam("enum", "ParamAttr", asmenum.ParamAttrFromString),
	fam("enum", "Preemption", asmenum.PreemptionFromString),
	fam("enum", "ReturnAttr", asmenum.ReturnAttrFromString),
	fam("enum", "SanitizerKind", asmenum.SanitizerKindFromString),
	fam("enum", "SelectionKind", asmenum.SelectionKindFromString),
	fam("enum", "Tail", asmenum.TailFromString),
	fam("enum", "TLSModel", asmenum.TLSModelFromString),
	fam("enum", "UnnamedAddr", asmenum.UnnamedAddrFromString),
	fam("enum", "UnwindTableKind", asmenum.UnwindTableKindFromString),
	fam("enum", "Visibility", asmenum.VisibilityFromString),
	fam("types", "FloatKind", asmenum.FloatKindFromString),
}

var _ = enum.LinkageNone
var _ = types.FloatKindHalf
