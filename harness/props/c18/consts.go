package c18

import (
	"fmt"
	"go/ast"
	"go/build"
	"go/constant"
	"go/importer"
	"go/parser"
	"go/token"
	"go/types"
	"os"
	"path/filepath"
	"sort"
	"strings"

	"verif/harness/mbt"
)

// konst is one typed constant of an enumerated type, found in the source of
// the working tree at run time.
type konst struct {
	Name string
	Val  uint64
}

// enumType is a named integer type with its typed constants.
type enumType struct {
	Pkg    string // "enum" or "types"
	Name   string
	Consts []konst // in source order
}

// values returns the distinct values in increasing order, each with the name
// of the first constant that has it.
func (e *enumType) values() []konst {
	seen := map[uint64]bool{}
	var out []konst
	for _, c := range e.Consts {
		if !seen[c.Val] {
			seen[c.Val] = true
			out = append(out, c)
		}
	}
	sort.Slice(out, func(i, j int) bool { return out[i].Val < out[j].Val })
	return out
}

func (e *enumType) constNamed(suffix string) (uint64, bool) {
	for _, c := range e.Consts {
		if c.Name == e.Name+suffix {
			return c.Val, true
		}
	}
	return 0, false
}

// loadEnumTypes type-checks the package in dir (files of the default build
// only) and returns every named integer type that has typed constants, plus
// notes about untyped constants that sit in a block of typed ones.
func loadEnumTypes(dir, pkgLabel string) (map[string]*enumType, []string) {
	fset := token.NewFileSet()
	ents, err := os.ReadDir(dir)
	if err != nil {
		mbt.Infra("read %s: %v", dir, err)
	}
	var files []*ast.File
	for _, e := range ents {
		n := e.Name()
		if e.IsDir() || !strings.HasSuffix(n, ".go") || strings.HasSuffix(n, "_test.go") {
			continue
		}
		if ok, err := build.Default.MatchFile(dir, n); err != nil || !ok {
			continue
		}
		f, err := parser.ParseFile(fset, filepath.Join(dir, n), nil, parser.ParseComments)
		if err != nil {
			mbt.Infra("parse %s: %v", n, err)
		}
		files = append(files, f)
	}
	if len(files) == 0 {
		mbt.Infra("no Go files in %s", dir)
	}
	// Imports that cannot be resolved offline only invalidate the declarations that use them;
	// the integer constants are still evaluated.
	conf := types.Config{Importer: importer.ForCompiler(fset, "source", nil), Error: func(error) {}}
	info := &types.Info{Defs: map[*ast.Ident]types.Object{}}
	pkg, _ := conf.Check(files[0].Name.Name, fset, files, info)
	if pkg == nil {
		mbt.Infra("type-check of %s produced no package", dir)
	}
	out := map[string]*enumType{}
	var notes []string
	// source order: walk the const declarations
	for _, f := range files {
		for _, d := range f.Decls {
			gd, ok := d.(*ast.GenDecl)
			if !ok || gd.Tok != token.CONST {
				continue
			}
			blockType := ""
			var untyped []string
			for _, sp := range gd.Specs {
				vs := sp.(*ast.ValueSpec)
				for _, id := range vs.Names {
					obj, _ := info.Defs[id].(*types.Const)
					if obj == nil || id.Name == "_" {
						continue
					}
					named, isNamed := obj.Type().(*types.Named)
					if !isNamed || named.Obj().Pkg() != pkg {
						if b, ok := obj.Type().(*types.Basic); ok && b.Info()&types.IsUntyped != 0 {
							untyped = append(untyped, id.Name)
						}
						continue
					}
					basic, ok := named.Underlying().(*types.Basic)
					if !ok || basic.Info()&types.IsInteger == 0 {
						continue
					}
					tn := named.Obj().Name()
					blockType = tn
					var v uint64
					if u, exact := constant.Uint64Val(obj.Val()); exact {
						v = u
					} else if i, exact := constant.Int64Val(obj.Val()); exact {
						v = uint64(i)
						notes = append(notes, fmt.Sprintf("%s.%s has a negative value %d", pkgLabel, id.Name, i))
					} else {
						mbt.Infra("constant %s.%s = %v is not an integer", pkgLabel, id.Name, obj.Val())
					}
					et := out[tn]
					if et == nil {
						et = &enumType{Pkg: pkgLabel, Name: tn}
						out[tn] = et
					}
					et.Consts = append(et.Consts, konst{Name: id.Name, Val: v})
				}
			}
			for _, u := range untyped {
				if blockType != "" && strings.HasPrefix(u, blockType) {
					notes = append(notes, fmt.Sprintf("%s.%s is declared among the %s constants without a type (untyped constant): it is not a value of the type and has no keyword of its own", pkgLabel, u, blockType))
				}
			}
		}
	}
	return out, notes
}
