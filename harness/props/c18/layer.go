package c18

import (
	"fmt"
	"sort"
	"strconv"
	"strings"
	"time"

	"github.com/llir/llvm/asm"
	"github.com/llir/llvm/ir"

	"verif/harness/llvmoracle"
	"verif/harness/mbt"
)

// outcome of one (site, value) or one text input.
type modCase struct {
	site    *site
	fam     string
	siteNm  string
	v       uint64
	name    string // constant name or input text
	input   string // text given to LLVM and to the parser
	shape   string
	discard string // LLVM's diagnostic if every shape was rejected
	fail    *mbt.Failure
	kw      string
	// LLVM's parser accepted the module, its verifier did not
	unverified bool
	// LLVM 14 and the library's parser both reject what the library printed (diagnostic of the latter)
	bothReject string
}

// roundTrip: text1 (accepted by LLVM, canon1) -> parser -> printer -> LLVM.
func roundTrip(c *modCase, canon1 string, extract func(m *ir.Module) (uint64, error), keyword string) {
	sig := func(class string) string { return "C18|" + c.siteNm + "|" + class + "|" + keyword }
	cs := replayCase{Layer: "module", Fam: c.fam, V: c.v, Site: c.siteNm, Text: c.input}
	var m2 *ir.Module
	var err error
	if msg, p := mbt.Guard(func() { m2, err = asm.ParseString("kw.ll", c.input) }); p {
		c.fail = &mbt.Failure{Signature: sig("parser panics on a module LLVM accepts"), What: fmt.Sprintf("%s %s: %s\n%s", c.siteNm, c.name, mbt.Truncate(msg, 200), c.input), Case: cs}
		return
	}
	if err != nil {
		c.fail = &mbt.Failure{Signature: sig("parser rejects a module LLVM accepts"), What: fmt.Sprintf("%s %s: %v\n%s", c.siteNm, c.name, mbt.Truncate(err.Error(), 200), c.input), Case: cs}
		return
	}
	if extract != nil {
		v2, err := extract(m2)
		if ot, isOther := err.(otherType); isOther && v2 == c.v {
			// "the parser maps [the keyword] back to the same value": the value that comes back is of
			// another type (the meaning is kept: it prints the same keyword) -- a finding of its own class
			c.fail = &mbt.Failure{Signature: sig("keyword parses back to a value of another type"), What: fmt.Sprintf("%s %s (%d) is printed and parsed back as a %s, not as the enumerated value (it prints the same keyword again)\n%s", c.siteNm, c.name, c.v, ot.typ, c.input), Case: cs}
			err = nil
		}
		if err != nil {
			c.fail = &mbt.Failure{Signature: sig("keyword lost by the parser"), What: fmt.Sprintf("%s %s: %v\n%s", c.siteNm, c.name, err, c.input), Case: cs}
			return
		}
		if v2 != c.v {
			c.fail = &mbt.Failure{Signature: sig("keyword parses back to a different value"), What: fmt.Sprintf("%s %s (%d): the parsed module holds the value %d\n%s", c.siteNm, c.name, c.v, v2, c.input), Case: cs}
			return
		}
		if c.fail != nil {
			return
		}
	}
	var text2 string
	if msg, p := mbt.Guard(func() { text2 = m2.String() }); p {
		c.fail = &mbt.Failure{Signature: sig("printer panics on the parsed module"), What: fmt.Sprintf("%s %s: %s\n%s", c.siteNm, c.name, mbt.Truncate(msg, 200), c.input), Case: cs}
		return
	}
	if text2 == c.input {
		return
	}
	canon2, ok, diag, _ := canon(text2)
	if !ok {
		c.fail = &mbt.Failure{Signature: sig("LLVM rejects the printed module"), What: fmt.Sprintf("%s %s: %s\ninput:\n%s\noutput:\n%s", c.siteNm, c.name, mbt.Truncate(diag, 200), c.input, text2), Case: cs}
		return
	}
	if canon1 != canon2 {
		c.fail = &mbt.Failure{Signature: sig("LLVM reads the printed module differently"), What: fmt.Sprintf("%s %s:\ninput:\n%s\noutput:\n%s\nllvm-dis of input:\n%s\nllvm-dis of output:\n%s", c.siteNm, c.name, c.input, text2, canon1, canon2), Case: cs}
	}
}

// libraryRoundTrip: text (printed by the library, rejected by LLVM 14) -> parser -> same value.
func libraryRoundTrip(c *modCase, text string, sh *shape) {
	sig := func(class string) string { return "C18|" + c.siteNm + "|" + class + "|" + c.name }
	cs := replayCase{Layer: "module", Fam: c.fam, V: c.v, Site: c.siteNm, Text: text}
	var m2 *ir.Module
	var err error
	if msg, p := mbt.Guard(func() { m2, err = asm.ParseString("kw.ll", text) }); p {
		c.fail = &mbt.Failure{Signature: sig("parser panics on the library's own output (LLVM 14 rejects it too)"), What: fmt.Sprintf("%s %s: %s\n%s", c.siteNm, c.name, mbt.Truncate(msg, 200), text), Case: cs}
		return
	}
	if err != nil {
		// the library's parser rejects it as LLVM does: the caller decides (all shapes)
		c.bothReject = mbt.Truncate(err.Error(), 160)
		return
	}
	c.bothReject = ""
	v2, err := sh.Extract(m2)
	if err != nil {
		c.fail = &mbt.Failure{Signature: sig("keyword lost by the parser on the library's own output (LLVM 14 rejects it too)"), What: fmt.Sprintf("%s %s: %v; llvm-as: %s\n%s", c.siteNm, c.name, err, c.discard, text), Case: cs}
		return
	}
	if v2 != c.v {
		c.fail = &mbt.Failure{Signature: sig("printed keyword parses back to a different value (LLVM 14 rejects it too)"), What: fmt.Sprintf("%s %s (%d): the library reads its own output back as the value %d; llvm-as: %s\n%s", c.siteNm, c.name, c.v, v2, c.discard, text), Case: cs}
	}
}

// canon is llvmoracle.Canon; a module that LLVM's parser accepts but its verifier rejects (a lone
// DW_OP_lit1 is "invalid expression", musttail wants matching prototypes) is assembled again with the
// verifier off: the question here is whether LLVM knows the keyword and reads it back the same.
func canon(text string) (out string, ok bool, diag string, unverified bool) {
	out, ok, diag = llvmoracle.Canon(text)
	if ok || !strings.Contains(diag, "does not verify as correct") {
		return out, ok, diag, false
	}
	bc, se, code, err := mbt.Tool([]byte(text), 60*time.Second, "llvm-as", "-disable-verify", "-o", "-", "-")
	if err != nil {
		mbt.Infra("llvm-as: %v", err)
	}
	if code != 0 {
		return "", false, strings.TrimSpace(string(se)), false
	}
	so, se, code, err := mbt.Tool(bc, 60*time.Second, "llvm-dis", "-o", "-", "-")
	if err != nil || code != 0 {
		return "", false, "llvm-dis: " + strings.TrimSpace(string(se)), false
	}
	var keep []string
	for _, l := range strings.Split(string(so), "\n") {
		if strings.HasPrefix(l, "; ModuleID") || strings.HasPrefix(l, "source_filename") {
			continue
		}
		keep = append(keep, l)
	}
	return strings.TrimSpace(strings.Join(keep, "\n")) + "\n", true, "", true
}

func firstLine(s string) string {
	if i := strings.IndexByte(s, '\n'); i >= 0 {
		return s[:i]
	}
	return s
}

// moduleLayer puts every defined value into its grammatical positions.
func moduleLayer(rep *mbt.Report, tier string, found, tfound map[string]*enumType, wanted func(layer, fam string, v uint64, site string) bool, only []replayCase) {
	llvmoracle.Require()
	all := sites()
	var cases []*modCase
	for i := range all {
		s := &all[i]
		e := found[s.Fam]
		if e == nil {
			e = tfound[s.Fam]
		}
		if e == nil {
			mbt.Infra("site %s: family %s not found in the source", s.Name, s.Fam)
		}
		for _, c := range e.values() {
			if wanted("module", s.Fam, c.Val, s.Name) {
				cases = append(cases, &modCase{site: s, fam: s.Fam, siteNm: s.Name, v: c.Val, name: c.Name})
			}
		}
	}
	// numeric calling conventions: `cc N` for every small N and the largest LLVM 14 accepts
	var ccs []uint64
	for n := uint64(0); n <= 110; n++ {
		ccs = append(ccs, n)
	}
	ccs = append(ccs, 255, 511, 1023)
	for _, n := range ccs {
		if wanted("cc", "CallingConv", n, "func.callingconv(cc N)") {
			cases = append(cases, &modCase{fam: "CallingConv", siteNm: "func.callingconv(cc N)", v: n, name: fmt.Sprintf("cc %d", n),
				input: fmt.Sprintf("declare cc %d void @f()\n", n)})
		}
	}
	// spellings that are in no keyword table and go through the hand-written special cases of the
	// printers: the default TLS model, plain uwtable, numeric forms of the DWARF enumerations and flags
	for _, t := range []struct{ name, text string }{
		{"thread_local (default model)", "@g = thread_local global i32 0\n"},
		{"uwtable (default kind)", "declare void @f() uwtable\n"},
		{"DIFlag numeric", "!n = !{!0}\n!0 = !DIBasicType(name: \"t\", flags: 64)\n"},
		{"DIFlag numeric accessibility", "!n = !{!0}\n!0 = !DIBasicType(name: \"t\", flags: 3)\n"},
		{"DISPFlag numeric", "!n = !{!0}\n!0 = !DISubprogram(name: \"f\", spFlags: 4)\n"},
		{"DwarfTag numeric, known", "!n = !{!0}\n!0 = !GenericDINode(tag: 17)\n"},
		{"DwarfTag numeric, unknown", "!n = !{!0}\n!0 = !GenericDINode(tag: 65000)\n"},
		{"DwarfAttEncoding numeric", "!n = !{!0}\n!0 = !DIBasicType(name: \"t\", size: 32, encoding: 5)\n"},
		{"DwarfCC numeric", "!n = !{!0}\n!0 = !DISubroutineType(cc: 1, types: !1)\n!1 = !{}\n"},
	} {
		if wanted("text", "", 0, t.name) {
			cases = append(cases, &modCase{fam: "", siteNm: "text:" + t.name, name: t.name, input: t.text})
		}
	}
	llvmoracle.Parallel(len(cases), func(i int) {
		c := cases[i]
		if c.site == nil { // text input
			canon1, ok, diag, _ := canon(c.input)
			if !ok {
				c.discard = firstLine(diag)
				return
			}
			c.shape = "text"
			roundTrip(c, canon1, nil, c.name)
			if c.fail != nil && c.fam == "" {
				c.fail.Case = replayCase{Layer: "text", Site: c.name, Text: c.input}
			}
			if c.fail != nil && c.fam == "CallingConv" && strings.HasSuffix(c.fail.Signature, "|LLVM reads the printed module differently|"+c.name) {
				c.fail.Signature = "C18|callingconv|cc N -> keyword of different convention|" + c.name
				c.fail.Case = replayCase{Layer: "cc", Fam: "CallingConv", V: c.v, Site: c.siteNm, Text: c.input}
			}
			return
		}
		var rejected []int // shapes LLVM 14 rejects
		var rejectedText []string
		for si := range c.site.Shapes {
			sh := c.site.Shapes[si]
			var text string
			if msg, p := mbt.Guard(func() { text = sh.Build(c.v).String() }); p {
				c.fail = &mbt.Failure{Signature: "C18|" + c.siteNm + "|printer panics|" + c.name, What: fmt.Sprintf("%s %s (%s): %s", c.siteNm, c.name, sh.Name, mbt.Truncate(msg, 200)),
					Case: replayCase{Layer: "module", Fam: c.fam, V: c.v, Site: c.siteNm}}
				return
			}
			canon1, ok, diag, unv := canon(text)
			if ok && unv {
				c.unverified = true
			}
			if !ok {
				if c.discard == "" {
					c.discard = firstLine(diag)
				}
				rejected = append(rejected, si)
				rejectedText = append(rejectedText, text)
				continue
			}
			c.discard = ""
			c.input, c.shape = text, sh.Name
			roundTrip(c, canon1, sh.Extract, c.name)
			return
		}
		// LLVM 14 rejects the value in every shape (a keyword of a later LLVM, or one that is not
		// allowed in this position): LLVM cannot arbitrate, but the property's own law still applies to
		// what the library printed -- if its parser accepts the text it must read the same value back.
		// (Otherwise a printer that writes a wrong keyword LLVM happens to reject would go unnoticed.)
		// If the library's parser rejects every shape as LLVM does, the defined value has no spelling in this
		// position at all: a violation unless it is the family's zero value named ...None (the marker of an
		// absent keyword, e.g. ordering `none` on a non-atomic access), which is never printed in valid IR.
		for k, si := range rejected {
			libraryRoundTrip(c, rejectedText[k], &c.site.Shapes[si])
			if c.fail != nil || c.bothReject == "" {
				break
			}
		}
		if c.fail == nil && c.bothReject != "" && !(c.v == 0 && strings.HasSuffix(c.name, "None")) {
			c.fail = &mbt.Failure{Signature: "C18|" + c.siteNm + "|printed keyword is rejected by the library's parser and by LLVM 14 in every shape|" + c.name,
				What: fmt.Sprintf("%s %s (%d): the library prints\n%sllvm-as: %s; asm.ParseString: %s", c.siteNm, c.name, c.v, rejectedText[0], c.discard, c.bothReject),
				Case: replayCase{Layer: "module", Fam: c.fam, V: c.v, Site: c.siteNm, Text: rejectedText[0]}}
		}
	})
	accepted, discarded := map[string]int{}, map[string][]string{}
	unverified := 0
	famExercised := map[string]map[uint64]bool{}
	for _, c := range cases {
		key := "module|" + c.siteNm + "|" + strconv.FormatUint(c.v, 10)
		if c.discard != "" && c.fail == nil {
			discarded[c.siteNm] = append(discarded[c.siteNm], c.name)
			continue
		}
		rep.Count(key, true)
		rep.Programs++
		accepted[c.siteNm]++
		if c.unverified {
			unverified++
		}
		if c.fam != "" {
			if famExercised[c.fam] == nil {
				famExercised[c.fam] = map[uint64]bool{}
			}
			famExercised[c.fam][c.v] = true
		}
		if c.fail != nil {
			rep.Fail(*c.fail)
		}
	}
	nd := 0
	disc := map[string]interface{}{}
	for s, names := range discarded {
		sort.Strings(names)
		nd += len(names)
		disc[s] = map[string]interface{}{"count": len(names), "keywords": names}
	}
	rep.Extra["module_layer_accepted_by_llvm14_per_site"] = accepted
	rep.Extra["module_layer_discarded_llvm14_rejects"] = disc
	rep.Extra["module_layer_discarded_total"] = nd
	rep.Extra["module_layer_accepted_with_verifier_off"] = unverified
	ex := map[string]int{}
	for f, vs := range famExercised {
		ex[f] = len(vs)
	}
	rep.Extra["module_layer_values_exercised_per_family"] = ex
	rep.Programs = 0 // level model_checking: programs is not an evidence key of this check
	for _, c := range cases {
		if c.fail == nil && c.discard == "" && (c.name == "LinkageWeakODR" || c.name == "cc 8") {
			rep.Sample(map[string]interface{}{"kind": "module", "site": c.siteNm, "value": c.name, "shape": c.shape, "module": c.input})
		}
	}
}
