package c18

import (
	"fmt"
	"math/bits"
	"regexp"
	"sort"
	"strconv"
	"strings"

	"github.com/llir/llvm/asm"
	"github.com/llir/llvm/ir"
	"github.com/llir/llvm/ir/enum"
	"github.com/llir/llvm/ir/metadata"

	"verif/harness/mbt"
)

// row is one line of enum_table.ndjson (see spec/Enum.tla); which fields are
// meaningful depends on Kind.
type row struct {
	Kind string `json:"kind"` // kw | member | set | field
	Fam  string `json:"fam"`
	// kw, member
	V    string `json:"v"`
	Name string `json:"name"`
	// kw
	Printed string `json:"printed"`
	OK      bool   `json:"ok"`
	Back    string `json:"back"`
	// member, set
	Bits []int `json:"bits"`
	// set
	Absent bool  `json:"absent"`
	Toks   []tok `json:"toks"`
	POK    bool  `json:"pok"`
	PBack  []int `json:"pback"`
	// field (uses v, name, printed = the node as printed, ok, back as well)
	Node    string `json:"node"`
	Field   string `json:"field"`
	Place   string `json:"place"`   // numbered | inline
	Omitted bool   `json:"omitted"` // the node prints as it does with the zero value
	Mate    int    `json:"mate"`    // table index (from 1) of the row of the other place

	panicMsg string
	perr     string
	val      uint64
}

type tok struct {
	T    string `json:"t"`
	OK   bool   `json:"ok"`
	Bits []int  `json:"bits"`
}

func bitsOf(v uint64) []int {
	out := []int{}
	for v != 0 {
		b := bits.TrailingZeros64(v)
		out = append(out, b)
		v &^= 1 << uint(b)
	}
	return out
}

func fromBits(bs []int) uint64 {
	var v uint64
	for _, b := range bs {
		v |= 1 << uint(b)
	}
	return v
}

// kwRow records String and FromString of one defined value.
func kwRow(f *family, c konst) *row {
	r := &row{Kind: "kw", Fam: f.Name, V: strconv.FormatUint(c.Val, 10), Name: c.Name, Bits: []int{}, Toks: []tok{}, PBack: []int{}, val: c.Val}
	if msg, p := mbt.Guard(func() { r.Printed = f.Str(c.Val) }); p {
		r.panicMsg = "String panics: " + msg
		return r
	}
	var back uint64
	if msg, p := mbt.Guard(func() { back = f.From(r.Printed) }); p {
		r.panicMsg = msg
		return r
	}
	r.OK, r.Back = true, strconv.FormatUint(back, 10)
	return r
}

// flagFam is a bit-flag family with its real hand-written printer (reached
// through the exported object that uses it) and the real parser.
type flagFam struct {
	Name  string
	Sep   string
	Print func(v uint64) (printed string, absent bool)
	Parse func(printed string) (uint64, error)
}

var reDIFlags = regexp.MustCompile(`^!DIBasicType\((?:flags: (.*))?\)$`)
var reSPFlags = regexp.MustCompile(`^!DISubprogram\(name: "f", isDefinition: false(?:, spFlags: (.*))?\)$`)
var reAllocKind = regexp.MustCompile(`^allockind\("(.*)"\)$`)

func parseMD(src string) (metadata.Definition, error) {
	var m *ir.Module
	var err error
	if msg, p := mbt.Guard(func() { m, err = asm.ParseString("flags.ll", src) }); p {
		return nil, fmt.Errorf("parser panics: %s", msg)
	}
	if err != nil {
		return nil, err
	}
	if len(m.MetadataDefs) != 1 {
		return nil, fmt.Errorf("%d metadata definitions", len(m.MetadataDefs))
	}
	return m.MetadataDefs[0], nil
}

var flagFams = []*flagFam{
	{Name: "DIFlag", Sep: "|",
		Print: func(v uint64) (string, bool) {
			s := (&metadata.DIBasicType{MetadataID: -1, Flags: enum.DIFlag(v)}).LLString()
			m := reDIFlags.FindStringSubmatch(s)
			if m == nil {
				mbt.Infra("DIBasicType prints %q: the harness cannot find the flags field", s)
			}
			return m[1], !strings.Contains(s, "flags:")
		},
		Parse: func(p string) (uint64, error) {
			d, err := parseMD("!0 = !DIBasicType(flags: " + p + ")\n")
			if err != nil {
				return 0, err
			}
			bt, ok := d.(*metadata.DIBasicType)
			if !ok {
				return 0, fmt.Errorf("parsed as %T", d)
			}
			return uint64(bt.Flags), nil
		}},
	{Name: "DISPFlag", Sep: "|",
		Print: func(v uint64) (string, bool) {
			s := (&metadata.DISubprogram{MetadataID: -1, Name: "f", SPFlags: enum.DISPFlag(v)}).LLString()
			m := reSPFlags.FindStringSubmatch(s)
			if m == nil {
				mbt.Infra("DISubprogram prints %q: the harness cannot find the spFlags field", s)
			}
			return m[1], !strings.Contains(s, "spFlags:")
		},
		Parse: func(p string) (uint64, error) {
			d, err := parseMD("!0 = !DISubprogram(name: \"f\", spFlags: " + p + ")\n")
			if err != nil {
				return 0, err
			}
			sp, ok := d.(*metadata.DISubprogram)
			if !ok {
				return 0, fmt.Errorf("parsed as %T", d)
			}
			return uint64(sp.SPFlags), nil
		}},
	{Name: "AllocKind", Sep: ",",
		Print: func(v uint64) (string, bool) {
			s := ir.AllocKind{Kind: enum.AllocKind(v)}.String()
			m := reAllocKind.FindStringSubmatch(s)
			if m == nil {
				mbt.Infra("AllocKind prints %q: the harness cannot find the kinds", s)
			}
			return m[1], false
		},
		Parse: func(p string) (uint64, error) {
			var m *ir.Module
			var err error
			if msg, pn := mbt.Guard(func() { m, err = asm.ParseString("flags.ll", "declare void @f() allockind(\""+p+"\")\n") }); pn {
				return 0, fmt.Errorf("parser panics: %s", msg)
			}
			if err != nil {
				return 0, err
			}
			for _, a := range m.Funcs[0].FuncAttrs {
				if ak, ok := a.(*ir.AllocKind); ok {
					return uint64(ak.Kind), nil
				}
				if ak, ok := a.(ir.AllocKind); ok {
					return uint64(ak.Kind), nil
				}
			}
			return 0, fmt.Errorf("no allockind attribute in the parsed function")
		}},
}

// setRow prints one flag set with the real printer, parses every token with
// the real FromString and the whole with the real parser.
func setRow(ff *flagFam, f *family, v uint64) *row {
	r := &row{Kind: "set", Fam: ff.Name, Bits: bitsOf(v), Toks: []tok{}, PBack: []int{}, val: v}
	if msg, p := mbt.Guard(func() { r.Printed, r.Absent = ff.Print(v) }); p {
		r.panicMsg = "printer panics: " + msg
		return r
	}
	if r.Absent {
		return r
	}
	if r.Printed != "" {
		for _, t := range strings.Split(r.Printed, ff.Sep) {
			t = strings.TrimSpace(t)
			k := tok{T: t, Bits: []int{}}
			var tv uint64
			if _, p := mbt.Guard(func() { tv = f.From(t) }); !p {
				k.OK, k.Bits = true, bitsOf(tv)
			}
			r.Toks = append(r.Toks, k)
		}
	}
	back, err := ff.Parse(r.Printed)
	if err != nil {
		r.perr = err.Error()
	} else {
		r.POK, r.PBack = true, bitsOf(back)
	}
	return r
}

// memberNames renders a bit set by the names of the single-bit constants (for messages and signatures).
func memberNames(e *enumType, v uint64) string {
	var names []string
	rest := v
	for _, c := range e.values() {
		if c.Val != 0 && bits.OnesCount64(c.Val) == 1 && v&c.Val != 0 {
			names = append(names, c.Name)
			rest &^= c.Val
		}
	}
	for _, b := range bitsOf(rest) {
		names = append(names, fmt.Sprintf("bit%d", b))
	}
	sort.Strings(names)
	if len(names) == 0 {
		return "(empty)"
	}
	return strings.Join(names, "+")
}
